#!/usr/bin/env python3
"""Validate evidence/<id>.json for every check in MANIFEST.json: JSON schema (/root/.vp/EVIDENCE.schema.json
when present), property id / level agree with the manifest, a proof-level record has discharged == obligations,
no violations recorded, counts are measured (distinct_nontrivial <= evaluations, samples non-empty).
Exit 1 when any file is missing or invalid.  Run before committing evidence."""
import json, os, sys
ROOT = os.path.dirname(os.path.dirname(os.path.abspath(__file__)))
man = json.load(open(os.path.join(ROOT, 'MANIFEST.json')))
schema = None
sp = '/root/.vp/EVIDENCE.schema.json'
if os.path.exists(sp):
    try:
        import jsonschema
        schema = json.load(open(sp))
    except ImportError:
        print('note: jsonschema not importable; structural checks only')
bad = 0
for c in man['checks']:
    pid = c['property_id']
    path = os.path.join(ROOT, c['evidence_file'])
    errs = []
    try:
        ev = json.load(open(path))
    except Exception as e:
        print(f'{pid}: INVALID {e}'); bad += 1; continue
    if schema is not None:
        errs += [e.message[:200] for e in jsonschema.Draft202012Validator(schema).iter_errors(ev)]
    cov = ev.get('coverage', {})
    if ev.get('property_id') != pid: errs.append('property_id mismatch')
    if ev.get('level') != c['level_claimed']['category']: errs.append(f"level {ev.get('level')} != claimed {c['level_claimed']['category']}")
    if ev.get('level') == 'proof' and cov.get('obligations') != cov.get('discharged'):
        errs.append(f"discharged {cov.get('discharged')} != obligations {cov.get('obligations')}")
    if ev.get('violations'): errs.append(f"violations={ev['violations']}")
    if not cov.get('samples'): errs.append('no samples')
    if cov.get('distinct_nontrivial', 0) > cov.get('evaluations', 0): errs.append('distinct > evaluations')
    if cov.get('distinct_nontrivial', 0) < 2: errs.append('distinct_nontrivial < 2')
    if not cov.get('checker_cmd', '').strip(): errs.append('no checker_cmd')
    print(f"{pid}: {'ok' if not errs else 'INVALID ' + '; '.join(errs)}  tier={ev.get('tier')} seed={ev.get('seed')} "
          f"obligations={cov.get('discharged')}/{cov.get('obligations')} cases={cov.get('evaluations')} distinct={cov.get('distinct_nontrivial')}")
    bad += bool(errs)
sys.exit(1 if bad else 0)
