#!/venv/bin/python
"""mk_anchors.py: (re)write anchors/anchors.json — for every property, the functions / methods / module constants its
`anchors.mechanism` entries in properties.jsonl point at (located by their line ranges in the PINNED tree 4a9e878, then
followed by qualified name), each with a digest of its CURRENT body in /repo.

Every check recomputes these digests from the tree it runs against (harness/common.py `anchor_obligations`): an edit inside
an anchored function that the hand-written mirror was made from re-opens the obligation `anchor:<file>:<qualname>` — the
mirror is no longer known to describe the code — and the check goes on to search for a failing input as usual.

Run after every `fix:` commit in /repo (the repaired body becomes the recorded one)."""
import ast, hashlib, json, os, re, subprocess, sys

ROOT = os.path.dirname(os.path.dirname(os.path.abspath(__file__)))
REPO = '/repo'
BASE = '4a9e878'


def strip_doc(node):
    if isinstance(node, (ast.FunctionDef, ast.AsyncFunctionDef, ast.ClassDef, ast.Module)) and node.body and isinstance(node.body[0], ast.Expr) \
            and isinstance(getattr(node.body[0], 'value', None), ast.Constant) and isinstance(node.body[0].value.value, str):
        node.body = node.body[1:] or [ast.Pass()]
    for ch in ast.iter_child_nodes(node):
        strip_doc(ch)
    return node


def digest(node):
    node = strip_doc(ast.parse(ast.unparse(node)))          # fresh copy, comments / layout gone
    return hashlib.sha1(ast.dump(node, annotate_fields=False, include_attributes=False).encode()).hexdigest()[:16]


def items(tree):
    """(qualname, node) for functions, methods and module- / class-level assignments"""
    out = []

    def walk(body, prefix):
        for n in body:
            if isinstance(n, (ast.FunctionDef, ast.AsyncFunctionDef)):
                out.append((prefix + n.name, n))
            elif isinstance(n, ast.ClassDef):
                out.append((prefix + n.name + '.<class-header>', ast.ClassDef(name=n.name, bases=n.bases, keywords=n.keywords, body=[ast.Pass()], decorator_list=n.decorator_list)))
                walk(n.body, prefix + n.name + '.')
            elif isinstance(n, (ast.Assign, ast.AnnAssign)):
                tg = n.targets[0] if isinstance(n, ast.Assign) else n.target
                if isinstance(tg, ast.Name):
                    out.append((prefix + tg.id, n))
    walk(tree.body, '')
    return out


def span(n):
    return getattr(n, 'lineno', 0), getattr(n, 'end_lineno', 0)


def located(path, ranges):
    """qualnames of the innermost items of the pinned file intersecting the line ranges"""
    src = subprocess.run(['git', '-C', REPO, 'show', f'{BASE}:{path}'], capture_output=True, text=True).stdout
    if not src:
        return []
    tree = ast.parse(src)
    cls_spans = {n.name: span(n) for n in ast.walk(tree) if isinstance(n, ast.ClassDef)}
    names = []
    for q, n in items(tree):
        if q.endswith('.<class-header>'):
            a, _ = cls_spans[q.split('.')[-2]]
            b = a       # the `class X(Base, prim=…)` line only
        else:
            a, b = span(n)
        if any(a <= hi and b >= lo for lo, hi in ranges):
            names.append(q)
    return names


def current(path):
    p = os.path.join(REPO, path)
    return dict((q, digest(n)) for q, n in items(ast.parse(open(p).read()))) if os.path.exists(p) else {}


def main():
    out = {}
    for line in open(os.path.join(ROOT, 'properties.jsonl')):
        r = json.loads(line)
        entries, seen = [], set()
        for m in r['anchors'].get('mechanism', []):
            for part in re.findall(r'(src/[\w/\.]+\.py):([\d\-, ]+)', m.get('where', '')):
                path = part[0]
                ranges = []
                for rg in part[1].replace(' ', '').split(','):
                    if not rg:
                        continue
                    lo, _, hi = rg.partition('-')
                    ranges.append((int(lo), int(hi or lo)))
                cur = current(path)
                for q in located(path, ranges):
                    if (path, q) in seen:
                        continue
                    seen.add((path, q))
                    if q in cur:
                        entries.append({'file': path, 'name': q, 'digest': cur[q], 'mechanism': m.get('name', '')[:80]})
                    else:
                        print(f"{r['id']}: {path}:{q} (anchored in the pinned tree) no longer exists in /repo — not recorded", file=sys.stderr)
        out[r['id']] = entries
    os.makedirs(os.path.join(ROOT, 'anchors'), exist_ok=True)
    head = subprocess.run(['git', '-C', REPO, 'rev-parse', '--short', 'HEAD'], capture_output=True, text=True).stdout.strip()
    json.dump({'repo_head': head, 'pinned': BASE, 'anchors': out}, open(os.path.join(ROOT, 'anchors', 'anchors.json'), 'w'), indent=1)
    print('anchors:', {k: len(v) for k, v in out.items()})


if __name__ == '__main__':
    main()
