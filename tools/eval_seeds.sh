#!/bin/sh
# eval_seeds.sh <name...>: evaluate seeded changes one after another (never two at once: they share Generated/ and the lake lock)
cd "$(dirname "$0")/.." || exit 2
mkdir -p .work/sweeps
for n in "$@"; do
  tools/eval_seed.py $n > .work/sweeps/seed-$n.txt 2>&1
  echo "$n confirmed=$(jq -r .confirmed seeded/$n/meta.json) caught=$(jq -r .caught seeded/$n/meta.json) wall=$(jq -r .check_with_change.wall_s seeded/$n/meta.json)"
done
