#!/venv/bin/python
"""mk_seed.py <Cxx> [tag]: create an isolated scratch worktree /tmp/seed/<Cxx><tag> of /repo's HEAD and write the task
file SEED_TASK.md into it.  The task file contains only the text of the property (nothing from /verif) and the rules
a seeded change has to satisfy.  Prints the prompt to hand to the sub-agent."""
import json, os, subprocess, sys

prop = sys.argv[1]
tag = sys.argv[2] if len(sys.argv) > 2 else ''
hint = sys.argv[3] if len(sys.argv) > 3 else ''
name = prop + tag
wt = f'/tmp/seed/{name}'
rec = None
for line in open('/verif/properties.jsonl'):
    r = json.loads(line)
    if r['id'] == prop:
        rec = r
assert rec, prop
os.makedirs('/tmp/seed', exist_ok=True)
if not os.path.exists(wt):
    subprocess.check_call(['git', '-C', '/repo', 'worktree', 'add', '-q', '--detach', wt, 'HEAD'])
os.makedirs(f'{wt}/seed_out', exist_ok=True)
anchors = rec['anchors']
mech = '\n'.join(f"  - {m.get('name')} — {m.get('where')}" for m in anchors.get('mechanism', []))
task = f"""# Task: seed one realistic defect that breaks a given semantic property

You are working in `{wt}`, a scratch git worktree of the Python package baking-bad/pytezos (Tezos SDK).  Work ONLY
inside this directory.  Never read or write `/verif`, `/repo`, or any other `/tmp/seed/*` directory — the point of the
exercise is that your change is independent of any existing verification machinery.  No network is available.

## The property

**{rec['title']}**

{rec['statement']}

Quantified over: {rec['quantifier']['text']}

Why the existing tests cannot settle it: {rec['why_tests_cant']}

Code the property is anchored in: {', '.join(anchors.get('files', []))}
{mech}

## What to produce

A change to the package's source (under `src/pytezos/`, never under `tests/`) that

1. **breaks the property above** — there is a concrete input / history / sequence of calls on which the observable
   behaviour now contradicts the property's statement;
2. **still compiles (imports) and passes the existing test suite exactly as before** — the set of passing tests must
   not shrink.  Suite command (takes ~40 s; many network/docker tests fail or error on the unchanged tree too — that
   is expected, compare before/after):
   `cd {wt} && PYTHONPATH={wt}/src /venv/bin/python -m pytest -q -p no:cacheprovider --timeout=900 --continue-on-collection-errors 2>&1 | tail -3`
   IMPORTANT: `/venv` has an editable install of ANOTHER checkout; always set `PYTHONPATH={wt}/src` so that your
   worktree is what gets imported (verify once with `python -c "import pytezos; print(pytezos.__file__)"`).
3. **needs something specific to manifest** — a particular multi-step sequence of operations, an unusual but legal
   input shape, a boundary value, a particular interleaving or fault position, or two cooperating sites that each look
   fine alone.  NOT something ordinary use would expose at once (e.g. not "ADD always returns 0").  It should look
   like a plausible regression: a refactor, an "optimisation", an off-by-one, a wrong default, a dropped case, a
   swapped argument, an over-eager cache, a narrowed/widened condition.
4. is small (typically 1–15 changed lines, one or two sites).
{('5. ' + hint) if hint else ''}

## Deliverables (write them into `{wt}/seed_out/`)

* `patch.diff` — output of `git -C {wt} diff -- src` (the change, and nothing else).
* `demo.py` — a small self-contained program (run as `PYTHONPATH={wt}/src /venv/bin/python seed_out/demo.py`) that
  exits 0 on the unchanged tree and exits non-zero (printing what deviates from the property) with your change applied.
  It must judge behaviour against the *property statement* (an independent expectation you compute or hard-code from
  the Tezos/Michelson specification), not against the previous pytezos output.
* `notes.md` — what you changed, which sentence of the property it breaks, and a section titled
  "What is needed for it to manifest" that states the trigger precisely; also why the existing tests do not notice;
  and the commands you ran with their outcomes (suite before/after: numbers of passed/failed must be identical; demo
  before/after).

Leave the change APPLIED in the worktree when you finish.  Do not commit.  Verify everything yourself before
reporting: run the suite on the unchanged tree (`git diff -- src > seed_out/patch.diff; git apply -R seed_out/patch.diff`, later
`git apply seed_out/patch.diff` — NEVER `git stash`: the stash is shared between all worktrees of this repository and other
people work in sibling worktrees), then with the change, and compare the
lists of passing tests, not only the counts, if you can.  Your final message: a 5-line summary (files changed, trigger,
demo outcome both ways, suite outcome both ways).
"""
open(f'{wt}/SEED_TASK.md', 'w').write(task)
print(f'Read {wt}/SEED_TASK.md and carry out the task it describes, working only inside {wt}.')
