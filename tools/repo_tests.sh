#!/bin/sh
# runs the repository's pinned suite (guard off) and prints the pass/fail counts; baseline: 1081 passed / 32 failed
cd "${1:-/repo}" && env -u PYTEZOS_VERIF /venv/bin/python -m pytest -q -p no:cacheprovider --timeout=900 --continue-on-collection-errors -x -q 2>&1 | tail -3
