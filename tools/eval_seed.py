#!/venv/bin/python
"""eval_seed.py <Cxx> [--keep]: confirm a seeded change produced by an isolated sub-agent in /tmp/seed/<Cxx>
(suite unchanged, demo passes without / fails with the change), run the property's quick check against the
changed tree, archive everything under /verif/seeded/<Cxx>/ and remove the scratch worktree."""
import json, os, shutil, subprocess, sys, time

name = sys.argv[1]            # Cxx or Cxx<tag> (second and later rounds: C01b, C01c ...)
prop = name[:3]
wt = f'/tmp/seed/{name}'
out = f'{wt}/seed_out'
dst = f'/verif/seeded/{name}'
tier = 'thorough' if '--thorough' in sys.argv else 'quick'
env = dict(os.environ, PYTHONPATH=f'{wt}/src')


def sh(cmd, **kw):
    p = subprocess.run(cmd, shell=isinstance(cmd, str), capture_output=True, text=True, **kw)
    return p.returncode, (p.stdout + p.stderr)

patch = open(f'{out}/patch.diff').read()
rc, cur = sh(['git', '-C', wt, 'diff', '--', 'src'])
meta = {'property': prop, 'base_commit': sh(['git', '-C', wt, 'rev-parse', '--short', 'HEAD'])[1].strip(), 'ran': []}
if cur.strip() != patch.strip():
    # make the worktree hold exactly the archived patch
    sh(['git', '-C', wt, 'checkout', '--', 'src'])
    rc, o = sh(['git', '-C', wt, 'apply', f'{out}/patch.diff'])
    assert rc == 0, 'patch does not apply: ' + o
# demo with the change
rc_mod, o_mod = sh(['/venv/bin/python', f'{out}/demo.py'], env=env, cwd=out)
# suite with the change
rc_t, o_t = sh(['/verif/tools/repo_tests.py', wt])
meta['suite_with_change'] = o_t.strip().split('\n')[0]
# check against the changed tree
t0 = time.time()
rc_c, o_c = sh(['./check', prop, tier], cwd='/verif', env=dict(os.environ, VERIF_REPO=wt))
meta['check_with_change'] = {'exit': rc_c, 'wall_s': round(time.time() - t0, 1),
                             'lines': [l for l in o_c.split('\n') if l.startswith('VIOLATION') or 'failing input' in l or 'broken obligation' in l or l.startswith(prop)][:8]}
replay = None
for l in o_c.split('\n'):
    if l.startswith('VIOLATION') and 'replay=' in l:
        replay = l.split('replay=')[1].split()[0]
if replay and os.path.exists(f'/verif/{replay}'):
    os.makedirs(dst, exist_ok=True)
    shutil.copy(f'/verif/{replay}', f'{dst}/replay.json')
# demo without the change
sh(['git', '-C', wt, 'apply', '-R', f'{out}/patch.diff'])
rc_un, o_un = sh(['/venv/bin/python', f'{out}/demo.py'], env=env, cwd=out)
sh(['git', '-C', wt, 'apply', f'{out}/patch.diff'])
meta['demo'] = {'unmodified_exit': rc_un, 'modified_exit': rc_mod, 'modified_tail': o_mod.strip().split('\n')[-3:]}
meta['confirmed'] = (rc_un == 0 and rc_mod != 0 and rc_t == 0)
meta['caught'] = (rc_c == 1)
notes = open(f'{out}/notes.md').read() if os.path.exists(f'{out}/notes.md') else ''
meta['needs_to_manifest'] = ''
for para in notes.split('\n\n'):
    if 'manifest' in para.lower() or 'trigger' in para.lower() or 'needed' in para.lower():
        meta['needs_to_manifest'] = para.strip()[:900]
        break
meta['ran'] = [f'PYTHONPATH=<wt>/src python demo.py (both ways)', f'tools/repo_tests.py <wt>', f'VERIF_REPO=<wt> ./check {prop} {tier}']
os.makedirs(dst, exist_ok=True)
for fn in ('patch.diff', 'demo.py', 'notes.md'):
    if os.path.exists(f'{out}/{fn}'):
        shutil.copy(f'{out}/{fn}', f'{dst}/{fn}')
json.dump(meta, open(f'{dst}/meta.json', 'w'), indent=1)
print(json.dumps(meta, indent=1)[:2500])
if '--keep' not in sys.argv and meta['confirmed']:
    sh(['git', '-C', '/repo', 'worktree', 'remove', '--force', wt])
