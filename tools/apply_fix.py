#!/venv/bin/python
"""apply_fix.py <slug> [key]: apply /verif/fixes/<slug>.diff to /repo, run the pinned suite, commit as the `fix:` line of
<slug>.msg, and append a `fixed` entry to known_findings.jsonl.  Aborts (and reverts) if the suite loses a baseline test."""
import json, os, subprocess, sys
slug = sys.argv[1]
key = sys.argv[2] if len(sys.argv) > 2 else slug
d = f'/verif/fixes/{slug}.diff'
msg = open(f'/verif/fixes/{slug}.msg').read().strip().split('\n') if os.path.exists(f'/verif/fixes/{slug}.msg') else [f'fix: {slug}']
assert msg[0].startswith('fix:'), msg[0]
if subprocess.run(['git', '-C', '/repo', 'status', '--porcelain'], capture_output=True, text=True).stdout.strip():
    sys.exit('repo not clean')
r = subprocess.run(['git', '-C', '/repo', 'apply', '--3way', d], capture_output=True, text=True)
if r.returncode != 0:
    r2 = subprocess.run(['git', '-C', '/repo', 'apply', d], capture_output=True, text=True)
    if r2.returncode != 0:
        subprocess.run(['git', '-C', '/repo', 'checkout', '--', '.'])
        sys.exit('does not apply: ' + r.stderr + r2.stderr)
t = subprocess.run(['/verif/tools/repo_tests.py'], capture_output=True, text=True)
print(t.stdout.strip())
if t.returncode != 0:
    subprocess.run(['git', '-C', '/repo', 'reset', '-q', '--hard'])
    sys.exit('suite regression; reverted')
subprocess.run(['git', '-C', '/repo', 'add', '-A'], check=True)
subprocess.run(['git', '-C', '/repo', 'commit', '-q', '-m', msg[0]], check=True)
h = subprocess.run(['git', '-C', '/repo', 'rev-parse', '--short', 'HEAD'], capture_output=True, text=True).stdout.strip()
prop = slug.split('-')[0]
what = f'fixed: property={prop} {h} ' + (' '.join(msg[1:]).strip() or msg[0][4:].strip())
with open('/verif/known_findings.jsonl', 'a') as f:
    f.write(json.dumps({'property': prop, 'status': 'fixed', 'commit': h, 'key': key, 'what': what}) + '\n')
print('committed', h, msg[0])
# the repaired bodies become the recorded anchors
subprocess.run(['/verif/tools/mk_anchors.py'])
