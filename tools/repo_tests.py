#!/venv/bin/python
"""Runs the repository's pinned suite with the guard OFF and compares with /root/.vp/BASELINE.json:
every baseline stable-pass test must still pass.  usage: repo_tests.py [repo_dir]"""
import json, os, subprocess, sys, tempfile
import xml.etree.ElementTree as ET

repo = sys.argv[1] if len(sys.argv) > 1 else '/repo'
base = json.load(open('/root/.vp/BASELINE.json'))
want = set(base['stable_pass'])
out = tempfile.mktemp(suffix='.xml', dir=None)
env = {k: v for k, v in os.environ.items() if k != 'PYTEZOS_VERIF'}
env['PYTHONPATH'] = os.path.join(os.path.abspath(repo), 'src')
subprocess.run(['/venv/bin/python', '-m', 'pytest', '-q', '-p', 'no:cacheprovider', '--timeout=900',
                '--continue-on-collection-errors', f'--junitxml={out}'], cwd=repo, env=env,
               stdout=subprocess.DEVNULL, stderr=subprocess.DEVNULL)
passed = set()
for tc in ET.parse(out).getroot().iter('testcase'):
    if not any(c.tag in ('failure', 'error', 'skipped') for c in tc):
        passed.add(f"{tc.get('classname')}::{tc.get('name')}".replace(os.path.abspath(repo), '/repo').replace(os.path.abspath(repo).replace('/', '_'), '_repo'))
os.unlink(out)
missing = sorted(want - passed)
print(f'baseline stable-pass {len(want)}; passing now {len(passed)}; baseline tests no longer passing: {len(missing)}')
for m in missing[:40]:
    print('  LOST', m)
sys.exit(1 if missing else 0)
