#!/venv/bin/python
import json, os, sys
sys.path.insert(0, os.path.dirname(os.path.dirname(os.path.abspath(__file__))))
from harness.registry import CLAIMED, NOT_YET, NOT_APPLICABLE
ROOT = os.path.dirname(os.path.dirname(os.path.abspath(__file__)))
ids = [json.loads(l)['id'] for l in open(os.path.join(ROOT, 'properties.jsonl'))]
checks = []
for pid in ids:
    if pid in CLAIMED:
        c = CLAIMED[pid]
        checks.append({
            'property_id': pid,
            'quick_cmd': f'./check {pid} quick',
            'thorough_cmd': f'./check {pid} thorough',
            'evidence_file': f'evidence/{pid}.json',
            'replay_cmd_template': './check --replay {path}',
            'engine': 'lean4-model+correspondence',
            'level_claimed': {'category': c.get('category', 'proof'), 'text': c['text'], 'design_ref': c.get('design_ref', '')},
            'level_note': c['note'],
            'technique': c['technique'],
        })
m = {
    'version': 1,
    'setup_cmd': './check --setup',
    'hooks': {
        'guard': 'PYTEZOS_VERIF',
        'enable': 'no source hooks are needed: the harness stubs requests/sleep/ShellQuery in-process; PYTEZOS_VERIF=1 is set by the harness but read by nothing in /repo',
        'baseline_off_cmd': 'cd /repo && env -u PYTEZOS_VERIF /venv/bin/python -m pytest -ra -q -p no:cacheprovider --timeout=900 --continue-on-collection-errors',
        'source_commits': [],
        'add_only': True,
    },
    'engines': [{
        'name': 'lean4-model+correspondence', 'path': 'lean/ harness/ translator/',
        'serves_properties': sorted(CLAIMED),
        'kind_free_text': 'Lean 4 theorems over executable models (lean/PytezosModel), tables regenerated from /repo by translator/extract.py, '
                          'hand-written mirrors tied to the code by a line-protocol differential run (harness/)',
    }],
    'checks': checks,
    'not_applicable': [{'property_id': p, 'reason': NOT_APPLICABLE.get(p, NOT_YET)} for p in ids if p not in CLAIMED],
    'notes': 'See DESIGN.md. known_findings.jsonl lists fixed and open findings.',
}
json.dump(m, open(os.path.join(ROOT, 'MANIFEST.json'), 'w'), indent=1)
print(f'{len(checks)} checks, {len(m["not_applicable"])} not claimed')
