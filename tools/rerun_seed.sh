#!/bin/sh
# rerun_seed.sh <name> [tier] [seed]: apply seeded/<name>/patch.diff to a fresh scratch worktree, run the property's check
# against it, print the verdict lines, remove the worktree.  (name = Cxx or Cxx<tag>)
name=$1; tier=${2:-quick}; seed=${3:-0}
prop=$(echo "$name" | cut -c1-3)
cd "$(dirname "$0")/.." || exit 2
wt=/tmp/wt/rerun-$name
git -C /repo worktree remove --force $wt 2>/dev/null
mkdir -p /tmp/wt
git -C /repo worktree add -q --detach $wt HEAD || exit 2
git -C $wt apply "$PWD/seeded/$name/patch.diff" || { echo "patch does not apply"; git -C /repo worktree remove --force $wt; exit 2; }
VERIF_REPO=$wt VERIF_SEED=$seed ./check $prop $tier > .work/rerun-$name.log 2>&1
rc=$?
grep -E "^VIOLATION|^KNOWN|^$prop |failing input|broken obligation" .work/rerun-$name.log | cut -c1-400 | head -${LINES_MAX:-14}
echo "exit=$rc"
git -C /repo worktree remove --force $wt
# record the outcome of this re-check in the archive (shown by tools/seed_table.py)
/venv/bin/python - "$name" "$rc" <<'PY'
import json, sys, re, subprocess
name, rc = sys.argv[1], int(sys.argv[2])
log = open(f'/verif/.work/rerun-{name}.log').read().split('\n')
first = next((l for l in log if l.startswith('VIOLATION')), '')
fi = next((l.strip() for l in log if 'failing input' in l), '')
if rc == 1 and first and 'no-failing-input-found' not in first:
    v = 'caught with a failing input' + (': `' + fi.split('failing input:')[1].strip()[:110].replace('|', '/') + '…`' if fi else '')
elif rc == 1:
    v = 'caught: obligations/correspondence broken, no failing input found'
elif rc == 0:
    v = '**missed**'
else:
    v = f'harness error (exit {rc})'
p = f'/verif/seeded/{name}/meta.json'
try:
    m = json.load(open(p))
except Exception:
    m = {'property': name[:3]}
head = subprocess.run(['git', '-C', '/verif', 'rev-parse', '--short', 'HEAD'], capture_output=True, text=True).stdout.strip()
m['recheck'] = f'{v} (re-run at /verif {head})'
json.dump(m, open(p, 'w'), indent=1)
PY
