#!/bin/sh
# rerun_seed.sh <name> [tier] [seed]: apply seeded/<name>/patch.diff to a fresh scratch worktree, run the property's check
# against it, print the verdict lines, remove the worktree.  (name = Cxx or Cxx<tag>)
name=$1; tier=${2:-quick}; seed=${3:-0}
prop=$(echo "$name" | cut -c1-3)
cd "$(dirname "$0")/.." || exit 2
wt=/tmp/wt/rerun-$name
git -C /repo worktree remove --force $wt 2>/dev/null
mkdir -p /tmp/wt
git -C /repo worktree add -q --detach $wt HEAD || exit 2
git -C $wt apply "$PWD/seeded/$name/patch.diff" || { echo "patch does not apply"; git -C /repo worktree remove --force $wt; exit 2; }
VERIF_REPO=$wt VERIF_SEED=$seed ./check $prop $tier > .work/rerun-$name.log 2>&1
rc=$?
grep -E "^VIOLATION|^KNOWN|^$prop |failing input|broken obligation" .work/rerun-$name.log | cut -c1-400 | head -${LINES_MAX:-14}
echo "exit=$rc"
git -C /repo worktree remove --force $wt
