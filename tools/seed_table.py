#!/venv/bin/python
"""seed_table.py: markdown table of the archived seeded changes (seeded/<name>/meta.json + first heading of notes.md) and how
the property's check responded.  Output is pasted into DESIGN.md §9."""
import glob, json, os, re
rows = []
for d in sorted(glob.glob('/verif/seeded/*/')):
    name = os.path.basename(d.rstrip('/'))
    try:
        m = json.load(open(d + 'meta.json'))
    except Exception:
        m = {}
    title = ''
    if os.path.exists(d + 'notes.md'):
        for ln in open(d + 'notes.md'):
            if ln.startswith('#'):
                title = re.sub(r'^#+\s*(C\d+b?\s*seed\s*:?\s*)?', '', ln.strip(), flags=re.I)
                break
    files = sorted(set(re.findall(r'^\+\+\+ b/(\S+)', open(d + 'patch.diff').read(), flags=re.M))) if os.path.exists(d + 'patch.diff') else []
    lines = (m.get('check_with_change') or {}).get('lines') or []
    verdict = 'not run'
    if lines:
        first = lines[0]
        fi = next((l.strip() for l in lines if 'failing input' in l), '')
        if first.startswith('VIOLATION') and 'no-failing-input-found' in first:
            verdict = 'caught: obligations/correspondence broken, no failing input found'
        elif first.startswith('VIOLATION'):
            verdict = 'caught with a failing input' + (': `' + fi.split('failing input:')[1].strip()[:110].replace('|', '/') + '…`' if fi else '')
        else:
            verdict = '**missed**'
    m2 = m.get('recheck')
    if m2:
        verdict += f' → after strengthening: {m2}'
    rows.append(f"| {name} | {title[:120]} | {', '.join(os.path.basename(f) for f in files)} | {verdict} |")
print('| seed | change | file(s) | response of `./check <prop> quick` |\n|---|---|---|---|')
print('\n'.join(rows))
