#!/venv/bin/python
"""seed_table.py: markdown table of the archived seeded changes (seeded/<name>/meta.json + first heading of notes.md) and how
the property's check responded.  Output is pasted into DESIGN.md §9."""
import glob, json, os, re
rows = []
# first runs whose verdict was about something else than the seeded change (the scratch worktree predated a repair of /repo)
STALE_FIRST = {'C17': 'missed (the alarm of the first run was the then-unrepaired GET 0)', 'C01b': 'failing input (first run also saw the then-unrepaired GET 0)',
               'C02': 'failing input (run by hand, VERIF_SEED=1)', 'C08b': 'missed',
               'C17f': 'interrupted (the run was killed by the operator together with another one); re-run on a fresh worktree: failing input',
               'C31f': 'failing input — but only because lists longer than 300 were added to the quick tier after reading the seeding agent\'s report (the thorough tier had 1025 / 1100 before)'}
for d in sorted(glob.glob('/verif/seeded/*/')):
    name = os.path.basename(d.rstrip('/'))
    try:
        m = json.load(open(d + 'meta.json'))
    except Exception:
        m = {}
    title = ''
    if os.path.exists(d + 'notes.md'):
        for ln in open(d + 'notes.md'):
            if ln.startswith('#'):
                title = re.sub(r'^#+\s*(C\d+b?\s*seed\s*:?\s*)?', '', ln.strip(), flags=re.I)
                break
    files = sorted(set(re.findall(r'^\+\+\+ b/(\S+)', open(d + 'patch.diff').read(), flags=re.M))) if os.path.exists(d + 'patch.diff') else []
    lines = (m.get('check_with_change') or {}).get('lines') or []
    verdict = 'not run'
    if lines:
        first = lines[0]
        fi = next((l.strip() for l in lines if 'failing input' in l), '')
        if first.startswith('VIOLATION') and 'no-failing-input-found' in first:
            verdict = 'caught: obligations/correspondence broken, no failing input found'
        elif first.startswith('VIOLATION'):
            verdict = 'caught with a failing input' + (': `' + fi.split('failing input:')[1].strip()[:110].replace('|', '/') + '…`' if fi else '')
        else:
            verdict = '**missed**'
    m2 = m.get('recheck') or ''
    m2 = re.sub(r' \(re-run at /verif \w+\)', '', m2)
    first = 'missed' if 'missed' in verdict else 'broken obligations only' if 'no failing input' in verdict else 'failing input' if 'caught' in verdict else verdict
    if name in STALE_FIRST:
        first = STALE_FIRST[name]
    final = m2 or verdict
    title = title.replace('|', '/')
    rows.append(f"| {name} | {title[:110]} | {', '.join(os.path.basename(f) for f in files)} | {first} | {final[:190]} |")
print('| seed | change | file(s) | first run | current check |\n|---|---|---|---|---|')
print('\n'.join(rows))
