#!/venv/bin/python
"""regen.py: rewrite lean/PytezosModel/Generated/*.lean from /repo's current tree (the committed snapshot must describe
/repo, not the last mutation experiment).  Run before committing."""
import os, sys
sys.path.insert(0, os.path.dirname(os.path.dirname(os.path.abspath(__file__))))
os.environ.pop('VERIF_REPO', None)
from harness import common
from translator import extract
common.use_repo()
for prop in open(os.path.join(common.ROOT, 'claims', 'READY')).read().split():
    st = extract.generate(prop)
    bad = {k: v for k, v in st.items() if not v[0]}
    if bad:
        print(prop, 'translator problems:', bad)
print('regenerated')
