#!/bin/sh
# sweep.sh <tier> <seed...>: run every published check on /repo for each seed (4 at a time), one summary line each.
# Evidence is written under .work/evidence-scratch (VERIF_EVIDENCE_SCRATCH=1) so committed records are not replaced.
tier=$1; shift
cd "$(dirname "$0")/.." || exit 2
mkdir -p .work/sweeps
for seed in "$@"; do
  jq -r '.checks[].property_id' MANIFEST.json | xargs -P 4 -I{} sh -c \
    "VERIF_EVIDENCE_SCRATCH=1 VERIF_SEED=$seed ./check {} $tier > .work/sweeps/{}-$tier-$seed.log 2>&1; echo {} $tier seed=$seed exit=\$? \$(grep -c '^VIOLATION' .work/sweeps/{}-$tier-$seed.log) violations"
done
