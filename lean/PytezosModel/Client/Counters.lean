import PytezosModel.Generated.C25
/-! Mirror of the counter handling of pytezos (`ExecutionContext.get_counter / get_counter_offset / reset`,
`OperationGroup.fill / autofill / sign / inject`) as a state machine over a simulated node.

Node (ground truth): `c` = the account's counter on chain, `p` = number of the account's operation contents
pending in the mempool, `epoch` = number of node state changes so far (accepted injections, baked blocks).
Client: `cache` = `ExecutionContext.counter` of the context shared by the group under construction and everything
spawned from it; `tmpl` = the unfilled group built from the client (`k` contents with counter '0'); `cur` = the
group returned by the last fill / autofill / sign.

The node's rules (my transcription of Octez, implemented by harness/stubnode.py):
* injection is accepted iff the contents carry `c+p+1, c+p+2, …` (and the scenario does not force a refusal);
* `run_operation` (the simulation inside `autofill`) runs on the head context: it demands `c+1, c+2, …` and does
  not see the mempool;
* baking a block moves the pending contents into the counter.

The shape switches (`Shape`) are read from the source by the translator (`Generated.C25`). -/
namespace Impl.Counters

structure Shape where
  fillResetsCache : Bool    -- fill() starts from an empty cache
  fillUsesMempool : Bool    -- fill() adds the mempool offset
  deriving Repr, DecidableEq

/-- `none` as soon as one construct of the source was not recognised -/
def shape : Option Shape := do
  let g ← Generated.C25.getCounterCached
  let r ← Generated.C25.resetClearsCache
  let o ← Generated.C25.offsetCountsOwnPending
  let a ← Generated.C25.autofillAddsOffset
  let i ← Generated.C25.injectResetsFirst
  if !(g && r && o && a && i) then none else
  some { fillResetsCache := ← Generated.C25.fillResetsCache, fillUsesMempool := ← Generated.C25.fillUsesMempool }

/-- a filled group: the counters of its contents, whether it carries a signature, and the node epoch at which
its counters were last computed against the node (fill of the unfilled group, or any successful autofill) -/
structure Grp where
  ctrs : List Nat
  signed : Bool
  stamp : Nat
  deriving Repr, DecidableEq

structure State where
  c : Nat
  p : Nat
  epoch : Nat
  cache : Option Nat
  tmpl : Option Nat
  cur : Option Grp
  deriving Repr, DecidableEq

inductive Target where
  | tmpl   -- the unfilled group built by `new`
  | cur    -- the group returned by the previous fill / autofill / sign
  deriving Repr, DecidableEq

inductive Event where
  | new (k : Nat)           -- client.bulk(k transactions): a fresh context (empty cache), k >= 1 contents
  | fill (t : Target)
  | autofill (t : Target)
  | sign
  | inject (ok : Bool)      -- ok = false: the node / transport refuses whatever is sent
  | bake
  deriving Repr, DecidableEq

inductive Out where
  | done                                  -- new / bake
  | noGroup                               -- the target does not exist (the harness calls nothing)
  | ctrs (cs : List Nat)                  -- fill / autofill / sign returned a group with these counters
  | simError                              -- autofill: run_operation refused the counters (RpcError)
  | notSigned                             -- inject: ValueError('Not signed')
  | sent (cs : List Nat) (accepted : Bool) -- inject: what reached /injection/operation and the node's answer
  deriving Repr, DecidableEq

/-- what the property looks at: one record per payload that reached the injection RPC -/
structure Obs where
  fresh : Bool          -- the group's counters were computed after the last accepted injection / baked block
  sent : List Nat
  expected : List Nat   -- c+p+1 … c+p+k with the node's counter and pending count at injection time
  deriving Repr, DecidableEq

/-- `k` calls of `get_counter()`: the counters handed out and the new cache -/
def getCounters (cache : Option Nat) (c k : Nat) : List Nat × Option Nat :=
  let x := cache.getD c
  (List.range' (x + 1) k, some (x + k))

/-- `fill()` of the unfilled group with `k` contents -/
def fillTmpl (sh : Shape) (s : State) (k : Nat) : List Nat × Option Nat :=
  let cache := if sh.fillResetsCache then none else s.cache
  let (cs, cache') := getCounters cache s.c k
  (if sh.fillUsesMempool then cs.map (· + s.p) else cs, cache')

/-- `run_operation` accepts exactly the counters following the head counter -/
def simAccepts (s : State) (cs : List Nat) : Bool := cs == List.range' (s.c + 1) cs.length

def expected (s : State) (k : Nat) : List Nat := List.range' (s.c + s.p + 1) k

def step (sh : Shape) (s : State) : Event → State × Out × Option Obs
  | .new k => ({ s with cache := none, tmpl := some k, cur := none }, .done, none)
  | .fill .tmpl =>
    match s.tmpl with
    | none => (s, .noGroup, none)
    | some k =>
      let (cs, cache') := fillTmpl sh s k
      ({ s with cache := cache', cur := some { ctrs := cs, signed := false, stamp := s.epoch } }, .ctrs cs, none)
  | .fill .cur =>
    match s.cur with
    | none => (s, .noGroup, none)
    | some g =>  -- every counter is already set: nothing is replaced, get_counter is not called
      ({ s with cache := if sh.fillResetsCache then none else s.cache }, .ctrs g.ctrs, none)
  | .autofill .tmpl =>
    match s.tmpl with
    | none => (s, .noGroup, none)
    | some k =>
      let (cs, cache') := fillTmpl sh s k
      if simAccepts s cs then
        let cs' := cs.map (· + s.p)
        ({ s with cache := cache', cur := some { ctrs := cs', signed := false, stamp := s.epoch } }, .ctrs cs', none)
      else ({ s with cache := cache' }, .simError, none)
  | .autofill .cur =>
    match s.cur with
    | none => (s, .noGroup, none)
    | some g =>
      let cache' := if sh.fillResetsCache then none else s.cache
      if simAccepts s g.ctrs then
        let cs' := g.ctrs.map (· + s.p)
        ({ s with cache := cache', cur := some { g with ctrs := cs', stamp := s.epoch } }, .ctrs cs', none)
      else ({ s with cache := cache' }, .simError, none)
  | .sign =>
    match s.cur with
    | none => (s, .noGroup, none)
    | some g => ({ s with cur := some { g with signed := true } }, .ctrs g.ctrs, none)
  | .inject ok =>
    match s.cur with
    | none => (s, .noGroup, none)
    | some g =>
      let s1 := { s with cache := none }   -- `self.context.reset()` comes first: also when unsigned or refused
      if !g.signed then (s1, .notSigned, none)
      else
        let want := expected s g.ctrs.length
        let obs : Obs := { fresh := g.stamp == s.epoch, sent := g.ctrs, expected := want }
        if ok && g.ctrs == want && g.ctrs.length != 0 then
          ({ s1 with p := s.p + g.ctrs.length, epoch := s.epoch + 1 }, .sent g.ctrs true, some obs)
        else (s1, .sent g.ctrs false, some obs)
  | .bake => ({ s with c := s.c + s.p, p := 0, epoch := s.epoch + 1 }, .done, none)

/-- outputs of a history (correspondence) -/
def outs (sh : Shape) : State → List Event → List Out
  | _, [] => []
  | s, e :: es => (step sh s e).2.1 :: outs sh (step sh s e).1 es

/-- the payloads that reached the injection RPC during a history -/
def observe (sh : Shape) : State → List Event → List Obs
  | _, [] => []
  | s, e :: es =>
    match (step sh s e).2.2 with
    | some o => o :: observe sh (step sh s e).1 es
    | none => observe sh (step sh s e).1 es

/-- a `fill()` of the unfilled group is *supported* when it starts from an empty cache (or resets it) and no own
operation is pending (or it adds the mempool offset): outside this region the pinned `fill` hands out counters that
do not follow the node (see the counter-histories in Props/C25.lean) -/
def fillSupported (sh : Shape) (s : State) : Bool :=
  (sh.fillResetsCache || s.cache.isNone) && (sh.fillUsesMempool || s.p == 0)

/-- every `fill` of the unfilled group in the history happens in the supported region -/
def clean (sh : Shape) : State → List Event → Bool
  | _, [] => true
  | s, e :: es =>
    (match e with
     | .fill .tmpl => s.tmpl.isNone || fillSupported sh s
     | _ => true) && clean sh (step sh s e).1 es

def init (c p : Nat) : State := { c := c, p := p, epoch := 0, cache := none, tmpl := none, cur := none }

end Impl.Counters
