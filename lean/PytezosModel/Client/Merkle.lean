import PytezosModel.Generated.C31
/-! Mirror of `src/pytezos/crypto/hash.py` (`_reduce_operation_hashes`, `operation_list_hash`,
`operation_list_list_hash`, `block_payload_hash`) over an ABSTRACT hash `H : bytes → bytes`
(`_hash_tuple(l, r) = H (l ++ r)`; in the code `H` = BLAKE2b-256), and the reference Merkle root.

Bytes are `List Nat`.  The Python list `a` is a `List Bytes`; `a[i]` is `a[i]?` (IndexError = `none`) and
`a[i] = v` is `setAt` (IndexError = `none`), so that the theorem also shows that no index is ever out of range.
The index arithmetic of `step` is read from the source (`Generated.C31.reduceShape`). -/

abbrev Bytes := List Nat

namespace Impl.Merkle
open Generated.C31

/-- `a[i] = v` -/
def setAt (a : List Bytes) (i : Nat) (v : Bytes) : Option (List Bytes) :=
  if i < a.length then some (a.set i v) else none

/-- `for i in range(m): a[i] = _hash_tuple(a[2 * i], a[2 * i + 1])`; first argument = iterations left -/
def pairLoop (P : Params) (H : Bytes → Bytes) : Nat → Nat → List Bytes → Option (List Bytes)
  | 0, _, a => some a
  | k + 1, i, a => do
    let l ← a[P.lMul * i + P.lAdd]?
    let r ← a[P.rMul * i + P.rAdd]?
    let a ← setAt a i (H (l ++ r))
    pairLoop P H k (i + 1) a

/-- the inner `step(n)` working on the shared list `a`; `fuel` bounds the recursion depth -/
def step (P : Params) (H : Bytes → Bytes) : Nat → Nat → List Bytes → Option Bytes
  | 0, _, _ => none
  | fuel + 1, n, a => do
    let m := (n + P.halfAdd) / P.halfDiv
    let a ← pairLoop P H m 0 a
    let an ← a[n]?
    let a ← setAt a m (H (an ++ an))
    if m = 1 then a[0]?
    else if m % 2 = 0 then step P H fuel m a
    else do
      let am ← a[m]?
      let a ← setAt a (m + 1) am
      step P H fuel (m + 1) a

def reduceWith (P : Params) (H : Bytes → Bytes) (hashes : List Bytes) : Option Bytes :=
  match hashes with
  | [] => some (H ([] ++ []))             -- `_hash_tuple()`
  | [x] => some (H (x ++ []))             -- `_hash_tuple(hashes[0])`
  | _ =>
    let res := hashes.map fun x => H (x ++ [])
    match res.getLast? with               -- `res[-1]`
    | none => none
    | some last => step P H hashes.length hashes.length (res ++ [last])

/-- `_reduce_operation_hashes(hashes)` -/
def reduce (H : Bytes → Bytes) (hashes : List Bytes) : Option Bytes :=
  reduceShape.bind fun P => reduceWith P H hashes

/-- `operation_list_hash` between `base58_decode` of the items and `base58_encode(res, b'Lo')` (base58 is C09) -/
def opListHashRaw (H : Bytes → Bytes) (ops : List Bytes) : Option Bytes := reduce H ops

/-- `operation_list_list_hash`: every inner list is reduced first, then the list of the results -/
def opListListHashRaw (H : Bytes → Bytes) (opss : List (List Bytes)) : Option Bytes := do
  let los ← opss.mapM (opListHashRaw H)
  reduce H los

/-- `payload_round.to_bytes(k, 'big')` (OverflowError = `none`) -/
def toBytesBE : Nat → Nat → Option Bytes
  | 0, v => if v = 0 then some [] else none
  | k + 1, v => (toBytesBE k (v / 256)).map (· ++ [v % 256])

/-- `block_payload_hash` between the base58 decodings and `base58_encode(res, b'vh')` -/
def blockPayloadRaw (H : Bytes → Bytes) (pred : Bytes) (round : Nat) (ops : List Bytes) : Option Bytes := do
  let k ← roundBytes
  let rb ← toBytesBE k round
  let r ← reduce H ops
  some (H (pred ++ rb ++ r))

end Impl.Merkle

namespace Spec.Merkle

/-- root of the perfect binary tree of height `k` over exactly `2^k` leaves (`none` for any other length) -/
def tree (H : Bytes → Bytes) : Nat → List Bytes → Option Bytes
  | 0, [x] => some x
  | 0, _ => none
  | k + 1, xs => do
    let l ← tree H k (xs.take (2 ^ k))
    let r ← tree H k (xs.drop (2 ^ k))
    some (H (l ++ r))

/-- least `k` with `n ≤ 2^k` -/
def height (n : Nat) : Nat := if n ≤ 1 then 0 else (n - 1).log2 + 1

/-- pad with copies of the last element up to the next power of two -/
def padPow2 (xs : List Bytes) : List Bytes :=
  match xs.getLast? with
  | none => []
  | some l => xs ++ List.replicate (2 ^ height xs.length - xs.length) l

def root (H : Bytes → Bytes) (leaves : List Bytes) : Option Bytes := tree H (height leaves.length) leaves

/-- the Tezos operation-list Merkle root: leaves are the hashes of the items, an empty list gives `H ""` -/
def merkle (H : Bytes → Bytes) (xs : List Bytes) : Option Bytes :=
  if xs = [] then some (H []) else root H (padPow2 (xs.map H))

def be4 (v : Nat) : Bytes := [v / 16777216 % 256, v / 65536 % 256, v / 256 % 256, v % 256]

end Spec.Merkle
