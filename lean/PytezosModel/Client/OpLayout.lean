import PytezosModel.Micheline.Lower
import PytezosModel.Generated.C06
/-! Field layouts of operation contents (C06) — the generic layer.

* `Generated.C06.Codec / Field` (regenerated from `src/pytezos/operation/forge.py`): the *framing* each
  `res += forge_x(content[k])` statement applies.  `Impl.OpForge.encodeL` is the generic mirror of such a
  straight-line body over a positional record of structured values.
* `SCodec / SField`: the Tezos schema.  It has the same framings plus the widths of fixed-size payloads
  (`fixed 20`, `dynFixed 96`, …), which the Python code does not know (they are facts about the base58 / hex
  inputs: C09).  `SCodec.erase` forgets the widths.
* `Spec.Op.decodeL`: the reader for a schema layout, restricted to *canonical* encodings (what Tezos' own
  writer emits): minimal zarith naturals, booleans 0x00/0xff only, a named entrypoint (0xff) is never a reserved
  name, zero padding, present `parameters` are never (`default`, `Unit`).

Addresses / keys are structural here: a base58 prefix (`"tz1"`, `"KT1"`, `"edpk"`, …) and the payload bytes; the
base58 step is C09/C10 and is done with the real library in the harness. -/

namespace OpLayout
open Core

/-- structured value of one field -/
inductive Val where
  | nat (n : Nat)
  | raw (bs : Bytes)                       -- hash / hex payload / text as UTF-8
  | addr (pfx : String) (h : Bytes)        -- address or key hash: base58 prefix + hash
  | pubkey (pfx : String) (k : Bytes)
  | mich (e : BMich)
  | ep (name : Bytes)                      -- entrypoint name (UTF-8)
  | list (xs : List Bytes)
  deriving Repr, Inhabited

inductive FVal where
  | req (v : Val)
  | opt (o : Option (List Val))            -- optional group of fields (`delegate`, `parameters`, `proof`)
  deriving Repr, Inhabited

abbrev Record := List FVal

/-- first row with the given string key (Python `if/elif` chain, dict lookup on unique keys) -/
def lookup {α : Type} (t : List (String × α)) (k : String) : Option α := (t.find? (·.1 == k)).map (·.2)

def assocN {α : Type} (t : List (Nat × α)) (k : Nat) : Option α := (t.find? (·.1 == k)).map (·.2)

end OpLayout

namespace Impl.OpForge
open Core OpLayout
open Generated.C06 (Codec Cond Field)

/-- `forge_bool` -/
def forgeBool (b : Bool) : Bytes := if b then [255] else [0]

/-- the `if prefix == … elif …` chain of `forge_address`: bytes before / after the hash -/
def addrRow (pfx : String) : Option (Bytes × Bytes) := Generated.C06.addressPrefixes.bind (lookup · pfx)

/-- `forge_address(value, tz_only)` on the decoded address (`none` = ValueError unknown prefix) -/
def forgeAddress (pfx : String) (h : Bytes) (tzOnly : Bool) : Option Bytes :=
  (addrRow pfx).map fun (hd, tl) =>
    let res := hd ++ h ++ tl
    if tzOnly then res.drop 1 else res

def pkTag (pfx : String) : Option Nat := Generated.C06.publicKeyPrefixes.bind (lookup · pfx)

/-- `forge_public_key` -/
def forgePublicKey (pfx : String) (k : Bytes) : Option Bytes := (pkTag pfx).map (· :: k)

/-- `reserved_entrypoints.get(name)` (names compared as UTF-8 bytes) -/
def reservedTag (name : Bytes) : Option (Option Nat) :=
  Generated.C06.reservedEntrypoints.map fun t => (t.find? (·.2.1 == name)).map (·.2.2)

/-- `forge_entrypoint`: reserved tag byte, or `0xff` + 1-byte length + name (`none`: name longer than 255 bytes) -/
def forgeEntrypoint (name : Bytes) : Option Bytes :=
  match reservedTag name with
  | none => none
  | some (some t) => some [t]
  | some none => (forgeArray 1 name).map (255 :: ·)

/-- `b''.join(forge_array(bytes.fromhex(m)) for m in msgs)` -/
def forgeItems : List Bytes → Option Bytes
  | [] => some []
  | x :: xs => do
    let a ← forgeArray 4 x
    let b ← forgeItems xs
    pure (a ++ b)

/-- one `res += forge_x(content[k])` statement; a value of the wrong shape is a Python exception (`none`) -/
def encodeC : Codec → Val → Option Bytes
  | .nat, .nat n => some (forgeNat n)
  | .raw, .raw bs => some bs
  | .pkh, .addr p h => forgeAddress p h true
  | .addr, .addr p h => forgeAddress p h false
  | .pubkey, .pubkey p k => forgePublicKey p k
  | .bytes4, .raw bs => forgeArray 4 bs
  | .mich4, .mich e => (Impl.Forge.forge e).bind (forgeArray 4)
  | .entrypoint, .ep n => forgeEntrypoint n
  | .list4, .list xs => (forgeItems xs).bind (forgeArray 4)
  | _, _ => none

def encodeFields : List (String × Codec) → List Val → Option Bytes
  | [], [] => some []
  | (_, c) :: fs, v :: vs => do
    let a ← encodeC c v
    let b ← encodeFields fs vs
    pure (a ++ b)
  | _, _ => none

/-- `value == {'prim': 'Unit'}` -/
def isUnit : BMich → Bool
  | .prim t [] none => Impl.Lower.primTag "Unit" == some t
  | _ => false

/-- UTF-8 of `'default'` -/
def defaultName : Bytes := [100, 101, 102, 97, 117, 108, 116]

/-- the second line of `has_parameters`: entrypoint `default` and value `Unit` -/
def elided : List Val → Bool
  | [.ep n, .mich e] => n == defaultName && isUnit e
  | _ => false

/-- one statement of a `forge_<kind>` body: a plain field or an `if <present>: … else: forge_bool(False)` group -/
def encodeF : Field → FVal → Option Bytes
  | .req _ c, .req v => encodeC c v
  | .opt _ _ _, .opt none => some (forgeBool false)
  | .opt _ cond fs, .opt (some vs) =>
    if cond == .elideDefaultUnit && elided vs then some (forgeBool false)
    else (encodeFields fs vs).map (forgeBool true ++ ·)
  | _, _ => none

/-- a straight-line `forge_<kind>` body after the tag byte -/
def encodeL : List Field → Record → Option Bytes
  | [], [] => some []
  | f :: fs, v :: vs => do
    let a ← encodeF f v
    let b ← encodeL fs vs
    pure (a ++ b)
  | _, _ => none

end Impl.OpForge

namespace OpLayout
open Generated.C06 (Codec Cond Field)

/-- field codecs of the Tezos operation schema -/
inductive SCodec where
  | nat                  -- N (zarith natural)
  | fixed (n : Nat)      -- n bytes
  | pkh                  -- public_key_hash: curve tag + 20 bytes
  | addr                 -- contract id, 22 bytes: 00 + pkh | tag + 20 bytes + 00
  | pubkey               -- curve tag + 32 / 33 / 33 / 48 bytes
  | bytes4               -- 4-byte length + bytes
  | dynFixed (n : Nat)   -- 4-byte length (always n) + n bytes
  | dynMax (n : Nat)     -- 4-byte length (≤ n) + bytes
  | mich4                -- 4-byte length + one Micheline expression
  | entrypoint           -- tag 0–9 | 0xff + 1-byte length (1…31) + name
  | list4                -- 4-byte length + sequence of (4-byte length + bytes)
  deriving DecidableEq, Repr, Inhabited

inductive SField where
  | req (name : String) (c : SCodec)
  | opt (name : String) (cond : Cond) (fs : List (String × SCodec))
  deriving DecidableEq, Repr, Inhabited

def SCodec.erase : SCodec → Codec
  | .nat => .nat
  | .fixed _ => .raw
  | .pkh => .pkh
  | .addr => .addr
  | .pubkey => .pubkey
  | .bytes4 => .bytes4
  | .dynFixed _ => .bytes4
  | .dynMax _ => .bytes4
  | .mich4 => .mich4
  | .entrypoint => .entrypoint
  | .list4 => .list4

def eraseFs (fs : List (String × SCodec)) : List (String × Codec) := fs.map fun (n, c) => (n, c.erase)

def SField.erase : SField → Field
  | .req n c => .req n c.erase
  | .opt n cond fs => .opt n cond (eraseFs fs)

def eraseL (l : List SField) : List Field := l.map SField.erase

end OpLayout

namespace Spec.Op
open Core OpLayout
open Generated.C06 (Cond)

/-- curve tag of a public key hash ↔ base58 prefix -/
def pkhPrefixes : List (Nat × String) := [(0, "tz1"), (1, "tz2"), (2, "tz3"), (3, "tz4")]

/-- contract-id tag of a hash that is followed by one padding byte ↔ base58 prefix (1 originated, 3 smart rollup) -/
def originatedPrefixes : List (Nat × String) := [(1, "KT1"), (3, "sr1")]

/-- public key: curve tag ↔ (base58 prefix, key width) -/
def publicKeys : List (Nat × String × Nat) := [(0, "edpk", 32), (1, "sppk", 33), (2, "p2pk", 33), (3, "BLpk", 48)]

/-- `Entrypoint_repr.smart_encoding`: (name, UTF-8, tag) -/
def reservedEntrypoints : List (String × Bytes × Nat) :=
  [("default", [100, 101, 102, 97, 117, 108, 116], 0),
   ("root", [114, 111, 111, 116], 1),
   ("do", [100, 111], 2),
   ("set_delegate", [115, 101, 116, 95, 100, 101, 108, 101, 103, 97, 116, 101], 3),
   ("remove_delegate", [114, 101, 109, 111, 118, 101, 95, 100, 101, 108, 101, 103, 97, 116, 101], 4),
   ("deposit", [100, 101, 112, 111, 115, 105, 116], 5),
   ("stake", [115, 116, 97, 107, 101], 6),
   ("unstake", [117, 110, 115, 116, 97, 107, 101], 7),
   ("finalize_unstake", [102, 105, 110, 97, 108, 105, 122, 101, 95, 117, 110, 115, 116, 97, 107, 101], 8),
   ("set_delegate_parameters", [115, 101, 116, 95, 100, 101, 108, 101, 103, 97, 116, 101, 95, 112, 97, 114, 97, 109, 101, 116, 101, 114, 115], 9)]

def takeN (n : Nat) (d : Bytes) : Option (Bytes × Bytes) :=
  if d.length < n then none else some (d.take n, d.drop n)

/-- N: 7-bit groups, little endian, high bit = more; a multi-byte encoding must not end in a zero group -/
def decodeN : Bytes → Option (Nat × Bytes)
  | [] => none
  | b :: rest =>
    if b < 128 then some (b, rest)
    else (unforgeInt.unforgeNatStrict true rest).map fun (v, r) => (b - 128 + 128 * v, r)

def decodePkh : Bytes → Option (Val × Bytes)
  | [] => none
  | c :: d1 =>
    match assocN pkhPrefixes c with
    | none => none
    | some p => (takeN 20 d1).map fun (h, r) => (.addr p h, r)

def decodeAddr : Bytes → Option (Val × Bytes)
  | [] => none
  | t :: d1 =>
    if t = 0 then decodePkh d1
    else
      match assocN originatedPrefixes t with
      | none => none
      | some p =>
        match takeN 20 d1 with
        | some (h, 0 :: r) => some (.addr p h, r)
        | _ => none

def decodePubkey : Bytes → Option (Val × Bytes)
  | [] => none
  | c :: d1 =>
    match assocN publicKeys c with
    | none => none
    | some (p, w) => (takeN w d1).map fun (k, r) => (.pubkey p k, r)

def isReservedName (n : Bytes) : Bool := reservedEntrypoints.any (·.2.1 == n)

def decodeEntrypoint : Bytes → Option (Val × Bytes)
  | [] => none
  | t :: d1 =>
    if t = 255 then
      match d1 with
      | [] => none
      | l :: d2 =>
        if l = 0 || l > 31 then none
        else
          match takeN l d2 with
          | none => none
          | some (n, r) => if isReservedName n then none else some (.ep n, r)
    else (reservedEntrypoints.find? (·.2.2 == t)).map fun row => (.ep row.2.1, d1)

/-- a concatenation of 4-byte-length-prefixed items that fills the buffer exactly -/
def decodeItems : (fuel : Nat) → Bytes → Option (List Bytes)
  | fuel, d =>
    if d.length = 0 then some []
    else
      match fuel with
      | 0 => none
      | fuel' + 1 =>
        match unforgeArray 4 d with
        | none => none
        | some (x, rest) => (decodeItems fuel' rest).map (x :: ·)

def decodeC : SCodec → Bytes → Option (Val × Bytes)
  | .nat, d => (decodeN d).map fun (n, r) => (.nat n, r)
  | .fixed n, d => (takeN n d).map fun (b, r) => (.raw b, r)
  | .pkh, d => decodePkh d
  | .addr, d => decodeAddr d
  | .pubkey, d => decodePubkey d
  | .bytes4, d => (unforgeArray 4 d).map fun (b, r) => (.raw b, r)
  | .dynFixed n, d =>
    match unforgeArray 4 d with
    | some (b, r) => if b.length = n then some (.raw b, r) else none
    | none => none
  | .dynMax n, d =>
    match unforgeArray 4 d with
    | some (b, r) => if b.length ≤ n then some (.raw b, r) else none
    | none => none
  | .mich4, d =>
    match unforgeArray 4 d with
    | some (b, r) => (Spec.Micheline.decode Impl.Lower.known b).map fun e => (.mich e, r)
    | none => none
  | .entrypoint, d => decodeEntrypoint d
  | .list4, d =>
    match unforgeArray 4 d with
    | some (b, r) => (decodeItems b.length b).map fun xs => (.list xs, r)
    | none => none

def decodeFields : List (String × SCodec) → Bytes → Option (List Val × Bytes)
  | [], d => some ([], d)
  | (_, c) :: fs, d =>
    match decodeC c d with
    | none => none
    | some (v, r) => (decodeFields fs r).map fun (vs, r') => (v :: vs, r')

def decodeF : SField → Bytes → Option (FVal × Bytes)
  | .req _ c, d => (decodeC c d).map fun (v, r) => (.req v, r)
  | .opt _ cond fs, d =>
    match d with
    | [] => none
    | b :: d1 =>
      if b = 0 then some (.opt none, d1)
      else if b = 255 then
        match decodeFields fs d1 with
        | none => none
        | some (vs, r) =>
          -- the writer never emits a present (`default`, `Unit`)
          if cond == .elideDefaultUnit && Impl.OpForge.elided vs then none else some (.opt (some vs), r)
      else none

def decodeL : List SField → Bytes → Option (Record × Bytes)
  | [], d => some ([], d)
  | f :: fs, d =>
    match decodeF f d with
    | none => none
    | some (v, r) => (decodeL fs r).map fun (vs, r') => (v :: vs, r')

/-! well-formed values for a schema codec -/
def WFVal : SCodec → Val → Bool
  | .nat, .nat _ => true
  | .fixed n, .raw bs => bs.length == n
  | .pkh, .addr p h => pkhPrefixes.any (·.2 == p) && h.length == 20
  | .addr, .addr p h => (pkhPrefixes.any (·.2 == p) || originatedPrefixes.any (·.2 == p)) && h.length == 20
  | .pubkey, .pubkey p k => publicKeys.any (fun r => r.2.1 == p && r.2.2 == k.length)
  | .bytes4, .raw _ => true
  | .dynFixed n, .raw bs => bs.length == n
  | .dynMax n, .raw bs => decide (bs.length ≤ n)
  | .mich4, .mich e => BMich.WF Impl.Lower.known e
  | .entrypoint, .ep n => decide (0 < n.length) && decide (n.length ≤ 31)
  | .list4, .list _ => true
  | _, _ => false

def WFVals : List (String × SCodec) → List Val → Bool
  | [], [] => true
  | (_, c) :: fs, v :: vs => WFVal c v && WFVals fs vs
  | _, _ => false

def WFF : SField → FVal → Bool
  | .req _ c, .req v => WFVal c v
  | .opt _ _ _, .opt none => true
  | .opt _ _ fs, .opt (some vs) => WFVals fs vs
  | _, _ => false

def WFRecord : List SField → Record → Bool
  | [], [] => true
  | f :: fs, v :: vs => WFF f v && WFRecord fs vs
  | _, _ => false

/-- what decoding returns: a present (`default`, `Unit`) parameter is the absent one -/
def normF : SField → FVal → FVal
  | .opt _ cond _, .opt (some vs) => if cond == .elideDefaultUnit && Impl.OpForge.elided vs then .opt none else .opt (some vs)
  | _, v => v

def normL : List SField → Record → Record
  | f :: fs, v :: vs => normF f v :: normL fs vs
  | _, vs => vs

end Spec.Op
