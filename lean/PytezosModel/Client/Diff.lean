import PytezosModel.Generated.C30
/-! Mirror of `make_patch` / `apply_patch` (src/pytezos/protocol/diff.py) and of the file-wise
`Protocol.diff` / `Protocol.patch` (src/pytezos/protocol/protocol.py).

A string is a `List Char`; a line is a `List Char` *including* its terminating `'\n'` when it has one (exactly the
elements of Python's `str.splitlines(True)`), so `patch[i][0]`, `line[:-1]`, `line[1:]` are `head?`, `dropLast`, `tail`.
Only `'\n'` is a line boundary (texts containing `\r`, `\v`, `\f`, `\x1c`-`\x1e`, `\x85`, U+2028, U+2029 are outside the
domain).  `difflib.unified_diff` is *not* modelled: `Spec.Diff.unifiedDiff` states what it yields for an edit script. -/
namespace Impl.Diff

abbrev Line := List Char

inductive Err
  | regexMismatch   -- ValueError('Regex mismatch on line …')
  | badLineNum      -- ValueError('Bad line num …')
  | typeError       -- `proto()` on an object that is not callable
  | unrecognised    -- the source no longer has a shape the translator knows
  deriving DecidableEq, Repr

/-- what the translator read from the source: the no-newline marker and the `(midx, sign)` pairs -/
structure Config where
  noEol : List Char
  fwd : Nat × Char
  rev : Nat × Char
  deriving DecidableEq, Repr

def modelledHdrPattern : List Char :=
  ['^', '@', '@', ' ', '-', '(', '\\', 'd', '+', ')', ',', '?', '(', '\\', 'd', '+', ')', '?', ' ', '\\', '+', '(', '\\', 'd', '+', ')',
   ',', '?', '(', '\\', 'd', '+', ')', '?', ' ', '@', '@', '$']

def config : Option Config :=
  match Generated.C30.noEol, Generated.C30.hdrPattern, Generated.C30.fwd, Generated.C30.rev with
  | some m, some p, some f, some r =>
    if p = modelledHdrPattern && Generated.C30.makePatchShape && Generated.C30.applyPatchShape then some ⟨m, f, r⟩ else none
  | _, _, _, _ => none

/-! ### `str.splitlines(True)` / `''.join` -/

/-- `s.splitlines(True)` for a text whose only line boundary is `'\n'` -/
def splitLines : List Char → List Line
  | [] => []
  | c :: cs =>
    if c = '\n' then ['\n'] :: splitLines cs
    else match splitLines cs with
      | [] => [[c]]
      | l :: ls => (c :: l) :: ls

/-- `''.join(lines)` -/
def join (ls : List Line) : List Char := ls.flatten

/-! ### `make_patch` (the part after `difflib.unified_diff`) -/

/-- `lambda x: x if x[-1] == '\n' else x + '\n' + _no_eol + '\n'` -/
def fixEol (cfg : Config) (x : Line) : List Char :=
  if x.getLast? = some '\n' then x else x ++ '\n' :: (cfg.noEol ++ ['\n'])

/-- `''.join(map(fixEol, diffs))` -/
def makePatchWith (cfg : Config) (diffs : List Line) : List Char := (diffs.map (fixEol cfg)).flatten

/-! ### `apply_patch` -/

def spanDigits : List Char → List Char × List Char
  | [] => ([], [])
  | c :: cs =>
    if c.isDigit then
      let r := spanDigits cs
      (c :: r.1, r.2)
    else ([], c :: cs)

/-- `int(s)` for a string of ASCII digits -/
def parseNat (ds : List Char) : Nat := ds.foldl (fun a c => a * 10 + (c.toNat - 48)) 0

def stripPrefix : List Char → List Char → Option (List Char)
  | [], s => some s
  | _ :: _, [] => none
  | p :: ps, c :: cs => if p = c then stripPrefix ps cs else none

/-- the optional `,` between the two groups -/
def dropComma : List Char → List Char
  | ',' :: r => r
  | r => r

/-- `(\d+),?(\d+)?` at the start of `cs`: first number, the optional second group (as text), the rest.
Greedy matching is deterministic here: a shorter first group never lets the pattern succeed where the longest fails. -/
def parseRange (cs : List Char) : Option (Nat × Option (List Char) × List Char) :=
  let d1 := spanDigits cs
  if d1.1.isEmpty then none
  else
    let d2 := spanDigits (dropComma d1.2)
    some (parseNat d1.1, if d2.1.isEmpty then none else some d2.1, d2.2)

/-- `_hdr_pat.match(line)`: groups 1..4 (`$` also matches before a final `'\n'`) -/
def parseHeader (line : Line) : Option (Nat × Option (List Char) × Nat × Option (List Char)) :=
  match stripPrefix ['@', '@', ' ', '-'] line with
  | none => none
  | some r =>
    match parseRange r with
    | none => none
    | some (n1, g2, r) =>
      match stripPrefix [' ', '+'] r with
      | none => none
      | some r =>
        match parseRange r with
        | none => none
        | some (n3, g4, r) =>
          match stripPrefix [' ', '@', '@'] r with
          | none => none
          | some r => if r = [] ∨ r = ['\n'] then some (n1, g2, n3, g4) else none

/-- `int(match.group(midx)) - 1 + (match.group(midx + 1) == '0')` -/
def hunkStart (n : Nat) (g : Option (List Char)) : Int :=
  (n : Int) - 1 + (if g = some ['0'] then 1 else 0)

/-- the effect of one hunk body line on `(target, sl)` -/
def bodyLine (sign : Char) (line : Line) (target : List Char) (sl : Nat) : List Char × Nat :=
  match line with
  | [] => (target, sl)
  | c :: tl => (if c = sign ∨ c = ' ' then target ++ tl else target, if c = sign then sl else sl + 1)

/-- the two nested `while` loops over the patch lines (they share the index `i`, so they are one pass):
`inHunk = false` only before the first hunk header; a line is taken as a hunk header when no hunk has been
opened yet or when it starts with `'@'`, otherwise it is a body line of the current hunk. -/
def go (source : List Line) (midx : Nat) (sign : Char) : Bool → List Line → List Char → Nat → Except Err (List Char)
  | _, [], target, sl => .ok (target ++ join (source.drop sl))
  | inHunk, p :: rest, target, sl =>
    if !inHunk || p.head? == some '@' then
      match parseHeader p with
      | none => .error .regexMismatch
      | some (n1, g2, n3, g4) =>
        if midx ≠ 1 ∧ midx ≠ 3 then .error .unrecognised
        else
          let l : Int := if midx = 1 then hunkStart n1 g2 else hunkStart n3 g4
          if (sl : Int) > l ∨ l > (source.length : Int) then .error .badLineNum
          else go source midx sign true rest (target ++ join ((source.drop sl).take (l.toNat - sl))) l.toNat
    else
      match rest with
      | [] =>
        let st := bodyLine sign p target sl
        go source midx sign true [] st.1 st.2
      | q :: rest' =>
        if q.head? = some '\\' then
          let st := bodyLine sign p.dropLast target sl
          go source midx sign true rest' st.1 st.2
        else
          let st := bodyLine sign p target sl
          go source midx sign true (q :: rest') st.1 st.2

def isFileHeader (l : Line) : Bool :=
  (stripPrefix ['-', '-', '-'] l).isSome || (stripPrefix ['+', '+', '+'] l).isSome

/-- `apply_patch` after the two `splitlines(True)` -/
def applyLinesWith (cfg : Config) (source patch : List Line) (revert : Bool) : Except Err (List Char) :=
  let ms := if revert then cfg.rev else cfg.fwd
  go source ms.1 ms.2 false (patch.dropWhile isFileHeader) [] 0

/-- `apply_patch(source, patch, revert)` -/
def applyPatchWith (cfg : Config) (source patch : List Char) (revert : Bool) : Except Err (List Char) :=
  applyLinesWith cfg (splitLines source) (splitLines patch) revert

/-! ### the functions of the tree under test -/

def withConfig {α : Type} (f : Config → Except Err α) : Except Err α :=
  match config with
  | some c => f c
  | none => .error .unrecognised

def makePatch (diffs : List Line) : Except Err (List Char) := withConfig fun c => .ok (makePatchWith c diffs)

def applyPatch (source patch : List Char) (revert : Bool) : Except Err (List Char) :=
  withConfig fun c => applyPatchWith c source patch revert

end Impl.Diff

/-! What `difflib.unified_diff` yields (modelled, not verified: the contract is checked per case by the
correspondence, which parses the real output into a `Script` and compares it with this rendering). -/
namespace Spec.Diff
open Impl.Diff

/-- one line of a hunk -/
inductive Op
  | ctx (l : Line)   -- in both texts
  | del (l : Line)   -- only in the old text
  | add (l : Line)   -- only in the new text
  deriving DecidableEq, Repr

/-- an edit script: stretches copied unchanged (outside every hunk) and hunks -/
inductive Seg
  | keep (ls : List Line)
  | hunk (ops : List Op)
  deriving Repr

abbrev Script := List Seg

def Op.line : Op → Line
  | .ctx l => l
  | .del l => l
  | .add l => l

def Op.tag : Op → Char
  | .ctx _ => ' '
  | .del _ => '-'
  | .add _ => '+'

def oldLines : List Op → List Line
  | [] => []
  | .add _ :: r => oldLines r
  | o :: r => o.line :: oldLines r

def newLines : List Op → List Line
  | [] => []
  | .del _ :: r => newLines r
  | o :: r => o.line :: newLines r

/-- the old text of a script (as lines) -/
def oldOf : Script → List Line
  | [] => []
  | .keep ls :: r => ls ++ oldOf r
  | .hunk ops :: r => oldLines ops ++ oldOf r

/-- the new text of a script (as lines) -/
def newOf : Script → List Line
  | [] => []
  | .keep ls :: r => ls ++ newOf r
  | .hunk ops :: r => newLines ops ++ newOf r

def digitChar (d : Nat) : Char := Char.ofNat (48 + d)

/-- decimal numeral -/
def digits (n : Nat) : List Char :=
  if n < 10 then [digitChar n] else digits (n / 10) ++ [digitChar (n % 10)]
termination_by n
decreasing_by omega

/-- `difflib._format_range_unified(start, start + count)` -/
def fmtRange (start count : Nat) : List Char :=
  if count = 1 then digits (start + 1)
  else digits (if count = 0 then start else start + 1) ++ ',' :: digits count

def hunkHeader (a ca b cb : Nat) : Line :=
  ['@', '@', ' ', '-'] ++ fmtRange a ca ++ [' ', '+'] ++ fmtRange b cb ++ [' ', '@', '@', '\n']

/-- a hunk line as yielded by difflib: tag + the line itself (which may lack its `'\n'`) -/
def opLine (o : Op) : Line := o.tag :: o.line

/-- hunks of a script; `a`, `b` = number of old / new lines before the current segment -/
def hunkLines : Script → Nat → Nat → List Line
  | [], _, _ => []
  | .keep ls :: r, a, b => hunkLines r (a + ls.length) (b + ls.length)
  | .hunk ops :: r, a, b =>
    hunkHeader a (oldLines ops).length b (newLines ops).length :: (ops.map opLine ++
      hunkLines r (a + (oldLines ops).length) (b + (newLines ops).length))

/-- the lines `difflib.unified_diff(old, new, fromfile=fname, tofile=fname, n=…)` yields when its hunks are those of `s`
(nothing at all when there is no hunk) -/
def unifiedDiff (fname : List Char) (s : Script) : List Line :=
  match hunkLines s 0 0 with
  | [] => []
  | body => (['-', '-', '-', ' '] ++ fname ++ ['\n']) :: (['+', '+', '+', ' '] ++ fname ++ ['\n']) :: body

end Spec.Diff

/-! ### `Protocol.diff` / `Protocol.patch`, file-wise (`files_to_proto` / `proto_to_files` are not modelled) -/
namespace Impl.Diff
open Spec.Diff

abbrev Files := List (List Char × List Char)

/-- `dict(files).get(name, '')` -/
def lookup (files : Files) (name : List Char) : List Char :=
  match files.reverse.find? (fun f => f.1 = name) with
  | some f => f.2
  | none => []

/-- is an argument of type `Protocol` accepted where `diff()` / `patch()` call it? -/
def protocolArg : Except Err Unit :=
  match Generated.C30.protocolCallable with
  | some true => .ok ()
  | some false => .error .typeError
  | none => .error .unrecognised

/-- `Protocol.diff`: one patch per file of `theirs`; `scripts` supplies, per file, the edit script
`difflib` finds between `yours.get(filename, '')` and their text -/
def protocolDiff (theirs : List (List Char × Script)) : Except Err Files :=
  if !Generated.C30.protocolDiffShape then .error .unrecognised
  else match protocolArg with
    | .error e => .error e
    | .ok () => theirs.mapM fun (name, s) => (makePatch (unifiedDiff name s)).map fun p => (name, p)

/-- `Protocol.patch` -/
def protocolPatch (yours : Files) (diff : Files) : Except Err Files :=
  if !Generated.C30.protocolPatchShape then .error .unrecognised
  else match protocolArg with
    | .error e => .error e
    | .ok () => diff.mapM fun (name, d) =>
        if d.isEmpty then .ok (name, lookup yours name)
        else (applyPatch (lookup yours name) d false).map fun t => (name, t)

end Impl.Diff
