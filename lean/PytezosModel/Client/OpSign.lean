import PytezosModel.Crypto.Key
import PytezosModel.Generated.C23
/-! Mirror of `OperationGroup.sign`, `binary_payload` and `hash` (`src/pytezos/operation/group.py`).

An operation group is seen through what these three methods read: the kinds of its contents (for the
validation pass), its chain id (Base58 text, may be undefined), and its locally forged bytes
`bytes.fromhex(self.forge())`.  Forging itself is property C06 and is an opaque byte string here.
The pass table and the two watermark bytes come from `Generated.C23`. -/
namespace Impl.OpSign
open Impl.Key

structure Group where
  kinds : List String        -- `x['kind']` of every content, in order
  chainId : Option Str       -- `self.chain_id`
  forged : Bytes             -- `bytes.fromhex(self.forge())`
deriving Repr

def hashRows : List Row := Generated.C23.hashRows.map Row.ofTuple

/-- `validation_passes[kind]` (`none` = KeyError) -/
def pass (kind : String) : Option Int :=
  Generated.C23.validationPasses.bind fun t => (t.find? fun r => r.1 == kind).map (·.2)

/-- `any(map(lambda x: validation_passes[x['kind']] != validation_pass, self.contents))`, evaluated lazily:
`.ok true` at the first differing pass, KeyError at the first unknown kind met before that -/
def anyOtherPass (p0 : Int) : List String → Except Err Bool
  | [] => .ok false
  | k :: ks =>
    match pass k with
    | none => .error (.other .lookup)
    | some p => if p != p0 then .ok true else anyOtherPass p0 ks

/-- the watermark `OperationGroup.sign` prepends -/
def watermark (C : Codec) (g : Group) : Except Err Bytes :=
  match Generated.C23.validationPasses, Generated.C23.signWatermarks with
  | some _, some (wmConsensus, wmOther) =>
    match g.kinds with
    | [] => .error (.other .lookup)                      -- IndexError: `self.contents[0]`
    | k0 :: _ =>
      match pass k0 with
      | none => .error (.other .lookup)                  -- KeyError
      | some p0 =>
        match anyOtherPass p0 g.kinds with
        | .error e => .error e
        | .ok true => .error (.valueError .mixedPasses)
        | .ok false =>
          if p0 = 0 then
            match g.chainId with
            | none => .error (.valueError .chainUndefined)
            | some cid =>
              match C.decode cid with
              | none => .error (.valueError .codec)
              | some raw => .ok (wmConsensus :: raw)
          else .ok [wmOther]
  | _, _ => .error .unrecognisedSource

/-- the message that is signed -/
def message (C : Codec) (g : Group) : Except Err Bytes :=
  match watermark C g with
  | .error e => .error e
  | .ok w => .ok (w ++ g.forged)

/-- `OperationGroup.sign().signature` -/
def signGroup (P : Prims) (C : Codec) (k : Key) (g : Group) : Except Err Str :=
  match message C g with
  | .error e => .error e
  | .ok m => sign P C k (.bytes m) true

/-- `binary_payload()` of a group carrying `signature` -/
def binaryPayload (C : Codec) (g : Group) (signature : Option Str) : Except Err Bytes :=
  if !Generated.C23.hashRecognised then .error .unrecognisedSource
  else
    match signature with
    | none => .error (.valueError .notSigned)
    | some s =>
      if s.isEmpty then .error (.valueError .notSigned)
      else
        match C.decode s with
        | none => .error (.valueError .codec)
        | some raw => .ok (g.forged ++ raw)

/-- `b'o'` -/
def tagO : Bytes := [111]

/-- `hash()` -/
def opHash (P : Prims) (C : Codec) (g : Group) (signature : Option Str) : Except Err Str :=
  match binaryPayload C g signature with
  | .error e => .error e
  | .ok bp => orErr (C.encode (P.blake2b 32 bp) tagO) (.valueError .codec)

end Impl.OpSign
