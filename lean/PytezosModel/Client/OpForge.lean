import PytezosModel.Client.OpLayout
/-! Operation groups (C06).

`Impl.OpForge.forgeGroup` mirrors `forge_operation_group` / `forge_operation` (src/pytezos/operation/forge.py): the
branch hash, then for every content the tag byte `operation_tags[kind]` followed by the straight-line body of
`forge_<kind>`, which is run generically (`encodeL`) over the layout the translator extracted from that body.

`Spec.Op.tezosOps` is a hand transcription of the Tezos operation encoding (`Operation_repr.contents_encoding`,
protocol 023 "Seoul" and later: reveal carries the optional BLS proof of possession) for the ten kinds of the
property; `Spec.Op.decodeGroup` reads an unsigned operation: 32-byte branch, then contents until the end of the
buffer, each one dispatched on its tag byte. -/

namespace OpLayout

structure Content where
  kind : String
  fields : Record
  deriving Repr, Inhabited

structure Group where
  branch : Core.Bytes
  contents : List Content
  deriving Repr, Inhabited

end OpLayout

namespace Impl.OpForge
open Core OpLayout
open Generated.C06 (Codec Cond Field)

/-- the body of `forge_<kind>` as a layout: the dispatch dict of `forge_operation`, then the translated body -/
def layoutOf (kind : String) : Option (List Field) := (lookup Generated.C06.opLayouts kind).bind id

/-- `operation_tags[kind]` -/
def tagOf (kind : String) : Option Nat := Generated.C06.operationTags.bind (lookup · kind)

/-- `forge_operation(content)`; `none` = NotImplementedError / KeyError / OverflowError / a field of the wrong shape -/
def forgeOperation (c : Content) : Option Bytes := do
  let l ← layoutOf c.kind
  let t ← tagOf c.kind
  let tb ← natToBE 1 t
  let body ← encodeL l c.fields
  pure (tb ++ body)

/-- `b''.join(map(forge_operation, contents))` -/
def forgeContents : List Content → Option Bytes
  | [] => some []
  | c :: cs => do
    let a ← forgeOperation c
    let b ← forgeContents cs
    pure (a ++ b)

/-- `forge_operation_group`: `forge_base58(branch)` then the contents -/
def forgeGroup (g : Group) : Option Bytes :=
  if Generated.C06.helpersAsMirrored then (forgeContents g.contents).map (g.branch ++ ·) else none

end Impl.OpForge

namespace Spec.Op
open Core OpLayout
open Generated.C06 (Cond)

structure KindRow where
  kind : String
  tag : Nat
  /-- validation pass (`-1`: never included in a block) -/
  pass : Int
  layout : List SField
  deriving DecidableEq, Repr, Inhabited

/-- source, fee, counter, gas_limit, storage_limit -/
def managerHeader : List SField :=
  [.req "source" .pkh, .req "fee" .nat, .req "counter" .nat, .req "gas_limit" .nat, .req "storage_limit" .nat]

def tezosOps : List KindRow :=
  [ { kind := "reveal", tag := 107, pass := 3,
      layout := managerHeader ++ [.req "public_key" .pubkey, .opt "proof" .plain [("proof", .dynFixed 96)]] },
    { kind := "transaction", tag := 108, pass := 3,
      layout := managerHeader ++ [.req "amount" .nat, .req "destination" .addr,
        .opt "parameters" .elideDefaultUnit [("parameters.entrypoint", .entrypoint), ("parameters.value", .mich4)]] },
    { kind := "origination", tag := 109, pass := 3,
      layout := managerHeader ++ [.req "balance" .nat, .opt "delegate" .plain [("delegate", .pkh)],
        .req "script.code" .mich4, .req "script.storage" .mich4] },
    { kind := "delegation", tag := 110, pass := 3,
      layout := managerHeader ++ [.opt "delegate" .plain [("delegate", .pkh)]] },
    { kind := "register_global_constant", tag := 111, pass := 3,
      layout := managerHeader ++ [.req "value" .mich4] },
    { kind := "transfer_ticket", tag := 158, pass := 3,
      layout := managerHeader ++ [.req "ticket_contents" .mich4, .req "ticket_ty" .mich4, .req "ticket_ticketer" .addr,
        .req "ticket_amount" .nat, .req "destination" .addr, .req "entrypoint" (.dynMax 31)] },
    { kind := "smart_rollup_add_messages", tag := 201, pass := 3,
      layout := managerHeader ++ [.req "message" .list4] },
    { kind := "smart_rollup_execute_outbox_message", tag := 206, pass := 3,
      layout := managerHeader ++ [.req "rollup" (.fixed 20), .req "cemented_commitment" (.fixed 32), .req "output_proof" .bytes4] },
    { kind := "failing_noop", tag := 17, pass := -1,
      layout := [.req "arbitrary" .bytes4] },
    { kind := "activate_account", tag := 4, pass := 2,
      layout := [.req "pkh" (.fixed 20), .req "secret" (.fixed 20)] } ]

def rowOfKind (k : String) : Option KindRow := tezosOps.find? (·.kind == k)
def rowOfTag (t : Nat) : Option KindRow := tezosOps.find? (·.tag == t)

/-- one content: tag byte, then the fields of that kind -/
def decodeContent : Bytes → Option (Content × Bytes)
  | [] => none
  | t :: d1 =>
    match rowOfTag t with
    | none => none
    | some row => (decodeL row.layout d1).map fun (r, rest) => (⟨row.kind, r⟩, rest)

/-- contents until the buffer is exhausted -/
def decodeContents : (fuel : Nat) → Bytes → Option (List Content)
  | fuel, d =>
    if d.length = 0 then some []
    else
      match fuel with
      | 0 => none
      | fuel' + 1 =>
        match decodeContent d with
        | none => none
        | some (c, rest) => (decodeContents fuel' rest).map (c :: ·)

/-- an unsigned operation: 32-byte branch + at least one content -/
def decodeGroup (bs : Bytes) : Option Group :=
  if bs.length ≤ 32 then none
  else (decodeContents bs.length (bs.drop 32)).map fun cs => ⟨bs.take 32, cs⟩

def WFContent (c : Content) : Bool :=
  match rowOfKind c.kind with
  | none => false
  | some row => WFRecord row.layout c.fields

def WFGroup (g : Group) : Bool :=
  g.branch.length == 32 && !g.contents.isEmpty && g.contents.all WFContent

def normContent (c : Content) : Content :=
  match rowOfKind c.kind with
  | none => c
  | some row => ⟨c.kind, normL row.layout c.fields⟩

/-- the group Tezos reads back: `parameters = (default, Unit)` is the absent parameter -/
def normGroup (g : Group) : Group := ⟨g.branch, g.contents.map normContent⟩

end Spec.Op

/-! ### the canonical writer of the schema

Written from the Tezos tables only (`pkhPrefixes`, `originatedPrefixes`, `publicKeys`, `reservedEntrypoints`, `tezosOps`);
nothing regenerated from the Python source is used.  The primitive writers (zarith N, 4-byte length prefix, Micheline) are
the shared `Core` / `Impl.Forge` definitions whose own canonicity is C05's subject. -/
namespace Spec.Op
open Core OpLayout
open Generated.C06 (Cond)

def writePkh (p : String) (h : Bytes) : Option Bytes :=
  (pkhPrefixes.find? (·.2 == p)).map fun r => r.1 :: h

def writeAddr (p : String) (h : Bytes) : Option Bytes :=
  match pkhPrefixes.find? (·.2 == p) with
  | some r => some (0 :: r.1 :: h)
  | none => (originatedPrefixes.find? (·.2 == p)).map fun r => r.1 :: (h ++ [0])

def writePubkey (p : String) (k : Bytes) : Option Bytes :=
  (publicKeys.find? (·.2.1 == p)).map fun r => r.1 :: k

/-- the first matching case of the union: a reserved name is written as its tag, never as a named entrypoint -/
def writeEntrypoint (n : Bytes) : Option Bytes :=
  match reservedEntrypoints.find? (·.2.1 == n) with
  | some r => some [r.2.2]
  | none => if n.length < 256 then some (255 :: n.length :: n) else none

def writeC : SCodec → Val → Option Bytes
  | .nat, .nat n => some (forgeNat n)
  | .fixed _, .raw b => some b
  | .pkh, .addr p h => writePkh p h
  | .addr, .addr p h => writeAddr p h
  | .pubkey, .pubkey p k => writePubkey p k
  | .bytes4, .raw b => forgeArray 4 b
  | .dynFixed _, .raw b => forgeArray 4 b
  | .dynMax _, .raw b => forgeArray 4 b
  | .mich4, .mich e => (Impl.Forge.forge e).bind (forgeArray 4)
  | .entrypoint, .ep n => writeEntrypoint n
  | .list4, .list xs => (Impl.OpForge.forgeItems xs).bind (forgeArray 4)
  | _, _ => none

def writeFields : List (String × SCodec) → List Val → Option Bytes
  | [], [] => some []
  | (_, c) :: fs, v :: vs => do
    let a ← writeC c v
    let b ← writeFields fs vs
    pure (a ++ b)
  | _, _ => none

def writeF : SField → FVal → Option Bytes
  | .req _ c, .req v => writeC c v
  | .opt _ _ _, .opt none => some [0]
  | .opt _ cond fs, .opt (some vs) =>
    -- `Transaction`: parameters are `None` when the entrypoint is default and the value is Unit
    if cond == .elideDefaultUnit && Impl.OpForge.elided vs then some [0]
    else (writeFields fs vs).map (255 :: ·)
  | _, _ => none

def writeL : List SField → Record → Option Bytes
  | [], [] => some []
  | f :: fs, v :: vs => do
    let a ← writeF f v
    let b ← writeL fs vs
    pure (a ++ b)
  | _, _ => none

def writeContent (c : Content) : Option Bytes :=
  match rowOfKind c.kind with
  | none => none
  | some row => (writeL row.layout c.fields).map (row.tag :: ·)

def writeContents : List Content → Option Bytes
  | [] => some []
  | c :: cs => do
    let a ← writeContent c
    let b ← writeContents cs
    pure (a ++ b)

/-- canonical bytes of an unsigned operation: branch, then the contents -/
def writeGroup (g : Group) : Option Bytes := (writeContents g.contents).map (g.branch ++ ·)

end Spec.Op
