import PytezosModel.Client.Merkle
import PytezosModel.Crypto.Encoding
/-! The three PUBLIC functions of `src/pytezos/crypto/hash.py` end to end — Base58Check strings in, Base58Check string
out — on top of `Impl.Merkle` (the array algorithm) and `Impl.Encoding` (the C09 mirror of `base58_encode` /
`base58_decode`).  `cks` is the Base58Check checksum, `H` the hash; the driver instantiates them with the executable
double SHA-256 and BLAKE2b-256 (`RealHash`), the toy-hash stream of the harness keeps using the raw layer below.

Order of evaluation as in Python: `list(map(base58_decode, items))` raises at the first item that does not decode;
in `block_payload_hash` the predecessor is decoded first, then `payload_round.to_bytes(4, 'big')`, then the items. -/
namespace Impl.MerkleText
open Impl.Encoding Impl.Merkle

inductive Err where
  | unrecognisedSource            -- a prefix / the round width was not read from the source
  | b58 (e : Impl.Encoding.Err)   -- ValueError of base58_decode / base58_encode
  | overflow                      -- OverflowError of `to_bytes`
  | index                         -- IndexError inside `_reduce_operation_hashes` (proved unreachable)
deriving DecidableEq, Repr

def chars (s : String) : List Nat := s.toList.map Char.toNat

def liftB (r : Except Impl.Encoding.Err α) : Except Err α :=
  match r with
  | .ok v => .ok v
  | .error e => .error (.b58 e)

/-- `list(map(lambda x: base58_decode(x.encode()), items))` -/
def decodeAll (cks : List Nat → List Nat) : List (List Nat) → Except Err (List Bytes)
  | [] => .ok []
  | x :: xs =>
    match base58Decode cks x with
    | .error e => .error (.b58 e)
    | .ok v =>
      match decodeAll cks xs with
      | .error e => .error e
      | .ok vs => .ok (v :: vs)

def reduceE (H : Bytes → Bytes) (raw : List Bytes) : Except Err Bytes :=
  match reduce H raw with
  | none => .error .index
  | some r => .ok r

def withPrefix (p : Option String) (f : List Nat → Except Err (List Nat)) : Except Err (List Nat) :=
  match p with
  | none => .error .unrecognisedSource
  | some p => f (chars p)

/-- `operation_list_hash(operation_hashes)` -/
def operationListHash (cks : List Nat → List Nat) (H : Bytes → Bytes) (ops : List (List Nat)) : Except Err (List Nat) :=
  withPrefix Generated.C31.opListPrefix fun pfx =>
    match decodeAll cks ops with
    | .error e => .error e
    | .ok raw =>
      match reduceE H raw with
      | .error e => .error e
      | .ok res => liftB (base58Encode cks res pfx)

/-- `list(map(operation_list_hash, operations_hashes))` -/
def listHashes (cks : List Nat → List Nat) (H : Bytes → Bytes) : List (List (List Nat)) → Except Err (List (List Nat))
  | [] => .ok []
  | g :: gs =>
    match operationListHash cks H g with
    | .error e => .error e
    | .ok s =>
      match listHashes cks H gs with
      | .error e => .error e
      | .ok ss => .ok (s :: ss)

/-- `operation_list_list_hash(operations_hashes)` -/
def operationListListHash (cks : List Nat → List Nat) (H : Bytes → Bytes) (opss : List (List (List Nat))) :
    Except Err (List Nat) :=
  withPrefix Generated.C31.opListListPrefix fun pfx =>
    match listHashes cks H opss with
    | .error e => .error e
    | .ok los =>
      match decodeAll cks los with
      | .error e => .error e
      | .ok raw =>
        match reduceE H raw with
        | .error e => .error e
        | .ok res => liftB (base58Encode cks res pfx)

/-- `block_payload_hash(predecessor, payload_round, operation_hashes)` for a non-negative round -/
def blockPayloadHash (cks : List Nat → List Nat) (H : Bytes → Bytes) (pred : List Nat) (round : Nat)
    (ops : List (List Nat)) : Except Err (List Nat) :=
  withPrefix Generated.C31.payloadPrefix fun pfx =>
    match base58Decode cks pred with
    | .error e => .error (.b58 e)
    | .ok p =>
      match Generated.C31.roundBytes with
      | none => .error .unrecognisedSource
      | some k =>
        match toBytesBE k round with
        | none => .error .overflow
        | some rb =>
          match decodeAll cks ops with
          | .error e => .error e
          | .ok raw =>
            match reduceE H raw with
            | .error e => .error e
            | .ok r => liftB (base58Encode cks (H (p ++ rb ++ r)) pfx)

end Impl.MerkleText
