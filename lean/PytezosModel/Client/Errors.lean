import PytezosModel.Generated.C27
/-! Mirror of `_gen_error_variants`, the `RpcError.__handlers__` registry and `RpcError.from_errors`
(src/pytezos/rpc/node.py).  Strings are lists of character codes; an error is reduced to its `id` (the only entry
the mapping looks at).  Which shape `_gen_error_variants` has, the separator, the `proto` literal and the registry
come from `Generated.C27`. -/
namespace Impl.Errors

abbrev Str := List Nat

/-- Python `s.split(sep)` for a one-character separator: never empty -/
def split (sep : Nat) : Str → List Str
  | [] => [[]]
  | c :: cs =>
    if c = sep then [] :: split sep cs
    else
      match split sep cs with
      | [] => [[c]]                 -- unreachable (`split` is never empty), kept total
      | h :: t => (c :: h) :: t

/-- Python `sep.join(chunks)` -/
def join (sep : Nat) : List Str → Str
  | [] => []
  | [x] => x
  | x :: y :: rest => x ++ sep :: join sep (y :: rest)

/-- pinned tree:
```
chunks = error_id.split('.'); variants = [error_id]
if len(chunks) > 1:
    variants.append(chunks[-2])
    if len(chunks) > 2: variants.append('.'.join(chunks[2:]))
``` -/
def variantsPinned (sep : Nat) (id : Str) : List Str :=
  let chunks := split sep id
  [id] ++
    (if 1 < chunks.length then
      chunks[chunks.length - 2]?.toList ++ (if 2 < chunks.length then [join sep (chunks.drop 2)] else [])
     else [])

/-- repaired:
```
chunks = error_id.split('.')
if chunks[0] == 'proto' and len(chunks) > 2: chunks = chunks[2:]
return [error_id, '.'.join(chunks), chunks[-1], chunks[0]]
```
(`chunks[-1]` / `chunks[0]` cannot fail: `split` is never empty and the slice keeps at least one chunk) -/
def variantsRepaired (sep : Nat) (proto : Str) (id : Str) : List Str :=
  let chunks := split sep id
  let chunks := if chunks.head? = some proto ∧ 2 < chunks.length then chunks.drop 2 else chunks
  [id, join sep chunks] ++ chunks.getLast?.toList ++ chunks.head?.toList

/-- what the translator recognised of `_gen_error_variants` -/
inductive Variants
  | pinned (sep : Nat)
  | repaired (sep : Nat) (proto : Str)
  deriving DecidableEq, Repr

def Variants.apply : Variants → Str → List Str
  | .pinned sep, id => variantsPinned sep id
  | .repaired sep proto, id => variantsRepaired sep proto id

/-- dict semantics of `cls.__handlers__[eid] = cls`: a later registration of the same key wins -/
def lookup {κ : Type} : List (Str × κ) → Str → Option κ
  | [], _ => none
  | (k', c) :: rest, k =>
    match lookup rest k with
    | some c' => some c'
    | none => if k' = k then some c else none

/-- `for key in variants: if key in handlers: return handlers[key]` -/
def firstRegistered {κ : Type} (reg : List (Str × κ)) : List Str → Option κ
  | [] => none
  | k :: ks =>
    match lookup reg k with
    | some c => some c
    | none => firstRegistered reg ks

/-- the exception `from_errors` builds: its class and the index of the error it is built from -/
inductive Raised (κ : Type)
  | unspecified                       -- RpcError('Unspecified error')
  | handler (cls : κ) (idx : Nat)     -- handler(errors[idx])
  | generic (idx : Nat)               -- RpcError(errors[idx])
  deriving DecidableEq, Repr

/-- `RpcError.from_errors(errors)`, `ids` = the `id` of each error -/
def fromErrors {κ : Type} (v : Variants) (reg : List (Str × κ)) (ids : List Str) : Raised κ :=
  match ids.getLast? with
  | none => .unspecified
  | some id =>
    match firstRegistered reg (v.apply id) with
    | some c => .handler c (ids.length - 1)
    | none => .generic (ids.length - 1)

/-- the recognised shape of `_gen_error_variants` with its literals -/
def variantsFn : Option Variants := do
  let sep ← Generated.C27.separator
  match ← Generated.C27.variantShape with
  | .pinned => some (.pinned sep)
  | .repaired => do
    let proto ← Generated.C27.protoLiteral
    some (.repaired sep proto)

/-- `_gen_error_variants(error_id)` of the tree under test -/
def variants (id : Str) : Option (List Str) := variantsFn.map fun v => v.apply id

/-- `RpcError.from_errors` of the tree under test with the registry of the tree under test -/
def classify (ids : List Str) : Option (Raised Generated.C27.Cls) := do
  let v ← variantsFn
  let reg ← Generated.C27.registry
  if Generated.C27.fromErrorsRecognised then some (fromErrors v reg ids) else none

end Impl.Errors

/-! What property C27 demands.  An identifier is a non-empty list of dot-free components
`proto.<protocol>.<category>.<name>` or a shorter / longer form. -/
namespace Spec.Errors
open Impl.Errors (Str join lookup)

def dot : Nat := 46
/-- "proto" -/
def proto : Str := [112, 114, 111, 116, 111]

/-- the components after the `proto.<protocol>.` prefix (the prefix is present when the first component is `proto`
and something follows the protocol name) -/
def stripProto : List Str → List Str
  | p :: q :: c :: rest => if p = proto then c :: rest else p :: q :: c :: rest
  | cs => cs

/-- the identifier itself -/
def fullId (cs : List Str) : Str := join dot cs
/-- the identifier without its protocol prefix -/
def withoutProto (cs : List Str) : Str := join dot (stripProto cs)
/-- its final component -/
def finalComponent (cs : List Str) : Option Str := (stripProto cs).getLast?
/-- its category: the first component after the protocol prefix -/
def category (cs : List Str) : Option Str := (stripProto cs).head?

/-- the keys an identifier matches, most specific first -/
def variants (cs : List Str) : List Str :=
  [fullId cs, withoutProto cs] ++ (finalComponent cs).toList ++ (category cs).toList

/-- `k` is the key of specificity rank `n` (0 = full id … 3 = category) of the identifier -/
def keyAt (cs : List Str) (n : Nat) : Option Str := (variants cs)[n]?

/-- the class of the most specific registered key: the registered key of least rank -/
def MostSpecific {κ : Type} (reg : List (Str × κ)) (cs : List Str) (c : κ) : Prop :=
  ∃ n k, keyAt cs n = some k ∧ lookup reg k = some c ∧ ∀ m, m < n → ∀ k', keyAt cs m = some k' → lookup reg k' = none

def NoneRegistered {κ : Type} (reg : List (Str × κ)) (cs : List Str) : Prop :=
  ∀ k ∈ variants cs, lookup reg k = none

end Spec.Errors
