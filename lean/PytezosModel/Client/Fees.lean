import PytezosModel.Generated.C24
import PytezosModel.Core.Zarith
/-! Mirror of the fee arithmetic of `src/pytezos/operation/fees.py` (`calculate_fee`, `default_fee`,
`default_gas_limit`, `default_storage_limit`) and of the way `OperationGroup.fill` / `OperationGroup.autofill`
(`src/pytezos/operation/group.py`) choose `fee`, `counter`, `gas_limit`, `storage_limit` for the contents of a
batch of manager operations.  Every constant, table and the two shape switches (which contents get a fee in
`fill`; how many signature bytes are allowed for) come from `Generated.C24`, regenerated from the source on
every run.

A content is abstracted to its kind, whether its destination starts with `KT`, and `base` = the number of
bytes of its forged form other than the four zarith fields `fee`, `counter`, `gas_limit`, `storage_limit`
(forging itself is C06); the forged length is then `base + |fee| + |counter| + |gas_limit| + |storage_limit|`
with `|n|` the length of `forge_nat n` (the verified `Core.forgeNat`).

Python's `int(a * g / 1000)` and `math.ceil(m / 1000)` are *float* divisions.  They are modelled as the exact
floor / ceiling only under the guard `a * g < 2^53` (resp. `m < 2^53`), where the correctly rounded quotient
cannot reach the next integer; outside the guard the model is undefined (`none`). -/
namespace Impl.Fees
open Generated.C24

/-- length of `forge_nat n` -/
def natLen (n : Nat) : Nat := (Core.forgeNat n).length

/-- everything the translator reads from the source -/
structure Cfg where
  minimalFees : Nat
  mutezPerByte : Nat
  nanotezPerGas : Nat
  divisor : Nat
  reserve : Nat
  defaultHardGas : Nat
  defaultHardStorage : Nat
  gasTable : List (String × Limit)
  storageTable : List (String × Limit)
  feeBranch : Nat
  feeSig : Nat × Nat
  feeSlack : Nat
  fillFee : FillFee
  autoBranch : Nat
  autoSig : Nat × Nat
  autoPlus : Nat
  gasReserve : Nat
  burnReserve : Nat
  reserveKinds : List String
  milligasDivisor : Nat
  burned : Nat

/-- `none` as soon as one construct of the source was not recognised -/
def cfg : Option Cfg := do
  let minimalFees ← Generated.C24.minimalFees
  let mutezPerByte ← Generated.C24.mutezPerByte
  let nanotezPerGas ← Generated.C24.nanotezPerGas
  let divisor ← Generated.C24.feeDivisor
  let reserve ← Generated.C24.reserve
  let defaultHardGas ← Generated.C24.defaultHardGas
  let defaultHardStorage ← Generated.C24.defaultHardStorage
  let gasTable ← Generated.C24.gasTable
  let storageTable ← Generated.C24.storageTable
  let feeBranch ← Generated.C24.feeBranch
  let feeSig ← Generated.C24.feeSigAllowance
  let feeSlack ← Generated.C24.feeSlack
  let fillFee ← Generated.C24.fillFee
  let _ ← Generated.C24.fillKeyOrder
  let autoBranch ← Generated.C24.autoBranch
  let autoSig ← Generated.C24.autoSigAllowance
  let autoPlus ← Generated.C24.autoPlus
  let gasReserve ← Generated.C24.gasReserve
  let burnReserve ← Generated.C24.burnReserve
  let reserveKinds ← Generated.C24.reserveKinds
  let milligasDivisor ← Generated.C24.milligasDivisor
  let burned ← Generated.C24.burnedPerAllocation
  some { minimalFees, mutezPerByte, nanotezPerGas, divisor, reserve, defaultHardGas, defaultHardStorage, gasTable,
         storageTable, feeBranch, feeSig, feeSlack, fillFee, autoBranch, autoSig, autoPlus, gasReserve, burnReserve,
         reserveKinds, milligasDivisor, burned }

/-- bound below which `int(a / d)` on floats is the exact floor and `ceil(a / d)` the exact ceiling -/
def floatExact : Nat := 2 ^ 53

/-- `int(a / d)` for Python ints `a`, `d` (true division, then truncation) — defined under the guard only -/
def pyTruncDiv (a d : Nat) : Option Nat := if a < floatExact then some (a / d) else none

/-- `math.ceil(a / d)` — defined under the guard only -/
def pyCeilDiv (a d : Nat) : Option Nat := if a < floatExact then some ((a + (d - 1)) / d) else none

/-- the environment of one `fill` / `autofill` call -/
structure Env where
  src : String        -- first three characters of the source address: "tz1" … "tz4"
  hardGas : Nat       -- constants['hard_gas_limit_per_operation'] of the node
  hardStorage : Nat
  counter : Nat       -- counter of the account on the node (the context has no cached counter)
  pending : Nat       -- contents of the account pending in the mempool (`get_counter_offset`)

structure Content where
  kind : String
  destKT : Bool
  base : Nat
  deriving Repr, DecidableEq

/-- a content after fill / autofill -/
structure Filled where
  base : Nat
  fee : Nat
  counter : Nat
  gas : Nat
  storage : Nat
  deriving Repr, DecidableEq

/-- `len(forge_operation(content))` -/
def Filled.len (f : Filled) : Nat := f.base + natLen f.fee + natLen f.counter + natLen f.gas + natLen f.storage

def evalLimit (l : Limit) (src : String) (destKT : Bool) (hard : Nat) : Option Nat :=
  match l with
  | .const n => some n
  | .hard => some hard
  | .hardIfKT n => some (if destKT then hard else n)
  | .bySourcePrefix t => t.lookup src

/-- `default_gas_limit(content, constants)` / `default_storage_limit`: the whole `values` dict is built first
(so a source prefix missing from the reveal row is a KeyError whatever the kind), then indexed by kind -/
def limitOf (t : List (String × Limit)) (kind src : String) (destKT : Bool) (hard : Nat) : Option Nat := do
  let vals ← t.mapM fun (k, l) => (evalLimit l src destKT hard).map fun v => (k, v)
  vals.lookup kind

def sigAllow (p : Nat × Nat) (src : String) : Nat := if src = "tz4" then p.2 else p.1

/-- `calculate_fee(content, consumed_gas, extra_size)` with `len(forge_operation(content)) = len` -/
def calcFee (k : Cfg) (len extra gas : Nat) : Option Nat :=
  (pyTruncDiv (k.nanotezPerGas * gas) k.divisor).map fun q =>
    k.minimalFees + k.mutezPerByte * (len + extra) + q + k.reserve

/-- one content of `fill()` (no explicit counter / gas_limit / storage_limit / fee), `i`-th of `n` -/
def fillOne (k : Cfg) (env : Env) (n i : Nat) (c : Content) : Option Filled := do
  let dg ← limitOf k.gasTable c.kind env.src c.destKT env.hardGas
  let ds ← limitOf k.storageTable c.kind env.src c.destKT env.hardStorage
  let f0 : Filled := { base := c.base, fee := 0, counter := env.counter + 1 + i,
                       gas := min (env.hardGas / n) dg, storage := min (env.hardStorage / n) ds }
  let extra := k.feeBranch + sigAllow k.feeSig env.src + k.feeSlack
  match k.fillFee with
  | .firstOnlyDefaultGas =>
    if i = 0 then do
      let g ← limitOf k.gasTable c.kind env.src c.destKT k.defaultHardGas   -- default_gas_limit(content): DEFAULT_CONSTANTS
      let fee ← calcFee k f0.len extra g
      some { f0 with fee := fee }
    else some f0
  | .everyOwnGas => do
    let fee ← calcFee k f0.len extra f0.gas
    some { f0 with fee := fee }

def fillGo (k : Cfg) (env : Env) (n : Nat) : Nat → List Content → Option (List Filled)
  | _, [] => some []
  | i, c :: cs => do
    let o ← fillOne k env n i c
    let rest ← fillGo k env n (i + 1) cs
    some (o :: rest)

/-- `OperationGroup.fill()`; an empty group divides by zero -/
def fillWith (k : Cfg) (env : Env) (cs : List Content) : Option (List Filled) :=
  if cs.length = 0 then none else fillGo k env cs.length 0 cs

/-- one operation result of the simulation (the content's own result or an internal one) -/
structure SimRes where
  milligas : Nat
  storageDiff : Nat
  alloc : Bool      -- allocated_destination_contract or originated_contracts
  deriving Repr, DecidableEq

/-- `OperationResult.consumed_gas` -/
def consumedGas (k : Cfg) : List SimRes → Option Nat
  | [] => some 0
  | r :: rs => do
    let g ← pyCeilDiv r.milligas k.milligasDivisor
    let rest ← consumedGas k rs
    some (g + rest)

def storageUsed (k : Cfg) : List SimRes → Nat
  | [] => 0
  | r :: rs => r.storageDiff + (if r.alloc then k.burned else 0) + storageUsed k rs

/-- body of autofill's loop for one content: new limits, counter moved by the mempool offset, fee contribution -/
def autoOne (k : Cfg) (env : Env) (n : Nat) (f : Filled) (kind : String) (sim : List SimRes) : Option (Filled × Nat) := do
  let g0 ← consumedGas k sim
  let rsv := kind ∈ k.reserveKinds
  let gas := g0 + (if rsv then k.gasReserve else 0)
  let st := storageUsed k sim + (if rsv then k.burnReserve else 0)
  let o : Filled := { base := f.base, fee := 0, counter := f.counter + env.pending, gas := gas, storage := st }
  let fee ← calcFee k o.len (k.autoPlus + (k.autoBranch + sigAllow k.autoSig env.src) / n) gas
  some (o, fee)

def autoGo (k : Cfg) (env : Env) (n : Nat) : List (Filled × String × List SimRes) → Option (List Filled × Nat)
  | [] => some ([], 0)
  | (f, kind, sim) :: rest => do
    let (o, fee) ← autoOne k env n f kind sim
    let (os, acc) ← autoGo k env n rest
    some (o :: os, fee + acc)

/-- `if fee or fee_acc: opg.contents[0]['fee'] = str(fee_acc)` -/
def setFirstFee : List Filled → Nat → List Filled
  | [], _ => []
  | o :: os, fee => (if fee = 0 then o else { o with fee := fee }) :: os

def zip3 : List Filled → List Content → List (List SimRes) → List (Filled × String × List SimRes)
  | f :: fs, c :: cs, s :: ss => (f, c.kind, s) :: zip3 fs cs ss
  | _, _, _ => []

/-- `OperationGroup.autofill()` with the simulation results `sims` (one list of results per content) -/
def autofillWith (k : Cfg) (env : Env) (cs : List Content) (sims : List (List SimRes)) : Option (List Filled) := do
  let filled ← fillWith k env cs
  if sims.length ≠ cs.length then none else
  let (os, acc) ← autoGo k env cs.length (zip3 filled cs sims)
  some (setFirstFee os acc)

def fill (env : Env) (cs : List Content) : Option (List Filled) := cfg.bind fun k => fillWith k env cs
def autofill (env : Env) (cs : List Content) (sims : List (List SimRes)) : Option (List Filled) :=
  cfg.bind fun k => autofillWith k env cs sims

def totalFee : List Filled → Nat
  | [] => 0
  | o :: os => o.fee + totalFee os

def totalGas : List Filled → Nat
  | [] => 0
  | o :: os => o.gas + totalGas os

def totalLen : List Filled → Nat
  | [] => 0
  | o :: os => o.len + totalLen os

end Impl.Fees

/-! What the property demands: the default mempool filter of the node and the size of a signed operation. -/
namespace Spec.Fees

/-- node defaults: `minimal_fees` = 100 mutez, `minimal_nanotez_per_byte` = 1000, `minimal_nanotez_per_gas_unit` = 100;
the operation is accepted iff its fee, in nanotez, reaches the minimum — i.e. fee ≥ ⌈100 + size + 0.1·gas⌉ mutez -/
def accepts (fee size gas : Nat) : Prop := 100000 + 1000 * size + 100 * gas ≤ 1000 * fee

instance (fee size gas : Nat) : Decidable (accepts fee size gas) := by unfold accepts; infer_instance

/-- bytes of the signature: BLS (tz4) signatures are 96 bytes, Ed25519 / Secp256k1 / P-256 ones 64 -/
def sigLen (src : String) : Nat := if src = "tz4" then 96 else 64

/-- size of the signed operation: branch ++ contents ++ signature -/
def signedSize (src : String) (out : List Impl.Fees.Filled) : Nat := 32 + Impl.Fees.totalLen out + sigLen src

end Spec.Fees
