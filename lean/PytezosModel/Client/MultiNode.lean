import PytezosModel.Generated.C28
/-! Mirror of `RpcMultiNode.request` (src/pytezos/rpc/node.py): a list of nodes and the index
`_next_i` of the node the next request goes to.  Whether the index is advanced when the node's
`request` raises is read from the source by the translator (`Generated.C28.advanceOnError`). -/
namespace Impl.MultiNode

/-- one request: the node used, and the new `_next_i` -/
def step (adv : Bool) (n : Nat) (next : Nat) (ok : Bool) : Nat × Nat :=
  (next, if ok || adv then (next + 1) % n else next)

def run (adv : Bool) (n : Nat) : Nat → List Bool → List Nat
  | _, [] => []
  | next, ok :: rest => next :: run adv n (step adv n next ok).2 rest

/-- nodes used by a fresh client with `n` nodes for the given per-request outcomes (`true` = success) -/
def nodesUsed (n : Nat) (outcomes : List Bool) : Option (List Nat) :=
  Generated.C28.advanceOnError.map fun adv => run adv n 0 outcomes

end Impl.MultiNode
