import PytezosModel.Generated.C29
/-! Mirror of the chain-history search helpers of `src/pytezos/rpc/search.py`:
`find_state_change_intervals`, `find_state_change` (bisection), `walk_state_change_interval`,
`find_state_changes`, as pure functions over a history `get : Nat → V` (`equals` is `==`, i.e. decidable
equality on `V`).  Every function also returns the levels `get` was called on, in call order (the RPC
traffic), which the correspondence compares with the real code.

Facts read from the source by the translator (`Generated.C29`): are the logging statements well-formed
(otherwise the first one reached raises `TypeError`), is the interval between `last` and the lowest probed
level examined, are the intervals walked upwards, the default of `step`, and whether the bodies of
`find_state_change` / `walk_state_change_interval` are the recognised ones. -/
namespace Impl.Search

inductive Err
  | typeError      -- `'%s … %s' % value, level`: not enough arguments for format string
  | recursion      -- `bisect(start, end)` with `end ≤ start` never reaches `end == start + 1`
  | valueError     -- `range()` arg 3 must not be zero
  | unrecognised   -- the source no longer has a shape the translator knows
  deriving DecidableEq, Repr

structure Config where
  logOk : Bool
  tail : Bool
  asc : Bool
  deriving DecidableEq, Repr

/-- the configuration of the tree under test; `none` when a helper has an unrecognised body -/
def config : Option Config :=
  match Generated.C29.logFormatOk, Generated.C29.tailInterval, Generated.C29.ascending with
  | some l, some t, some a =>
    if Generated.C29.bisectShape && Generated.C29.walkShape then some ⟨l, t, a⟩ else none
  | _, _, _ => none

/-- a result together with the levels `get` was called on while computing it -/
abbrev Traced (α : Type) := α × List Nat

section
variable {V : Type} [DecidableEq V]

/-- inner `bisect(start, end)` of `find_state_change`; `fuel` bounds the recursion depth
(`end - start` is enough whenever `start < end`; with `end ≤ start` Python recurses until `RecursionError`) -/
def bisect (logOk : Bool) (get : Nat → V) (pred : V) : Nat → Nat → Nat → Except Err (Traced (Nat × V))
  | 0, lo, hi =>
    if hi = lo + 1 then .ok ((hi, get hi), [hi])
    else if !logOk then .error .typeError
    else .error .recursion
  | fuel + 1, lo, hi =>
    if hi = lo + 1 then .ok ((hi, get hi), [hi])
    else if !logOk then .error .typeError      -- get(level), then the logging statement raises
    else
      let level := (hi + lo) / 2
      if get level = pred then (bisect logOk get pred fuel level hi).map fun (r, t) => (r, level :: t)
      else (bisect logOk get pred fuel lo level).map fun (r, t) => (r, level :: t)

/-- `find_state_change(head, last, get, equals, pred_value)` -/
def findStateChangeWith (cfg : Config) (get : Nat → V) (head last : Nat) (pred : V) :
    Except Err (Traced (Nat × V)) :=
  bisect cfg.logOk get pred (head - last) last head

/-- the `while` loop of `walk_state_change_interval`; `fuel` ≥ `head - level` (each round moves `level` up) -/
def walk (cfg : Config) (get : Nat → V) (head : Nat) (headV : V) :
    Nat → Nat → V → Except Err (Traced (List (Nat × V)))
  | 0, level, value =>
    if value = headV then .ok ([], [])
    else match findStateChangeWith cfg get head level value with
      | .error e => .error e
      | .ok _ => if !cfg.logOk then .error .typeError else .error .recursion  -- not reachable with fuel ≥ head - level
  | fuel + 1, level, value =>
    if value = headV then .ok ([], [])
    else match findStateChangeWith cfg get head level value with
      | .error e => .error e
      | .ok ((l', v'), t) =>
        if !cfg.logOk then .error .typeError
        else (walk cfg get head headV fuel l' v').map fun (r, t') => ((l', v') :: r, t ++ t')

/-- `list(walk_state_change_interval(head, last, get, equals, head_value, last_value))` -/
def walkIntervalWith (cfg : Config) (get : Nat → V) (head last : Nat) (headV lastV : V) :
    Except Err (Traced (List (Nat × V))) :=
  walk cfg get head headV (head - last) last lastV

/-- what `find_state_change_intervals` does, in order: a `get` call, or a yielded
`(int_head, int_head_value, int_tail, int_tail_value)` -/
inductive Event (V : Type)
  | probe (level : Nat)
  | interval (hd : Nat) (hv : V) (tl : Nat) (tv : V)

/-- after the `for` loop: the interval between `last` and the lowest probed level `cur` -/
def tailPart (tail : Bool) (get : Nat → V) (last cur : Nat) (succ : V) : List (Event V) :=
  if tail && decide (last < cur) then
    let value := get last
    if value = succ then [.probe last] else [.probe last, .interval cur succ last value]
  else []

/-- `for level in range(head - step, last, -step)`: `cur` is the level probed before (`succ_level`),
`succ` its value; the next level `cur - step` exists iff it is `> last` -/
def scan (tail : Bool) (get : Nat → V) (last step : Nat) (cur : Nat) (succ : V) : List (Event V) :=
  if _h : last + step < cur ∧ 0 < step then
    let level := cur - step
    let value := get level
    if value = succ then .probe level :: scan tail get last step level succ
    else .probe level :: .interval cur succ level value :: scan tail get last step level value
  else tailPart tail get last cur succ
termination_by cur
decreasing_by all_goals omega

/-- everything `find_state_change_intervals(head, last, get, equals, step)` does when run to exhaustion -/
def intervalEvents (cfg : Config) (get : Nat → V) (head last step : Nat) : Except Err (List (Event V)) :=
  if !cfg.logOk then .error .typeError          -- get(head), then the logging statement raises
  else if step = 0 then .error .valueError
  else .ok (.probe head :: scan cfg.tail get last step head (get head))

def probesOf : List (Event V) → List (Event V)
  | [] => []
  | .probe l :: r => .probe l :: probesOf r
  | .interval .. :: r => probesOf r

def intervalsOf : List (Event V) → List (Event V)
  | [] => []
  | .probe _ :: r => intervalsOf r
  | .interval a b c d :: r => .interval a b c d :: intervalsOf r

/-- consume the events in order, walking every interval as it arrives -/
def runEvents (cfg : Config) (get : Nat → V) : List (Event V) → Except Err (Traced (List (Nat × V)))
  | [] => .ok ([], [])
  | .probe l :: r => (runEvents cfg get r).map fun (x, t) => (x, l :: t)
  | .interval hd hv tl tv :: r =>
    match walkIntervalWith cfg get hd tl hv tv with
    | .error e => .error e
    | .ok (x1, t1) => (runEvents cfg get r).map fun (x2, t2) => (x1 ++ x2, t1 ++ t2)

/-- `list(find_state_changes(head, last, get, equals, step))`.  With `reversed(list(intervals))` the
interval generator is exhausted first and the intervals are walked from `last` upwards; without it the
generator is consumed lazily, in discovery order. -/
def findStateChangesWith (cfg : Config) (get : Nat → V) (head last step : Nat) :
    Except Err (Traced (List (Nat × V))) :=
  match intervalEvents cfg get head last step with
  | .error e => .error e
  | .ok evs =>
    if cfg.asc then runEvents cfg get (probesOf evs ++ (intervalsOf evs).reverse)
    else runEvents cfg get evs

/-- `list(find_state_change_intervals(...))`: the yielded tuples and the `get` calls -/
def findStateChangeIntervalsWith (cfg : Config) (get : Nat → V) (head last step : Nat) :
    Except Err (List (Event V)) :=
  intervalEvents cfg get head last step

/-! ### the functions of the tree under test -/

def withConfig {α : Type} (f : Config → Except Err α) : Except Err α :=
  match config with
  | some c => f c
  | none => .error .unrecognised

def findStateChange (get : Nat → V) (head last : Nat) (pred : V) :=
  withConfig fun c => findStateChangeWith c get head last pred

def walkStateChangeInterval (get : Nat → V) (head last : Nat) (headV lastV : V) :=
  withConfig fun c => walkIntervalWith c get head last headV lastV

def findStateChangeIntervals (get : Nat → V) (head last step : Nat) :=
  withConfig fun c => findStateChangeIntervalsWith c get head last step

def findStateChanges (get : Nat → V) (head last step : Nat) :=
  withConfig fun c => findStateChangesWith c get head last step

/-- `find_state_changes(head, last, get, equals)` with the default `step` -/
def findStateChangesDefault (get : Nat → V) (head last : Nat) : Except Err (Traced (List (Nat × V))) :=
  match Generated.C29.stepDefault with
  | some s => findStateChanges get head last s
  | none => .error .unrecognised

end
end Impl.Search

/-! What the property demands. -/
namespace Spec.Search
variable {V : Type} [DecidableEq V]

/-- the value never returns to an earlier value: every value occupies one contiguous run of levels -/
def NoReturn (get : Nat → V) (lo hi : Nat) : Prop :=
  ∀ i j k, lo ≤ i → i ≤ j → j ≤ k → k ≤ hi → get i = get k → get j = get i

/-- level `l` carries a value different from the level below -/
def isChange (get : Nat → V) (l : Nat) : Bool := decide (get l ≠ get (l - 1))

/-- the change levels in `(lo, hi]` with their new values, in increasing order -/
def changes (get : Nat → V) (lo hi : Nat) : List (Nat × V) :=
  ((List.range' (lo + 1) (hi - lo)).filter (isChange get)).map fun l => (l, get l)

end Spec.Search
