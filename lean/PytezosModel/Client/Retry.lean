import PytezosModel.Generated.C26
/-! Mirror of `_is_transient_response`, the retry loop of `RpcNode.request` and `RpcError.from_response`
(src/pytezos/rpc/node.py) as a pure function of the list of responses the node will give.

A response is described by what the code looks at: the status code, whether the `content-type` header is exactly
`application/json`, what `res.json()` yields (raises / a non-list value / a list whose elements are dicts with an
`id` and a `kind` entry, or something else) and the text (a byte string; only searched for the markers).
Strings are lists of character codes.  All constants come from `Generated.C26`. -/
namespace Impl.Retry

abbrev Str := List Nat

/-- the value of `d.get(key)` for a JSON dict `d` -/
inductive Field
  | absent                -- key missing
  | str (s : Str)         -- a JSON string
  | other                 -- null / number / bool / list / dict
  deriving DecidableEq, Repr

/-- an element of the JSON list -/
inductive Elem
  | dict (id kind : Field)
  | other                 -- not a dict
  deriving DecidableEq, Repr

/-- what `res.json()` does -/
inductive Body
  | invalid               -- raises (simplejson) JSONDecodeError
  | nonList               -- a JSON value that is not a list
  | list (es : List Elem)
  deriving DecidableEq, Repr

structure Resp where
  status : Nat
  ctJson : Bool           -- `res.headers.get('content-type') == 'application/json'`
  body : Body
  text : Str
  deriving DecidableEq, Repr

/-- exceptions that are not `RpcError`s -/
inductive Crash
  | attributeError        -- `.startswith` / `.split` on an id that is not a string
  | assertionError        -- `assert isinstance(errors, list)`
  | keyError              -- last error has no `id`
  | typeError             -- last error is not a dict
  | jsonDecodeError       -- `res.json()` of a 200 response in the trailing debug statement
  | unboundLocal          -- zero attempts configured: `res` never assigned
  deriving DecidableEq, Repr

inductive Outcome
  | returned                      -- `return res`
  | rpcUnauthorized               -- RpcError('Unauthorized: …')
  | rpcNotFound                   -- RpcError('Not found: …')
  | rpcText                       -- RpcError(res.text)
  | rpcUnspecified                -- RpcError.from_errors([])
  | rpcFromLast (id : Str)        -- RpcError.from_errors(errors): class chosen from the last error's id (property C27)
  | crash (c : Crash)
  | exhausted                     -- the stubbed node has no further response (harness artefact)
  deriving DecidableEq, Repr

structure Config where
  attempts : Nat
  initialDelay : Nat      -- ms
  maxDelay : Nat          -- ms
  statusFloor : Nat
  markers : List Str
  protoPrefix : Str
  temporaryKind : Str
  okBodyParsed : Bool
  deriving DecidableEq, Repr

/-- everything the translator extracted; `none` when any piece was not recognised -/
def config : Option Config := do
  let attempts ← Generated.C26.retryAttempts
  let initialDelay ← Generated.C26.initialDelayMs
  let maxDelay ← Generated.C26.maxDelayMs
  let statusFloor ← Generated.C26.statusFloor
  let markers ← Generated.C26.textMarkers
  let protoPrefix ← Generated.C26.protoPrefix
  let temporaryKind ← Generated.C26.temporaryKind
  let okBodyParsed ← Generated.C26.okBodyParsed
  if Generated.C26.fromResponseRecognised then
    some { attempts, initialDelay, maxDelay, statusFloor, markers, protoPrefix, temporaryKind, okBodyParsed }
  else none

/-- Python `m in t` for strings -/
def isInfix (m : Str) : Str → Bool
  | [] => m.isPrefixOf []
  | c :: cs => m.isPrefixOf (c :: cs) || isInfix m cs

/-- `err.get('id', '').startswith('proto.')` -/
def idIsProto (c : Config) : Field → Except Crash Bool
  | .absent => .ok false
  | .str s => .ok (c.protoPrefix.isPrefixOf s)
  | .other => .error .attributeError

/-- `any(isinstance(err, dict) and err.get('id', '').startswith('proto.') for err in body)` (left to right, stops at
the first hit) -/
def anyProto (c : Config) : List Elem → Except Crash Bool
  | [] => .ok false
  | .other :: rest => anyProto c rest
  | .dict id _ :: rest =>
    match idIsProto c id with
    | .error e => .error e
    | .ok true => .ok true
    | .ok false => anyProto c rest

/-- `isinstance(err, dict) and err.get('kind') == 'temporary'` -/
def isTemporary (c : Config) : Elem → Bool
  | .dict _ (.str s) => s == c.temporaryKind
  | _ => false

/-- `any(marker in res.text for marker in _TRANSIENT_TEXT_MARKERS)` -/
def hasMarker (c : Config) (text : Str) : Bool := c.markers.any fun m => isInfix m text

/-- `_is_transient_response(res)` -/
def isTransient (c : Config) (r : Resp) : Except Crash Bool :=
  if r.ctJson then
    match r.body with
    | .list es =>
      match anyProto c es with
      | .error e => .error e
      | .ok true => .ok false
      | .ok false => if es.any (isTemporary c) then .ok true else .ok (hasMarker c r.text)
    | _ => .ok (hasMarker c r.text)
  else .ok (hasMarker c r.text)

/-- `RpcError.from_errors(errors)` as far as this property looks (the class mapping is C27) -/
def fromErrors (es : List Elem) : Outcome :=
  match es.getLast? with
  | none => .rpcUnspecified
  | some .other => .crash .typeError
  | some (.dict .absent _) => .crash .keyError
  | some (.dict .other _) => .crash .attributeError
  | some (.dict (.str s) _) => .rpcFromLast s

/-- `RpcError.from_response(res)` -/
def fromResponse (r : Resp) : Outcome :=
  if r.ctJson then
    match r.body with
    | .invalid => .rpcText
    | .nonList => .crash .assertionError
    | .list es => fromErrors es
  else .rpcText

/-- the statements after the loop -/
def finish (c : Config) (r : Resp) : Outcome :=
  if r.status = 401 then .rpcUnauthorized
  else if r.status = 404 then .rpcNotFound
  else if r.status ≠ 200 then fromResponse r
  else if c.okBodyParsed && r.body = .invalid then .crash .jsonDecodeError
  else .returned

structure Trace where
  issued : Nat            -- calls of `requests.request`
  sleeps : List Nat       -- arguments of `sleep`, ms
  outcome : Outcome
  deriving DecidableEq, Repr

/-- the `for attempt in range(…)` loop from iteration `attempt` on, `delay` being the current value of the variable -/
def loop (c : Config) : Nat → Nat → List Resp → Trace
  | attempt, _, [] => ⟨attempt + 1, [], .exhausted⟩
  | attempt, delay, r :: rest =>
    if c.statusFloor ≤ r.status then
      match isTransient c r with
      | .error e => ⟨attempt + 1, [], .crash e⟩
      | .ok true =>
        if attempt < c.attempts - 1 then
          let t := loop c (attempt + 1) (min (delay * 2) c.maxDelay) rest
          { t with sleeps := delay :: t.sleeps }
        else ⟨attempt + 1, [], finish c r⟩
      | .ok false => ⟨attempt + 1, [], finish c r⟩
    else ⟨attempt + 1, [], finish c r⟩

def run (c : Config) (rs : List Resp) : Trace :=
  if c.attempts = 0 then ⟨0, [], .crash .unboundLocal⟩ else loop c 0 c.initialDelay rs

/-- `RpcNode.request` against a node answering `rs` -/
def request (rs : List Resp) : Option Trace := config.map fun c => run c rs

end Impl.Retry

/-! What property C26 demands, stated over the same response descriptions. -/
namespace Spec.Retry
open Impl.Retry (Str Field Elem Body Resp Outcome isInfix)

/-- "proto." -/
def protoPrefix : Str := [112, 114, 111, 116, 111, 46]
/-- "temporary" -/
def temporary : Str := [116, 101, 109, 112, 111, 114, 97, 114, 121]
/-- "prevalidator.ml" -/
def prevalidatorMarker : Str := [112, 114, 101, 118, 97, 108, 105, 100, 97, 116, 111, 114, 46, 109, 108]

/-- a protocol error: its id starts with `proto.` -/
def isProtocolError : Elem → Bool
  | .dict (.str s) _ => protoPrefix.isPrefixOf s
  | _ => false

def isTemporaryError : Elem → Bool
  | .dict _ (.str s) => s == temporary
  | _ => false

/-- the error list of a response: defined when the content type is JSON and the body is a JSON list -/
def errors (r : Resp) : Option (List Elem) :=
  if r.ctJson then
    match r.body with
    | .list es => some es
    | _ => none
  else none

def prevalidatorFailure (r : Resp) : Bool := isInfix prevalidatorMarker r.text

/-- errors that are temporary and not protocol errors, or a prevalidator failure (never with a protocol error) -/
def transientContent (r : Resp) : Bool :=
  match errors r with
  | some es => !es.any isProtocolError && (es.any isTemporaryError || prevalidatorFailure r)
  | none => prevalidatorFailure r

/-- a transient server error -/
def transient (r : Resp) : Bool := decide (500 ≤ r.status) && transientContent r

/-- retries after the first attempt -/
def maxRetries : Nat := 5

/-- the delays before retry 1, 2, …, in milliseconds -/
def schedule : List Nat := [250, 500, 1000, 2000, 2000]

/-- what the caller gets from the response that is not retried -/
def outcome (r : Resp) : Outcome :=
  if r.status = 200 then .returned
  else if r.status = 401 then .rpcUnauthorized
  else if r.status = 404 then .rpcNotFound
  else Impl.Retry.fromResponse r

/-- domain of the property: ids, where present, are strings; a 200 response carries JSON -/
def wellFormedElem : Elem → Bool
  | .dict .other _ => false
  | _ => true

def wellFormed (r : Resp) : Bool :=
  (match r.body with
   | .list es => es.all wellFormedElem
   | _ => true) && !(decide (r.status = 200) && decide (r.body = .invalid))

end Spec.Retry
