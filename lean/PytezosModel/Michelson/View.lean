import PytezosModel.Micheline.Basic
import PytezosModel.Generated.C32
/-! Mirror of `ViewSection.create_type` / `ViewSection.check_code` (src/pytezos/michelson/sections/view.py) and the
Tezos rule for view definitions.

`check_code` walks the tree of matched Micheline *classes*; that tree has the shape of the Micheline expression
(a prim node has `prim` and `args` = its arguments; a sequence has `prim = None` and `args` = its items; a literal
has `prim = None` and no args), so the mirror recurses over `Mich`.  Which prims are rejected where, which prims
set the `lambda_` flag, the PUSH rule and the name rule are read from the source (`Generated.C32`).
A view name is a list of code points (`len(name)` counts code points). -/

namespace Impl.View
open Generated.C32

mutual
  /-- `ViewSection.has_lambda_type(type_expr)`: `type_expr.prim == t or any(has_lambda_type(arg) for arg in type_expr.args)` -/
  def hasLambdaType (t : String) : Mich → Bool
    | .prim p args _ => p == t || hasLambdaTypeAny t args
    | .seq xs => hasLambdaTypeAny t xs
    | _ => false
  def hasLambdaTypeAny (t : String) : List Mich → Bool
    | [] => false
    | x :: xs => hasLambdaType t x || hasLambdaTypeAny t xs
end

/-- the `lambda_` flag handed to the arguments of a prim node -/
def flagForArgs (S : CodeShape) (lam : Bool) (p : String) (args : List Mich) : Except String Bool :=
  let lam1 := lam || S.openers.contains p            -- `lambda_ |= code.prim in (...)`
  match S.pushRule with
  | none => .ok lam1
  | some (pp, t) =>
    if p == pp then
      match args with
      | ty :: _ => .ok (lam1 || hasLambdaType t ty)   -- `lambda_ |= has_lambda_type(code.args[0])`
      | [] => .error "IndexError"                     -- `code.args[0]` (unreachable: PUSH is registered with 2 args only)
    else .ok lam1

mutual
  /-- `ViewSection.check_code(code, lambda_)`; the error is the prim named in the raised message -/
  def checkCode (S : CodeShape) (lam : Bool) : Mich → Except String Unit
    | .prim p args _ =>
      if S.always.contains p then .error p
      else if S.outside.contains p && !lam then .error p
      else
        match flagForArgs S lam p args with
        | .error e => .error e
        | .ok lam' => checkArgs S lam' args
    | .seq xs => checkArgs S lam xs
    | _ => .ok ()
  def checkArgs (S : CodeShape) (lam : Bool) : List Mich → Except String Unit
    | [] => .ok ()
    | x :: xs =>
      match checkCode S lam x with
      | .error e => .error e
      | .ok () => checkArgs S lam xs
end

def inRanges (rs : List (Nat × Nat)) (c : Nat) : Bool := rs.any fun r => r.1 ≤ c && c ≤ r.2

/-- the name checks of `create_type`, in source order: length first, then (if the source has one) the character class -/
def checkName (N : NameShape) (name : List Nat) : Except String Unit :=
  if name.length ≥ N.tooLong then .error "name-long"
  else
    match N.charRanges with
    | none => .ok ()
    | some rs => if name.all (inRanges rs) then .ok () else .error "name-char"

def checkViewWith (N : NameShape) (S : CodeShape) (name : List Nat) (code : Mich) : Except String Unit :=
  match checkName N name with
  | .error e => .error e
  | .ok () =>
    match checkCode S false code with               -- `cls.check_code(args[3], lambda_=False)`
    | .error e => .error ("code:" ++ e)
    | .ok () => .ok ()

/-- `ViewSection.create_type` on a view whose first argument is the string `name` and whose fourth is `code` -/
def checkView (name : List Nat) (code : Mich) : Except String Unit :=
  match nameShape, codeShape with
  | some N, some S => checkViewWith N S name code
  | _, _ => .error "unrecognised-source"

end Impl.View

namespace Spec.View

/-- letters, digits and `_ . % @` (Tezos `Script_ir_annot.is_allowed_char`) -/
def okCodePoint (c : Nat) : Prop :=
  (65 ≤ c ∧ c ≤ 90) ∨ (97 ≤ c ∧ c ≤ 122) ∨ (48 ≤ c ∧ c ≤ 57) ∨ c = 95 ∨ c = 46 ∨ c = 37 ∨ c = 64

def nameOk (name : List Nat) : Prop := name.length ≤ 31 ∧ ∀ c ∈ name, okCodePoint c

def restricted : List String := ["TRANSFER_TOKENS", "CREATE_CONTRACT", "SET_DELEGATE"]

mutual
  /-- a type expression mentions the `lambda` type -/
  def mentionsLambda : Mich → Bool
    | .prim p args _ => p == "lambda" || mentionsLambdaAny args
    | .seq xs => mentionsLambdaAny xs
    | _ => false
  def mentionsLambdaAny : List Mich → Bool
    | [] => false
    | x :: xs => mentionsLambda x || mentionsLambdaAny xs
end

/-- the arguments of this node are (inside) a lambda body: LAMBDA, LAMBDA_REC, or a PUSH whose type mentions `lambda`
(the pushed value can then contain instructions only inside lambda literals) -/
def opensLambdaBody (p : String) (args : List Mich) : Bool :=
  p == "LAMBDA" || p == "LAMBDA_REC" ||
    (p == "PUSH" && match args with
      | ty :: _ => mentionsLambda ty
      | [] => false)

mutual
  /-- every primitive application of the code, with whether it sits inside a lambda body -/
  def occurrences (inLam : Bool) : Mich → List (String × Bool)
    | .prim p args _ => (p, inLam) :: occurrencesList (inLam || opensLambdaBody p args) args
    | .seq xs => occurrencesList inLam xs
    | _ => []
  def occurrencesList (inLam : Bool) : List Mich → List (String × Bool)
    | [] => []
    | x :: xs => occurrences inLam x ++ occurrencesList inLam xs
end

/-- one occurrence is acceptable: not SELF, and a restricted instruction only inside a lambda body -/
def occOk (o : String × Bool) : Prop := o.1 ≠ "SELF" ∧ (o.1 ∈ restricted → o.2 = true)

def codeOk (code : Mich) : Prop := ∀ o ∈ occurrences false code, occOk o

/-- Tezos accepts the view (as far as the view-specific rules go) -/
def viewOk (name : List Nat) (code : Mich) : Prop := nameOk name ∧ codeOk code

mutual
  /-- every `PUSH` node carries its type argument (what `Micheline.match` guarantees: PUSH takes exactly two args) -/
  def pushHasType : Mich → Bool
    | .prim p args _ => (p != "PUSH" || !args.isEmpty) && pushHasTypeAll args
    | .seq xs => pushHasTypeAll xs
    | _ => true
  def pushHasTypeAll : List Mich → Bool
    | [] => true
    | x :: xs => pushHasType x && pushHasTypeAll xs
end

end Spec.View
