import PytezosModel.Michelson.BigMapKey
import PytezosModel.Crypto.Encoding
/-! C15 — the `key_hash` of a big map key: `forge_script_expr(key.pack(legacy=True))` (types/big_map.py, forge.py) =
Base58Check text, prefix `expr`, of the 32-byte hash of the legacy PACK of the key.  `cks` is the Base58Check checksum
and `H` the hash (BLAKE2b-256 in the code); the driver instantiates them with the executable `RealHash` functions, so
that the model itself produces the `expr…` text of every update of an emitted diff. -/
namespace Impl.BigMap
open _root_.Order

def chars (s : String) : List Nat := s.toList.map Char.toNat

/-- `forge_script_expr(packed_key)`: `base58_encode(blake2b_32(packed_key).digest(), b'expr')`; `none` = the prefix was not
read from the source or `base58_encode` refuses -/
def scriptExpr (cks H : List Nat → List Nat) (packed : List Nat) : Option (List Nat) :=
  match Generated.C15.keyHashPrefix with
  | none => none
  | some p => (Impl.Encoding.base58Encode cks (H packed) (chars p)).toOption

/-- `forge_script_expr(key.pack(legacy=True))` as code points; `none` = `pack` refused / not recognised (see `packLegacy`) -/
def keyHashChars (cks H : List Nat → List Nat) (v : CVal) : Option (List Nat) :=
  (packLegacy v).bind (scriptExpr cks H)

end Impl.BigMap
