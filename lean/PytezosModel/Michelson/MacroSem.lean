import PytezosModel.Micheline.Basic
/-! Reference semantics of the Michelson instructions that macro expansions are made of, written from the
Michelson reference (not from pytezos): a stack of abstract values and a big-step evaluator over `Mich` code.

Only the primitives macros expand to are interpreted here (`DIP`, `DIP n`, `DUP`, `DUP n`, `SWAP`, `DROP`, `PAIR`,
`UNPAIR`, `CAR`, `CDR`, `UPDATE n` on pairs, `IF`, `IF_NONE`, `IF_LEFT`, `COMPARE` (on ints), `EQ … GE`, `UNIT`,
`FAILWITH`, `RENAME`, sequences).  Every other primitive — in particular whatever the user code passed to
`DIIP`, `IFEQ`, `MAP_CADR`, … contains — is delegated to an arbitrary `ext`, so that the theorems about macro
expansions hold for *any* semantics of the remaining instructions.  There is no loop among the interpreted
primitives, hence evaluation is structurally recursive over the code and needs no fuel. -/
namespace Sem

inductive Val where
  | atom (s : String)
  | int (i : Int)
  | bool (b : Bool)
  | unit
  | pair (a b : Val)
  | none
  | some (v : Val)
  | left (v : Val)
  | right (v : Val)
  deriving DecidableEq, Repr, Inhabited

abbrev Stack := List Val

inductive Result where
  | ok (s : Stack)
  | failed (v : Val)      -- FAILWITH v
  | err                   -- stack too short / wrong shape of a value (the type checker would reject)
  deriving DecidableEq, Repr, Inhabited

/-- a stack transformer -/
abbrev F := Stack → Result

def Result.bind : Result → F → Result
  | .ok s, f => f s
  | .failed v, _ => .failed v
  | .err, _ => .err

@[simp] theorem bind_ok (s : Stack) (f : F) : (Result.ok s).bind f = f s := rfl
@[simp] theorem bind_failed (v : Val) (f : F) : (Result.failed v).bind f = .failed v := rfl
@[simp] theorem bind_err (f : F) : Result.err.bind f = .err := rfl
@[simp] theorem bind_pure (r : Result) : r.bind .ok = r := by cases r <;> rfl
theorem bind_assoc (r : Result) (f g : F) : (r.bind f).bind g = r.bind (fun s => (f s).bind g) := by
  cases r <;> rfl

/-- sequential composition `f ; g` -/
def seqF (f g : F) : F := fun S => (f S).bind g
infixl:60 " ⨾ " => seqF

/-- `DIP n f`: run `f` below the top `n` elements -/
def under : Nat → F → F
  | 0, f, S => f S
  | _ + 1, _, [] => .err
  | n + 1, f, x :: S => (under n f S).bind fun S' => .ok (x :: S')

def pairStep : F
  | a :: b :: S => .ok (.pair a b :: S)
  | _ => .err

def unpairStep : F
  | .pair a b :: S => .ok (a :: b :: S)
  | _ => .err

def carStep : F
  | .pair a _ :: S => .ok (a :: S)
  | _ => .err

def cdrStep : F
  | .pair _ b :: S => .ok (b :: S)
  | _ => .err

def swapStep : F
  | a :: b :: S => .ok (b :: a :: S)
  | _ => .err

def dupStep : F
  | a :: S => .ok (a :: a :: S)
  | _ => .err

def dropStep : F
  | _ :: S => .ok S
  | _ => .err

/-- `DUP n` (n ≥ 1): copy the n-th element (1 = top) to the top -/
def dupN (n : Nat) : F := fun S =>
  match n with
  | 0 => .err
  | k + 1 => match S[k]? with
    | some v => .ok (v :: S)
    | none => .err

/-- `UPDATE n` on right combs: `UPDATE 0 / x : _ : S => x : S`, `UPDATE 1 / x : Pair _ b : S => Pair x b : S`,
`UPDATE (n+2) / x : Pair a b : S => Pair a b' : S` where `UPDATE n / x : b : S => b' : S` -/
def updateVal : Nat → Val → Val → Option Val
  | 0, x, _ => some x
  | 1, x, .pair _ b => some (.pair x b)
  | n + 2, x, .pair a b => (updateVal n x b).map (.pair a)
  | _, _, _ => none

def updateN (n : Nat) : F
  | x :: v :: S => match updateVal n x v with
    | some v' => .ok (v' :: S)
    | none => .err
  | _ => .err

def compareStep : F
  | .int a :: .int b :: S => .ok (.int (if a < b then -1 else if a = b then 0 else 1) :: S)
  | _ => .err

/-- `EQ`, `NEQ`, `LT`, `GT`, `LE`, `GE`: test of an int against zero -/
def testStep (t : Int → Bool) : F
  | .int i :: S => .ok (.bool (t i) :: S)
  | _ => .err

def unitStep : F := fun S => .ok (.unit :: S)

def failwithStep : F
  | v :: _ => .failed v
  | _ => .err

/-- `RENAME`: only touches the annotation of the top element, which must exist -/
def renameStep : F
  | a :: S => .ok (a :: S)
  | _ => .err

def ifBool (t f : F) : F
  | .bool true :: S => t S
  | .bool false :: S => f S
  | _ => .err

def ifNone (n s : F) : F
  | .none :: S => n S
  | .some v :: S => s (v :: S)
  | _ => .err

def ifLeft (l r : F) : F
  | .left v :: S => l (v :: S)
  | .right v :: S => r (v :: S)
  | _ => .err

/-- semantics of all the other primitives: prim, args, annots ↦ stack transformer -/
abbrev Ext := String → List Mich → List String → F

/-- primitives without argument -/
def op0 (ext : Ext) (p : String) (an : List String) : F :=
  if p = "DUP" then dupStep
  else if p = "SWAP" then swapStep
  else if p = "DROP" then dropStep
  else if p = "PAIR" then pairStep
  else if p = "UNPAIR" then unpairStep
  else if p = "CAR" then carStep
  else if p = "CDR" then cdrStep
  else if p = "COMPARE" then compareStep
  else if p = "EQ" then testStep (· == 0)
  else if p = "NEQ" then testStep (· != 0)
  else if p = "LT" then testStep (· < 0)
  else if p = "GT" then testStep (· > 0)
  else if p = "LE" then testStep (· ≤ 0)
  else if p = "GE" then testStep (· ≥ 0)
  else if p = "UNIT" then unitStep
  else if p = "FAILWITH" then failwithStep
  else if p = "RENAME" then renameStep
  else ext p [] an

/-- primitives with one non-code argument -/
def op1 (ext : Ext) (p : String) (a : Mich) (an : List String) : F :=
  match a with
  | .int n =>
    if p = "DUP" then (if n < 0 then fun _ => .err else dupN n.toNat)
    else if p = "UPDATE" then (if n < 0 then fun _ => .err else updateN n.toNat)
    else ext p [a] an
  | _ => ext p [a] an

mutual
  def eval (ext : Ext) : Mich → F
    | .seq xs, S => evalSeq ext xs S
    | .prim p [] an, S => op0 ext p an S
    | .prim p [a] an, S =>
      if p = "DIP" then under 1 (eval ext a) S else op1 ext p a an S
    | .prim p [a, b] an, S =>
      if p = "DIP" then
        match a with
        | .int n => if n < 0 then .err else under n.toNat (eval ext b) S
        | _ => .err
      else if p = "IF" then ifBool (eval ext a) (eval ext b) S
      else if p = "IF_NONE" then ifNone (eval ext a) (eval ext b) S
      else if p = "IF_LEFT" then ifLeft (eval ext a) (eval ext b) S
      else ext p [a, b] an S
    | .prim p args an, S => ext p args an S
    | _, _ => .err
  def evalSeq (ext : Ext) : List Mich → F
    | [], S => .ok S
    | x :: xs, S => (eval ext x S).bind (evalSeq ext xs)
end

/-! ### generic facts about sequencing and `DIP n` -/

theorem evalSeq_append (ext : Ext) (xs ys : List Mich) (S : Stack) :
    evalSeq ext (xs ++ ys) S = (evalSeq ext xs S).bind (evalSeq ext ys) := by
  induction xs generalizing S with
  | nil => simp [evalSeq]
  | cons x xs ih =>
    simp only [List.cons_append, evalSeq]
    cases h : eval ext x S <;> simp [ih]

theorem eval_seq (ext : Ext) (xs : List Mich) : eval ext (.seq xs) = evalSeq ext xs := by
  funext S; simp [eval]

theorem under_zero (f : F) : under 0 f = f := by funext S; simp [under]

theorem under_short (n : Nat) (f : F) (S : Stack) (h : S.length < n) : under n f S = .err := by
  induction n generalizing S with
  | zero => omega
  | succ n ih =>
    cases S with
    | nil => simp [under]
    | cons x S => simp only [under]; rw [ih S (by simpa using h)]; rfl

theorem under_append (pre : Stack) (f : F) (S : Stack) :
    under pre.length f (pre ++ S) = (f S).bind fun S' => .ok (pre ++ S') := by
  induction pre with
  | nil => simp [under]
  | cons x pre ih =>
    simp only [List.length_cons, List.cons_append, under, ih, bind_assoc]
    cases f S <;> simp

theorem under_add (a b : Nat) (f : F) : under (a + b) f = under a (under b f) := by
  funext S
  induction a generalizing S with
  | zero => simp [under]
  | succ a ih =>
    cases S with
    | nil => simp [Nat.succ_add, under]
    | cons x S => simp only [Nat.succ_add, under, ih]

/-- `DIP n f ; DIP n g = DIP n (f ; g)` -/
theorem under_seq (d : Nat) (f g : F) : under d f ⨾ under d g = under d (f ⨾ g) := by
  funext S
  induction d generalizing S with
  | zero => simp [under, seqF]
  | succ d ih =>
    cases S with
    | nil => simp [under, seqF]
    | cons x S =>
      have := ih S
      simp only [seqF] at this
      simp only [seqF, under, ← this, bind_assoc]
      cases under d f S <;> simp [under]

theorem seqF_assoc (f g h : F) : (f ⨾ g) ⨾ h = f ⨾ (g ⨾ h) := by
  funext S; unfold seqF; rw [bind_assoc]

theorem seqF_ok_left (f : F) : (Result.ok ⨾ f) = f := by funext S; simp [seqF]
theorem seqF_ok_right (f : F) : (f ⨾ Result.ok) = f := by funext S; simp [seqF]

theorem evalSeq_cons' (ext : Ext) (x : Mich) (xs : List Mich) : evalSeq ext (x :: xs) = eval ext x ⨾ evalSeq ext xs := by
  funext S; simp [evalSeq, seqF]

theorem evalSeq_nil' (ext : Ext) : evalSeq ext [] = Result.ok := by funext S; simp [evalSeq]

theorem evalSeq_append' (ext : Ext) (xs ys : List Mich) : evalSeq ext (xs ++ ys) = evalSeq ext xs ⨾ evalSeq ext ys := by
  funext S; simp [evalSeq_append, seqF]

end Sem
