import PytezosModel.Micheline.Basic
/-! Reference semantics of the Michelson instructions that macro expansions are made of, written from the
Michelson reference (not from pytezos): a stack of abstract values and a big-step evaluator over `Mich` code.

Only the primitives macros expand to are interpreted here (`DIP`, `DIP n`, `DUP`, `DUP n`, `SWAP`, `DROP`, `PAIR`,
`UNPAIR`, `CAR`, `CDR`, `UPDATE n` on pairs, `IF`, `IF_NONE`, `IF_LEFT`, `COMPARE` (on ints), `EQ … GE`, `UNIT`,
`FAILWITH`, `RENAME`, sequences).  Every other primitive — in particular whatever the user code passed to
`DIIP`, `IFEQ`, `MAP_CADR`, … contains — is delegated to an arbitrary `ext`, so that the theorems about macro
expansions hold for *any* semantics of the remaining instructions.  There is no loop among the interpreted
primitives, hence evaluation is structurally recursive over the code and needs no fuel. -/
namespace Sem

inductive Val where
  | atom (s : String)
  | int (i : Int)
  | bool (b : Bool)
  | unit
  | pair (a b : Val)
  | none
  | some (v : Val)
  | left (v : Val)
  | right (v : Val)
  deriving DecidableEq, Repr, Inhabited

abbrev Stack := List Val

inductive Result where
  | ok (s : Stack)
  | failed (v : Val)      -- FAILWITH v
  | err                   -- stack too short / wrong shape of a value (the type checker would reject)
  deriving DecidableEq, Repr, Inhabited

/-- a stack transformer -/
abbrev F := Stack → Result

def Result.bind : Result → F → Result
  | .ok s, f => f s
  | .failed v, _ => .failed v
  | .err, _ => .err

@[simp] theorem bind_ok (s : Stack) (f : F) : (Result.ok s).bind f = f s := rfl
@[simp] theorem bind_failed (v : Val) (f : F) : (Result.failed v).bind f = .failed v := rfl
@[simp] theorem bind_err (f : F) : Result.err.bind f = .err := rfl
@[simp] theorem bind_pure (r : Result) : r.bind .ok = r := by cases r <;> rfl
theorem bind_assoc (r : Result) (f g : F) : (r.bind f).bind g = r.bind (fun s => (f s).bind g) := by
  cases r <;> rfl

/-- sequential composition `f ; g` -/
def seqF (f g : F) : F := fun S => (f S).bind g
infixl:60 " ⨾ " => seqF

/-- `DIP n f`: run `f` below the top `n` elements -/
def under : Nat → F → F
  | 0, f, S => f S
  | _ + 1, _, [] => .err
  | n + 1, f, x :: S => (under n f S).bind fun S' => .ok (x :: S')

def pairStep : F
  | a :: b :: S => .ok (.pair a b :: S)
  | _ => .err

def unpairStep : F
  | .pair a b :: S => .ok (a :: b :: S)
  | _ => .err

def carStep : F
  | .pair a _ :: S => .ok (a :: S)
  | _ => .err

def cdrStep : F
  | .pair _ b :: S => .ok (b :: S)
  | _ => .err

def swapStep : F
  | a :: b :: S => .ok (b :: a :: S)
  | _ => .err

def dupStep : F
  | a :: S => .ok (a :: a :: S)
  | _ => .err

def dropStep : F
  | _ :: S => .ok S
  | _ => .err

/-- `DUP n` (n ≥ 1): copy the n-th element (1 = top) to the top -/
def dupN (n : Nat) : F := fun S =>
  match n with
  | 0 => .err
  | k + 1 => match S[k]? with
    | some v => .ok (v :: S)
    | none => .err

/-- `UPDATE n` on right combs: `UPDATE 0 / x : _ : S => x : S`, `UPDATE 1 / x : Pair _ b : S => Pair x b : S`,
`UPDATE (n+2) / x : Pair a b : S => Pair a b' : S` where `UPDATE n / x : b : S => b' : S` -/
def updateVal : Nat → Val → Val → Option Val
  | 0, x, _ => some x
  | 1, x, .pair _ b => some (.pair x b)
  | n + 2, x, .pair a b => (updateVal n x b).map (.pair a)
  | _, _, _ => none

def updateN (n : Nat) : F
  | x :: v :: S => match updateVal n x v with
    | some v' => .ok (v' :: S)
    | none => .err
  | _ => .err

def compareStep : F
  | .int a :: .int b :: S => .ok (.int (if a < b then -1 else if a = b then 0 else 1) :: S)
  | _ => .err

/-- `EQ`, `NEQ`, `LT`, `GT`, `LE`, `GE`: test of an int against zero -/
def testStep (t : Int → Bool) : F
  | .int i :: S => .ok (.bool (t i) :: S)
  | _ => .err

def unitStep : F := fun S => .ok (.unit :: S)

def failwithStep : F
  | v :: _ => .failed v
  | _ => .err

/-- `RENAME`: only touches the annotation of the top element, which must exist -/
def renameStep : F
  | a :: S => .ok (a :: S)
  | _ => .err

def ifBool (t f : F) : F
  | .bool true :: S => t S
  | .bool false :: S => f S
  | _ => .err

def ifNone (n s : F) : F
  | .none :: S => n S
  | .some v :: S => s (v :: S)
  | _ => .err

def ifLeft (l r : F) : F
  | .left v :: S => l (v :: S)
  | .right v :: S => r (v :: S)
  | _ => .err

/-- semantics of all the other primitives: prim, args, annots ↦ stack transformer -/
abbrev Ext := String → List Mich → List String → F

/-- primitives without argument -/
def op0 (ext : Ext) (p : String) (an : List String) : F :=
  if p = "DUP" then dupStep
  else if p = "SWAP" then swapStep
  else if p = "DROP" then dropStep
  else if p = "PAIR" then pairStep
  else if p = "UNPAIR" then unpairStep
  else if p = "CAR" then carStep
  else if p = "CDR" then cdrStep
  else if p = "COMPARE" then compareStep
  else if p = "EQ" then testStep (· == 0)
  else if p = "NEQ" then testStep (· != 0)
  else if p = "LT" then testStep (· < 0)
  else if p = "GT" then testStep (· > 0)
  else if p = "LE" then testStep (· ≤ 0)
  else if p = "GE" then testStep (· ≥ 0)
  else if p = "UNIT" then unitStep
  else if p = "FAILWITH" then failwithStep
  else if p = "RENAME" then renameStep
  else ext p [] an

/-- primitives with one non-code argument -/
def op1 (ext : Ext) (p : String) (a : Mich) (an : List String) : F :=
  match a with
  | .int n =>
    if p = "DUP" then (if n < 0 then fun _ => .err else dupN n.toNat)
    else if p = "UPDATE" then (if n < 0 then fun _ => .err else updateN n.toNat)
    else ext p [a] an
  | _ => ext p [a] an

mutual
  def eval (ext : Ext) : Mich → F
    | .seq xs, S => evalSeq ext xs S
    | .prim p [] an, S => op0 ext p an S
    | .prim p [a] an, S =>
      if p = "DIP" then under 1 (eval ext a) S else op1 ext p a an S
    | .prim p [a, b] an, S =>
      if p = "DIP" then
        match a with
        | .int n => if n < 0 then .err else under n.toNat (eval ext b) S
        | _ => .err
      else if p = "IF" then ifBool (eval ext a) (eval ext b) S
      else if p = "IF_NONE" then ifNone (eval ext a) (eval ext b) S
      else if p = "IF_LEFT" then ifLeft (eval ext a) (eval ext b) S
      else ext p [a, b] an S
    | .prim p args an, S => ext p args an S
    | _, _ => .err
  def evalSeq (ext : Ext) : List Mich → F
    | [], S => .ok S
    | x :: xs, S => (eval ext x S).bind (evalSeq ext xs)
end

/-! ### generic facts about sequencing and `DIP n` -/

theorem evalSeq_append (ext : Ext) (xs ys : List Mich) (S : Stack) :
    evalSeq ext (xs ++ ys) S = (evalSeq ext xs S).bind (evalSeq ext ys) := by
  induction xs generalizing S with
  | nil => simp [evalSeq]
  | cons x xs ih =>
    simp only [List.cons_append, evalSeq]
    cases h : eval ext x S <;> simp [ih]

theorem eval_seq (ext : Ext) (xs : List Mich) : eval ext (.seq xs) = evalSeq ext xs := by
  funext S; simp [eval]

theorem under_zero (f : F) : under 0 f = f := by funext S; simp [under]

theorem under_short (n : Nat) (f : F) (S : Stack) (h : S.length < n) : under n f S = .err := by
  induction n generalizing S with
  | zero => omega
  | succ n ih =>
    cases S with
    | nil => simp [under]
    | cons x S => simp only [under]; rw [ih S (by simpa using h)]; rfl

theorem under_append (pre : Stack) (f : F) (S : Stack) :
    under pre.length f (pre ++ S) = (f S).bind fun S' => .ok (pre ++ S') := by
  induction pre with
  | nil => simp [under]
  | cons x pre ih =>
    simp only [List.length_cons, List.cons_append, under, ih, bind_assoc]
    cases f S <;> simp

theorem under_add (a b : Nat) (f : F) : under (a + b) f = under a (under b f) := by
  funext S
  induction a generalizing S with
  | zero => simp [under]
  | succ a ih =>
    cases S with
    | nil => simp [Nat.succ_add, under]
    | cons x S => simp only [Nat.succ_add, under, ih]

/-- `DIP n f ; DIP n g = DIP n (f ; g)` -/
theorem under_seq (d : Nat) (f g : F) : under d f ⨾ under d g = under d (f ⨾ g) := by
  funext S
  induction d generalizing S with
  | zero => simp [under, seqF]
  | succ d ih =>
    cases S with
    | nil => simp [under, seqF]
    | cons x S =>
      have := ih S
      simp only [seqF] at this
      simp only [seqF, under, ← this, bind_assoc]
      cases under d f S <;> simp [under]

theorem seqF_assoc (f g h : F) : (f ⨾ g) ⨾ h = f ⨾ (g ⨾ h) := by
  funext S; unfold seqF; rw [bind_assoc]

theorem seqF_ok_left (f : F) : (Result.ok ⨾ f) = f := by funext S; simp [seqF]
theorem seqF_ok_right (f : F) : (f ⨾ Result.ok) = f := by funext S; simp [seqF]

theorem evalSeq_cons' (ext : Ext) (x : Mich) (xs : List Mich) : evalSeq ext (x :: xs) = eval ext x ⨾ evalSeq ext xs := by
  funext S; simp [evalSeq, seqF]

theorem evalSeq_nil' (ext : Ext) : evalSeq ext [] = Result.ok := by funext S; simp [evalSeq]

theorem evalSeq_append' (ext : Ext) (xs ys : List Mich) : evalSeq ext (xs ++ ys) = evalSeq ext xs ⨾ evalSeq ext ys := by
  funext S; simp [evalSeq_append, seqF]

end Sem

/-! ## The reference macro set (Michelson reference, section "Macros"): names and meanings

Meanings are given as stack transformers that follow the reference rewriting rules literally; the value-level
("denotational") readings (`treeVal?`, `flatten?`, `getPath`, `setPath`, `mapPath`) are related to them in
`Props/C19.lean`. -/
namespace Spec
open Sem

def prim0 (p : String) : Mich := .prim p [] []

/-- `EQ | NEQ | LT | GT | LE | GE` -/
def ops : List (List Char) := [['E', 'Q'], ['N', 'E', 'Q'], ['L', 'T'], ['G', 'T'], ['L', 'E'], ['G', 'E']]

/-- `FAIL  >  UNIT ; FAILWITH` -/
def FAIL : Mich := .seq [prim0 "UNIT", prim0 "FAILWITH"]
/-- `CMP{op}  >  COMPARE ; op` -/
def cmpx (op : String) : Mich := .seq [prim0 "COMPARE", prim0 op]
/-- `IF{op} bt bf  >  op ; IF bt bf` -/
def ifx (op : String) (bt bf : Mich) : Mich := .seq [prim0 op, .prim "IF" [bt, bf] []]
/-- `IFCMP{op} bt bf  >  COMPARE ; op ; IF bt bf` -/
def ifcmpx (op : String) (bt bf : Mich) : Mich := .seq [prim0 "COMPARE", prim0 op, .prim "IF" [bt, bf] []]
/-- `ASSERT  >  IF {} {FAIL}` -/
def assert : Mich := .prim "IF" [.seq [], .seq [FAIL]] []
/-- `ASSERT_{op}  >  IF{op} {} {FAIL}` -/
def assertX (op : String) : Mich := ifx op (.seq []) (.seq [FAIL])
/-- `ASSERT_CMP{op}  >  IFCMP{op} {} {FAIL}` -/
def assertCmpx (op : String) : Mich := ifcmpx op (.seq []) (.seq [FAIL])
/-- `ASSERT_NONE  >  IF_NONE {} {FAIL}` -/
def assertNone : Mich := .prim "IF_NONE" [.seq [], .seq [FAIL]] []
/-- `ASSERT_SOME @x  >  IF_NONE {FAIL} {RENAME @x}` -/
def assertSome (an : List String) : Mich := .prim "IF_NONE" [.seq [FAIL], .seq [.prim "RENAME" [] an]] []
/-- `ASSERT_LEFT @x  >  IF_LEFT {RENAME @x} {FAIL}` -/
def assertLeft (an : List String) : Mich := .prim "IF_LEFT" [.seq [.prim "RENAME" [] an], .seq [FAIL]] []
/-- `ASSERT_RIGHT @x  >  IF_LEFT {FAIL} {RENAME @x}` -/
def assertRight (an : List String) : Mich := .prim "IF_LEFT" [.seq [FAIL], .seq [.prim "RENAME" [] an]] []
/-- `IF_SOME bt bf  >  IF_NONE bf bt` -/
def ifSome (bt bf : Mich) : Mich := .prim "IF_NONE" [bf, bt] []
/-- `IF_RIGHT bt bf  >  IF_LEFT bf bt` -/
def ifRight (bt bf : Mich) : Mich := .prim "IF_LEFT" [bf, bt] []

/-- `D I^n P` -/
def dipName (n : Nat) : List Char := 'D' :: (List.replicate n 'I' ++ ['P'])
/-- `D U^n P` -/
def dupName (n : Nat) : List Char := 'D' :: (List.replicate n 'U' ++ ['P'])

/-- `DII+P code  >  DIP (DI+P code)`: `n` nested `DIP`s -/
def dixp : Nat → F → F
  | 0, c => c
  | n + 1, c => under 1 (dixp n c)

/-- `DUP` for one `U`; `DUU+P  >  DIP (DU+P) ; SWAP` -/
def duxp : Nat → F
  | 0 => fun _ => .err
  | 1 => dupStep
  | n + 2 => under 1 (duxp (n + 1)) ⨾ swapStep

/-- shapes of `P(A|P…)(I|P…)R` names -/
inductive PairTree where
  | leaf
  | node (l r : PairTree)
  deriving DecidableEq, Repr

def PairTree.leaves : PairTree → Nat
  | .leaf => 1
  | .node l r => l.leaves + r.leaves

/-- the letters of a subtree; `c` is the letter a leaf takes at this position (`A` left, `I` right) -/
def PairTree.body : PairTree → Char → List Char
  | .leaf, c => [c]
  | .node l r, _ => 'P' :: (l.body 'A' ++ r.body 'I')

def pairName (t : PairTree) : List Char := t.body 'A' ++ ['R']
def unpairName (t : PairTree) : List Char := 'U' :: 'N' :: pairName t

/-- `P(left)(right)R  >  (left)R ; DIP ((right)R) ; PAIR`, nothing to do for a leaf -/
def build : PairTree → F
  | .leaf => .ok
  | .node l r => build l ⨾ under 1 (build r) ⨾ pairStep

/-- `UNP(left)(right)R  >  UNPAIR ; DIP (UN(right)R) ; UN(left)R` -/
def unbuild : PairTree → F
  | .leaf => .ok
  | .node l r => unpairStep ⨾ under 1 (unbuild r) ⨾ unbuild l

/-- value reading of `build`: consume the leaves from the top of the stack, give the nested pair -/
def treeVal? : PairTree → Stack → Option (Val × Stack)
  | .leaf, x :: S => some (x, S)
  | .leaf, [] => none
  | .node l r, S =>
    match treeVal? l S with
    | some (a, S1) =>
      match treeVal? r S1 with
      | some (b, S2) => some (.pair a b, S2)
      | none => none
    | none => none

/-- value reading of `unbuild`: the leaves of a nested pair of that shape, left to right -/
def flatten? : PairTree → Val → Option (List Val)
  | .leaf, v => some [v]
  | .node l r, .pair a b =>
    match flatten? l a, flatten? r b with
    | some xs, some ys => some (xs ++ ys)
    | _, _ => none
  | .node _ _, _ => none

inductive Dir where
  | A
  | D
  deriving DecidableEq, Repr

def Dir.char : Dir → Char
  | .A => 'A'
  | .D => 'D'

abbrev Path := List Dir
def pathChars (p : Path) : List Char := p.map Dir.char
def cadrName (p : Path) : List Char := 'C' :: (pathChars p ++ ['R'])
def setName (p : Path) : List Char := 'S' :: 'E' :: 'T' :: '_' :: 'C' :: (pathChars p ++ ['R'])
def mapName (p : Path) : List Char := 'M' :: 'A' :: 'P' :: '_' :: 'C' :: (pathChars p ++ ['R'])

/-- `CA(rest)R  >  CAR ; C(rest)R`, `CD(rest)R  >  CDR ; C(rest)R` -/
def cxr : Path → F
  | [] => .ok
  | .A :: r => carStep ⨾ cxr r
  | .D :: r => cdrStep ⨾ cxr r

def getPath : Path → Val → Option Val
  | [], v => some v
  | .A :: r, .pair a _ => getPath r a
  | .D :: r, .pair _ b => getPath r b
  | _ :: _, _ => none

/-- `SET_CAR > CDR ; SWAP ; PAIR`, `SET_CDR > CAR ; PAIR`,
`SET_CA(rest)R > { DUP ; DIP { CAR ; SET_C(rest)R } ; CDR ; SWAP ; PAIR }`,
`SET_CD(rest)R > { DUP ; DIP { CDR ; SET_C(rest)R } ; CAR ; PAIR }` -/
def setCxr : Path → F
  | [] => fun _ => .err
  | [.A] => cdrStep ⨾ swapStep ⨾ pairStep
  | [.D] => carStep ⨾ pairStep
  | .A :: r => dupStep ⨾ under 1 (carStep ⨾ setCxr r) ⨾ cdrStep ⨾ swapStep ⨾ pairStep
  | .D :: r => dupStep ⨾ under 1 (cdrStep ⨾ setCxr r) ⨾ carStep ⨾ pairStep

/-- the value `v` with the component at `p` replaced by `x` -/
def setPath : Path → Val → Val → Option Val
  | [], _, _ => none
  | [.A], .pair _ b, x => some (.pair x b)
  | [.D], .pair a _, x => some (.pair a x)
  | .A :: r, .pair a b, x => (setPath r a x).map (.pair · b)
  | .D :: r, .pair a b, x => (setPath r b x).map (.pair a ·)
  | _ :: _, _, _ => none

/-- `MAP_CAR code > DUP ; CDR ; DIP { CAR ; code } ; SWAP ; PAIR` (the code runs on `a : S` for `Pair a b : S`),
`MAP_CDR code > DUP ; CDR ; code ; SWAP ; CAR ; PAIR` (the code runs on `b : Pair a b : S`),
`MAP_CA(rest)R code > { DUP ; DIP { CAR ; MAP_C(rest)R code } ; CDR ; SWAP ; PAIR }`,
`MAP_CD(rest)R code > { DUP ; DIP { CDR ; MAP_C(rest)R code } ; CAR ; PAIR }` -/
def mapCxr : Path → F → F
  | [], _ => fun _ => .err
  | [.A], c => dupStep ⨾ cdrStep ⨾ under 1 (carStep ⨾ c) ⨾ swapStep ⨾ pairStep
  | [.D], c => dupStep ⨾ cdrStep ⨾ c ⨾ swapStep ⨾ carStep ⨾ pairStep
  | .A :: r, c => dupStep ⨾ under 1 (carStep ⨾ mapCxr r c) ⨾ cdrStep ⨾ swapStep ⨾ pairStep
  | .D :: r, c => dupStep ⨾ under 1 (cdrStep ⨾ mapCxr r c) ⨾ carStep ⨾ pairStep

/-- the value `v` with the component at `p` replaced by its image under `f` -/
def mapPath : Path → (Val → Val) → Val → Option Val
  | [], _, _ => none
  | [.A], f, .pair a b => some (.pair (f a) b)
  | [.D], f, .pair a b => some (.pair a (f b))
  | .A :: r, f, .pair a b => (mapPath r f a).map (.pair · b)
  | .D :: r, f, .pair a b => (mapPath r f b).map (.pair a ·)
  | _ :: _, _, _ => none

/-- the test `{EQ,…}` makes of the result of `COMPARE` -/
def opTest (op : List Char) (i : Int) : Bool :=
  if op = ['E', 'Q'] then i == 0 else if op = ['N', 'E', 'Q'] then i != 0 else if op = ['L', 'T'] then i < 0
  else if op = ['G', 'T'] then i > 0 else if op = ['L', 'E'] then i ≤ 0 else i ≥ 0

/-- the result of `COMPARE` on ints -/
def cmpInt (a b : Int) : Int := if a < b then -1 else if a = b then 0 else 1

def fixedNames : List (List Char) :=
  ["FAIL".toList, "ASSERT".toList, "ASSERT_NONE".toList, "ASSERT_SOME".toList, "ASSERT_LEFT".toList,
   "ASSERT_RIGHT".toList, "IF_SOME".toList, "IF_RIGHT".toList]

/-- the names of the reference macro set -/
def MacroName (s : List Char) : Prop :=
  (∃ op ∈ ops, s = "CMP".toList ++ op ∨ s = "IF".toList ++ op ∨ s = "IFCMP".toList ++ op
      ∨ s = "ASSERT_".toList ++ op ∨ s = "ASSERT_CMP".toList ++ op)
  ∨ s ∈ fixedNames
  ∨ (∃ n, 2 ≤ n ∧ (s = dipName n ∨ s = dupName n))
  ∨ (∃ t : PairTree, 3 ≤ t.leaves ∧ (s = pairName t ∨ s = unpairName t))
  ∨ (∃ p : Path, 2 ≤ p.length ∧ s = cadrName p)
  ∨ (∃ p : Path, 1 ≤ p.length ∧ (s = setName p ∨ s = mapName p))

end Spec
