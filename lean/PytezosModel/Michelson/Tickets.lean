import PytezosModel.Generated.C20
/-! C20 — tickets: a mini-interpreter mirroring how pytezos executes the ticket instructions together with the
pair / or / option / list / set / map / big_map / lambda and stack instructions (src/pytezos/michelson/instructions/{ticket,
adt,struct,stack,control}.py, types/{ticket,base,map,big_map,set,sum,list,option}.py, stack.py).

What is mirrored literally: `MichelsonStack` (`items` + `protected`: `protect`, `restore`, `push` = `insert(protected, …)`,
`peek`, `pop`), every instruction's dynamic checks (`assert_type_in`, `assert_type_equal`, `is_duplicable`, `duplicate`,
`is_pushable`, `is_comparable`, the `dup` argument of `MapType.get` vs `BigMapType.get`), and the *runtime class* of every
value (`typeOf`): duplicability is decided on the class, not on the value.  The shape of the code under test is read by
the translator (`Generated.C20`) into `Cfg`.

Outcomes: `.error .fail` = MichelsonRuntimeError; `.error .unmodelled` = the real code does something this model does
not represent (listed at `Err.unmodelled`); `.error .fuel` = fuel exhausted (the driver gives ample fuel).

Ghost fields of the state (never read by the mirror): `minted` — log of successful TICKET executions; `typedStores` —
stays true as long as every value stored by UPDATE / GET_AND_UPDATE has the map's declared value type (pytezos does not
check it; the Michelson type checker does). -/
namespace Impl.Tickets

inductive Atom where
  | nat (n : Nat)
  | str (s : String)
  | addr (s : String)
  | unit
  | bool (b : Bool)
  deriving DecidableEq, Repr, Inhabited

/-- comparable values: ticket contents -/
inductive Cmp where
  | atom (a : Atom)
  | pair (l r : Cmp)
  deriving DecidableEq, Repr, Inhabited

/-- runtime classes.  `ticketBare` is the class `TicketType` itself (`args = []`), which `split` / `join` instantiate when
they do not use `type(self)` -/
inductive Ty where
  | nat | string | address | unit | bool
  | pair (a b : Ty)
  | or (a b : Ty)
  | set (t : Ty)
  | lambda (a b : Ty)
  | option (t : Ty)
  | list (t : Ty)
  | map (k v : Ty)
  | bigMap (k v : Ty)
  | ticket (t : Ty)
  | ticketBare
  deriving DecidableEq, Repr, Inhabited

def Ty.prim : Ty → String
 | .nat => "nat" | .string => "string" | .address => "address" | .unit => "unit" | .bool => "bool"
  | .pair .. => "pair" | .or .. => "or" | .set _ => "set" | .lambda .. => "lambda" | .option _ => "option" | .list _ => "list" | .map .. => "map" | .bigMap .. => "big_map"
  | .ticket _ => "ticket" | .ticketBare => "ticket"

/-- the shape shared by `is_duplicable` / `is_comparable` / `is_pushable`: false on the listed prims, true on `lambda`
(whatever its arguments), otherwise all arguments -/
def Ty.all (bad : List String) : Ty → Bool
  | .nat => !bad.contains "nat"
  | .string => !bad.contains "string"
  | .address => !bad.contains "address"
  | .unit => !bad.contains "unit"
  | .bool => !bad.contains "bool"
  | .pair a b => !bad.contains "pair" && (a.all bad && b.all bad)
  | .or a b => !bad.contains "or" && (a.all bad && b.all bad)
  | .set t => !bad.contains "set" && t.all bad
  | .lambda _ _ => !bad.contains "lambda"          -- `elif cls.prim == 'lambda': return True`: the arguments are not looked at
  | .option t => !bad.contains "option" && t.all bad
  | .list t => !bad.contains "list" && t.all bad
  | .map k v => !bad.contains "map" && (k.all bad && v.all bad)
  | .bigMap k v => !bad.contains "big_map" && (k.all bad && v.all bad)
  | .ticket t => !bad.contains "ticket" && t.all bad
  | .ticketBare => !bad.contains "ticket"

def Ty.isAtomTy : Ty → Bool
  | .nat | .string | .address | .unit | .bool => true
  | _ => false

structure Cfg where
  nonDup : List String
  nonCmp : List String
  nonPush : List String
  splitRejectsZero : Bool
  splitKeeps : Bool
  joinKeeps : Bool
  bigGetDup : Bool
  dupChecksBig : Bool

/-- the code under test; whatever the translator did not recognise defaults to the pessimistic reading -/
def cfg : Cfg where
  nonDup := Generated.C20.nonDuplicablePrims.getD []
  nonCmp := Generated.C20.nonComparablePrims.getD []
  nonPush := Generated.C20.nonPushablePrims.getD []
  splitRejectsZero := Generated.C20.splitRejectsZero.getD false
  splitKeeps := Generated.C20.splitKeepsClass.getD false
  joinKeeps := Generated.C20.joinKeepsClass.getD false
  bigGetDup := Generated.C20.bigMapGetHonoursDup.getD false
  dupChecksBig := Generated.C20.dupChecksBigMap.getD false && Generated.C20.duplicateAsserts

/- runtime values and instructions (mutual: a lambda value holds code, PUSH holds a value).  A (big_)map keeps its keys
and values in two lists of equal length (`items` of the Python object); `removed` = `BigMapType.removed_keys`.  Map keys
are atoms (pair keys are outside the model). -/
mutual
inductive Val where
  | atom (a : Atom)
  | ticket (cls : Ty) (ticketer : String) (contents : Cmp) (amount : Nat)
  | pair (l r : Val)
  | none (t : Ty)
  | some (v : Val)
  | list (t : Ty) (xs : List Val)
  | map (big : Bool) (k v : Ty) (keys : List Atom) (vals : List Val) (removed : List Atom)
  /-- `OrType((left, Undefined))`; `rt` = the other type argument of the class -/
  | left (v : Val) (rt : Ty)
  | right (lt : Ty) (v : Val)
  /-- a set of atoms (other element types are outside the model) -/
  | set (t : Ty) (xs : List Atom)
  /-- `LambdaType(value=body)` of class `lambda a b` -/
  | lam (a b : Ty) (body : List Instr)
inductive Instr where
  | ticket | readTicket | splitTicket | joinTickets
  | pair | unpair | car | cdr
  | some | none (t : Ty) | ifNone (bt bf : List Instr)
  | cons | nil (t : Ty) | iter (body : List Instr) | map (body : List Instr)
  | dup | dupN (n : Nat) | swap | dig (n : Nat) | dug (n : Nat) | drop
  | dip (body : List Instr) | dipN (n : Nat) (body : List Instr)
  | push (t : Ty) (v : Val)
  | emptyMap (k v : Ty) | emptyBigMap (k v : Ty)
  | get | getAndUpdate | update
  | left (t : Ty) | right (t : Ty) | ifLeft (bt bf : List Instr)
  | emptySet (t : Ty) | mem
  | lambda (a b : Ty) (body : List Instr) | exec | apply
  | failwith
  | seq (body : List Instr)
end

instance : Inhabited Val := ⟨.atom .unit⟩
instance : Inhabited Instr := ⟨.drop⟩

def Atom.ty : Atom → Ty
  | .nat _ => .nat | .str _ => .string | .addr _ => .address | .unit => .unit | .bool _ => .bool

def Cmp.ty : Cmp → Ty
  | .atom a => a.ty
  | .pair l r => .pair l.ty r.ty

/-- `type(v)` up to annotations -/
def Val.typeOf : Val → Ty
  | .atom a => a.ty
  | .ticket cls .. => cls
  | .pair l r => .pair l.typeOf r.typeOf
  | .none t => .option t
  | .some v => .option v.typeOf
  | .list t _ => .list t
  | .map big k v .. => if big then .bigMap k v else .map k v
  | .left v rt => .or v.typeOf rt
  | .right lt v => .or lt v.typeOf
  | .set t _ => .set t
  | .lam a b _ => .lambda a b

def Cmp.toVal : Cmp → Val
  | .atom a => .atom a
  | .pair l r => .pair l.toVal r.toVal

/-- the comparable values this model can hold as ticket contents -/
def Val.toCmp : Val → Option Cmp
  | .atom a => Option.some (.atom a)
  | .pair l r => match l.toCmp, r.toCmp with
    | Option.some a, Option.some b => Option.some (.pair a b)
    | _, _ => Option.none
  | _ => Option.none

inductive Err where
  | fail
  /-- DUP 0; ITER over a big_map with removed keys; comparable contents other than atoms / pairs of atoms; (big_)maps and
  sets whose key / element type is not an atom type; MAP over a non-empty set; ITER / MAP over an `or` value (the real
  loop pushes the `Undefined` marker of the empty side) -/
  | unmodelled
  | fuel
  deriving DecidableEq, Repr

abbrev M := Except Err

structure State where
  items : List Val
  prot : Nat
  self : String
  typedStores : Bool := true
  minted : List (String × Cmp × Nat) := []
  deriving Inhabited

/-! ### MichelsonStack -/

def State.protect (s : State) (count : Nat) : M State :=
  if s.items.length < count then .error .fail else .ok { s with prot := s.prot + count }

def State.restore (s : State) (count : Nat) : M State :=
  if s.prot < count then .error .fail else .ok { s with prot := s.prot - count }

/-- `self.items.insert(self.protected, item)` (Python clamps the index) -/
def State.push (s : State) (v : Val) : State :=
  { s with items := s.items.take s.prot ++ v :: s.items.drop s.prot }

def State.peek (s : State) : M Val :=
  if s.items.isEmpty then .error .fail else
    match s.items[s.prot]? with
    | some v => .ok v
    | none => .error .fail

/-- `[self.items.pop(self.protected) for _ in range(count)]` -/
def State.pop (s : State) (count : Nat) : M (List Val × State) :=
  if s.items.length < s.prot + count then .error .fail
  else .ok ((s.items.drop s.prot).take count,
            { s with items := s.items.take s.prot ++ s.items.drop (s.prot + count) })

def State.pop1 (s : State) : M (Val × State) := do
  match ← s.pop 1 with
  | ([a], s') => pure (a, s')
  | _ => .error .fail

def State.pop2 (s : State) : M (Val × Val × State) := do
  match ← s.pop 2 with
  | ([a, b], s') => pure (a, b, s')
  | _ => .error .fail

def State.pop3 (s : State) : M (Val × Val × Val × State) := do
  match ← s.pop 3 with
  | ([a, b, c], s') => pure (a, b, c, s')
  | _ => .error .fail

/-! ### tickets (types/ticket.py) -/

/-- `TicketType.split`; `none` = the Python `None` -/
def split (c : Cfg) (cls : Ty) (tk : String) (ct : Cmp) (amount a b : Nat) : Option (Val × Val) :=
  if a + b != amount || (c.splitRejectsZero && (a == 0 || b == 0)) then Option.none
  else
    let cls' := if c.splitKeeps then cls else .ticketBare
    Option.some (.ticket cls' tk ct a, .ticket cls' tk ct b)

/-- `TicketType.join` after its `assert_type_equal`; `none` = the Python `None` -/
def join (c : Cfg) (cls : Ty) (tk1 : String) (c1 : Cmp) (a1 : Nat) (tk2 : String) (c2 : Cmp) (a2 : Nat) : Option Val :=
  if tk1 != tk2 || c1 != c2 then Option.none
  else Option.some (.ticket (if c.joinKeeps then cls else .ticketBare) tk1 c1 (a1 + a2))

/-! ### maps (types/map.py, types/big_map.py) -/

def Atom.lt : Atom → Atom → Bool
  | .nat a, .nat b => a < b
  | .str a, .str b => a < b
  | .addr a, .addr b => a < b
  | .bool a, .bool b => !a && b
  | _, _ => false

def lookup (key : Atom) : List Atom → List Val → Option Val
  | k :: ks, v :: vs => if k == key then Option.some v else lookup key ks vs
  | _, _ => Option.none

/-- `[(k, v if k != key else val) for k, v in items]` -/
def replaceVal (key : Atom) (val : Val) : List Atom → List Val → List Val
  | k :: ks, v :: vs => (if k != key then v else val) :: replaceVal key val ks vs
  | _, _ => []

/-- `[(k, v) for k, v in items if k != key]` -/
def removeKey (key : Atom) : List Atom → List Val → List Atom × List Val
  | k :: ks, v :: vs =>
    let (ks', vs') := removeKey key ks vs
    if k != key then (k :: ks', v :: vs') else (ks', vs')
  | _, _ => ([], [])

/-- `sorted(items + [(key, val)], key=lambda x: x[0])` for sorted `items` not containing `key` -/
def insertSorted (key : Atom) (val : Val) : List Atom → List Val → List Atom × List Val
  | k :: ks, v :: vs =>
    if key.lt k then (key :: k :: ks, val :: v :: vs)
    else
      let (ks', vs') := insertSorted key val ks vs
      (k :: ks', v :: vs')
  | _, _ => ([key], [val])

/-- `get(key, dup)`: `.ok none` = Python `None` -/
def mapGet (c : Cfg) (big : Bool) (kt vt : Ty) (keys : List Atom) (vals : List Val) (_removed : List Atom)
    (key : Val) (dup : Bool) : M (Option Val) :=
  if key.typeOf != kt then .error .fail
  else if dup && (!big || c.bigGetDup) && !vt.all c.nonDup then .error .fail
  else match key with
    | .atom k =>
      match lookup k keys vals with
      | Option.some v => .ok (Option.some v)
      | Option.none => .ok Option.none     -- a removed key yields None; an unknown key asks the (empty, offline) context: None
    | _ => .error .unmodelled

/-- `update(key, val)` → (previous value, new map).  `MapType.update`, and `BigMapType.update` as repaired for C15 (its
comprehensions walk `self.items`; `removed_keys` is a set: add on removal, discard on insertion) -/
def mapUpdate (c : Cfg) (big : Bool) (kt vt : Ty) (keys : List Atom) (vals : List Val) (removed : List Atom)
    (key : Val) (val : Option Val) : M (Option Val × Val) := do
  let prev ← mapGet c big kt vt keys vals removed key false
  match key with
  | .atom k =>
    match prev, val with
    | Option.some p, Option.some x =>
      -- offline a previous value always sits in `items` (the `else` branch of the big_map code needs a context value)
      pure (Option.some p, .map big kt vt keys (replaceVal k x keys vals) removed)
    | Option.some p, Option.none =>
      let (ks, vs) := removeKey k keys vals
      pure (Option.some p, .map big kt vt ks vs (if big then (if removed.contains k then removed else k :: removed) else removed))
    | Option.none, Option.some x =>
      let (ks, vs) := insertSorted k x keys vals
      pure (Option.none, .map big kt vt ks vs (if big then removed.filter (· != k) else removed))
    | Option.none, Option.none => pure (Option.none, .map big kt vt keys vals removed)
  | _ => .error .unmodelled

/-- `sorted([item] + items)` for sorted `items` not containing `item` -/
def insertAtom (k : Atom) : List Atom → List Atom
  | x :: xs => if k.lt x then k :: x :: xs else x :: insertAtom k xs
  | [] => [k]

/-- `SetType.add` -/
def setAdd (k : Atom) (xs : List Atom) : List Atom := if xs.contains k then xs else insertAtom k xs

/-- the option on the stack as the Python `None | value` handed to `update` (`none` = not an option: AttributeError /
failed `assert_type_in`) -/
def optOf : Val → Option (Option Val)
  | .none _ => Option.some Option.none
  | .some x => Option.some (Option.some x)
  | _ => Option.none

/-- `OptionType.none(vt)` / `OptionType.from_some(v)` -/
def optVal (vt : Ty) : Option Val → Val
  | Option.none => .none vt
  | Option.some p => .some p

/-- ghost: does the stored value have the map's declared value type? -/
def storeOk (vt : Ty) : Option Val → Bool
  | Option.some x => x.typeOf == vt
  | Option.none => true

/-! ### instructions -/

/-- what `create_type` asserts when the type arguments of an instruction are matched (before anything runs):
keys of map / big_map and ticket contents are comparable; there is no source syntax for the bare ticket class -/
def Ty.wf (c : Cfg) : Ty → Bool
  | .pair a b => a.wf c && b.wf c
  | .option t => t.wf c
  | .list t => t.wf c
  | .map k v => k.all c.nonCmp && k.wf c && v.wf c
  | .bigMap k v => k.all c.nonCmp && k.wf c && v.wf c
  | .ticket t => t.all c.nonCmp && t.wf c
  | .or a b => a.wf c && b.wf c
  | .set t => t.all c.nonCmp && t.wf c
  | .lambda a b => a.wf c && b.wf c
  | .ticketBare => false
  | _ => true

mutual
  def Instr.wf (c : Cfg) : Instr → Bool
    | .none t => t.wf c
    | .nil t => t.wf c
    | .push t _ => t.wf c
    | .emptyMap k v => (Ty.map k v).wf c
    | .emptyBigMap k v => (Ty.bigMap k v).wf c
    | .emptySet t => (Ty.set t).wf c
    | .left t => t.wf c
    | .right t => t.wf c
    | .ifNone a b => Instr.wfList c a && Instr.wfList c b
    | .ifLeft a b => Instr.wfList c a && Instr.wfList c b
    | .lambda a b body => a.wf c && b.wf c && Instr.wfList c body
    | .iter b => Instr.wfList c b
    | .map b => Instr.wfList c b
    | .dip b => Instr.wfList c b
    | .dipN _ b => Instr.wfList c b
    | .seq b => Instr.wfList c b
    | _ => true
  def Instr.wfList (c : Cfg) : List Instr → Bool
    | [] => true
    | i :: is => i.wf c && Instr.wfList c is
end

def nodupB : List Atom → Bool
  | [] => true
  | k :: ks => !ks.contains k && nodupB ks

mutual
  /-- well-formed runtime values: every container element has the class the container declares, tickets have a ticket
  class, map keys are distinct and paired with the values (what the Michelson type system guarantees) -/
  def Val.consistent : Val → Bool
    | .atom _ => true
    | .ticket cls _ ct _ => cls == .ticketBare || cls == .ticket ct.ty
    | .pair l r => l.consistent && r.consistent
    | .none _ => true
    | .some v => v.consistent
    | .list t xs => Val.consistentList t xs
    | .map _ _ v keys vals _ => keys.length == vals.length && nodupB keys && Val.consistentList v vals
    | .left v _ => v.consistent
    | .right _ v => v.consistent
    | .set _ xs => nodupB xs
    | .lam .. => true
  def Val.consistentList (t : Ty) : List Val → Bool
    | [] => true
    | x :: xs => x.typeOf == t && x.consistent && Val.consistentList t xs
end

/-- strictly increasing (what `check_constraints` asserts of the keys of a map literal / the elements of a set literal) -/
def sortedB : List Atom → Bool
  | a :: b :: rest => a.lt b && sortedB (b :: rest)
  | _ => true

mutual
  /-- what parsing a literal against its type guarantees beyond `consistent`: keys / elements of the declared class, in
  strictly increasing order, nothing removed -/
  def Val.litOk : Val → Bool
    | .pair l r => l.litOk && r.litOk
    | .some v => v.litOk
    | .list _ xs => Val.litOkList xs
    | .map _ k _ keys vals removed => keys.all (fun a => a.ty == k) && sortedB keys && removed.isEmpty && Val.litOkList vals
    | .left v _ => v.litOk
    | .right _ v => v.litOk
    | .set t xs => xs.all (fun a => a.ty == t) && sortedB xs
    | _ => true
  def Val.litOkList : List Val → Bool
    | [] => true
    | x :: xs => x.litOk && Val.litOkList xs
end

/-- `ListType.from_items` / `MapType.from_items` check: every item has the class of the first -/
def sameTypes (t : Ty) (xs : List Val) : Bool := xs.all (·.typeOf == t)

/-- the elements `for elt in src` yields (`from_comb([k, v])` for maps) -/
def elements : Val → M (List Val)
  | .list _ xs => .ok xs
  | .pair l r => .ok [l, r]
  | .map big _ _ keys vals removed =>
    if big && !removed.isEmpty then .error .unmodelled
    else .ok ((keys.zip vals).map fun (k, v) => .pair (.atom k) v)
  | .set _ xs => .ok (xs.map .atom)
  | .left .. => .error .unmodelled        -- (not Michelson) `OrType.__iter__` yields the value and the `Undefined` marker
  | .right .. => .error .unmodelled
  | _ => .error .fail

/-- the instructions that pop a fixed number of items and push their results (`none` in the result list = nothing) -/
def simple (c : Cfg) (s : State) : Instr → Option (M State)
  | .ticket => Option.some do
    let (item, amount, s) ← s.pop2
    match amount with
    | .atom (.nat n) =>
      if !item.typeOf.all c.nonCmp then .error .fail
      else match item.toCmp with
        | Option.none => .error .unmodelled
        | Option.some ct =>
          if n > 0 then
            pure { (s.push (.some (.ticket (.ticket item.typeOf) s.self ct n))) with minted := (s.self, ct, n) :: s.minted }
          else pure (s.push (.none (.ticket item.typeOf)))
    | _ => .error .fail
  | .readTicket => Option.some do
    let (t, s) ← s.pop1
    match t with
    | .ticket cls tk ct a =>
      pure ((s.push (.ticket cls tk ct a)).push (.pair (.atom (.addr tk)) (.pair ct.toVal (.atom (.nat a)))))
    | _ => .error .fail
  | .splitTicket => Option.some do
    let (t, amounts, s) ← s.pop2
    match t, amounts with
    | .ticket cls tk ct amount, .pair (.atom (.nat a)) (.atom (.nat b)) =>
      match split c cls tk ct amount a b with
      | Option.none => pure (s.push (.none (.pair cls cls)))
      | Option.some (l, r) => pure (s.push (.some (.pair l r)))
    | _, _ => .error .fail
  | .joinTickets => Option.some do
    let (p, s) ← s.pop1
    match p with
    | .pair (.ticket cls1 tk1 c1 a1) (.ticket cls2 tk2 c2 a2) =>
      if cls1 != cls2 then .error .fail
      else match join c cls1 tk1 c1 a1 tk2 c2 a2 with
        | Option.none => pure (s.push (.none cls1))
        | Option.some r =>
          -- `OptionType.from_some(res)` calls `res.get_anon_type()`: IndexError on the bare class
          if r.typeOf == .ticketBare then .error .fail else pure (s.push (.some r))
    | _ => .error .fail
  | .pair => Option.some do
    let (l, r, s) ← s.pop2
    pure (s.push (.pair l r))
  | .unpair => Option.some do
    let (p, s) ← s.pop1
    match p with
    | .pair l r => pure ((s.push r).push l)
    | _ => .error .fail
  | .car => Option.some do
    let (p, s) ← s.pop1
    match p with
    | .pair l _ => pure (s.push l)
    | _ => .error .fail
  | .cdr => Option.some do
    let (p, s) ← s.pop1
    match p with
    | .pair _ r => pure (s.push r)
    | _ => .error .fail
  | .some => Option.some do
    let (v, s) ← s.pop1
    pure (s.push (.some v))
  | .none t => Option.some (pure (s.push (.none t)))
  | .nil t => Option.some (pure (s.push (.list t [])))
  | .cons => Option.some do
    let (x, l, s) ← s.pop2
    match l with
    | .list t xs => if t != x.typeOf then .error .fail else pure (s.push (.list t (x :: xs)))
    | _ => .error .fail
  | .swap => Option.some do
    let (a, b, s) ← s.pop2
    pure ((s.push a).push b)
  | .drop => Option.some do
    let (_, s) ← s.pop1
    pure s
  | .failwith => Option.some (.error .fail)     -- pops one item and raises (or fails to pop): an error either way
  | .push t v => Option.some (
    if !t.all c.nonPush then .error .fail
    else if v.typeOf == t && v.consistent && v.litOk then pure (s.push v) else .error .fail)
  | .emptyMap k v => Option.some (if k.isAtomTy then pure (s.push (.map false k v [] [] [])) else .error .unmodelled)
  | .emptyBigMap k v => Option.some (if k.isAtomTy then pure (s.push (.map true k v [] [] [])) else .error .unmodelled)
  | .get => Option.some do
    let (key, src, s) ← s.pop2
    match src with
    | .map big kt vt keys vals removed => do
      let r ← mapGet c big kt vt keys vals removed key true
      pure (s.push (optVal vt r))
    | _ => .error .fail
  | .getAndUpdate => Option.some do
    let (key, val, src, s) ← s.pop3
    match src with
    | .map big kt vt keys vals removed =>
      match optOf val with
      | Option.none => .error .fail
      | Option.some ov => do
        let (prev, dst) ← mapUpdate c big kt vt keys vals removed key ov
        pure (({ s with typedStores := s.typedStores && storeOk vt ov }.push dst).push (optVal vt prev))
    | _ => .error .fail
  | .update => Option.some do
    let (key, val, src, s) ← s.pop3
    match src with
    | .map big kt vt keys vals removed =>
      match optOf val with
      | Option.none => .error .fail           -- a bool (or anything else) with a map
      | Option.some ov => do
        let (_, dst) ← mapUpdate c big kt vt keys vals removed key ov
        pure ({ s with typedStores := s.typedStores && storeOk vt ov }.push dst)
    | .set t xs =>
      match val with
      | .atom (.bool b) =>          -- `src.add(key) if bool(val) else src.remove(key)`; both start with `contains`
        if key.typeOf != t then .error .fail
        else match key with
          | .atom k => pure (s.push (.set t (if b then setAdd k xs else xs.filter (· != k))))
          | _ => .error .unmodelled
      | _ => .error .fail                      -- an option with a set
    | _ => .error .fail
  | .left t => Option.some do
    let (v, s) ← s.pop1
    pure (s.push (.left v t))
  | .right t => Option.some do
    let (v, s) ← s.pop1
    pure (s.push (.right t v))
  | .lambda a b body => Option.some (pure (s.push (.lam a b body)))
  | .apply => Option.some do
    let (left, lam, s) ← s.pop2
    match lam with
    | .lam (.pair lt rt) b body =>
      if left.typeOf != lt then .error .fail
      -- `{ PUSH left_type <literal of left> ; PAIR ; <body> }`: the captured value is re-read from its literal when the PUSH runs
      else pure (s.push (.lam rt b [.push lt left, .pair, .seq body]))
    | _ => .error .fail
  | .emptySet t => Option.some (if t.isAtomTy then pure (s.push (.set t [])) else .error .unmodelled)
  | .mem => Option.some do
    let (key, src, s) ← s.pop2
    match src with
    | .set t xs =>
      if key.typeOf != t then .error .fail
      else match key with
        | .atom k => pure (s.push (.atom (.bool (xs.contains k))))
        | _ => .error .unmodelled
    | .map big kt vt keys vals removed => do
      let r ← mapGet c big kt vt keys vals removed key false
      pure (s.push (.atom (.bool r.isSome)))
    | _ => .error .fail
  | _ => Option.none

/-- `value.duplicate()` as DUP / DUP n reach it -/
def duplicate (c : Cfg) (v : Val) : M Val :=
  match v with
  | .map true k vt .. =>
    -- `BigMapType.duplicate` has no assert; the instruction may check itself
    if c.dupChecksBig && !(Ty.bigMap k vt).all c.nonDup then .error .fail else .ok v
  | _ => if !v.typeOf.all c.nonDup then .error .fail else .ok v

mutual
  def exec (c : Cfg) : Nat → Instr → State → M State
    | 0, _, _ => .error .fuel
    | f + 1, i, s =>
      match simple c s i with
      | Option.some r => r
      | Option.none =>
        match i with
        | .dup => do
          let top ← s.peek
          let r ← duplicate c top
          pure (s.push r)
        | .dupN n =>
          if n == 0 then .error .unmodelled else do
            let s ← s.protect (n - 1)
            let top ← s.peek
            let r ← duplicate c top
            let s ← s.restore (n - 1)
            pure (s.push r)
        | .dig n => do
          let s ← s.protect n
          let (r, s) ← s.pop1
          let s ← s.restore n
          pure (s.push r)
        | .dug n => do
          let (r, s) ← s.pop1
          let s ← s.protect n
          let s := s.push r
          s.restore n
        | .dip body => do
          let s ← s.protect 1
          let s ← execSeq c f body s
          s.restore 1
        | .dipN n body => do
          let s ← s.protect n
          let s ← execSeq c f body s
          s.restore n
        | .seq body => execSeq c f body s
        | .ifNone bt bf => do
          let (o, s) ← s.pop1
          match o with
          | .none _ => execSeq c f bt s
          | .some v => execSeq c f bf (s.push v)
          | _ => .error .fail
        | .exec => do
          let (param, lam, s) ← s.pop2
          match lam with
          | .lam a b body =>
            if param.typeOf != a then .error .fail
            else do
              -- `lambda_stack = MichelsonStack.from_items([param])`; the body runs on it with the same context
              let ls ← execSeq c f body { s with items := [param], prot := 0 }
              let (res, ls) ← ls.pop1
              if res.typeOf != b then .error .fail
              else if !ls.items.isEmpty then .error .fail
              else pure ({ s with typedStores := ls.typedStores, minted := ls.minted }.push res)
          | _ => .error .fail
        | .ifLeft bt bf => do
          let (o, s) ← s.pop1
          match o with
          | .left v _ => execSeq c f bt (s.push v)
          | .right _ v => execSeq c f bf (s.push v)
          | _ => .error .fail
        | .iter body => do
          let (src, s) ← s.pop1
          let els ← elements src
          iterLoop c f body els s
        | .map body => do
          let (src, s) ← s.pop1
          match src with
          | .list t xs =>
            let (ys, s) ← mapLoop c f body xs [] s
            match ys with
            | [] => pure (s.push (.list t xs))
            | y :: _ => if sameTypes y.typeOf ys then pure (s.push (.list y.typeOf ys)) else .error .fail
          | .map false kt _ keys _ removed =>
            let els ← elements src
            let (ys, s) ← mapLoop c f body els [] s
            match ys with
            | [] => pure (s.push src)
            | y :: _ =>
              if ys.length == keys.length && sameTypes y.typeOf ys then pure (s.push (.map false kt y.typeOf keys ys removed))
              else .error .fail
          | .map true _ _ keys _ removed =>
            -- `BigMapType.from_items` is forbidden: only the empty big_map survives MAP
            if keys.isEmpty && removed.isEmpty then pure (s.push src) else .error .fail
          | .set _ xs =>
            -- (not Michelson) `SetType.from_items` would rebuild a set from the results: outside the model
            if xs.isEmpty then pure (s.push src) else .error .unmodelled
          | .left .. => .error .unmodelled
          | .right .. => .error .unmodelled
          | _ => .error .fail          -- not iterable, or (pair) no `from_items`
        | _ => .error .fail
  def execSeq (c : Cfg) : Nat → List Instr → State → M State
    | 0, _, _ => .error .fuel
    | _ + 1, [], s => .ok s
    | f + 1, i :: is, s => do
      let s ← exec c f i s
      execSeq c f is s
  /-- `for elt in src: stack.push(elt); body.execute(...)` -/
  def iterLoop (c : Cfg) : Nat → List Instr → List Val → State → M State
    | 0, _, _, _ => .error .fuel
    | _ + 1, _, [], s => .ok s
    | f + 1, body, x :: xs, s => do
      let s ← execSeq c f body (s.push x)
      iterLoop c f body xs s
  /-- `for elt in src: stack.push(elt); body.execute(...); items.append(stack.pop1())` -/
  def mapLoop (c : Cfg) : Nat → List Instr → List Val → List Val → State → M (List Val × State)
    | 0, _, _, _, _ => .error .fuel
    | _ + 1, _, [], acc, s => .ok (acc.reverse, s)
    | f + 1, body, x :: xs, acc, s => do
      let s ← execSeq c f body (s.push x)
      let (y, s) ← s.pop1
      mapLoop c f body xs (y :: acc) s
end

/-- a whole program as `Interpreter.execute` runs it: the type arguments are matched first -/
def run (c : Cfg) (fuel : Nat) (prog : List Instr) (s : State) : M State :=
  if Instr.wfList c prog then execSeq c fuel prog s else .error .fail

/-! ### what the property talks about -/

abbrev TKey := String × Cmp

mutual
  /-- total amount of the tickets of kind `k` held anywhere inside a value -/
  def ticketSum (k : TKey) : Val → Nat
    | .ticket _ tk ct a => if tk = k.1 ∧ ct = k.2 then a else 0
    | .pair l r => ticketSum k l + ticketSum k r
    | .some v => ticketSum k v
    | .list _ xs => ticketSumList k xs
    | .map _ _ _ _ vals _ => ticketSumList k vals
    | .left v _ => ticketSum k v
    | .right _ v => ticketSum k v
    | _ => 0
  def ticketSumList (k : TKey) : List Val → Nat
    | [] => 0
    | x :: xs => ticketSum k x + ticketSumList k xs
end

def State.sum (s : State) (k : TKey) : Nat := ticketSumList k s.items

def mintedSum (k : TKey) : List (String × Cmp × Nat) → Nat
  | [] => 0
  | (tk, ct, a) :: rest => (if tk = k.1 ∧ ct = k.2 then a else 0) + mintedSum k rest

mutual
  /-- no ticket of amount zero anywhere inside -/
  def noZero : Val → Bool
    | .ticket _ _ _ a => a != 0
    | .pair l r => noZero l && noZero r
    | .some v => noZero v
    | .list _ xs => noZeroList xs
    | .map _ _ _ _ vals _ => noZeroList vals
    | .left v _ => noZero v
    | .right _ v => noZero v
    | _ => true
  def noZeroList : List Val → Bool
    | [] => true
    | x :: xs => noZero x && noZeroList xs
end

mutual
  /-- every ticket inside, as (ticketer, contents, amount) — the observable compared with the real interpreter -/
  def tickets : Val → List (String × Cmp × Nat)
    | .ticket _ tk ct a => [(tk, ct, a)]
    | .pair l r => tickets l ++ tickets r
    | .some v => tickets v
    | .list _ xs => ticketsList xs
    | .map _ _ _ _ vals _ => ticketsList vals
    | .left v _ => tickets v
    | .right _ v => tickets v
    | _ => []
  def ticketsList : List Val → List (String × Cmp × Nat)
    | [] => []
    | x :: xs => tickets x ++ ticketsList xs
end

end Impl.Tickets
