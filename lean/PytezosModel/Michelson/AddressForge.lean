import PytezosModel.Crypto.Encoding
import PytezosModel.Generated.C10
/-! Mirror of the address / key / signature / chain-id part of `src/pytezos/michelson/forge.py`
(`forge_address`, `unforge_address`, `forge_contract`, `unforge_contract`, `forge_public_key`,
`unforge_public_key`, `unforge_chain_id`, `unforge_signature`, `forge_base58`) on top of the Base58Check
mirror.  Values are the Base58 *strings* the Python functions exchange (`List Nat`, ASCII); the dispatch
tables and the shape of `unforge_address` / `forge_contract` / `unforge_signature` are regenerated from the
source.  Control flow is literal: textual prefix dispatch in the forge direction, content (or length) dispatch
in the unforge direction, first match wins, `KeyError` and `ValueError` kept apart. -/
namespace Impl.AddrForge
open Base58 Impl.Encoding

inductive Err where
  | unrecognisedSource
  | valueError     -- ValueError (base58 checksum / character, no table row, unknown prefix)
  | keyError       -- KeyError (tag byte not in the dict)
  | nonAscii       -- entrypoint bytes ≥ 128: `bytes.decode()` is outside the model
deriving DecidableEq, Repr

def ofEnc {α} : Except Impl.Encoding.Err α → Except Err α
  | .ok a => .ok a
  | .error .unrecognisedSource => .error .unrecognisedSource
  | .error _ => .error .valueError

/-- `base58.b58decode_check(value)` as used directly by `forge_address` / `forge_public_key` -/
def decodeCheck (cks : List Nat → List Nat) (s : List Nat) : Except Err (List Nat) :=
  match b58decCheck cks s with
  | .ok d => .ok d
  | .error _ => .error .valueError

/-- `forge_address(value, tz_only)` -/
def forgeAddress (cks : List Nat → List Nat) (value : List Nat) (tzOnly : Bool) : Except Err (List Nat) :=
  if !Generated.C10.forgeAddressRecognised then .error .unrecognisedSource else
  let prefixLen := if Generated.C10.longTextPrefix.isPrefixOf value then 4 else 3
  let pfx := value.take prefixLen
  match decodeCheck cks value with
  | .error e => .error e
  | .ok raw =>
    let address := raw.drop prefixLen
    match Generated.C10.forgeAddressChain.find? (fun e => e.1 == pfx) with
    | none => .error .valueError
    | some e =>
      let res := e.2.1 ++ address ++ e.2.2
      .ok (if tzOnly then res.drop 1 else res)

/-- `tz_prefixes[b'\x00' + data[:1]]` -/
def tzLookup (data : List Nat) : Option (List Nat) :=
  (Generated.C10.tzPrefixes.find? (fun e => e.1 == 0 :: data.take 1)).map (·.2)

/-- `unforge_address(data)` -/
def unforgeAddress (cks : List Nat → List Nat) (data : List Nat) : Except Err (List Nat) :=
  if !Generated.C10.unforgeAddressRecognised then .error .unrecognisedSource else
  let keyHashForm : Except Err (List Nat) :=
    match tzLookup data with
    | none => .error .keyError
    | some h => ofEnc (base58Encode cks (data.drop 1) h)
  if Generated.C10.unforgeLengthFirst && data.length == 21 then keyHashForm else
  match Generated.C10.tzPrefixes.find? (fun e => e.1.isPrefixOf data) with
  | some e => ofEnc (base58Encode cks (data.drop 2) e.2)
  | none =>
    match Generated.C10.originatedChain.find? (fun e => [e.1].isPrefixOf data && data.getLast? == some e.2.1) with
    | some e => ofEnc (base58Encode cks (data.drop 1).dropLast e.2.2)
    | none => keyHashForm

/-- `value.split('%')` -/
def splitPercent : List Nat → List (List Nat)
  | [] => [[]]
  | c :: cs =>
    match splitPercent cs with
    | [] => [[c]]   -- unreachable: the result is never empty
    | p :: ps => if c = 37 then [] :: p :: ps else (c :: p) :: ps

/-- `value.split('%', 1)` -/
def splitPercentOnce : List Nat → List (List Nat)
  | [] => [[]]
  | c :: cs =>
    if c = 37 then [[], cs] else
    match splitPercentOnce cs with
    | [] => [[c]]   -- unreachable
    | p :: ps => (c :: p) :: ps

def defaultName : List Nat := [100, 101, 102, 97, 117, 108, 116]   -- "default"

/-- `forge_contract(value)` -/
def forgeContract (cks : List Nat → List Nat) (value : List Nat) : Except Err (List Nat) :=
  if !Generated.C10.forgeContractRecognised then .error .unrecognisedSource else
  let parts := if Generated.C10.splitFirstOnly then splitPercentOnce value else splitPercent value
  let (address, entrypoint) :=
    match parts with
    | [a, e] => (a, e)
    | a :: _ => (a, defaultName)
    | [] => ([], defaultName)   -- unreachable
  match forgeAddress cks address false with
  | .error e => .error e
  | .ok res => .ok (if entrypoint != defaultName then res ++ entrypoint else res)

/-- `unforge_contract(data)` -/
def unforgeContract (cks : List Nat → List Nat) (data : List Nat) : Except Err (List Nat) :=
  if !Generated.C10.unforgeContractRecognised then .error .unrecognisedSource else
  match unforgeAddress cks (data.take 22) with
  | .error e => .error e
  | .ok res =>
    if data.length > 22 then
      if (data.drop 22).all (· < 128) then .ok (res ++ 37 :: data.drop 22) else .error .nonAscii
    else .ok res

/-- `forge_public_key(value)` -/
def forgePublicKey (cks : List Nat → List Nat) (value : List Nat) : Except Err (List Nat) :=
  if !Generated.C10.publicKeyRecognised then .error .unrecognisedSource else
  let pfx := value.take 4
  match decodeCheck cks value with
  | .error e => .error e
  | .ok raw =>
    match Generated.C10.keyTagOfPrefix.find? (fun e => e.1 == pfx) with
    | none => .error .valueError
    | some e => .ok (e.2 :: raw.drop 4)

/-- `unforge_public_key(data)` -/
def unforgePublicKey (cks : List Nat → List Nat) (data : List Nat) : Except Err (List Nat) :=
  if !Generated.C10.publicKeyRecognised then .error .unrecognisedSource else
  match data with
  | [] => .error .keyError          -- key_prefix[b'']
  | t :: rest =>
    match Generated.C10.keyPrefixOfTag.find? (fun e => e.1 == t) with
    | none => .error .keyError
    | some e => ofEnc (base58Encode cks rest e.2)

/-- `unforge_chain_id(data)` -/
def unforgeChainId (cks : List Nat → List Nat) (data : List Nat) : Except Err (List Nat) :=
  if !Generated.C10.chainIdRecognised then .error .unrecognisedSource else
  ofEnc (base58Encode cks data Generated.C10.chainIdPrefix)

/-- one alternative of `unforge_signature`: a length test, or the final `else` -/
def sigAlternative (n : Nat) (e : Option Nat × List Nat) : Bool :=
  match e.1 with
  | none => true
  | some m => n == m

/-- `unforge_signature(data)` -/
def unforgeSignature (cks : List Nat → List Nat) (data : List Nat) : Except Err (List Nat) :=
  if !Generated.C10.signatureRecognised then .error .unrecognisedSource else
  match Generated.C10.signaturePrefixes.find? (sigAlternative data.length) with
  | none => .error .unrecognisedSource
  | some e => ofEnc (base58Encode cks data e.2)

/-- `forge_base58(value)` -/
def forgeBase58 (cks : List Nat → List Nat) (value : List Nat) : Except Err (List Nat) :=
  if !Generated.C10.forgeBase58Recognised then .error .unrecognisedSource else
  ofEnc (base58Decode cks value)

end Impl.AddrForge
