import PytezosModel.Generated.C14
/-!
# C14 — `SetType` / `MapType` of pytezos as lists, and the reference sorted dictionary

Generic over the key type `κ` with the runtime comparison methods `eq` (`__eq__`) and `lt` (`__lt__`) as parameters
(C03 establishes that they form a strict total order on the values of each comparable type).

`Impl.Coll.*` mirrors src/pytezos/michelson/types/set.py, map.py and the MAP / ITER / UPDATE / GET / MEM / SIZE /
GET_AND_UPDATE instructions *literally*:
* `sorted(xs)` / `sorted(xs, key=f)`: CPython's sort uses only `__lt__` (of the keys), is stable, and inserts a later
  element after every element it is not smaller than — modelled as left-to-right insertion sort (`sortBy`);
* `len(set(keys)) == len(keys)`: a hash set keeps an element iff no `__eq__`-equal element is already present
  (assuming `__hash__` is consistent with `__eq__`) — `classes`;
* `item in self.items`, `x != item`, `k == key`, list `==`: element-wise `__eq__`.
`Spec.Coll.*` is the reference: a strictly sorted association list maintained by ordered insertion / deletion / search
(no sorting, no scanning past the position), i.e. the textbook sorted dictionary.
-/
namespace Impl.Coll

inductive Err | duplicate | unsorted | empty
  deriving DecidableEq, Repr

open Generated.C14 in
/-- every method / instruction mirrored below has, in the source, the shape the mirror was written from
(re-extracted by translator/c14.py on every run) -/
def shapesOk : Bool :=
  setContains == some .itemInItems && setAdd == some .sortedPrepend && setRemove == some .filterNe
  && setCheck == some .dupThenSorted && setLiteral == some .checkThenKeep && setIter == some .itemsOrder
  && setLen == some .lenItems && mapGet == some .firstKeyEq && mapContains == some .getIsNotNone
  && mapUpdate == some .replaceFilterSortedAppend && mapCheck == some .dupThenSorted
  && mapFromItems == some .typeCheckThenConstraints && mapIter == some .itemsOrder && mapLen == some .lenItems
  && mapLiteral == some .checkThenKeep && instrUpdate == some .addRemoveOrUpdate
  && instrGetAndUpdate == some .updateThenPrev && instrGet == some .getToOption && instrMem == some .contains
  && instrSize == some .len && instrMap == some .keepsKey && instrIter == some .inItemsOrder

section
variable {κ α ν : Type}

/-- insert a later element `x` into an already sorted list, comparing `lt (f x) (f e)` only (binary insertion of
CPython's sort does exactly these comparisons: the new element goes after everything it is not smaller than) -/
def insBy (lt : κ → κ → Bool) (f : α → κ) (x : α) : List α → List α
  | [] => [x]
  | e :: es => if lt (f x) (f e) then x :: e :: es else e :: insBy lt f x es

/-- `sorted(l, key=f)` -/
def sortBy (lt : κ → κ → Bool) (f : α → κ) (l : List α) : List α :=
  l.foldl (fun acc x => insBy lt f x acc) []

/-- the elements a Python `set(l)` retains: an element is added iff no `==` element is already there -/
def classes (eq : κ → κ → Bool) (l : List κ) : List κ :=
  l.foldl (fun acc x => if acc.any (fun e => eq e x) then acc else acc ++ [x]) []

/-- Python `==` on two lists: same length and element-wise `==` -/
def listEq (eq : κ → κ → Bool) : List κ → List κ → Bool
  | [], [] => true
  | a :: as, b :: bs => eq a b && listEq eq as bs
  | _, _ => false

/-- `check_constraints`: `assert len(set(keys)) == len(keys)`; `assert keys == sorted(keys)` -/
def checkConstraints (eq lt : κ → κ → Bool) (ks : List κ) : Except Err Unit :=
  if (classes eq ks).length != ks.length then .error .duplicate
  else if !(listEq eq ks (sortBy lt id ks)) then .error .unsorted
  else .ok ()

/-! ### SetType -/
/-- `item in self.items` -/
def Set.contains (eq : κ → κ → Bool) (s : List κ) (x : κ) : Bool := s.any (fun e => eq e x)

/-- `SetType.add`: `copy(self)` if contained, else `sorted([item] + self.items)` -/
def Set.add (eq lt : κ → κ → Bool) (s : List κ) (x : κ) : List κ :=
  if Set.contains eq s x then s else sortBy lt id (x :: s)

/-- `SetType.remove`: `filter(lambda x: x != item, self.items)` if contained -/
def Set.remove (eq : κ → κ → Bool) (s : List κ) (x : κ) : List κ :=
  if Set.contains eq s x then s.filter (fun e => !(eq e x)) else s

/-- a set literal (`from_micheline_value`): constraints checked, items kept as given -/
def Set.literal (eq lt : κ → κ → Bool) (items : List κ) : Except Err (List κ) :=
  match checkConstraints eq lt items with
  | .ok _ => .ok items
  | .error e => .error e

/-! ### MapType -/
/-- `MapType.get`: `next((v for k, v in self.items if k == key), None)` -/
def Map.get (eq : κ → κ → Bool) (m : List (κ × ν)) (k : κ) : Option ν :=
  (m.find? (fun e => eq e.1 k)).map (·.2)

/-- `MapType.contains` -/
def Map.contains (eq : κ → κ → Bool) (m : List (κ × ν)) (k : κ) : Bool := (Map.get eq m k).isSome

/-- `MapType.update` → `(prev_val, new map)` -/
def Map.update (eq lt : κ → κ → Bool) (m : List (κ × ν)) (k : κ) (v : Option ν) : Option ν × List (κ × ν) :=
  let prev := Map.get eq m k
  match prev, v with
  | some _, some val => (prev, m.map (fun e => (e.1, if !(eq e.1 k) then e.2 else val)))   -- `(k, v if k != key else val)`
  | some _, none => (prev, m.filter (fun e => !(eq e.1 k)))                                -- `if k != key`
  | none, some val => (prev, sortBy lt Prod.fst (m ++ [(k, val)]))                         -- `sorted(items + [(key, val)], key=…)`
  | none, none => (prev, m)

/-- a map literal (`parse_micheline_value`) -/
def Map.literal (eq lt : κ → κ → Bool) (items : List (κ × ν)) : Except Err (List (κ × ν)) :=
  match checkConstraints eq lt (items.map (·.1)) with
  | .ok _ => .ok items
  | .error e => .error e

/-- MAP over a map: each value replaced by `f key value` (the body), the key kept, then `MapType.from_items`
(which re-checks the constraints) — or the source map itself when it is empty -/
def Map.mapValues (eq lt : κ → κ → Bool) (f : κ → ν → ν) (m : List (κ × ν)) : Except Err (List (κ × ν)) :=
  let items := m.map (fun e => (e.1, f e.1 e.2))
  if items.isEmpty then .ok m else Map.literal eq lt items

/-- ITER: the elements in the order the body sees them -/
def iter (l : List α) : List α := l

/-- SIZE -/
def size (l : List α) : Nat := l.length

/-! ### histories -/
inductive SetOp (κ : Type) | add (k : κ) | remove (k : κ)

/-- UPDATE on a set (`True` adds, `False` removes) -/
def Set.step (eq lt : κ → κ → Bool) (s : List κ) : SetOp κ → List κ
  | .add k => Set.add eq lt s k
  | .remove k => Set.remove eq s k

inductive MapOp (κ ν : Type)
  | update (k : κ) (v : Option ν)          -- UPDATE
  | getAndUpdate (k : κ) (v : Option ν)    -- GET_AND_UPDATE (same new map; the old value is the observation)
  | mapv (f : κ → ν → ν)                   -- MAP { body }
  | iter                                    -- ITER { body } (read only)

def Map.step (eq lt : κ → κ → Bool) (m : List (κ × ν)) : MapOp κ ν → Except Err (List (κ × ν))
  | .update k v => .ok (Map.update eq lt m k v).2
  | .getAndUpdate k v => .ok (Map.update eq lt m k v).2
  | .mapv f => Map.mapValues eq lt f m
  | .iter => .ok m

/-- run a history; an error (a MAP whose result violates the constraints) aborts -/
def Map.run (eq lt : κ → κ → Bool) : List (κ × ν) → List (MapOp κ ν) → Except Err (List (κ × ν))
  | m, [] => .ok m
  | m, op :: ops =>
    match Map.step eq lt m op with
    | .ok m' => Map.run eq lt m' ops
    | .error e => .error e

end
end Impl.Coll

namespace Spec.Coll
section
variable {κ ν : Type}

/-- ordered insertion into a strictly sorted key list (an equal key is already there: unchanged) -/
def insertKey (lt : κ → κ → Bool) (x : κ) : List κ → List κ
  | [] => [x]
  | e :: es => if lt x e then x :: e :: es else if lt e x then e :: insertKey lt x es else e :: es

def eraseKey (lt : κ → κ → Bool) (x : κ) : List κ → List κ
  | [] => []
  | e :: es => if lt e x then e :: eraseKey lt x es else if lt x e then e :: es else es

/-- search that stops at the first element not smaller than `x` -/
def memKey (lt : κ → κ → Bool) (x : κ) : List κ → Bool
  | [] => false
  | e :: es => if lt e x then memKey lt x es else !(lt x e)

/-- ordered insert-or-replace (the stored key is kept on replace) -/
def insertKV (lt : κ → κ → Bool) (k : κ) (v : ν) : List (κ × ν) → List (κ × ν)
  | [] => [(k, v)]
  | e :: es => if lt k e.1 then (k, v) :: e :: es else if lt e.1 k then e :: insertKV lt k v es else (e.1, v) :: es

def eraseKV (lt : κ → κ → Bool) (k : κ) : List (κ × ν) → List (κ × ν)
  | [] => []
  | e :: es => if lt e.1 k then e :: eraseKV lt k es else if lt k e.1 then e :: es else es

def findKV (lt : κ → κ → Bool) (k : κ) : List (κ × ν) → Option ν
  | [] => none
  | e :: es => if lt e.1 k then findKV lt k es else if lt k e.1 then none else some e.2

def setStep (lt : κ → κ → Bool) (s : List κ) : Impl.Coll.SetOp κ → List κ
  | .add k => insertKey lt k s
  | .remove k => eraseKey lt k s

/-- one step of the reference dictionary -/
def dictStep (lt : κ → κ → Bool) (m : List (κ × ν)) : Impl.Coll.MapOp κ ν → List (κ × ν)
  | .update k (some v) => insertKV lt k v m
  | .update k none => eraseKV lt k m
  | .getAndUpdate k (some v) => insertKV lt k v m
  | .getAndUpdate k none => eraseKV lt k m
  | .mapv f => m.map (fun e => (e.1, f e.1 e.2))
  | .iter => m

end
end Spec.Coll
