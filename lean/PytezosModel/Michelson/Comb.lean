import PytezosModel.Generated.C17
import PytezosModel.Micheline.Basic
/-! C17 — right combs: mirror of the comb helpers of `PairType` (src/pytezos/michelson/types/pair.py), of the
instructions that use them (src/pytezos/michelson/instructions/adt.py) and of `PairType.to_micheline_value('optimized')`.

pytezos attaches annotations to a runtime value through the value's *class* (`type(v).field_name`, `type(v).type_name`),
so a model value carries an `Annot` at every node.  The only place where the helpers look at it is the descend
condition of `iter_comb` / `unpairn_comb` (`not (item.field_name or item.type_name)`); whether that test is present is
read from the source by the translator (`Generated.C17.iterCombAnnotTest`, `unpairnCombAnnotTest`) and passed to the
mirror as the flag `chk`.

`Spec.Comb` — reference definitions from the Michelson specification over annotation-free values (`SVal`):
`GET n`, `UPDATE n`, `UNPAIR n`, `PAIR n`, and the optimized (PACK) layout of right combs as Octez' `unparse_pair` builds it. -/

namespace Impl.Comb

/-- `field_name` / `type_name` of the runtime type object (`%f` / `:t`; `none` = no such annotation) -/
structure Annot where
  field : Option String := none
  type : Option String := none
  deriving Repr, Inhabited

/-- Python truthiness of an `Optional[str]` (`None` and `''` are falsy) -/
def truthy : Option String → Bool
  | some s => s != ""
  | none => false

/-- `item.field_name or item.type_name` as a condition -/
def Annot.named (a : Annot) : Bool := truthy a.field || truthy a.type

/-- the class created by `create_type(args=…)` without `annots` -/
def Annot.blank : Annot := {}

/-- runtime values: `atom` is any non-container leaf (nat, string, bytes, address, ticket, lambda, …) given by its optimized
Micheline; containers that can hold pairs are modelled so that the layout theorem covers pairs nested inside them -/
inductive CVal where
  | atom (a : Annot) (m : Mich)
  | pair (a : Annot) (l r : CVal)
  | none (a : Annot)
  | some (a : Annot) (v : CVal)
  | left (a : Annot) (v : CVal)
  | right (a : Annot) (v : CVal)
  | list (a : Annot) (xs : List CVal)
  deriving Inhabited

/-- `isinstance(v, PairType)` -/
def CVal.isPair : CVal → Bool
  | .pair .. => true
  | _ => false

/-- `isinstance(item, PairType) and not (item.field_name or item.type_name)`; the annotation test is there iff `chk` -/
def descend (chk : Bool) : CVal → Bool
  | .pair a _ _ => !(chk && a.named)
  | _ => false

/-- `PairType.iter_comb(include_nodes)` (only ever called on a pair) -/
def iterComb (chk nodes : Bool) : CVal → List CVal
  | .pair a l r =>
    (if nodes then [CVal.pair a l r] else []) ++ l :: (if descend chk r then iterComb chk nodes r else [r])
  | _ => []

/-- `PairType.unpairn_comb(count)` -/
def unpairnComb (chk : Bool) : Nat → CVal → List CVal
  | count, .pair _ l r =>
    l :: (if descend chk r && decide (count > 0) then unpairnComb chk (count - 1) r else [r])
  | _, _ => []

/-- `PairType.access_comb`: `next(item for i, item in enumerate(iter_comb(include_nodes=True)) if i == idx)`;
`none` = StopIteration -/
def accessComb (chk : Bool) (v : CVal) (idx : Nat) : Option CVal := (iterComb chk true v)[idx]?

/-- `PairType.create_type(args=[type(item) …])` + `cls.init(items)`: a right comb with fresh (unannotated) pair classes;
`none` = `AssertionError: unexpected number of args` -/
def fromComb : List CVal → Option CVal
  | [] => none
  | a :: rest =>
    match rest with
    | [] => none
    | [b] => some (.pair .blank a b)
    | _ => (fromComb rest).map (.pair .blank a)

/-- `[element if 2 * i + 1 == idx else item for i, item in enumerate(xs)]` (`i` counts from the given start) -/
def replaceAt {α : Type} (idx : Nat) (e : α) : Nat → List α → List α
  | _, [] => []
  | i, x :: xs => (if 2 * i + 1 == idx then e else x) :: replaceAt idx e (i + 1) xs

/-- `[item for i, item in enumerate(xs) if 2 * i + 1 < idx]` -/
def keepBelow {α : Type} (idx : Nat) : Nat → List α → List α
  | _, [] => []
  | i, x :: xs => if 2 * i + 1 < idx then x :: keepBelow idx (i + 1) xs else keepBelow idx (i + 1) xs

/-- `PairType.update_comb(idx, element)` -/
def updateComb (chk : Bool) (v : CVal) (idx : Nat) (e : CVal) : Option CVal :=
  if idx % 2 == 1 then
    fromComb (replaceAt idx e 0 (iterComb chk false v))
  else
    fromComb (keepBelow idx 0 (iterComb chk false v) ++ (if e.isPair then iterComb chk false e else [e]))

def mkPair (a b : Mich) : Mich := .prim "Pair" [a, b] []

/-- the `mode == 'optimized'` branch of `PairType.to_micheline_value` on the rendered `args` -/
def combArgs : List Mich → Option Mich
  | [a, b] => some (mkPair a b)
  | [a, b, c] => some (mkPair a (mkPair b c))
  | args => if args.length ≥ 4 then some (.seq args) else none

mutual
  /-- `to_micheline_value(mode='optimized')` -/
  def toMich (chk : Bool) : CVal → Option Mich
    | .atom _ m => some m
    | .pair _ l r =>
      ((toMich chk l).bind fun x =>
        if descend chk r then (combMich chk r).map (x :: ·) else (toMich chk r).map fun y => [x, y]).bind combArgs
    | .none _ => some (.prim "None" [] [])
    | .some _ v => (toMich chk v).map fun x => .prim "Some" [x] []
    | .left _ v => (toMich chk v).map fun x => .prim "Left" [x] []
    | .right _ v => (toMich chk v).map fun x => .prim "Right" [x] []
    | .list _ xs => (toMichList chk xs).map .seq
  /-- `[arg.to_micheline_value(mode) for arg in self.iter_comb()]` (the traversal of `iter_comb` fused with the rendering
  so that the recursion is structural; `Impl.Comb.combMich_eq` ties it to `iterComb`) -/
  def combMich (chk : Bool) : CVal → Option (List Mich)
    | .pair _ l r =>
      (toMich chk l).bind fun x =>
        if descend chk r then (combMich chk r).map (x :: ·) else (toMich chk r).map fun y => [x, y]
    | _ => none
  def toMichList (chk : Bool) : List CVal → Option (List Mich)
    | [] => some []
    | x :: xs => (toMich chk x).bind fun y => (toMichList chk xs).map (y :: ·)
end

/-! ### instructions (adt.py, stack.py) over a stack `top :: rest`; `none` = MichelsonRuntimeError -/

inductive Instr where
  | getN (n : Nat) | updateN (n : Nat) | pairN (n : Nat) | unpairN (n : Nat)
  | pair | unpair | car | cdr
  | swap | dup | drop | dig (n : Nat) | dug (n : Nat)
  deriving Repr

/-- `ci` = annotation test of `iter_comb`, `cu` = of `unpairn_comb`;
`zg` / `zu` = shape of `GetnInstruction.execute` / `UpdatenInstruction.execute` (read from adt.py by the translator):
`true`  — `index = …; if index == 0: res = pair (resp. element) else: pair.assert_type_in(PairType); res = pair.access_comb(index)
           (resp. pair.update_comb(index, element))`: `GET 0` / `UPDATE 0` never look at the types;
`false` — `pair.assert_type_in(PairType); index = …; res = pair.access_comb(index)` (resp. `update_comb`): pair assertion first,
           helper called for every `n` (the shape before fixes 794044f / 18f9cf1).
`UPDATE 0` in the `true` shape pushes `element` itself (its classes, hence its annotations, untouched — no `from_comb` rebuild). -/
def step (ci cu zg zu : Bool) : Instr → List CVal → Option (List CVal)
  | .getN n, v :: st =>
    if zg && n == 0 then some (v :: st)
    else if v.isPair then (accessComb ci v n).map (· :: st) else none
  | .updateN n, e :: v :: st =>
    if zu && n == 0 then some (e :: st)
    else if v.isPair then (updateComb ci v n e).map (· :: st) else none
  | .pairN n, st =>
    if n ≥ 2 ∧ st.length ≥ n then (fromComb (st.take n)).map (· :: st.drop n) else none
  | .unpairN n, v :: st => if n ≥ 2 ∧ v.isPair then some (unpairnComb cu (n - 2) v ++ st) else none
  | .pair, l :: r :: st => (fromComb [l, r]).map (· :: st)
  | .unpair, .pair _ l r :: st => some (l :: r :: st)
  | .car, .pair _ l _ :: st => some (l :: st)
  | .cdr, .pair _ _ r :: st => some (r :: st)
  | .swap, a :: b :: st => some (b :: a :: st)
  | .dup, a :: st => some (a :: a :: st)
  | .drop, _ :: st => some st
  | .dig n, st => match st[n]? with
    | some x => some (x :: st.eraseIdx n)
    | none => none
  | .dug n, x :: st => if st.length ≥ n then some (st.take n ++ x :: st.drop n) else none
  | _, _ => none

def exec (ci cu zg zu : Bool) : List Instr → List CVal → Option (List CVal)
  | [], st => some st
  | i :: is, st => (step ci cu zg zu i st).bind (exec ci cu zg zu is)

/-- the flags of the source under test; an unrecognised body counts as annotation-dependent (the theorems then do not close) -/
def chkIter : Bool := Generated.C17.iterCombAnnotTest.getD true
def chkUnpairn : Bool := Generated.C17.unpairnCombAnnotTest.getD true
/-- shape of GET n / UPDATE n of the source under test; an unrecognised body counts as the defective shape -/
def zeroGet : Bool := Generated.C17.getnZeroIdentity.getD false
def zeroUpd : Bool := Generated.C17.updatenZeroReplaces.getD false

end Impl.Comb

namespace Spec.Comb

/-- annotation-free values -/
inductive SVal where
  | atom (m : Mich)
  | pair (l r : SVal)
  | none
  | some (v : SVal)
  | left (v : SVal)
  | right (v : SVal)
  | list (xs : List SVal)
  deriving Inhabited

/-- `GET 0` = the value, `GET (2k+1)` = k × CDR then CAR, `GET (2k)` = k × CDR -/
def getn : Nat → SVal → Option SVal
  | 0, v => some v
  | 1, .pair l _ => some l
  | n + 2, .pair _ r => getn n r
  | _, _ => none

/-- `UPDATE n` (element, value) -/
def updaten : Nat → SVal → SVal → Option SVal
  | 0, e, _ => some e
  | 1, e, .pair _ r => some (.pair e r)
  | n + 2, e, .pair l r => (updaten n e r).map (.pair l)
  | _, _, _ => none

/-- `UNPAIR n`, n ≥ 2: the n components, top of stack first -/
def unpairn : Nat → SVal → Option (List SVal)
  | 2, .pair l r => some [l, r]
  | n + 3, .pair l r => (unpairn (n + 2) r).map (l :: ·)
  | _, _ => none

/-- `PAIR n` applied to the n ≥ 2 topmost items -/
def pairn : List SVal → Option SVal
  | [] => none
  | a :: rest =>
    match rest with
    | [] => none
    | [b] => some (.pair a b)
    | _ => (pairn rest).map (.pair a)

/-- leaves of the maximal right comb -/
def flatten : SVal → List SVal
  | .pair l r => l :: flatten r
  | v => [v]

def isPair : SVal → Bool
  | .pair .. => true
  | _ => false

def mkPair (a b : Mich) : Mich := .prim "Pair" [a, b] []

/-- Octez `unparse_pair`, mode Optimized, given the rendered components `l`, `r` and the comb witness of the right type
(`rPair`: the right component has a pair type; `rrPair`: so has its own right component) -/
def unparsePair (rPair rrPair : Bool) (l r : Mich) : Mich :=
  match r with
  | .seq xs => if rPair then .seq (l :: xs) else mkPair l r
  | .prim p [x2, .prim q [x3, x4] []] [] =>
    if rPair && rrPair && p == "Pair" && q == "Pair" then .seq [l, x2, x3, x4] else mkPair l r
  | _ => mkPair l r

def rightIsPair : SVal → Bool
  | .pair _ r => isPair r
  | _ => false

mutual
  /-- optimized Micheline of a value (what PACK serialises) -/
  def layout : SVal → Mich
    | .atom m => m
    | .pair l r => unparsePair (isPair r) (rightIsPair r) (layout l) (layout r)
    | .none => .prim "None" [] []
    | .some v => .prim "Some" [layout v] []
    | .left v => .prim "Left" [layout v] []
    | .right v => .prim "Right" [layout v] []
    | .list xs => .seq (layoutList xs)
  def layoutList : List SVal → List Mich
    | [] => []
    | x :: xs => layout x :: layoutList xs
end

/-- the four comb instructions on a stack (`top :: rest`), Michelson reference; `none` = ill-typed -/
inductive CombInstr where
  | getN (n : Nat) | updateN (n : Nat) | pairN (n : Nat) | unpairN (n : Nat)

def step : CombInstr → List SVal → Option (List SVal)
  | .getN n, v :: st => (getn n v).map (· :: st)
  | .updateN n, e :: v :: st => (updaten n e v).map (· :: st)
  | .pairN n, st => if 2 ≤ n ∧ n ≤ st.length then (pairn (st.take n)).map (· :: st.drop n) else none
  | .unpairN n, v :: st => (unpairn n v).map (· ++ st)
  | _, _ => none

end Spec.Comb

namespace Impl.Comb
open Spec.Comb (SVal)

mutual
  /-- forget every annotation -/
  def strip : CVal → SVal
    | .atom _ m => .atom m
    | .pair _ l r => .pair (strip l) (strip r)
    | .none _ => .none
    | .some _ v => .some (strip v)
    | .left _ v => .left (strip v)
    | .right _ v => .right (strip v)
    | .list _ xs => .list (stripList xs)
  def stripList : List CVal → List SVal
    | [] => []
    | x :: xs => strip x :: stripList xs
end

mutual
  /-- the same value with the annotation-free classes `create_type(args=…)` builds -/
  def embed : SVal → CVal
    | .atom m => .atom .blank m
    | .pair l r => .pair .blank (embed l) (embed r)
    | .none => .none .blank
    | .some v => .some .blank (embed v)
    | .left v => .left .blank (embed v)
    | .right v => .right .blank (embed v)
    | .list xs => .list .blank (embedList xs)
  def embedList : List SVal → List CVal
    | [] => []
    | x :: xs => embed x :: embedList xs
end

/-- every annotation removed -/
def erase (v : CVal) : CVal := embed (strip v)

end Impl.Comb
