import PytezosModel.Micheline.Basic
import PytezosModel.Generated.C33
/-! Mirror of `ExecutionContext.resolve_global_constants` (src/pytezos/context/impl.py) over `Mich`, and the
reference meaning of expanding global constants.

The registry (`ExecutionContext.global_constants`, a dict hash → expression) is an association list; `List.lookup`
returns the first entry, so the driver conses every registration in front (a later `dict[k] = v` wins).
The hash itself (`register_global_constant`: base58 `expr` of BLAKE2b-256 of the forged Micheline) is not computed
here — the harness recomputes it independently. -/

abbrev Registry := List (String × Mich)

namespace Impl.Constants
open Generated.C33

inductive Err where
  | unknown (h : String)      -- KeyError('Constant … is not defined')
  | badConstant               -- ValueError('Unexpected constant expression') (TypeError when the argument is a sequence)
  | recursion                 -- RecursionError: the references never bottom out
  | unrecognisedSource
  deriving DecidableEq, Repr

/-- `node['args'][i]['string']`; `none` = KeyError / IndexError / TypeError -/
def hashOf (S : ResolveShape) (args : List Mich) : Option String :=
  match args[S.hashArg]? with
  | some (.str h) => if S.hashField == "string" then some h else none
  | _ => none

mutual
  /-- `_resolve(node)`, with the continuation `k` standing for `_resolve_constant` after the hash has been read -/
  def expandWith (S : ResolveShape) (k : String → Except Err Mich) : Mich → Except Err Mich
    | .prim p args an =>
      if p == S.constPrim then                   -- `node.get('prim') == 'constant'`
        match hashOf S args with
        | some h => k h
        | none => .error .badConstant
      else if args.isEmpty then .ok (.prim p args an)   -- `elif node.get('args')` is falsy: node returned as is
      else
        match expandList S k args with           -- `list(map(_resolve, node['args']))`, other keys (annots) kept
        | .ok args' => .ok (.prim p args' an)
        | .error e => .error e
    | .seq xs =>
      match expandList S k xs with
      | .ok xs' => .ok (.seq xs')
      | .error e => .error e
    | m => .ok m
  def expandList (S : ResolveShape) (k : String → Except Err Mich) : List Mich → Except Err (List Mich)
    | [] => .ok []
    | x :: xs =>
      match expandWith S k x with
      | .error e => .error e
      | .ok x' =>
        match expandList S k xs with
        | .error e => .error e
        | .ok xs' => .ok (x' :: xs')
end

/-- `_resolve` with `_resolve_constant` unfolded: an unknown hash raises, a known one is looked up and its value is
expanded in turn; `fuel` bounds the chain of lookups (a cyclic registry ends in RecursionError) -/
def resolveFuel (S : ResolveShape) (reg : Registry) : Nat → Mich → Except Err Mich
  | 0, e => expandWith S (fun h =>
      match reg.lookup h with
      | none => .error (.unknown h)
      | some _ => .error .recursion) e
  | n + 1, e => expandWith S (fun h =>
      match reg.lookup h with
      | none => .error (.unknown h)
      | some v => resolveFuel S reg n v) e

/-- `ExecutionContext.resolve_global_constants(expression)` -/
def resolve (reg : Registry) (e : Mich) : Except Err Mich :=
  match resolveShape with
  | some S => resolveFuel S reg reg.length e
  | none => .error .unrecognisedSource

end Impl.Constants

namespace Spec.Constants

/-- a reference to a global constant: `constant "<hash>"`, one string argument, no annotation -/
def refOf : Mich → Option String
  | .prim p [.str h] [] => if p = "constant" then some h else none
  | _ => none

mutual
  /-- replace every reference `h` for which `g h = some r` by `r`; everything else (annotations included) is kept.
  A node named `constant` that is not a well-formed reference is left untouched. -/
  def substWith (g : String → Option Mich) : Mich → Mich
    | .prim p args an =>
      if p = "constant" then
        match (refOf (.prim p args an)).bind g with
        | some r => r
        | none => .prim p args an
      else .prim p (substWithList g args) an
    | .seq xs => .seq (substWithList g xs)
    | m => m
  def substWithList (g : String → Option Mich) : List Mich → List Mich
    | [] => []
    | x :: xs => substWith g x :: substWithList g xs
end

/-- one round of substitution: each registered reference becomes the registered expression as registered -/
def subst1 (reg : Registry) : Mich → Mich := substWith fun h => reg.lookup h

def iter (f : Mich → Mich) : Nat → Mich → Mich
  | 0, e => e
  | n + 1, e => iter f n (f e)

/-- the fixpoint substitution: for an acyclic registry `reg.length` rounds reach it (theorem `subst_fixpoint`) -/
def subst (reg : Registry) (e : Mich) : Mich := iter (subst1 reg) reg.length e

mutual
  /-- no node named `constant` -/
  def noConstant : Mich → Bool
    | .prim p args _ => p != "constant" && noConstantList args
    | .seq xs => noConstantList xs
    | _ => true
  def noConstantList : List Mich → Bool
    | [] => true
    | x :: xs => noConstant x && noConstantList xs
end

mutual
  /-- hashes referenced directly by an expression -/
  def refs : Mich → List String
    | .prim p args an =>
      if p = "constant" then
        match refOf (.prim p args an) with
        | some h => [h]
        | none => []
      else refsList args
    | .seq xs => refsList xs
    | _ => []
  def refsList : List Mich → List String
    | [] => []
    | x :: xs => refs x ++ refsList xs
end

mutual
  /-- every node named `constant` is a well-formed reference -/
  def wf : Mich → Bool
    | .prim p args an => if p = "constant" then (refOf (.prim p args an)).isSome else wfList args
    | .seq xs => wfList xs
    | _ => true
  def wfList : List Mich → Bool
    | [] => true
    | x :: xs => wf x && wfList xs
end

/-- `h` is referenced by `e` directly or through registered constants -/
inductive Reach (reg : Registry) (e : Mich) : String → Prop where
  | direct {h : String} : h ∈ refs e → Reach reg e h
  | step {h0 h : String} {v : Mich} : Reach reg e h0 → reg.lookup h0 = some v → h ∈ refs v → Reach reg e h

/-- the reference graph of the registry has no cycle: its hashes can be numbered below the registry size so that every
registered expression only refers to registered hashes of a smaller number (a topological numbering) -/
def Acyclic (reg : Registry) : Prop :=
  ∃ rank : String → Nat, ∀ h v, reg.lookup h = some v →
    rank h < reg.length ∧ ∀ h' ∈ refs v, reg.lookup h' ≠ none → rank h' < rank h

/-- everything `e` reaches is a well-formed script fragment -/
def WellFormed (reg : Registry) (e : Mich) : Prop :=
  wf e = true ∧ ∀ h v, Reach reg e h → reg.lookup h = some v → wf v = true

/-- every hash `e` reaches is registered -/
def AllRegistered (reg : Registry) (e : Mich) : Prop := ∀ h, Reach reg e h → reg.lookup h ≠ none

end Spec.Constants
