import PytezosModel.Generated.C19
import PytezosModel.Micheline.Basic
/-! Mirror of `src/pytezos/michelson/macros.py`: `expand_macro` with its regex-dispatched handlers, over `Mich`.

What comes from the source on every run (`Generated.C19`): the ordered `@macro(regex)` table (regex text, handler
name, the regex translated to `Pat`), the keys of `prim_tags`, the instruction constants, whether every function body
has the shape this mirror was written against, and which of the two recognised shapes `build_pxr_tree` has
(`pxrValidated`).  A regex outside the modelled fragment, an unknown handler or an unrecognised body make `expand`
answer `Err.unrecognised` (so every theorem about it stops closing).

Python `list` ↦ `Mich.seq`, `dict` ↦ `Mich.prim`/`Mich.int`; `expr(**kw)` drops empty `args`/`annots`, which `Mich.prim`
represents by empty lists.  Annotations are assumed non-empty strings (the lexer's `ANNOT` token). -/
namespace Impl.Macros
open Generated.C19

inductive Err where
  | assertion      -- AssertionError (turned into MichelsonParserError by the parser)
  | indexError     -- IndexError out of `build_pxr_tree` (pinned shape only)
  | unrecognised   -- the source is not what this mirror models
  | fuel           -- recursion bound of the model exhausted (never happens: `expand_fuel_enough`)
  deriving DecidableEq, Repr

abbrev M := Except Err

/-! ### the regex fragment (Python `re`, pattern anchored by `^ … $`, `findall`) -/

/-- Python `$` without MULTILINE: at the end, or just before a final newline -/
def endOk (s : List Char) : Bool := s == [] || s == ['\n']

/-- pieces of `s` matched by the successive atoms.  `many` is greedy and never gives back (sound for patterns
passing `detAtoms`); `alts` tries the alternatives in order against the rest of the pattern. -/
def matchAtoms : List Atom → List Char → Option (List (List Char))
  | [], s => if endOk s then some [] else none
  | .lit l :: as, s =>
    if l.isPrefixOf s then (matchAtoms as (s.drop l.length)).map (l :: ·) else none
  | .alts ls :: as, s =>
    ls.findSome? fun l => if l.isPrefixOf s then (matchAtoms as (s.drop l.length)).map (l :: ·) else none
  | .many cs mn :: as, s =>
    let p := s.takeWhile (cs.contains ·)
    if mn ≤ p.length then (matchAtoms as (s.dropWhile (cs.contains ·))).map (p :: ·) else none

def firstChars : Atom → List Char
  | .lit l => l.take 1
  | .alts ls => ls.flatMap (·.take 1)
  | .many cs _ => cs

def nonEmptyAtom : Atom → Bool
  | .lit l => !l.isEmpty
  | .alts ls => ls.all (!·.isEmpty)
  | .many _ mn => 1 ≤ mn

/-- a greedy repetition is always followed by something that cannot start inside its class -/
def detAtoms : List Atom → Bool
  | [] => true
  | [a] => nonEmptyAtom a
  | a :: b :: rest =>
    nonEmptyAtom a && (match a with
      | .many cs _ => (firstChars b).all (!cs.contains ·)
      | _ => true) && detAtoms (b :: rest)

def wfPat (p : Pat) : Bool :=
  detAtoms p.atoms && (match p.group with
    | some (a, n) => a + n ≤ p.atoms.length
    | none => true)

/-- `regexp.findall(prim)` for an anchored pattern: at most one match; its value is the capture group, or the whole
match when the pattern has no group -/
def findall (p : Pat) (s : List Char) : Option (List Char) :=
  (matchAtoms p.atoms s).map fun ps =>
    match p.group with
    | some (a, n) => ((ps.drop a).take n).flatten
    | none => ps.flatten

/-- `for regexp, handler in macros: groups = regexp.findall(prim); if groups: …` — first matching entry -/
def dispatch : List Handler → List Char → M (Option (Handler × List Char))
  | [], _ => pure none
  | h :: hs, s =>
    match h.pat with
    | none => throw .unrecognised
    | some p =>
      if !wfPat p then throw .unrecognised
      else match findall p s with
        | some g => pure (some (h, g))
        | none => dispatch hs s

/-! ### helpers of macros.py -/

def assertThat (b : Bool) : M Unit := if b then pure () else throw .assertion

/-- `expr(prim=…, annots=…, args=…)` -/
def expr (prim : String) (annots : List String) (args : List Mich) : Mich := .prim prim args annots

/-- `seq(instr)` for an instruction that is not `None` -/
def seqM : Mich → Mich
  | .seq xs => .seq xs
  | m => .seq [m]

/-- the elements of `seq(instr)` (for `*seq(instr)`) -/
def seqList : Mich → List Mich
  | .seq xs => xs
  | m => [m]

/-- `dip_n(instr, depth)` -/
def dipN (instr : Mich) (depth : Nat) : Mich :=
  if depth = 0 then instr
  else if depth = 1 then expr "DIP" [] [seqM instr]
  else expr "DIP" [] [.int depth, seqM instr]

def constPrim (name : String) : M Mich :=
  match constPrims.lookup name with
  | some (p, an) => pure (.prim p [] an)
  | none => throw .unrecognised

/-- `FAIL = [[UNIT, FAILWITH]]` -/
def failC : M Mich :=
  match failConst with
  | some names => do
    let xs ← names.mapM constPrim
    pure (.seq [.seq xs])
  | none => throw .unrecognised

def fieldAnnots (annots : List String) : List String := annots.filter (·.front == '%')
def varAnnots (annots : List String) : List String := annots.filter (·.front == '@')

/-! ### pair trees -/

/-- `PxrNode(depth, annots, args, is_root)`, or a leaf letter -/
inductive Pxr where
  | leaf (c : Char)
  | node (depth : Nat) (la ra : Option String) (l r : Pxr) (isRoot : Bool)
  deriving Repr

/-- the local `parse(prim, annots, depth, is_root, leaf)` of `build_pxr_tree`; result
`(tree, annot, rest of prim, rest of annots, depth)`.  `validated` = the repaired shape: a leaf letter must be the
expected one (`A` on the left, `I` on the right). -/
def pxrParse (validated : Bool) : Nat → List Char → List String → Nat → Bool → Option Char →
    M (Pxr × Option String × List Char × List String × Nat)
  | 0, _, _, _, _, _ => throw .fuel
  | _ + 1, [], _, _, _, _ => throw .indexError
  | fuel + 1, letter :: prim, annots, depth, isRoot, leaf =>
    if letter = 'P' then do
      let (l, la, prim, annots, depth') ← pxrParse validated fuel prim annots depth false (some 'A')
      let (r, ra, prim, annots, depth'') ← pxrParse validated fuel prim annots depth' false (some 'I')
      pure (.node depth la ra l r isRoot, none, prim, annots, depth'')
    else do
      if validated then assertThat (some letter == leaf)
      match annots with
      | a :: rest => pure (.leaf letter, some a, prim, rest, depth + 1)
      | [] => pure (.leaf letter, none, prim, [], depth + 1)

def buildPxrTree (name : List Char) (annots : List String) : M Pxr := do
  match pxrValidated with
  | none => throw .unrecognised
  | some validated =>
    let (root, _, rest, _, _) ← pxrParse validated (name.length + 1) name annots 0 true none
    if validated then assertThat (rest == ['R'])
    pure root

/-- nodes in the order `walk` visits them (pre-order), each already wrapped by `dip_n(produce(node), node.depth)` -/
def pxrWalk (produce : Option String → Option String → Bool → Mich) : Pxr → List Mich
  | .leaf _ => []
  | .node d la ra l r isRoot => dipN (produce la ra isRoot) d :: (pxrWalk produce l ++ pxrWalk produce r)

/-- `traverse_pxr_tree`: every visited node is inserted at the front of `res` -/
def traversePxr (name : List Char) (annots : List String) (produce : Option String → Option String → Bool → Mich) :
    M (List Mich) := do
  let t ← buildPxrTree name annots
  pure (pxrWalk produce t).reverse

def pairProduce (annots : List String) (la ra : Option String) (isRoot : Bool) : Mich :=
  let pa : List (Option String) := if la.isSome || ra.isSome then [some (la.getD "%"), ra] else []
  let pa := pa ++ (if isRoot then (varAnnots annots).map some else [])
  expr "PAIR" (pa.filterMap id) []

def unpairProduce (la ra : Option String) (_isRoot : Bool) : Mich :=
  .seq [expr "UNPAIR" ([la, ra].filterMap id) []]

/-- `get_map_cxr_annots` -/
def mapCxrAnnots (annots : List String) : M (String × List String) :=
  match fieldAnnots annots with
  | [] => pure ("%", [])
  | [f] => pure (f, ["@" ++ (f.drop 1).toString])
  | _ => throw .assertion

/-! ### the handlers -/

def expandIfx (prim : List Char) (annots : List String) (args : List Mich) : M Mich := do
  assertThat (args.length == 2)
  pure (.seq [expr (String.ofList prim) annots [], expr "IF" [] args])

def expandIfcmpx (prim : List Char) (annots : List String) (args : List Mich) : M Mich := do
  assertThat (args.length == 2)
  pure (.seq [.seq [← constPrim "COMPARE", expr (String.ofList prim) annots []], expr "IF" [] args])

/-- `handler(groups[0], annots, args)`; `recur p a r` = `expand_macro(prim=p, annots=a, args=r, internal=True)` -/
def runHandler (recur : List Char → List String → List Mich → M Mich) (func : String)
    (prim : List Char) (annots : List String) (args : List Mich) : M Mich :=
  match func with
  | "expand_cmpx" => do
    assertThat args.isEmpty
    pure (.seq [← constPrim "COMPARE", expr (String.ofList prim) annots []])
  | "expand_ifx" => expandIfx prim annots args
  | "expand_ifcmpx" => expandIfcmpx prim annots args
  | "expand_fail" => do
    assertThat annots.isEmpty
    assertThat args.isEmpty
    pure (.seq [← constPrim "UNIT", ← constPrim "FAILWITH"])
  | "expand_assert" => do
    assertThat annots.isEmpty
    assertThat args.isEmpty
    pure (expr "IF" [] [.seq [], ← failC])
  | "expand_assert_x" => do
    assertThat args.isEmpty
    assertThat annots.isEmpty
    expandIfx prim [] [.seq [], ← failC]
  | "expand_assert_cmpx" => do
    assertThat args.isEmpty
    assertThat annots.isEmpty
    expandIfcmpx prim [] [.seq [], ← failC]
  | "expand_assert_none" => do
    assertThat annots.isEmpty
    assertThat args.isEmpty
    pure (expr "IF_NONE" [] [.seq [], ← failC])
  | "expand_assert_some" => do
    assertThat args.isEmpty
    pure (expr "IF_NONE" [] [← failC, .seq [expr "RENAME" annots []]])
  | "expand_assert_left" => do
    assertThat args.isEmpty
    pure (expr "IF_LEFT" [] [.seq [expr "RENAME" annots []], ← failC])
  | "expand_assert_right" => do
    assertThat args.isEmpty
    pure (expr "IF_LEFT" [] [← failC, .seq [expr "RENAME" annots []]])
  | "expand_dixp" => do
    assertThat annots.isEmpty
    assertThat (args.length == 1)
    pure (dipN (.seq args) prim.length)
  | "expand_duxp" => do
    assertThat args.isEmpty
    pure (expr "DUP" annots [.int prim.length])
  | "expand_pxr" => do
    assertThat args.isEmpty
    let res ← traversePxr prim (fieldAnnots annots) (pairProduce annots)
    pure (.seq res)
  | "expand_unpxr" => do
    assertThat args.isEmpty
    let res ← traversePxr prim annots unpairProduce
    pure (.seq res.reverse)
  | "expand_caxr" => do
    assertThat args.isEmpty
    let r ← recur ('C' :: prim ++ ['R']) annots []
    pure (.seq ((← constPrim "CAR") :: seqList r))
  | "expand_cdxr" => do
    assertThat args.isEmpty
    let r ← recur ('C' :: prim ++ ['R']) annots []
    pure (.seq ((← constPrim "CDR") :: seqList r))
  | "expand_if_some" => do
    assertThat annots.isEmpty
    assertThat (args.length == 2)
    pure (expr "IF_NONE" [] args.reverse)
  | "expand_if_right" => do
    assertThat annots.isEmpty
    assertThat (args.length == 2)
    pure (expr "IF_LEFT" [] args.reverse)
  | "expand_set_car" => do
    assertThat args.isEmpty
    pure (.seq [← constPrim "SWAP", expr "UPDATE" annots [.int 1]])
  | "expand_set_cdr" => do
    assertThat args.isEmpty
    pure (.seq [← constPrim "SWAP", expr "UPDATE" annots [.int 2]])
  | "expand_set_caxr" => do
    assertThat args.isEmpty
    let setCxr ← recur ('S' :: 'E' :: 'T' :: '_' :: 'C' :: prim ++ ['R']) (fieldAnnots annots) []
    let pair := expr "PAIR" (["%@", "%@"] ++ varAnnots annots) []
    pure (.seq [← constPrim "DUP", dipN (.seq [← constPrim "CAR__", setCxr]) 1, ← constPrim "CDR__",
      ← constPrim "SWAP", pair])
  | "expand_set_cdxr" => do
    assertThat args.isEmpty
    let setCxr ← recur ('S' :: 'E' :: 'T' :: '_' :: 'C' :: prim ++ ['R']) (fieldAnnots annots) []
    let pair := expr "PAIR" (["%@", "%@"] ++ varAnnots annots) []
    pure (.seq [← constPrim "DUP", dipN (.seq [← constPrim "CDR__", setCxr]) 1, ← constPrim "CAR__", pair])
  | "expand_map_car" => do
    let (carAnnot, varAn) ← mapCxrAnnots annots
    pure (.seq [← constPrim "DUP", ← constPrim "CDR__", dipN (.seq (expr "CAR" varAn [] :: args)) 1,
      ← constPrim "SWAP", expr "PAIR" [carAnnot, "%@"] []])
  | "expand_map_cdr" => do
    let (cdrAnnot, varAn) ← mapCxrAnnots annots
    pure (.seq ([← constPrim "DUP", expr "CDR" varAn []] ++ args ++
      [← constPrim "SWAP", ← constPrim "CAR__", expr "PAIR" ["%@", cdrAnnot] []]))
  | "expand_map_caxr" => do
    let mapCxr ← recur ('M' :: 'A' :: 'P' :: '_' :: 'C' :: prim ++ ['R']) (fieldAnnots annots) args
    let pair := expr "PAIR" (["%@", "%@"] ++ varAnnots annots) []
    pure (.seq [← constPrim "DUP", dipN (.seq [← constPrim "CAR__", mapCxr]) 1, ← constPrim "CDR__",
      ← constPrim "SWAP", pair])
  | "expand_map_cdxr" => do
    let mapCxr ← recur ('M' :: 'A' :: 'P' :: '_' :: 'C' :: prim ++ ['R']) (fieldAnnots annots) args
    let pair := expr "PAIR" (["%@", "%@"] ++ varAnnots annots) []
    pure (.seq [← constPrim "DUP", dipN (.seq [← constPrim "CDR__", mapCxr]) 1, ← constPrim "CAR__", pair])
  | _ => throw .unrecognised

/-- `expand_macro(prim, annots, args, internal)`; the first argument bounds the depth of the internal recursion
(`C…R`, `SET_C…R`, `MAP_C…R` call `expand_macro` on a shorter name) -/
def expand : Nat → List Char → List String → List Mich → Bool → M Mich
  | 0, _, _, _, _ => throw .fuel
  | fuel + 1, prim, annots, args, internal => do
    if !coreOk then throw .unrecognised
    match primTags with
    | none => throw .unrecognised
    | some tags =>
      if tags.contains prim then pure (expr (String.ofList prim) annots args)
      else match ← dispatch handlers prim with
        | none => throw .assertion          -- unknown primitive
        | some (h, g) =>
          if h.shape != some 0 then throw .unrecognised
          else do
            let res ← runHandler (fun p a r => expand fuel p a r true) h.func g annots args
            pure (if internal then res else seqM res)

/-- what the parser calls for a `PRIM` token that is not in `prim_tags` (and, harmlessly, for one that is) -/
def expandMacro (prim : List Char) (annots : List String) (args : List Mich) : M Mich :=
  expand (prim.length + 1) prim annots args false

/-- the name is not a key of `prim_tags`, and `expand_macro` accepts it without annotations for some number (0, 1 or 2)
of code arguments -/
def acceptsName (prim : List Char) : Bool :=
  match primTags with
  | none => false
  | some tags =>
    !tags.contains prim && [0, 1, 2].any fun k =>
      match expandMacro prim [] (List.replicate k (.seq [])) with
      | .ok _ => true
      | .error _ => false

end Impl.Macros
