import PytezosModel.Michelson.ValueCodec
import PytezosModel.Micheline.Lower
import PytezosModel.Generated.C04
/-! C04 — PACK / UNPACK.

* `Impl.Pack.packable`  — `MichelsonType.is_packable` (excluded primitives read from the source);
* `Impl.Pack.pack`      — `MichelsonType.pack`: `05 ++ forge_micheline(to_micheline_value(optimized | legacy_optimized))`
                          on top of C11's renderer and C05's binary codec (`Impl.Lower.forgeMich`);
* `Impl.Pack.unpackRaw` — `MichelsonType.unpack` (raises); `Impl.Pack.unpack` — the `UNPACK` instruction, whose
                          `try … except Exception` turns every failure into `None` (read from the source: a narrower
                          `except` would let errors propagate, modelled as `Outcome.propagates`);
* `Spec.Pack.optimized` — the canonical optimized Micheline of a value, stated without annotations: the components
                          of a pair are *all* the components of its right spine; 2 → `Pair a b`, 3 → `Pair a (Pair b c)`,
                          ≥ 4 → the sequence form. -/
namespace Impl.Pack
open VC Core Impl.Value

def leafPrim : Leaf → String
  | .unit => "unit" | .bool => "bool" | .int => "int" | .nat => "nat" | .mutez => "mutez" | .timestamp => "timestamp"
  | .string => "string" | .bytes => "bytes" | .blsFr => "bls12_381_fr" | .blsG1 => "bls12_381_g1"
  | .blsG2 => "bls12_381_g2" | .chest => "chest" | .chestKey => "chest_key" | .never => "never"
  | .operation => "operation" | .dom k => k.prim

def excluded (p : String) : Bool :=
  match Generated.C04.packableExcluded with
  | some l => l.contains p
  | none => true

/-- `cls.is_packable()` -/
def packable : Ty → Bool
  | .leaf l _ => !excluded (leafPrim l)
  | .option t _ => !excluded "option" && packable t
  | .or l r _ => !excluded "or" && packable l && packable r
  | .pair l r _ => !excluded "pair" && packable l && packable r
  | .list t _ => !excluded "list" && packable t
  | .set t _ => !excluded "set" && packable t
  | .map k v _ => !excluded "map" && packable k && packable v
  | .bigMap k v _ => !excluded "big_map" && packable k && packable v
  | .lambda _ _ _ => !excluded "lambda"
  | .contract p _ => !excluded "contract" && packable p
  | .ticket t _ => !excluded "ticket" && packable t
  | .saplingState _ _ => !excluded "sapling_state" && false     -- the memo-size argument has no `is_packable`

def sourceOk : Bool :=
  Generated.C04.packableExcluded.isSome && Generated.C04.packRecognised && Generated.C04.forgeRecognised
    && Generated.C04.unpackRecognised && Generated.C04.unpackCatchesAll.isSome

def packMode (legacy : Bool) : Mode := if legacy then .legacyOptimized else .optimized

/-- `v.pack(legacy)` for a value of class `τ`; `none` = the call raises (not packable, a big_map / sapling_state
without id, an array longer than 2^32-1 bytes) -/
def pack (env : Env) (τ : Ty) (legacy : Bool) (v : Val) : Option Bytes :=
  if !sourceOk then none
  else if !packable τ then none
  else
    match toMich env (packMode legacy) (some false) v with
    | .ok m => (Impl.Lower.forgeMich m).map (5 :: ·)
    | .error _ => none

/-- `τ.unpack(data)` -/
def unpackRaw (env : Env) (τ : Ty) (data : Bytes) : Except Err Val :=
  if !sourceOk then .error .source
  else if !packable τ then .error .value
  else
    match data with
    | 5 :: rest =>
      match Impl.Lower.unforgeMich rest with
      | some m => ofMich env τ m
      | none => .error .shape
    | _ => .error .shape

inductive Outcome where
  | value (v : Val)          -- `Some v` pushed
  | none                     -- `None` pushed
  | propagates (e : Err)     -- the exception leaves the instruction
  deriving Inhabited

/-- the `UNPACK τ` instruction on a byte string -/
def unpack (env : Env) (τ : Ty) (data : Bytes) : Outcome :=
  match unpackRaw env τ data with
  | .ok v => .value v
  | .error e => if Generated.C04.unpackCatchesAll = some true then .none else .propagates e

/-! ### which Micheline survives `forge_micheline` / `unforge_micheline` unchanged -/

/-- the primitive is in `prim_tags` and `prim_int` maps its tag back to it -/
def primOk (p : String) : Bool :=
  p != "" && (match Impl.Lower.primTag p with
    | some t => Impl.Lower.primOfTag t == some p
    | none => false)

/-- no annotations, or space-free ones whose joined text is not empty -/
def annotsOk (annots : List String) : Bool :=
  annots.isEmpty ||
    (annots.all (fun a => !(Impl.Lower.utf8 a).contains 32) && Impl.Lower.joinSp (annots.map Impl.Lower.utf8) != [])

mutual
  def forgeable : Mich → Bool
    | .int _ => true
    | .str _ => true
    | .bytes _ => true
    | .seq xs => forgeableL xs
    | .prim p args annots => primOk p && annotsOk annots && forgeableL args
  def forgeableL : List Mich → Bool
    | [] => true
    | x :: xs => forgeable x && forgeableL xs
end

end Impl.Pack

namespace Spec.Pack
open VC Core Impl.Value Spec.Value

def layout (items : List Mich) : Mich :=
  match items with
  | a :: b :: rest => combLayout .optimized a b rest
  | _ => .seq items

def one (m : Mich) : Mich × List Mich := (m, [m])

mutual
  /-- first component: the canonical optimized Micheline of the value (annotation-blind); second: its components when
  it stands as the right component of a pair — all the components of the right spine, or the value itself -/
  def optBoth (env : Env) : Val → Mich × List Mich
    | .pair _ a b =>
      let items := (optBoth env a).1 :: (optBoth env b).2
      (layout items, items)
    | .unit => one (prim0 "Unit")
    | .bool b => one (prim0 (if b then "True" else "False"))
    | .int v => one (.int v)
    | .timestamp t => one (.int t)
    | .blsFr v => one (.bytes (natToLE 32 v.toNat))
    | .str s => one (.str s)
    | .bytes b => one (.bytes b)
    | .dom k d => one (.bytes (env.bin k d))
    | .none => one (prim0 "None")
    | .some v => one (.prim "Some" [(optBoth env v).1] [])
    | .left v => one (.prim "Left" [(optBoth env v).1] [])
    | .right v => one (.prim "Right" [(optBoth env v).1] [])
    | .list xs => one (.seq (optL env xs))
    | .set xs => one (.seq (optL env xs))
    | .map kvs => one (.seq (optE env kvs))
    | .lambda code => one (.seq code)
    -- not packable: no canonical packed form
    | .bigMap _ _ => one (.seq [])
    | .ticket _ _ _ => one (.seq [])
    | .sapling _ => one (.seq [])
  def optL (env : Env) : List Val → List Mich
    | [] => []
    | x :: xs => (optBoth env x).1 :: optL env xs
  def optE (env : Env) : List (Val × Val) → List Mich
    | [] => []
    | (k, v) :: r => .prim "Elt" [(optBoth env k).1, (optBoth env v).1] [] :: optE env r
end

/-- canonical optimized Micheline -/
def optimized (env : Env) (v : Val) : Mich := (optBoth env v).1

/-- the Tezos serialisation: `05` then the binary Micheline of the canonical optimized form -/
def pack (env : Env) (v : Val) : Option Bytes := (Impl.Lower.forgeMich (optimized env v)).map (5 :: ·)

end Spec.Pack
