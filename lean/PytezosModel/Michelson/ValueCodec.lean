import PytezosModel.Micheline.Basic
import PytezosModel.Core.Bytes
import PytezosModel.Generated.C11
/-! C11 — typed Michelson values ↔ Micheline (mirror of `to_micheline_value(mode)` / `from_micheline_value` of
every class in `src/pytezos/michelson/types/`).

* `Ty`   — Michelson types; every node carries its `%field` / `:type` annotation (`Annot`) because the comb
           flattening of `PairType.iter_comb` consults `field_name or type_name` of the *right* component.
* `Val`  — runtime values, one constructor per runtime class that renders differently.  A pair remembers whether its
           own class is annotated (`named`), which is what `iter_comb` reads off the Python object.
* `Env`  — the parts that are the business of other properties or of libraries, as parameters with stated laws
           (`Env.Lawful`): base58 text and optimized bytes of the domain types in structured form (C09 / C10),
           RFC 3339 formatting / parsing (`datetime`, `strict_rfc3339`), `check_constraints` of sets and maps
           (`sorted` + `set`, C03's order), `Micheline.match(..).as_micheline_expr()` of lambda bodies.
* `Impl.Value.toMich`, `Impl.Value.ofMich` — the mirror.  Facts read from the source by the translator
           (`Generated.C11`): does `iter_comb` consult annotations, the timestamp range guard, the year padding of
           `format_timestamp`, the shape of `optimize_timestamp` (RFC 3339 first, then `int`), the handler tables
           of `parse_micheline_value` / `parse_micheline_literal` of every class, `bls12_381_fr` modulus, mutez width,
           and the bodies of `parse_micheline_value`, `PairType.from_micheline_value` and `StringType.from_value`
           as repaired (3f5c1d7, 1138dca, 45078c3): a data constructor that carries annotations is not a value
           (unit, bool, option, or, `Elt`, `Pair`; the literal leaves, sequences and lambda bodies do not go through
           those readers), `Pair x1 … xn` / `{x1; …; xn}` with n ≥ 3 needs a pair class on the right, and a string
           holds printable ASCII and newlines only.
-/
namespace VC
open Core

structure Annot where
  field : Option String := none
  type : Option String := none
  deriving Repr, DecidableEq, Inhabited

/-- truthiness of `item.field_name or item.type_name` (`None` and `''` are falsy) -/
def Annot.named (a : Annot) : Bool :=
  (match a.field with | some f => f != "" | none => false) || (match a.type with | some t => t != "" | none => false)

/-- domain types whose Python value is a base58 string -/
inductive DomKind where
  | address | contract | keyHash | key | signature | chainId | txrAddress
  deriving Repr, DecidableEq, Inhabited

/-- structured form of a base58 value: which human prefix (`tag`, an index fixed by the codec), the payload
bytes and, for `address` / `contract`, the UTF-8 bytes of the entrypoint (`[]` = none) -/
structure DomVal where
  tag : Nat
  payload : Bytes
  ep : Bytes := []
  deriving Repr, DecidableEq, Inhabited

inductive Leaf where
  | unit | bool | int | nat | mutez | timestamp | string | bytes
  | blsFr | blsG1 | blsG2 | chest | chestKey | never | operation
  | dom (k : DomKind)
  deriving Repr, DecidableEq, Inhabited

inductive Ty where
  | leaf (l : Leaf) (a : Annot)
  | option (t : Ty) (a : Annot)
  | or (l r : Ty) (a : Annot)
  | pair (l r : Ty) (a : Annot)
  | list (t : Ty) (a : Annot)
  | set (t : Ty) (a : Annot)
  | map (k v : Ty) (a : Annot)
  | bigMap (k v : Ty) (a : Annot)
  | lambda (arg ret : Ty) (a : Annot)
  | contract (param : Ty) (a : Annot)
  | ticket (t : Ty) (a : Annot)
  | saplingState (memo : Nat) (a : Annot)
  deriving Repr, Inhabited

inductive Val where
  | unit
  | bool (b : Bool)
  /-- `IntType`, `NatType`, `MutezType` (same rendering) -/
  | int (v : Int)
  | timestamp (v : Int)
  | blsFr (v : Int)
  | str (s : String)
  /-- `BytesType` and its subclasses (`bls12_381_g1/g2`, `chest`, `chest_key`) -/
  | bytes (b : Bytes)
  | dom (k : DomKind) (d : DomVal)
  | none
  | some (v : Val)
  | left (v : Val)
  | right (v : Val)
  /-- `named` = the pair's own class has a truthy `field_name or type_name` -/
  | pair (named : Bool) (a b : Val)
  | list (xs : List Val)
  | set (xs : List Val)
  | map (kvs : List (Val × Val))
  /-- `BigMapType(items, ptr)` -/
  | bigMap (ptr : Option Int) (kvs : List (Val × Val))
  /-- `LambdaType`: the items of the code sequence as re-rendered by `as_micheline_expr` -/
  | lambda (code : List Mich)
  | ticket (ticketer : DomVal) (item : Val) (amount : Int)
  | sapling (ptr : Option Int)
  deriving Inhabited

inductive Mode where
  | readable | optimized | legacyOptimized
  deriving Repr, DecidableEq, Inhabited

/-- every failure surfaces as `MichelsonRuntimeError` at the API; the classes only document the cause -/
inductive Err where
  | shape      -- Micheline of the wrong shape for the type (assert / `Expected one of …`)
  | value      -- `from_value` validation (nat < 0, mutez width, base58 kind, non-ASCII string, …)
  | order      -- `check_constraints`: duplicate or unsorted set elements / map keys
  | noId       -- `Big_map id is not defined` / `Sapling_state id is not defined` / timestamp not renderable
  | source     -- the translator did not recognise the source construct
  | notImplemented
  deriving Repr, DecidableEq, Inhabited

/-- what this property does not own, as parameters -/
structure Env where
  /-- well-formed structured value of a kind (known prefix, payload length, entrypoint in normal form) -/
  valid : DomKind → DomVal → Bool
  /-- the base58 string stored in the Python object -/
  text : DomKind → DomVal → String
  /-- `from_value` on a string (validation, `%default` stripped) -/
  ofText : DomKind → String → Option DomVal
  /-- `forge_contract` / `forge_address(tz_only)` / `forge_public_key` / `forge_base58` -/
  bin : DomKind → DomVal → Bytes
  /-- `unforge_*` then `from_value` -/
  ofBin : DomKind → Bytes → Option DomVal
  /-- `format_timestamp` -/
  fmtTs : Int → String
  /-- `strict_rfc3339.rfc3339_to_timestamp` then `int(…)`; `none` = InvalidRFC3339Error -/
  parseTs : String → Option Int
  /-- `check_constraints` of `SetType` / `MapType` on the elements / keys of the given type -/
  keysOk : Ty → List Val → Bool
  /-- `Micheline.match(code).as_micheline_expr()`; `none` = unregistered primitive / arity -/
  normLambda : List Mich → Option (List Mich)
  /-- code that `normLambda` returns unchanged -/
  lambdaOk : List Mich → Bool

/-- signature prefixes by `DomVal.tag`: 0 `edsig`, 1 `spsig`, 2 `p2sig`, 3 `sig` (generic), 4 `BLsig` -/
def genericSigTag : Nat := 3
def blsSigTag : Nat := 4

/-- the one redundancy of the optimized form: `unforge_signature` names a signature by its length only, so the
typed 64-byte prefixes come back as the generic `sig` (same bytes; Tezos compares signatures as bytes) -/
def binNorm (k : DomKind) (d : DomVal) : DomVal :=
  if k = .signature then { d with tag := if d.payload.length = 96 then blsSigTag else genericSigTag } else d

/-- range on which both `datetime` and `strict_rfc3339` work: 0001-01-01T00:00:00Z … 9999-12-31T23:59:59Z -/
def rfcLo : Int := -62135596800
def rfcHi : Int := 253402300799

structure Env.Lawful (env : Env) : Prop where
  text_rt : ∀ k d, env.valid k d = true → env.ofText k (env.text k d) = some d
  bin_rt : ∀ k d, env.valid k d = true → env.ofBin k (env.bin k d) = some (binNorm k d)
  ts_rt : ∀ t : Int, rfcLo ≤ t → t ≤ rfcHi → env.parseTs (env.fmtTs t) = some t
  lambda_rt : ∀ code, env.lambdaOk code = true → env.normLambda code = some code

/-- `Env.Lawful` without the RFC 3339 law: what is left as a hypothesis once the clock is the concrete
`Civil.fmtTimestamp` / `Civil.parseTimestamp`, for which that law is proved -/
structure Env.LawfulCodecs (env : Env) : Prop where
  text_rt : ∀ k d, env.valid k d = true → env.ofText k (env.text k d) = some d
  bin_rt : ∀ k d, env.valid k d = true → env.ofBin k (env.bin k d) = some (binNorm k d)
  lambda_rt : ∀ code, env.lambdaOk code = true → env.normLambda code = some code

/-! ### tables read from the source -/

/-- `(prim, len(args)) in handlers` of `parse_micheline_value` in the class of type `ty` -/
def accepts (ty p : String) (n : Nat) : Bool :=
  match Generated.C11.valueHandlers.lookup ty with
  | some hs => hs.contains (p, n)
  | none => false

/-- `core_type in handlers` of `parse_micheline_literal` in the class of type `ty` -/
def litOk (ty kind : String) : Bool :=
  match Generated.C11.literalHandlers.lookup ty with
  | some ks => ks.contains kind
  | none => false

def consults : Bool := Generated.C11.combConsultsAnnots.getD true

def sourceOk : Bool :=
  Generated.C11.combConsultsAnnots.isSome && Generated.C11.pairToMichRecognised && Generated.C11.pairFromMichRecognised
    && Generated.C11.tsGuard.isSome && Generated.C11.yearPadded.isSome && Generated.C11.tsParseRecognised
    && Generated.C11.frModulus.isSome && Generated.C11.mutezBits.isSome
    && Generated.C11.parseValueRecognised && Generated.C11.stringFromValueRecognised

def DomKind.prim : DomKind → String
  | .address => "address" | .contract => "address" | .keyHash => "key_hash" | .key => "key"
  | .signature => "signature" | .chainId => "chain_id" | .txrAddress => "tx_rollup_l2_address"

/-! ### small Python helpers -/

def digitVal (c : Char) : Option Nat := if '0' ≤ c ∧ c ≤ '9' then some (c.toNat - 48) else none

def digitsToNat : List Char → Nat → Option Nat
  | [], acc => some acc
  | c :: cs, acc => match digitVal c with
    | some d => digitsToNat cs (acc * 10 + d)
    | none => none

/-- `int(s)` for plain decimal spellings (optional sign, at least one digit); whitespace / `_` forms are not modelled -/
def pyInt (s : String) : Option Int :=
  match s.toList with
  | '-' :: (c :: cs) => (digitsToNat (c :: cs) 0).map fun n => -(n : Int)
  | '+' :: (c :: cs) => (digitsToNat (c :: cs) 0).map fun n => (n : Int)
  | c :: cs => (digitsToNat (c :: cs) 0).map fun n => (n : Int)
  | [] => none

/-- `v.to_bytes(n, 'little')` (digits above `n` dropped; the caller checks the range) -/
def natToLE : Nat → Nat → Bytes
  | 0, _ => []
  | n + 1, v => (v % 256) :: natToLE n (v / 256)

/-- `int.from_bytes(b, 'little')` -/
def leToNat : Bytes → Nat
  | [] => 0
  | b :: r => b + 256 * leToNat r

/-- `c == '\n' or ' ' <= c <= '~'` -/
def printableChar (c : Char) : Bool := c == '\n' || (' ' ≤ c && c ≤ '~')

/-- the two assertions of `StringType.from_value`: `len(value) == len(value.encode())` (ASCII only) and
`all(c == '\n' or ' ' <= c <= '~' for c in value)` (printable characters and newlines only; before the repair
45078c3 every ASCII character passed, e.g. a tab or 0x01) -/
def asciiOnly (s : String) : Bool := s.length == s.utf8ByteSize && s.toList.all printableChar

/-- `issubclass(cls, PairType)` (a ticket is read through a pair class but is not one) -/
def Ty.isPair : Ty → Bool
  | .pair _ _ _ => true
  | _ => false

end VC

namespace Impl.Value
open VC Core

/-! ### rendering: `to_micheline_value(mode, lazy_diff)` -/

def prim0 (p : String) : Mich := .prim p [] []
def pairOf (args : List Mich) : Mich := .prim "Pair" args []

/-- is the guard of `TimestampType.to_micheline_value` satisfied (no guard on the pinned tree: always) -/
def inGuard (t : Int) : Bool :=
  match Generated.C11.tsGuard with
  | some (some (lo, hi)) => lo ≤ t && t ≤ hi
  | _ => true

def tsToMich (env : Env) (mode : Mode) (t : Int) : Mich :=
  if mode = .readable then (if inGuard t then .str (env.fmtTs t) else .int t) else .int t

def domToMich (env : Env) (mode : Mode) (k : DomKind) (d : DomVal) : Mich :=
  if mode = .readable then .str (env.text k d) else .bytes (env.bin k d)

/-- `isinstance(item, PairType) and not (item.field_name or item.type_name)` (the annotation test is present
or not according to the source) -/
def flattens : Val → Bool
  | .pair named _ _ => !(consults && named)
  | _ => false

/-- the three layouts of `PairType.to_micheline_value` given the rendered items -/
def pairNode (mode : Mode) (ma mb : Mich) (items : List Mich) : Mich :=
  match mode with
  | .legacyOptimized => pairOf [ma, mb]
  | .readable => pairOf items
  | .optimized =>
    match items with
    | [x, y] => pairOf [x, y]
    | [x, y, z] => pairOf [x, pairOf [y, z]]
    | _ => .seq items          -- `len(args) >= 4` (fewer than 2 cannot happen)

/-- `lazy_diff` as seen by `BigMapType.to_micheline_value` -/
def bigMapLazy (lz : Option Bool) (ptr : Option Int) : Bool := lz.getD ptr.isNone

mutual
  /-- first component: `v.to_micheline_value(mode, lazy_diff)`; second: for a pair, the rendered
  `list(v.iter_comb())` (what the enclosing pair splices in when it flattens) -/
  def render (env : Env) (mode : Mode) : (lz : Option Bool) → Val → Mich × List Mich
    | _, .unit => (prim0 "Unit", [])
    | _, .bool b => (prim0 (if b then "True" else "False"), [])
    | _, .int v => (.int v, [])
    | _, .timestamp t => (tsToMich env mode t, [])
    | _, .blsFr v => (if mode = .readable then .int v else .bytes (natToLE 32 v.toNat), [])
    | _, .str s => (.str s, [])
    | _, .bytes b => (.bytes b, [])
    | _, .dom k d => (domToMich env mode k d, [])
    | _, .none => (prim0 "None", [])
    | lz, .some v => (.prim "Some" [(render env mode lz v).1] [], [])
    | lz, .left v => (.prim "Left" [(render env mode lz v).1] [], [])
    | lz, .right v => (.prim "Right" [(render env mode lz v).1] [], [])
    | lz, .pair _ a b =>
      let ma := (render env mode lz a).1
      let rb := render env mode lz b
      let items := ma :: (if flattens b then rb.2 else [rb.1])
      (pairNode mode ma rb.1 items, items)
    | lz, .list xs => (.seq (renderL env mode lz xs), [])
    | lz, .set xs => (.seq (renderL env mode lz xs), [])
    | lz, .map kvs => (.seq (renderE env mode lz kvs), [])
    | lz, .bigMap ptr kvs =>
      (if bigMapLazy lz ptr then .seq (renderE env mode (some false) kvs) else .int (ptr.getD 0), [])
    | _, .lambda code => (.seq code, [])
    | _, .ticket d item amount =>
      -- `self.to_comb().to_micheline_value(mode=mode)`: comb of unannotated classes, `lazy_diff` dropped
      let ma := domToMich env mode .address d
      let mi := (render env mode (some false) item).1
      (match mode with
        | .readable => pairOf [ma, mi, .int amount]
        | _ => pairOf [ma, pairOf [mi, .int amount]], [])
    | lz, .sapling ptr => (if lz = some true then .seq [] else .int (ptr.getD 0), [])
  def renderL (env : Env) (mode : Mode) : (lz : Option Bool) → List Val → List Mich
    | _, [] => []
    | lz, x :: xs => (render env mode lz x).1 :: renderL env mode lz xs
  def renderE (env : Env) (mode : Mode) : (lz : Option Bool) → List (Val × Val) → List Mich
    | _, [] => []
    | lz, (k, v) :: r => .prim "Elt" [(render env mode lz k).1, (render env mode lz v).1] [] :: renderE env mode lz r
end

mutual
  /-- does the Python call raise (`Big_map id is not defined`, `Sapling_state id is not defined`, `datetime`
  out of range, `to_bytes` overflow) — every node is visited, so it raises iff some visited node does -/
  def raises (mode : Mode) : (lz : Option Bool) → Val → Bool
    | _, .timestamp t => mode = .readable && inGuard t && !(rfcLo ≤ t && t ≤ rfcHi)
    | _, .blsFr v => mode ≠ .readable && !(0 ≤ v && v < 2 ^ 256)
    | lz, .some v => raises mode lz v
    | lz, .left v => raises mode lz v
    | lz, .right v => raises mode lz v
    | lz, .pair _ a b => raises mode lz a || raises mode lz b
    | lz, .list xs => raisesL mode lz xs
    | lz, .set xs => raisesL mode lz xs
    | lz, .map kvs => raisesE mode lz kvs
    | lz, .bigMap ptr kvs => if bigMapLazy lz ptr then raisesE mode (some false) kvs else ptr.isNone
    | _, .ticket _ item _ => raises mode (some false) item
    | lz, .sapling ptr => lz ≠ some true && ptr.isNone
    | _, _ => false
  def raisesL (mode : Mode) : (lz : Option Bool) → List Val → Bool
    | _, [] => false
    | lz, x :: xs => raises mode lz x || raisesL mode lz xs
  def raisesE (mode : Mode) : (lz : Option Bool) → List (Val × Val) → Bool
    | _, [] => false
    | lz, (k, v) :: r => raises mode lz k || raises mode lz v || raisesE mode lz r
end

/-- `v.to_micheline_value(mode=mode, lazy_diff=lz)` -/
def toMich (env : Env) (mode : Mode) (lz : Option Bool) (v : Val) : Except Err Mich :=
  if !sourceOk then .error .source
  else if raises mode lz v then .error .noId
  else .ok (render env mode lz v).1

/-! ### parsing: `from_micheline_value` -/

def mapMich (f : Mich → Except Err Val) : List Mich → Except Err (List Val)
  | [] => .ok []
  | x :: xs =>
    match f x with
    | .error e => .error e
    | .ok v =>
      match mapMich f xs with
      | .error e => .error e
      | .ok vs => .ok (v :: vs)

/-- `parse_elt` over the items of a map literal -/
def mapElts (fk fv : Mich → Except Err Val) : List Mich → Except Err (List (Val × Val))
  | [] => .ok []
  | x :: xs =>
    match x with
    | .prim p [k, v] an =>
      if !an.isEmpty then .error .shape      -- `assert not val_expr.get('annots')` of `parse_micheline_value`
      else if accepts "map" p 2 then
        match fk k with
        | .error e => .error e
        | .ok kk =>
          match fv v with
          | .error e => .error e
          | .ok vv =>
            match mapElts fk fv xs with
            | .error e => .error e
            | .ok r => .ok ((kk, vv) :: r)
      else .error .shape
    | _ => .error .shape

/-- `PairType.from_micheline_value` given the parsers of the two components; `rightIsPair` is
`issubclass(cls.args[1], PairType)`.  A `Pair` node with annotations is rejected (a sequence has none), and three or
more arguments are handed to the right component only when that is a pair class -/
def pairOfMich (named rightIsPair : Bool) (f g : Mich → Except Err Val) (m : Mich) : Except Err Val :=
  let args : Except Err (List Mich) :=
    match m with
    | .prim p args an => if p = "Pair" then (if an.isEmpty then .ok args else .error .shape) else .error .shape
    | .seq args => .ok args
    | _ => .error .shape
  match args with
  | .error e => .error e
  | .ok [a, b] =>
    match f a with
    | .error e => .error e
    | .ok x => match g b with
      | .error e => .error e
      | .ok y => .ok (.pair named x y)
  | .ok (a :: b :: c :: rest) =>
    if !rightIsPair then .error .shape
    else
      match f a with
      | .error e => .error e
      | .ok x => match g (.seq (b :: c :: rest)) with
        | .error e => .error e
        | .ok y => .ok (.pair named x y)
  | .ok _ => .error .shape

def domOfMich (env : Env) (k : DomKind) : Mich → Except Err Val
  | .bytes b =>
    if litOk k.prim "bytes" then
      match env.ofBin k b with
      | some d => .ok (.dom k d)
      | none => .error .value
    else .error .shape
  | .str s =>
    if litOk k.prim "string" then
      match env.ofText k s with
      | some d => .ok (.dom k d)
      | none => .error .value
    else .error .shape
  | _ => .error .shape

def intLit (ty : String) : Mich → Except Err Int
  | .int v => if litOk ty "int" then .ok v else .error .shape
  | _ => .error .shape

def leafOfMich (env : Env) : Leaf → Mich → Except Err Val
  | .unit, .prim p args an =>
    if !an.isEmpty then .error .shape
    else if accepts "unit" p args.length then .ok .unit else .error .shape
  | .bool, .prim p args an =>
    if !an.isEmpty then .error .shape
    else if accepts "bool" p args.length then (if p = "True" then .ok (.bool true) else .ok (.bool false)) else .error .shape
  | .int, m => (intLit "int" m).map .int
  | .nat, m =>
    match intLit "nat" m with
    | .ok v => if 0 ≤ v then .ok (.int v) else .error .value
    | .error e => .error e
  | .mutez, m =>
    match intLit "nat" m with
    | .ok v =>
      match Generated.C11.mutezBits with
      | some n => if 0 ≤ v ∧ v < 2 ^ n then .ok (.int v) else .error .value
      | none => .error .source
    | .error e => .error e
  | .timestamp, .int v => if litOk "timestamp" "int" then .ok (.timestamp v) else .error .shape
  | .timestamp, .str s =>
    if litOk "timestamp" "string" then
      match env.parseTs s with
      | some t => .ok (.timestamp t)
      | none => match pyInt s with
        | some t => .ok (.timestamp t)
        | none => .error .value
    else .error .shape
  | .string, .str s => if litOk "string" "string" then (if asciiOnly s then .ok (.str s) else .error .value) else .error .shape
  | .bytes, .bytes b => if litOk "bytes" "bytes" then .ok (.bytes b) else .error .shape
  | .blsG1, .bytes b => if litOk "bytes" "bytes" then .ok (.bytes b) else .error .shape
  | .blsG2, .bytes b => if litOk "bytes" "bytes" then .ok (.bytes b) else .error .shape
  | .chest, .bytes b => if litOk "bytes" "bytes" then .ok (.bytes b) else .error .shape
  | .chestKey, .bytes b => if litOk "bytes" "bytes" then .ok (.bytes b) else .error .shape
  | .blsFr, .int v =>
    if litOk "bls12_381_fr" "int" then
      match Generated.C11.frModulus with
      | some m => .ok (.blsFr (v % (m : Int)))
      | none => .error .source
    else .error .shape
  | .blsFr, .bytes b =>
    if litOk "bls12_381_fr" "bytes" then
      match Generated.C11.frModulus with
      | some m => if b.length ≤ 32 then .ok (.blsFr (((leToNat b : Nat) : Int) % (m : Int))) else .error .value
      | none => .error .source
    else .error .shape
  | .dom k, m => domOfMich env k m
  | .never, _ => .error .notImplemented
  | .operation, _ => .error .notImplemented
  | _, _ => .error .shape

/-- `TicketType.from_comb` on the parsed `pair address (pair τ nat)` -/
def ticketOfComb : Val → Except Err Val
  | .pair _ (.dom .address d) (.pair _ item (.int n)) => .ok (.ticket d item n)
  | _ => .error .shape

def ofMichCore (env : Env) : Ty → Mich → Except Err Val
  | .leaf l _, m => leafOfMich env l m
  | .option t _, m =>
    match m with
    | .prim p [x] an =>
      if !an.isEmpty then .error .shape
      else if accepts "option" p 1 then
        (if p = "Some" then (ofMichCore env t x).map .some else .error .shape)
      else .error .shape
    | .prim p [] an =>
      if !an.isEmpty then .error .shape
      else if accepts "option" p 0 then (if p = "None" then .ok .none else .error .shape) else .error .shape
    | _ => .error .shape
  | .or l r _, m =>
    match m with
    | .prim p [x] an =>
      if !an.isEmpty then .error .shape
      else if accepts "or" p 1 then
        (if p = "Left" then (ofMichCore env l x).map .left
         else if p = "Right" then (ofMichCore env r x).map .right else .error .shape)
      else .error .shape
    | _ => .error .shape
  | .pair l r a, m => pairOfMich a.named r.isPair (ofMichCore env l) (ofMichCore env r) m
  | .list t _, m =>
    match m with
    | .seq xs => (mapMich (ofMichCore env t) xs).map .list
    | _ => .error .shape
  | .set t _, m =>
    match m with
    | .seq xs =>
      match mapMich (ofMichCore env t) xs with
      | .ok vs => if env.keysOk t vs then .ok (.set vs) else .error .order
      | .error e => .error e
    | _ => .error .shape
  | .map k v _, m =>
    match m with
    | .seq xs =>
      match mapElts (ofMichCore env k) (ofMichCore env v) xs with
      | .ok kvs => if env.keysOk k (kvs.map (·.1)) then .ok (.map kvs) else .error .order
      | .error e => .error e
    | _ => .error .shape
  | .bigMap k v _, m =>
    match m with
    | .seq xs =>
      match mapElts (ofMichCore env k) (ofMichCore env v) xs with
      | .ok kvs => if env.keysOk k (kvs.map (·.1)) then .ok (.bigMap none kvs) else .error .order
      | .error e => .error e
    | other => (intLit "big_map" other).map fun p => .bigMap (some p) []
  | .lambda _ _ _, m =>
    match m with
    | .seq code =>
      match env.normLambda code with
      | some c => .ok (.lambda c)
      | none => .error .value
    | _ => .error .shape
  | .contract _ _, m => domOfMich env .contract m
  | .ticket t _, m =>
    -- `PairType.create_type(args=[AddressType, τ, NatType])` = `pair address (pair τ nat)`: a pair class on the right
    -- of the outer pair, `nat` on the right of the inner one
    match pairOfMich false true (domOfMich env .address)
        (pairOfMich false false (ofMichCore env t) (leafOfMich env .nat)) m with
    | .ok c => ticketOfComb c
    | .error e => .error e
  | .saplingState _ _, m =>
    match m with
    | .seq _ => .ok (.sapling none)
    | other => (intLit "sapling_state" other).map fun p => .sapling (some p)

/-- `τ.from_micheline_value(m)` -/
def ofMich (env : Env) (τ : Ty) (m : Mich) : Except Err Val :=
  if !sourceOk then .error .source else ofMichCore env τ m

end Impl.Value

namespace VC
open Core

/-! ### typing of values, and the values a given call renders without losing information -/

def frModulus : Nat := Generated.C11.frModulus.getD 0
def mutezBits : Nat := Generated.C11.mutezBits.getD 0

def hasTy (env : Env) : Ty → Val → Bool
  | .leaf .unit _, .unit => true
  | .leaf .bool _, .bool _ => true
  | .leaf .int _, .int _ => true
  | .leaf .nat _, .int v => 0 ≤ v
  | .leaf .mutez _, .int v => 0 ≤ v && v < 2 ^ mutezBits
  | .leaf .timestamp _, .timestamp _ => true
  | .leaf .string _, .str s => asciiOnly s
  | .leaf .bytes _, .bytes _ => true
  | .leaf .blsG1 _, .bytes _ => true
  | .leaf .blsG2 _, .bytes _ => true
  | .leaf .chest _, .bytes _ => true
  | .leaf .chestKey _, .bytes _ => true
  | .leaf .blsFr _, .blsFr v => 0 ≤ v && v < (frModulus : Int) && frModulus ≤ 2 ^ 256
  | .leaf (.dom k) _, .dom k' d => k = k' && env.valid k d
  | .contract _ _, .dom k d => k = .contract && env.valid .contract d
  | .option _ _, .none => true
  | .option t _, .some v => hasTy env t v
  | .or l _ _, .left v => hasTy env l v
  | .or _ r _, .right v => hasTy env r v
  | .pair l r a, .pair named x y => (named == a.named) && hasTy env l x && hasTy env r y
  | .list t _, .list xs => xs.all (hasTy env t)
  | .set t _, .set xs => xs.all (hasTy env t) && env.keysOk t xs
  | .map k v _, .map kvs =>
    kvs.all (fun kv => hasTy env k kv.1 && hasTy env v kv.2) && env.keysOk k (kvs.map (·.1))
  | .bigMap k v _, .bigMap _ kvs =>
    kvs.all (fun kv => hasTy env k kv.1 && hasTy env v kv.2) && env.keysOk k (kvs.map (·.1))
  | .lambda _ _ _, .lambda code => env.lambdaOk code
  | .ticket t _, .ticket d item amount => env.valid .address d && hasTy env t item && 0 ≤ amount
  | .saplingState _ _, .sapling _ => true
  | _, _ => false

/-- the call `to_micheline_value(mode, lazy_diff = lz)` keeps all the information of the value:
* a signature in a non-readable mode comes back with the generic prefix (same bytes);
* a big_map is rendered either as its id or as its items, whichever `lazy_diff` selects — the other part must
  be empty; the same for the id of a sapling state. -/
def faithful (mode : Mode) : (lz : Option Bool) → Ty → Val → Bool
  | _, .leaf (.dom .signature) _, .dom _ d => mode = .readable || binNorm .signature d == d
  | lz, .option t _, .some v => faithful mode lz t v
  | lz, .or l _ _, .left v => faithful mode lz l v
  | lz, .or _ r _, .right v => faithful mode lz r v
  | lz, .pair l r _, .pair _ x y => faithful mode lz l x && faithful mode lz r y
  | lz, .list t _, .list xs => xs.all (faithful mode lz t)
  | lz, .set t _, .set xs => xs.all (faithful mode lz t)
  | lz, .map k v _, .map kvs => kvs.all (fun kv => faithful mode lz k kv.1 && faithful mode lz v kv.2)
  | lz, .bigMap k v _, .bigMap ptr kvs =>
    kvs.all (fun kv => faithful mode (some false) k kv.1 && faithful mode (some false) v kv.2) &&
      (if Impl.Value.bigMapLazy lz ptr then ptr.isNone else (ptr.isSome && kvs.isEmpty))
  | _, .ticket t _, .ticket _ item _ => faithful mode (some false) t item
  | lz, .saplingState _ _, .sapling ptr => if lz = some true then ptr.isNone else ptr.isSome
  | _, _, _ => true

end VC

namespace Spec.Value
open VC Impl.Value

/-! ### reference layouts of a comb (Tezos `Pair` normal forms), stated without looking at annotations -/

/-- right-nested `Pair a (Pair b (…))` -/
def nestR : Mich → Mich → List Mich → Mich
  | a, b, [] => pairOf [a, b]
  | a, b, c :: rest => pairOf [a, nestR b c rest]

/-- the rendering of the comb with components `a, b, rest…` (length `2 + rest.length`) in each mode:
readable = one flat `Pair`; legacy optimized = right-nested binary pairs; optimized = `Pair a b`,
`Pair a (Pair b c)`, and a sequence from four components on -/
def combLayout (mode : Mode) (a b : Mich) (rest : List Mich) : Mich :=
  match mode with
  | .readable => pairOf (a :: b :: rest)
  | .legacyOptimized => nestR a b rest
  | .optimized =>
    match rest with
    | [] => pairOf [a, b]
    | [c] => pairOf [a, pairOf [b, c]]
    | _ => .seq (a :: b :: rest)

/-- the right comb value of `a, b, rest…` whose inner pair classes are unannotated (`named` is the outer class) -/
def combVal (named : Bool) : Val → Val → List Val → Val
  | a, b, [] => .pair named a b
  | a, b, c :: rest => .pair named a (combVal false b c rest)

/-- the last component is not itself a pair that `iter_comb` would splice in (otherwise the comb is longer) -/
def lastNotFlat : Val → List Val → Bool
  | b, [] => !flattens b
  | _, c :: rest => lastNotFlat c rest

/-- no type below `τ` needs a side condition on the call: no signature (generic-prefix normalisation),
no big_map / sapling_state (`lazy_diff`) -/
def plainTy : Ty → Bool
  | .leaf (.dom .signature) _ => false
  | .leaf _ _ => true
  | .option t _ => plainTy t
  | .or l r _ => plainTy l && plainTy r
  | .pair l r _ => plainTy l && plainTy r
  | .list t _ => plainTy t
  | .set t _ => plainTy t
  | .map k v _ => plainTy k && plainTy v
  | .bigMap _ _ _ => false
  | .lambda _ _ _ => true
  | .contract _ _ => true
  | .ticket t _ => plainTy t
  | .saplingState _ _ => false

end Spec.Value
