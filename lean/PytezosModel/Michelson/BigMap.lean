import PytezosModel.Generated.C15
/-! Mirror of `BigMapType` (src/pytezos/michelson/types/big_map.py), of `MapType.contains`, of the big_map part of
`ExecutionContext` (src/pytezos/context/impl.py) and of GET / MEM / UPDATE / GET_AND_UPDATE on a big_map
(src/pytezos/michelson/instructions/struct.py), together with the reference the property speaks about
(`Spec.*`: a dictionary layered over the on-chain contents).

A big map is ⟨items, removed_keys, ptr⟩.  `items` is a Python list of pairs: nothing in the class keeps a `None`
out of it, so the value component is `Option V` here and "no `None` in items" is part of the invariant.
`removed_keys` is rebuilt from a Python `set` on every update (order unspecified): the model keeps a duplicate-free
list and every observable derived from it is sorted before it is compared with the real code.
Keys are an arbitrary type with decidable equality (`__eq__`) and a comparison `lt` (`__lt__`, the only thing
`sorted` uses); values are abstract.  What `update` iterates over is read from the source (`Generated.C15.updateShape`). -/

namespace Impl.BigMap
open Generated.C15

structure BM (K V : Type) where
  items : List (K × Option V)
  removed : List K
  ptr : Option Int
  deriving DecidableEq, Repr

section ops
variable {K V : Type} [DecidableEq K]

/-- Python `sorted(xs, key=lambda x: x[0])` is stable and only calls `<` on the keys: insertion sort that places an
element after everything that is not greater -/
def insertByKey {α : Type} (lt : K → K → Bool) (x : K × α) : List (K × α) → List (K × α)
  | [] => [x]
  | y :: ys => if lt x.1 y.1 then x :: y :: ys else y :: insertByKey lt x ys

def sortByKey {α : Type} (lt : K → K → Bool) (xs : List (K × α)) : List (K × α) :=
  xs.foldl (fun acc x => insertByKey lt x acc) []

/-- `__iter__`: the stored items, then every removed key as `(key, None)` -/
def selfIter (b : BM K V) : List (K × Option V) := b.items ++ b.removed.map (fun k => (k, none))

/-- first element with the given key: `next((v for k, v in xs if k == key), Undefined)`; outer `none` = `Undefined` -/
def lookup (xs : List (K × Option V)) (k : K) : Option (Option V) := (xs.find? (fun e => e.1 == k)).map (·.2)

/-- the "search in diff" of `get` -/
def findLocal (b : BM K V) (k : K) : Option (Option V) := lookup (selfIter b) k

/-- `BigMapType.get`; `chain k` stands for `context.get_big_map_value(self.ptr, key_hash(k))` decoded -/
def get (chain : K → Option V) (b : BM K V) (k : K) : Option V :=
  match findLocal b k with
  | some v => v
  | none => chain k

/-- `MapType.contains` -/
def contains (chain : K → Option V) (b : BM K V) (k : K) : Bool := (get chain b k).isSome

/-- `set(xs)` as a duplicate-free list -/
def toSet : List K → List K
  | [] => []
  | x :: xs => if x ∈ toSet xs then toSet xs else x :: toSet xs

def setAdd (s : List K) (k : K) : List K := if k ∈ s then s else s ++ [k]
def setRemove (s : List K) (k : K) : List K := s.filter (fun x => x != k)

def updIter (it : IterOver) (b : BM K V) : List (K × Option V) :=
  match it with
  | .self => selfIter b
  | .items => b.items

/-- body of `BigMapType.update` after `prev_val = self.get(key, dup=False)` -/
def updateWith (sh : UpdateShape) (lt : K → K → Bool) (b : BM K V) (k : K) (v : Option V) (prev : Option V) : BM K V :=
  let removed := toSet b.removed
  match prev, v with
  | some _, some nv =>
    let replaced := (updIter sh.iter b).map (fun e => (e.1, if e.1 != k then e.2 else some nv))
    let items := if sh.insertAbsent then
        (if b.items.any (fun e => e.1 == k) then replaced else sortByKey lt (b.items ++ [(k, some nv)]))
      else replaced
    ⟨items, removed, b.ptr⟩
  | some _, none => ⟨(updIter sh.iter b).filter (fun e => e.1 != k), setAdd removed k, b.ptr⟩
  | none, some nv =>
    ⟨sortByKey lt (b.items ++ [(k, some nv)]), if k ∈ removed then setRemove removed k else removed, b.ptr⟩
  | none, none => ⟨b.items, removed, b.ptr⟩

/-- `BigMapType.update`: (previous value, new big map) -/
def updateSh (sh : UpdateShape) (lt : K → K → Bool) (chain : K → Option V) (b : BM K V) (k : K) (v : Option V) :
    Option V × BM K V :=
  let prev := get chain b k
  (prev, updateWith sh lt b k v prev)

/-- every structural fact the mirror depends on was recognised in the source -/
def config : Option UpdateShape :=
  match updateShape, iterYieldsRemoved, getShape, containsShape, aggregateShape, attachShape, ctxShape, instrShape, duplicateShape with
  | some sh, some true, some _, some _, some _, some _, some _, some _, some _ => some sh
  | _, _, _, _, _, _, _, _, _ => none

/-- the source under test -/
def update (lt : K → K → Bool) (chain : K → Option V) (b : BM K V) (k : K) (v : Option V) : Option (Option V × BM K V) :=
  config.map fun sh => updateSh sh lt chain b k v

/-- `MapType.check_constraints` on a literal `{ Elt k v ; … }`: `len(set(keys)) == len(keys)` and `keys == sorted(keys)` -/
def checkConstraints (lt : K → K → Bool) (items : List (K × V)) : Bool :=
  let keys := items.map (·.1)
  (toSet keys).length == keys.length && keys == (sortByKey lt (keys.map fun k => (k, ()))).map (·.1)

/-- `from_micheline_value` of a literal (no id yet); `none`: rejected by `check_constraints` -/
def fromLiteral (lt : K → K → Bool) (items : List (K × V)) : Option (BM K V) :=
  if checkConstraints lt items then some ⟨items.map fun e => (e.1, some e.2), [], none⟩ else none

/-- `updates` of the diff entry: `[make_update(key, val) for key, val in self]` (key hash: see `DiffEntry`) -/
def diffUpdates (b : BM K V) : List (K × Option V) := selfIter b

/-! ### operations of a history (GET, MEM, UPDATE, GET_AND_UPDATE of instructions/struct.py) -/

inductive Op (K V : Type)
  | get (k : K)
  | mem (k : K)
  | update (k : K) (v : Option V)
  | getAndUpdate (k : K) (v : Option V)
  deriving DecidableEq, Repr

/-- what the instruction leaves on the stack besides the map -/
inductive Obs (V : Type)
  | val (v : Option V)
  | bool (b : Bool)
  | unit
  deriving DecidableEq, Repr

def stepSh (sh : UpdateShape) (lt : K → K → Bool) (chain : K → Option V) (b : BM K V) : Op K V → Obs V × BM K V
  | .get k => (.val (get chain b k), b)
  | .mem k => (.bool (contains chain b k), b)
  | .update k v => (.unit, (updateSh sh lt chain b k v).2)
  | .getAndUpdate k v => let r := updateSh sh lt chain b k v; (.val r.1, r.2)

def runSh (sh : UpdateShape) (lt : K → K → Bool) (chain : K → Option V) : BM K V → List (Op K V) → List (Obs V) × BM K V
  | b, [] => ([], b)
  | b, op :: ops =>
    let r := stepSh sh lt chain b op
    let rest := runSh sh lt chain r.2 ops
    (r.1 :: rest.1, rest.2)

def run (lt : K → K → Bool) (chain : K → Option V) (b : BM K V) (ops : List (Op K V)) : Option (List (Obs V) × BM K V) :=
  config.map fun sh => runSh sh lt chain b ops

end ops

/-! ### context side: ids, registration, diff actions -/

inductive Action | alloc | copy | update
  deriving DecidableEq, Repr

/-- the big_map part of `ExecutionContext`: `tmp_big_map_index`, `alloc_big_map_index`, `big_maps` (dict, insertion order) -/
structure Ctx where
  tmpIdx : Nat
  allocIdx : Nat
  bigMaps : List (Int × (Int × Bool))
  deriving DecidableEq, Repr

def Ctx.empty : Ctx := ⟨0, 0, []⟩

def Ctx.lookup (c : Ctx) (p : Int) : Option (Int × Bool) := (c.bigMaps.find? (fun e => e.1 == p)).map (·.2)

/-- `self.big_maps[p] = e` -/
def Ctx.assign (c : Ctx) (p : Int) (e : Int × Bool) : Ctx :=
  { c with bigMaps := if c.bigMaps.any (fun x => x.1 == p) then c.bigMaps.map (fun x => if x.1 == p then (p, e) else x)
                      else c.bigMaps ++ [(p, e)] }

/-- `get_tmp_big_map_id` -/
def getTmpBigMapId (c : Ctx) : Int × Ctx := (-((c.tmpIdx + 1 : Nat) : Int), { c with tmpIdx := c.tmpIdx + 1 })

/-- `register_big_map` -/
def registerBigMap (c : Ctx) (ptr : Int) (copy : Bool) : Int × Ctx :=
  if copy then
    let r := getTmpBigMapId c
    (r.1, r.2.assign r.1 (ptr, true))
  else (ptr, c.assign ptr (ptr, false))

/-- `get_big_map_diff`: (source id, destination id, action) -/
def getBigMapDiff (c : Ctx) (ptr : Int) : (Option Int × Int × Action) × Ctx :=
  match c.lookup ptr with
  | some (src, true) => ((some src, (c.allocIdx : Int), .copy), { c with allocIdx := c.allocIdx + 1 })
  | some (src, false) => ((some src, src, .update), c)
  | none => ((none, (c.allocIdx : Int), .alloc), { c with allocIdx := c.allocIdx + 1 })

inductive Err | valueError | assertion | runtime
  deriving DecidableEq, Repr

/-- `get_big_map_value` of a non-tzt context, decoded.  `shell = none`: no shell attached (`ValueError`);
`shell = some f`: `f id k` is the on-chain value (an `RpcError` of the node = `none`) -/
def getBigMapValue {K V : Type} (shell : Option (Int → K → Option V)) (c : Ctx) (ptr : Int) (k : K) : Except Err (Option V) :=
  match c.lookup ptr with
  | none => .ok none
  | some (src, _) =>
    if src < 0 then .ok none
    else match shell with
      | none => .error .valueError
      | some f => .ok (f src k)

/-- `attach_context` (the context reference itself is not part of this model, see Session.lean) -/
def attachContext {K V : Type} (c : Ctx) (b : BM K V) (copy : Bool) : BM K V × Ctx :=
  match b.ptr with
  | none => let r := getTmpBigMapId c; ({ b with ptr := some r.1 }, r.2)
  | some p => let r := registerBigMap c p copy; ({ b with ptr := some r.1 }, r.2)

/-- one element of `lazy_diff`; each update carries `key_hash = forge_script_expr(key.pack(legacy=True))`,
with the hash function abstract (`H`) -/
structure DiffEntry (K V H : Type) where
  id : Int
  action : Action
  updates : List (K × H × Option V)
  deriving DecidableEq, Repr

/-- `aggregate_lazy_diff` with a context attached: the entry, the returned (emptied) map, the context.
`none`: `assert self.ptr is not None` -/
def aggregateLazyDiff {K V H : Type} [DecidableEq K] (keyHash : K → H) (c : Ctx) (b : BM K V) :
    Option (DiffEntry K V H × BM K V × Ctx) :=
  match b.ptr with
  | none => none
  | some p =>
    let r := getBigMapDiff c p
    some (⟨r.1.2.1, r.1.2.2, (diffUpdates b).map fun e => (e.1, keyHash e.1, e.2)⟩, ⟨[], [], some r.1.2.1⟩, r.2)

/-- `duplicate()` — what DUP does to a big map: the same id, an own copy of the local layer (after it the two values
diverge independently) -/
def duplicate {K V : Type} (b : BM K V) : Option (BM K V) := duplicateShape.map fun _ => ⟨b.items, b.removed, b.ptr⟩

/-! ### `merge_lazy_diff`: pytezos' own reading of an emitted entry -/

/-- does `merge_lazy_diff` take an update for one that carries a value?  `falsy v`: the Micheline form of `v` is falsy in
Python (an empty sequence: `{}` of a map / set / list value) -/
def hasValue {V : Type} (t : MergeTest) (falsy : V → Bool) : Option V → Bool
  | none => false
  | some x =>
    match t with
    | .isNotNone => true
    | .truthy => !falsy x

/-- the big map `merge_lazy_diff` builds from the updates of the entry with this id: the updates taken to carry a value
become the stored items (in the order of the entry), the keys of the others the removed keys -/
def mergeWith {K V : Type} (t : MergeTest) (falsy : V → Bool) (p : Int) (ups : List (K × Option V)) : BM K V :=
  ⟨ups.filter (fun u => hasValue t falsy u.2), (ups.filter fun u => !hasValue t falsy u.2).map (·.1), some p⟩

/-- the source under test -/
def mergeLazyDiff {K V : Type} (falsy : V → Bool) (p : Int) (ups : List (K × Option V)) : Option (BM K V) :=
  mergeShape.map fun t => mergeWith t falsy p ups

/-! ### the invariant of reachable big maps -/
section inv
variable {K V : Type}

/-- hypothesis on the key comparison (`__lt__`): a strict total order (C03 is about whether it is one) -/

structure StrictTotal (lt : K → K → Bool) : Prop where
  irrefl : ∀ a, lt a a = false
  trans : ∀ a b c, lt a b = true → lt b c = true → lt a c = true
  total : ∀ a b, a ≠ b → lt a b = true ∨ lt b a = true

/-- items strictly sorted by key, no `None` value among them, removed keys duplicate-free and disjoint from the
stored keys -/
structure Inv (lt : K → K → Bool) (b : BM K V) : Prop where
  sorted : b.items.Pairwise (fun x y => lt x.1 y.1 = true)
  noNone : ∀ e ∈ b.items, e.2 ≠ none
  disjoint : ∀ k ∈ b.removed, ∀ e ∈ b.items, e.1 ≠ k
  nodup : b.removed.Nodup
end inv

end Impl.BigMap

/-! ## the reference: a dictionary layered over the on-chain contents -/
namespace Spec.BigMap
open Impl.BigMap

variable {K V : Type} [DecidableEq K]

/-- a dictionary -/
abbrev Dict (K V : Type) := K → Option V

def Dict.insert (d : Dict K V) (k : K) (v : V) : Dict K V := fun k' => if k' = k then some v else d k'
def Dict.erase (d : Dict K V) (k : K) : Dict K V := fun k' => if k' = k then none else d k'
/-- UPDATE with an option: `Some v` inserts, `None` erases -/
def Dict.set (d : Dict K V) (k : K) (v : Option V) : Dict K V := fun k' => if k' = k then v else d k'

/-- the local layer of a big map read as a partial dictionary of *decisions*: `some (some v)` set locally,
`some none` removed locally, `none` nothing known locally -/
def overlay (b : BM K V) : K → Option (Option V) := fun k =>
  if k ∈ b.removed then some none
  else match b.items.find? (fun e => e.1 == k) with
    | some e => some e.2
    | none => none

/-- the overlay layered over the on-chain dictionary -/
def layered (ov : K → Option (Option V)) (chain : Dict K V) : Dict K V := fun k =>
  match ov k with
  | some x => x
  | none => chain k

/-- the dictionary a big map stands for -/
def dict (chain : Dict K V) (b : BM K V) : Dict K V := layered (overlay b) chain

/-- reference semantics of one operation on a dictionary -/
def step (d : Dict K V) : Op K V → Obs V × Dict K V
  | .get k => (.val (d k), d)
  | .mem k => (.bool (d k).isSome, d)
  | .update k v => (.unit, d.set k v)
  | .getAndUpdate k v => (.val (d k), d.set k v)

def run : Dict K V → List (Op K V) → List (Obs V) × Dict K V
  | d, [] => ([], d)
  | d, op :: ops =>
    let r := step d op
    let rest := run r.2 ops
    (r.1 :: rest.1, rest.2)

/-- applying the `updates` of a diff entry, in order -/
def applyUpdates (d : Dict K V) (us : List (K × Option V)) : Dict K V := us.foldl (fun d u => d.set u.1 u.2) d

/-- applying a whole entry to the family of on-chain big maps: `alloc` starts from the empty map, `copy` and
`update` from the source map (`src` as returned by `get_big_map_diff`; the emitted JSON does not carry it) -/
def applyEntry {H : Type} (chains : Int → Dict K V) (src : Option Int) (e : DiffEntry K V H) : Int → Dict K V := fun i =>
  if i = e.id then
    let base : Dict K V := match e.action, src with
      | .alloc, _ => fun _ => none
      | _, some s => chains s
      | _, none => fun _ => none
    applyUpdates base (e.updates.map fun u => (u.1, u.2.2))
  else chains i

end Spec.BigMap
