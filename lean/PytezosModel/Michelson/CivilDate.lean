/-! C11 — the civil-date arithmetic behind readable timestamps (Mathlib-free, total, computable).

* `fmtTimestamp padded t` mirrors `format_timestamp(t)` of `src/pytezos/michelson/format.py`:
  `dt = datetime.fromtimestamp(t, timezone.utc)` (raises outside 0001-01-01T00:00:00Z … 9999-12-31T23:59:59Z → `none`),
  then `f'{dt.year:04d}' + dt.strftime('-%m-%dT%H:%M:%SZ')` (`padded = true`) or the pinned tree's
  `dt.strftime('%Y-%m-%dT%H:%M:%SZ')` with glibc's unpadded `%Y` (`padded = false`).
* `parseTimestamp s` mirrors `int(strict_rfc3339.rfc3339_to_timestamp(s))` (what `optimize_timestamp` tries first;
  `none` = `InvalidRFC3339Error`): the regular expression
  `^(\d\d\d\d)\-(\d\d)\-(\d\d)T(\d\d):(\d\d):(\d\d)(\.\d+)?(Z|([+\-])(\d\d):(\d\d))$`
  (upper-case `T` / `Z` only; `$` also matches before one final `'\n'`), the range checks of `validate_rfc3339`
  (year 1…9999, month, day of month with the Gregorian leap rule, no leap second, offset ≤ 23:59),
  `calendar.timegm`, the fraction and the offset, and the truncation of `int(·)`.
* `daysFromCivil` / `civilFromDays`: days since 1970-01-01 ↔ proleptic Gregorian (year, month, day)
  (`datetime`'s ordinal arithmetic / `calendar.timegm`; the algorithms are H. Hinnant's `days_from_civil` /
  `civil_from_days`, eras of 400 years starting on 1 March).

A fraction is added by Python as a binary `float` (`timestamp += float("0" + fraction)`, then `timestamp -= offset`,
then `int(·)`), so `.99999` after 9999-12-31T23:59:59 is the next second: `floatPath` reproduces this with exact
round-to-nearest-even binary64 arithmetic on rationals (`roundDouble`).  Without a fraction everything is integer
arithmetic.

Not modelled (stated in the harness assumptions): `\d` of Python's `re` also matches non-ASCII decimal digits. -/
namespace Civil

/-! ### days ↔ civil date -/

/-- year of the era (0…399, years start on 1 March) of the day of the era `doe` (0…146096) -/
def yoeOfDoe (doe : Int) : Int := (doe - doe / 1460 + doe / 36524 - doe / 146096) / 365

/-- days of the era before 1 March of year-of-era `yoe` -/
def yearStart (yoe : Int) : Int := 365 * yoe + yoe / 4 - yoe / 100

/-- month counted from March (0 = March … 11 = February) of the day of the (March-based) year -/
def mpOfDoy (doy : Int) : Int := (5 * doy + 2) / 153

/-- days of the March-based year before the first of month `mp` -/
def monthStart (mp : Int) : Int := (153 * mp + 2) / 5

/-- days since 1970-01-01 → (year, month, day) -/
def civilFromDays (z : Int) : Int × Int × Int :=
  let z := z + 719468
  let era := z / 146097          -- `Int./` floors for a positive divisor
  let doe := z - era * 146097
  let yoe := yoeOfDoe doe
  let doy := doe - yearStart yoe
  let mp := mpOfDoy doy
  let d := doy - monthStart mp + 1
  let m := if mp < 10 then mp + 3 else mp - 9
  (if m ≤ 2 then yoe + era * 400 + 1 else yoe + era * 400, m, d)

/-- (year, month, day) → days since 1970-01-01 -/
def daysFromCivil (y m d : Int) : Int :=
  let y := if m ≤ 2 then y - 1 else y
  let era := y / 400
  let yoe := y - era * 400
  let mp := if m > 2 then m - 3 else m + 9
  let doy := monthStart mp + d - 1
  let doe := yearStart yoe + doy
  era * 146097 + doe - 719468

def isLeap (y : Int) : Bool := (y % 4 = 0 && y % 100 ≠ 0) || y % 400 = 0

/-- `calendar.monthrange(y, m)[1]` -/
def monthLen (y m : Int) : Int :=
  if m = 2 then (if isLeap y then 29 else 28)
  else if m = 4 ∨ m = 6 ∨ m = 9 ∨ m = 11 then 30 else 31

/-- a date of the proleptic Gregorian calendar -/
def validDate (y m d : Int) : Prop := 1 ≤ m ∧ m ≤ 12 ∧ 1 ≤ d ∧ d ≤ monthLen y m

/-! ### digits -/

def digitChar (n : Nat) : Char := Char.ofNat (48 + n)

def digitVal (c : Char) : Option Nat := if '0' ≤ c ∧ c ≤ '9' then some (c.toNat - 48) else none

/-- `'%02d' % n` for `0 ≤ n ≤ 99` -/
def dec2 (n : Int) : List Char := [digitChar (n / 10 % 10).toNat, digitChar (n % 10).toNat]

/-- `f'{n:04d}'` for `0 ≤ n ≤ 9999` -/
def dec4 (n : Int) : List Char :=
  [digitChar (n / 1000 % 10).toNat, digitChar (n / 100 % 10).toNat, digitChar (n / 10 % 10).toNat, digitChar (n % 10).toNat]

/-- `int(a + b)` for two characters matched by `\d\d` -/
def num2 (a b : Char) : Option Int :=
  match digitVal a, digitVal b with
  | some x, some y => some ((10 * x + y : Nat) : Int)
  | _, _ => none

/-- `int(a + b + c + d)` for four characters matched by `\d\d\d\d` -/
def num4 (a b c d : Char) : Option Int :=
  match digitVal a, digitVal b, digitVal c, digitVal d with
  | some x, some y, some z, some w => some ((1000 * x + 100 * y + 10 * z + w : Nat) : Int)
  | _, _, _, _ => none

/-! ### `format_timestamp` -/

/-- 0001-01-01T00:00:00Z and 9999-12-31T23:59:59Z: outside, `datetime.fromtimestamp` raises -/
def tsMin : Int := -62135596800
def tsMax : Int := 253402300799

/-- the year: `f'{dt.year:04d}'` (exactly four digits for 1 ≤ year ≤ 9999), or glibc's unpadded `%Y` -/
def yearText (padded : Bool) (y : Int) : List Char := if padded then dec4 y else (toString y.toNat).toList

def fmtTimestamp (padded : Bool) (t : Int) : Option (List Char) :=
  if tsMin ≤ t ∧ t ≤ tsMax then
    let days := t / 86400
    let secs := t % 86400
    let c := civilFromDays days
    some (yearText padded c.1 ++ '-' :: dec2 c.2.1 ++ '-' :: dec2 c.2.2 ++ 'T' :: dec2 (secs / 3600) ++ ':' ::
      dec2 (secs % 3600 / 60) ++ ':' :: dec2 (secs % 60) ++ ['Z'])
  else none

/-! ### `strict_rfc3339.rfc3339_to_timestamp` -/

def isDigit (c : Char) : Bool := (digitVal c).isSome

/-- `(\.\d+)?`: the digits of the fraction (`[]` = group absent) and what follows -/
def takeFraction : List Char → Option (List Char × List Char)
  | '.' :: r =>
    let ds := r.takeWhile isDigit
    if ds.isEmpty then none else some (ds, r.dropWhile isDigit)
  | r => some ([], r)

/-- `([+\-])(\d\d):(\d\d)`: the offset in seconds (hours ≤ 23, minutes ≤ 59) -/
def parseOffset (sg a b c e f : Char) : Option Int :=
  if (sg = '+' ∨ sg = '-') ∧ c = ':' then
    match num2 a b, num2 e f with
    | some oh, some om =>
      if oh ≤ 23 ∧ om ≤ 59 then some ((if sg = '-' then -1 else 1) * (oh * 3600 + om * 60)) else none
    | _, _ => none
  else none

/-- `(Z|([+\-])(\d\d):(\d\d))$`; `$` matches at the end and before a final newline.  `some none` = `Z` -/
def parseZone : List Char → Option (Option Int)
  | ['Z'] => some none
  | ['Z', '\n'] => some none
  | [sg, a, b, c, e, f] => (parseOffset sg a b c e f).map some
  | [sg, a, b, c, e, f, '\n'] => (parseOffset sg a b c e f).map some
  | _ => none

/-! #### binary64 arithmetic of the fraction -/

/-- ⌊log₂ (a / d)⌋ for `a, d > 0` -/
def log2Ratio (a d : Nat) : Int :=
  let k : Int := (a.log2 : Int) - (d.log2 : Int)       -- ⌊log₂ (a / d)⌋ is `k - 1` or `k`
  let ge : Bool := if k ≥ 0 then d * 2 ^ k.toNat ≤ a else d ≤ a * 2 ^ (-k).toNat
  if ge then k else k - 1

/-- `n / d` (`d > 0`) rounded to the nearest IEEE-754 binary64, ties to even, as the dyadic `m · 2^e`
(subnormals and underflow to 0 included; no overflow: the magnitudes here are far below 2^1023) -/
def roundDouble (n : Int) (d : Nat) : Int × Int :=
  if n = 0 then (0, 0) else
  let a := n.natAbs
  let e : Int := max (log2Ratio a d - 52) (-1074)
  let num := if e ≥ 0 then a else a * 2 ^ (-e).toNat      -- a / (d · 2^e) as a quotient of naturals
  let den := if e ≥ 0 then d * 2 ^ e.toNat else d
  let q := num / den
  let r := num % den
  let m := if 2 * r > den ∨ (2 * r = den ∧ q % 2 = 1) then q + 1 else q
  ((if n < 0 then -(m : Int) else (m : Int)), e)

/-- an integer plus a dyadic, as a fraction -/
def addIntDyadic (t : Int) (x : Int × Int) : Int × Nat :=
  if x.2 ≥ 0 then (t + x.1 * 2 ^ x.2.toNat, 1) else (t * 2 ^ (-x.2).toNat + x.1, 2 ^ (-x.2).toNat)

/-- `int(x)` of a dyadic: truncation toward zero -/
def truncDyadic (x : Int × Int) : Int :=
  if x.2 ≥ 0 then x.1 * 2 ^ x.2.toNat
  else if x.1 ≥ 0 then x.1 / 2 ^ (-x.2).toNat else -((-x.1) / 2 ^ (-x.2).toNat)

/-- `int(ds)` for ASCII digits -/
def digitsNat (ds : List Char) : Nat := ds.foldl (fun acc c => acc * 10 + (c.toNat - 48)) 0

/-- `int(total + float("0." + frac) - off)` with every operation rounded to binary64; `off = none` for `Z`
(nothing is subtracted) -/
def floatPath (total : Int) (frac : List Char) (off : Option Int) : Int :=
  let f := roundDouble (digitsNat frac) (10 ^ frac.length)
  let s := addIntDyadic total f
  let x1 := roundDouble s.1 s.2
  let x2 := match off with
    | none => x1
    | some o => let s2 := addIntDyadic (-o) x1; roundDouble s2.1 s2.2
  truncDyadic x2

/-- the fields of `YYYY-MM-DDTHH:MM:SS` once the regular expression has matched: the checks of `validate_rfc3339`,
`calendar.timegm`, fraction and offset (`none` = `Z`), `int(·)` -/
def assemble (y m d h n s : Int) (frac : List Char) (off : Option Int) : Option Int :=
  if 1 ≤ y ∧ y ≤ 9999 ∧ 1 ≤ m ∧ m ≤ 12 ∧ 1 ≤ d ∧ d ≤ monthLen y m ∧ h ≤ 23 ∧ n ≤ 59 ∧ s ≤ 59 then
    let total := daysFromCivil y m d * 86400 + h * 3600 + n * 60 + s
    if frac.isEmpty then some (total - off.getD 0)          -- integers throughout
    else some (floatPath total frac off)
  else none

def parseTimestamp (cs : List Char) : Option Int :=
  match cs with
  | y1 :: y2 :: y3 :: y4 :: c1 :: m1 :: m2 :: c2 :: d1 :: d2 :: c3 :: h1 :: h2 :: c4 :: n1 :: n2 :: c5 :: s1 :: s2 :: rest =>
    if c1 = '-' ∧ c2 = '-' ∧ c3 = 'T' ∧ c4 = ':' ∧ c5 = ':' then
      match num4 y1 y2 y3 y4, num2 m1 m2, num2 d1 d2, num2 h1 h2, num2 n1 n2, num2 s1 s2 with
      | some y, some m, some d, some h, some n, some s =>
        match takeFraction rest with
        | some (frac, rest) =>
          match parseZone rest with
          | some off => assemble y m d h n s frac off
          | none => none
        | none => none
      | _, _, _, _, _, _ => none
    else none
  | _ => none

end Civil
