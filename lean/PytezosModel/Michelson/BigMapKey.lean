import PytezosModel.Michelson.Order
import PytezosModel.Micheline.Lower
import PytezosModel.Generated.C15
/-! C15 — what is hashed for a big map key: `key.pack(legacy=True)` on the structured comparable values of C03.

`pack(legacy=True)` = `0x05 ‖ forge_micheline(key.to_micheline_value(mode='legacy_optimized'))` (types/base.py).  `keyMich` mirrors
the `legacy_optimized` branch of `to_micheline_value` of every comparable class: numbers (timestamps included) as ints,
strings as strings, and the base58-text-valued classes in their optimized byte form — key_hash `tag ‖ hash`
(`forge_address(tz_only=True)`), address `forge_contract` (implicit `00 tag hash`, originated `01 hash 00`, smart rollup
`03 hash 00`, then the entrypoint bytes), key `tag ‖ bytes` (`forge_public_key`), signature and chain id the raw bytes
(`forge_base58`) — on the structured form `(kind tag, payload)` of `Order.CVal` (the text ↔ structure bridge is C03 / C10).
A pair is ALWAYS the two-argument `Pair a b` of its two components (`items = self.items`): a right comb is never flattened
and never written as a sequence, which is what distinguishes `legacy_optimized` from `optimized`.  The binary writer is
C05's (`Impl.Lower.forgeMich`, primitive tags read from the source). -/
namespace Impl.BigMap
open _root_.Order

def strOf (s : List Nat) : String := String.ofList (s.map Char.ofNat)

/-- `forge_contract` on (kind, 20-byte hash, entrypoint): kind 0..3 implicit (tz1..tz4), 4 originated, 5 smart rollup -/
def addressBytes (k : Nat) (p ep : List Nat) : List Nat :=
  (if k < 4 then [0, k] ++ p else if k = 4 then 1 :: p ++ [0] else 3 :: p ++ [0]) ++ ep

/-- `key.to_micheline_value(mode='legacy_optimized')` -/
def keyMich : CVal → Mich
  | .unit => .prim "Unit" [] []
  | .bool true => .prim "True" [] []
  | .bool false => .prim "False" [] []
  | .num _ v => .int v
  | .str s => .str (strOf s)
  | .bytes b => .bytes b
  | .keyHash k p => .bytes (k :: p)
  | .address k p ep => .bytes (addressBytes k p ep)
  | .key c p => .bytes (c :: p)
  | .signature p => .bytes p
  | .chainId p => .bytes p
  | .none => .prim "None" [] []
  | .some v => .prim "Some" [keyMich v] []
  | .left v => .prim "Left" [keyMich v] []
  | .right v => .prim "Right" [keyMich v] []
  | .pair a b => .prim "Pair" [keyMich a, keyMich b] []

/-- `key.pack(legacy=True)`; `none`: `pack` / `forge` / the pair branch were not recognised in the source, or the binary writer
refuses (primitive table not read from the source, oversized array) -/
def packLegacy (v : CVal) : Option (List Nat) :=
  match Generated.C15.packShape with
  | none => none
  | some _ => (Impl.Lower.forgeMich (keyMich v)).map (5 :: ·)

end Impl.BigMap
