import PytezosModel.Michelson.Constants
import PytezosModel.Micheline.Lower
import PytezosModel.Crypto.Encoding
/-! `ExecutionContext.register_global_constant` (src/pytezos/context/impl.py): the registry key of an expression is
`forge_script_expr(forge_micheline(expression))` = Base58Check text, prefix `expr`, of the hash of the binary Micheline
(no `0x05` PACK prefix).  Built from the C05 mirror of `forge_micheline` (`Impl.Lower.lower` + `Impl.Forge.forge`, prim
tags regenerated from the source) and the C09 mirror of `base58_encode`; `cks` is the Base58Check checksum and `H` the
hash (BLAKE2b-256 in the code; `RealHash` in the driver). -/
namespace Impl.Constants
open Generated.C33

inductive KeyErr where
  | unrecognisedSource             -- the translator did not recognise `register_global_constant` / `forge_script_expr`
  | forge                          -- `forge_micheline` raises (unknown primitive, …)
  | b58 (e : Impl.Encoding.Err)    -- `base58_encode` raises
  deriving DecidableEq, Repr

def chars (s : String) : List Nat := s.toList.map Char.toNat

def text (s : List Nat) : String := String.ofList (s.map Char.ofNat)

/-- `forge_micheline(expression)` -/
def forgeMich (e : Mich) : Option (List Nat) := (Impl.Lower.lower e).bind Impl.Forge.forge

/-- `forge_script_expr(forge_micheline(expression))` as a list of code points -/
def registerKeyChars (cks : List Nat → List Nat) (H : List Nat → List Nat) (e : Mich) : Except KeyErr (List Nat) :=
  if !registerKeyIsScriptExprOfForged then .error .unrecognisedSource
  else
    match scriptExprPrefix with
    | none => .error .unrecognisedSource
    | some p =>
      match forgeMich e with
      | none => .error .forge
      | some b =>
        match Impl.Encoding.base58Encode cks (H b) (chars p) with
        | .error err => .error (.b58 err)
        | .ok s => .ok s

/-- the key as the `str` pytezos uses as dict key -/
def registerKey (cks : List Nat → List Nat) (H : List Nat → List Nat) (e : Mich) : Except KeyErr String :=
  match registerKeyChars cks H e with
  | .ok s => .ok (text s)
  | .error err => .error err

/-- `register_global_constant(expression)`: `self.global_constants[constant_hash] = expression` -/
def register (cks : List Nat → List Nat) (H : List Nat → List Nat) (reg : Registry) (e : Mich) : Except KeyErr Registry :=
  match registerKey cks H e with
  | .ok k => .ok ((k, e) :: reg)
  | .error err => .error err

end Impl.Constants
