import PytezosModel.Michelson.Interp.Syntax
import PytezosModel.Michelson.Interp.Typing
import PytezosModel.Michelson.Collections
import PytezosModel.Micheline.Binary
/-! `Spec.eval` — big-step reference semantics of the modelled Michelson core over a plain list stack,
written from the Michelson reference (not from the pytezos code).  Outcomes (`Res`): a stack, a FAILWITH value, a
runtime failure (`rtfail`: mutez overflow / underflow, shift by more than 256 bits), out of fuel (`oof`), `stuck`.
Values carry their types; the rules check the type side conditions of the typing rules dynamically (EXEC,
APPLY, CONS, COMPARE), so an ill-typed configuration is `stuck` rather than misbehaving — and a well-typed one never is
(`Interp.progress`).

`guard`: MAP over an *empty* list/map whose body changes the element type has, by the typing rule, the new
element type (computed here with `Typing.typeInstr`).  pytezos cannot know that type (known finding), so the
refinement theorem is stated for `guard := true`, where such a step is `offguard`. -/
namespace Interp
namespace Spec

/-- a number as a value of the numeric type `t`; outside the range of `t` the instruction *fails at run time*
(`rtfail`): for `mutez` that is the overflow / underflow failure of ADD, SUB, MUL, …; for `nat` it cannot happen on
well-typed arguments (only for an environment reading like a negative level) -/
def numOk (t : Ty) (v : Int) : Res Val :=
  match t with
  | .int | .timestamp => .ok (.num t v)
  | .nat => if 0 ≤ v then .ok (.num .nat v) else .rtfail
  | .mutez => if 0 ≤ v ∧ v < 2 ^ 63 then .ok (.num .mutez v) else .rtfail
  | _ => .stuck

def addTy : Ty → Ty → Option Ty
  | .nat, .nat => some .nat
  | .nat, .int | .int, .nat | .int, .int => some .int
  | .timestamp, .int | .int, .timestamp => some .timestamp
  | .mutez, .mutez => some .mutez
  | _, _ => none

def subTy : Ty → Ty → Option Ty
  | .nat, .nat | .nat, .int | .int, .nat | .int, .int => some .int
  | .timestamp, .int => some .timestamp
  | .timestamp, .timestamp => some .int
  | .mutez, .mutez => some .mutez       -- deprecated SUB on mutez: fails on underflow
  | _, _ => none

def mulTy : Ty → Ty → Option Ty
  | .nat, .nat => some .nat
  | .nat, .int | .int, .nat | .int, .int => some .int
  | .mutez, .nat | .nat, .mutez => some .mutez
  | _, _ => none

def lexLt : List Nat → List Nat → Bool
  | [], [] => false
  | [], _ :: _ => true
  | _ :: _, [] => false
  | a :: as, b :: bs => a < b || (a == b && lexLt as bs)

def cmpInt (a b : Int) : Int := if a < b then -1 else if a = b then 0 else 1

/-- COMPARE on the simple comparable types of the modelled core (the full order is C03) -/
def compare : Val → Val → Option Int
  | .num _ a, .num _ b => some (cmpInt a b)
  | .str a, .str b => some (if lexLt a b then -1 else if a = b then 0 else 1)
  | .bytes a, .bytes b => some (if lexLt a b then -1 else if a = b then 0 else 1)
  | .bool a, .bool b => some (cmpInt (if a then 1 else 0) (if b then 1 else 0))
  | .unit, .unit => some 0
  | _, _ => none

def strs : List Val → Option (List Nat)
  | [] => some []
  | .str s :: rest => (strs rest).map (s ++ ·)
  | _ => none

def bytess : List Val → Option (List Nat)
  | [] => some []
  | .bytes s :: rest => (bytess rest).map (s ++ ·)
  | _ => none

/-- `SLICE offset length s`: defined iff `offset < |s|` and `offset + length ≤ |s|` -/
def slice (off len : Nat) (xs : List Nat) : Option (List Nat) :=
  if off < xs.length ∧ off + len ≤ xs.length then some ((xs.drop off).take len) else none

/-- EDIV: (type of the quotient, type of the remainder) -/
def edivTy : Ty → Ty → Option (Ty × Ty)
  | .nat, .nat => some (.nat, .nat)
  | .nat, .int | .int, .nat | .int, .int => some (.int, .nat)
  | .mutez, .nat => some (.mutez, .mutez)
  | .mutez, .mutez => some (.nat, .mutez)
  | _, _ => none

/-- AND of an `int` with a `nat`: the int is read in two's complement (`-(m+1)` has exactly the bits `m` lacks) -/
def andIntNat (a : Int) (b : Nat) : Nat :=
  match a with
  | .ofNat m => m &&& b
  | .negSucc m => b - (m &&& b)

/-- EDIV — Euclidean division: `a = q * b + r`, `0 ≤ r < |b|` (Lean's `/` and `%` on `Int`); `None` on division by zero -/
def edivV : Val → Val → Res Val
  | .num ta x, .num tb y =>
    match edivTy ta tb with
    | some (qt, rt) =>
      if y = 0 then .ok (.none (.pair qt rt))
      else (numOk qt (x / y)).bind fun q => (numOk rt (x % y)).bind fun r => .ok (.some (.pair q r))
    | none => .stuck
  | _, _ => .stuck

/-- LSL / LSR: shifts of naturals by at most 256 bits (a larger shift is a runtime failure; a negative shift count
is not a `nat`: stuck) -/
def lslV : Val → Val → Res Val
  | .num .nat x, .num .nat n => if n < 0 then .stuck else if n ≤ 256 then numOk .nat (x * 2 ^ n.toNat) else .rtfail
  | _, _ => .stuck

def lsrV : Val → Val → Res Val
  | .num .nat x, .num .nat n => if n < 0 then .stuck else if n ≤ 256 then numOk .nat (x / 2 ^ n.toNat) else .rtfail
  | _, _ => .stuck

def subMutezV : Val → Val → Res Val
  | .num .mutez x, .num .mutez y =>
    if x < y then .ok (.none .mutez) else (numOk .mutez (x - y)).bind fun r => .ok (.some r)
  | _, _ => .stuck

/-- AND / OR / XOR: booleans, and bitwise on naturals (a `nat` holds a natural number: nothing is prescribed for
other contents); AND also takes an `int` on either side, read in two's complement -/
def andV : Val → Val → Res Val
  | .bool x, .bool y => .ok (.bool (x && y))
  | .num .nat x, .num .nat y => if 0 ≤ x ∧ 0 ≤ y then .ok (.num .nat (Int.ofNat (x.toNat &&& y.toNat))) else .stuck
  | .num .int x, .num .nat y => if 0 ≤ y then .ok (.num .nat (Int.ofNat (andIntNat x y.toNat))) else .stuck
  | .num .nat x, .num .int y => if 0 ≤ x then .ok (.num .nat (Int.ofNat (andIntNat y x.toNat))) else .stuck
  | _, _ => .stuck

def orV : Val → Val → Res Val
  | .bool x, .bool y => .ok (.bool (x || y))
  | .num .nat x, .num .nat y => if 0 ≤ x ∧ 0 ≤ y then .ok (.num .nat (Int.ofNat (x.toNat ||| y.toNat))) else .stuck
  | _, _ => .stuck

def xorV : Val → Val → Res Val
  | .bool x, .bool y => .ok (.bool (xor x y))
  | .num .nat x, .num .nat y => if 0 ≤ x ∧ 0 ≤ y then .ok (.num .nat (Int.ofNat (x.toNat ^^^ y.toNat))) else .stuck
  | _, _ => .stuck

/-! Sets and maps: strictly sorted lists (of elements, of `Pair key value` bindings) maintained by ordered search,
insertion and deletion (`Spec.Coll`, the reference dictionary of C14) under the order `Typing.keyLt` of the simple
comparable types.  The rules apply to well-formed collections (`goodSet` / `goodMap`) and keys of the right type. -/
open Typing in
def kvs (items : List Val) : List (Val × Val) :=
  items.map fun e => match e with
    | .pair k v => (k, v)
    | v => (v, v)

def unkvs (m : List (Val × Val)) : List Val := m.map fun e => .pair e.1 e.2

open Typing _root_.Spec.Coll in
/-- MEM -/
def memV : Val → Val → Res Val
  | x, .set t xs => if goodSet t xs && isKey t x then .ok (.bool (memKey keyLt x xs)) else .stuck
  | x, .map k _ items => if goodMap k items && isKey k x then .ok (.bool (findKV keyLt x (kvs items)).isSome) else .stuck
  | _, _ => .stuck

open Typing _root_.Spec.Coll in
/-- GET on a map -/
def getV : Val → Val → Res Val
  | x, .map k v items =>
    if goodMap k items && isKey k x then
      .ok (match findKV keyLt x (kvs items) with
        | some y => .some y
        | none => .none v)
    else .stuck
  | _, _ => .stuck

open Typing _root_.Spec.Coll in
/-- UPDATE: `True` / `False` adds / removes an element of a set; `Some v` / `None` binds / unbinds a key of a map -/
def updateV : Val → Val → Val → Res Val
  | x, .bool b, .set t xs =>
    if goodSet t xs && isKey t x then .ok (.set t (if b then insertKey keyLt x xs else eraseKey keyLt x xs)) else .stuck
  | x, .none v', .map k v items =>
    if goodMap k items && isKey k x && v' == v then .ok (.map k v (unkvs (eraseKV keyLt x (kvs items)))) else .stuck
  | x, .some y, .map k v items =>
    if goodMap k items && isKey k x && typeOf y == v then .ok (.map k v (unkvs (insertKV keyLt x y (kvs items)))) else .stuck
  | _, _, _ => .stuck

/-- GET_AND_UPDATE: the previous binding and the updated map -/
def getAndUpdateV (x o m : Val) : Res (Val × Val) :=
  (getV x m).bind fun old => (updateV x o m).bind fun m' => .ok (old, m')

/-! Big maps (inside one run): MEM / GET / UPDATE / GET_AND_UPDATE on a `big_map k v` are the operations of the finite map it
denotes — the same ordered dictionary as for `map k v`. -/
open Typing _root_.Spec.Coll in
def memB : Val → Val → Res Val
  | x, .bigMap k _ items => if goodMap k items && isKey k x then .ok (.bool (findKV keyLt x (kvs items)).isSome) else .stuck
  | x, m => memV x m

open Typing _root_.Spec.Coll in
def getB : Val → Val → Res Val
  | x, .bigMap k v items =>
    if goodMap k items && isKey k x then
      .ok (match findKV keyLt x (kvs items) with
        | some y => .some y
        | none => .none v)
    else .stuck
  | x, m => getV x m

open Typing _root_.Spec.Coll in
def updateB : Val → Val → Val → Res Val
  | x, .none v', .bigMap k v items =>
    if goodMap k items && isKey k x && v' == v then .ok (.bigMap k v (unkvs (eraseKV keyLt x (kvs items)))) else .stuck
  | x, .some y, .bigMap k v items =>
    if goodMap k items && isKey k x && typeOf y == v then .ok (.bigMap k v (unkvs (insertKV keyLt x y (kvs items)))) else .stuck
  | x, o, m => updateV x o m

def getAndUpdateB (x o m : Val) : Res (Val × Val) :=
  (getB x m).bind fun old => (updateB x o m).bind fun m' => .ok (old, m')

/-- `PAIR n` (n ≥ 2): `PAIR 2 = PAIR`, `PAIR (n+1) = DIP { PAIR n } ; PAIR` — folds the top `n` elements into a right comb -/
def pairN : Nat → List Val → Option (Val × List Val)
  | 2, a :: b :: st => some (.pair a b, st)
  | n + 3, a :: st => (pairN (n + 2) st).map fun p => (.pair a p.1, p.2)
  | _, _ => none

/-- `UNPAIR n` (n ≥ 2): `UNPAIR 2 = UNPAIR`, `UNPAIR (n+1) = UNPAIR ; DIP { UNPAIR n }` -/
def unpairN : Nat → Val → Option (List Val)
  | 2, .pair a b => some [a, b]
  | n + 3, .pair a b => (unpairN (n + 2) b).map (a :: ·)
  | _, _ => none

/-- `GET n`: `GET 0` is the identity, `GET 1 = CAR`, `GET (n+2) = CDR ; GET n` -/
def getN : Nat → Val → Option Val
  | 0, v => some v
  | 1, .pair a _ => some a
  | n + 2, .pair _ b => getN n b
  | _, _ => none

/-- `UPDATE n` with new element `e`: `UPDATE 0` replaces everything, `UPDATE 1` the CAR, `UPDATE (n+2)` updates inside the CDR -/
def updateN : Nat → Val → Val → Option Val
  | 0, e, _ => some e
  | 1, e, .pair _ b => some (.pair e b)
  | n + 2, e, .pair a b => (updateN n e b).map (.pair a)
  | _, _, _ => none

/-! ### Extension 2, phase A: bytes ↔ numbers (Michelson reference: `NAT`, `INT` and `BYTES` use the big-endian
encoding, two's complement for `int`, and `BYTES` returns the *shortest* such encoding, the empty string for 0) -/

/-- value of a big-endian byte string: `Σ bᵢ · 256^(n-1-i)` -/
def beNat : List Nat → Nat
  | [] => 0
  | b :: bs => b * 256 ^ bs.length + beNat bs

/-- two's complement reading of a big-endian byte string of `n` bytes (the empty string is 0): the unsigned value, minus
`256^n` when the top bit is set (i.e. the unsigned value is at least half of `256^n`) -/
def beInt (bs : List Nat) : Int :=
  if bs ≠ [] ∧ 256 ^ bs.length ≤ 2 * beNat bs then (beNat bs : Int) - 256 ^ bs.length else beNat bs

/-- the `L` base-256 digits of `n mod 256^L`, most significant first -/
def beDigits : Nat → Nat → List Nat
  | 0, _ => []
  | L + 1, n => (n / 256 ^ L) % 256 :: beDigits L n

/-- the least `k' ≥ k` with `p k'`, looking at `fuel` candidates (`k + fuel` if there is none among them) -/
def leastFrom (p : Nat → Bool) : (fuel : Nat) → (k : Nat) → Nat
  | 0, k => k
  | fuel + 1, k => if p k then k else leastFrom p fuel (k + 1)

/-- BYTES on a natural number: its shortest big-endian encoding — the `L` digits for the least `L` with `n < 256^L`
(0 ↦ the empty string; `L ≤ n`, so `n` candidates suffice) -/
def natBytes (n : Nat) : List Nat := beDigits (leastFrom (fun L => decide (n < 256 ^ L)) n 0) n

/-- `z` is representable in `L` bytes in two's complement: `-2^(8L-1) ≤ z < 2^(8L-1)` (in zero bytes: only 0) -/
def fitsInt (z : Int) (L : Nat) : Bool :=
  if L = 0 then z == 0 else decide (-(2 ^ (8 * L - 1) : Int) ≤ z ∧ z < 2 ^ (8 * L - 1))

/-- BYTES on an integer: its shortest two's complement big-endian encoding — the digits of `z mod 256^L` for the least `L`
in which `z` is representable (0 ↦ the empty string) -/
def intBytes (z : Int) : List Nat :=
  beDigits (leastFrom (fitsInt z) (z.natAbs + 1) 0) (z % 256 ^ (leastFrom (fitsInt z) (z.natAbs + 1) 0)).toNat

/-- NAT: the natural number a byte string encodes (big-endian) -/
def natV : Val → Res Val
  | .bytes b => .ok (.num .nat (beNat b))
  | _ => .stuck

/-- BYTES: the shortest encoding of a natural number / of an integer (a `nat` holds a natural number) -/
def bytesV : Val → Res Val
  | .num .nat x => if 0 ≤ x then .ok (.bytes (natBytes x.toNat)) else .stuck
  | .num .int x => .ok (.bytes (intBytes x))
  | _ => .stuck

/-- VOTING_POWER: voting power of a delegate — an environment reading (a `nat`) -/
def votingPowerV (env : Env) : Val → Res Val
  | .atom .keyHash s => numOk .nat (env.votingPower s)
  | _ => .stuck

/-- HASH_KEY: hash of a public key (the function is a parameter: `env.hashes.hashKey`) -/
def hashKeyV (env : Env) : Val → Res Val
  | .atom .key s => .ok (.atom .keyHash (env.hashes.hashKey s))
  | _ => .stuck

/-! ### Phase C: contracts and operations, in an environment without chain state (`Env` says nothing about the contracts at
other addresses: an originated address is taken to hold a contract with the entrypoint and the type asked for; an implicit
account has the entrypoint `default` of type `unit`, whatever the environment).  Address texts: `addrOf`, `epOf`, `mkAddr`
(Syntax.lean). -/

/-- the text of an address / handle with `%default` not written -/
def normAddr (s : List Nat) : List Nat := if (s.dropWhile (· != 37)).drop 1 = defaultEp then addrOf s else s

/-- ADDRESS: the address of a contract handle — with its entrypoint -/
def addressV : Val → Res Val
  | .contract _ s => .ok (.atom .address (normAddr s))
  | _ => .stuck

/-- IMPLICIT_ACCOUNT: the default handle (`contract unit`) of an implicit account (a key hash has no `%`: the text itself) -/
def implicitAccountV : Val → Res Val
  | .atom .keyHash s => .ok (.contract .unit (normAddr s))
  | _ => .stuck

/-- the entrypoint `CONTRACT %eI` means on an address naming `eA`: one of the two has to be `default` -/
def resolveEp (eA eI : List Nat) : Option (List Nat) :=
  if eA = defaultEp then some eI else if eI = defaultEp then some eA else none

/-- `CONTRACT %eI t`.  An implicit account has the entrypoint `default` only and accepts `unit` — and, since Mumbai, every
`ticket _` type; ticket types are outside `Ty`, so within the modelled universe the rule is "`unit` only". -/
def contractV (t : Ty) (eI : List Nat) : Val → Res Val
  | .atom .address s =>
    match resolveEp (epOf s) eI with
    | none => .ok (.none (.contract t))
    | some ep =>
      if isImplicit (addrOf s) then
        .ok (if ep = defaultEp ∧ t = .unit then .some (.contract t (normAddr (addrOf s ++ 37 :: ep))) else .none (.contract t))
      else .ok (.some (.contract t (normAddr (addrOf s ++ 37 :: ep))))
  | _ => .stuck

/-- SET_DELEGATE: a delegation operation of the running contract -/
def setDelegateV (env : Env) : Val → Res Val
  | .none .keyHash => .ok (.opDelegate env.self none)
  | .some (.atom .keyHash s) => .ok (.opDelegate env.self (some s))
  | _ => .stuck

/-- `EMIT %tag t`: an event operation carrying a payload of type `t` -/
def emitV (env : Env) (tag : List Nat) (t : Ty) (v : Val) : Res Val :=
  if typeOf v = t then .ok (.opEmit env.self tag t v) else .stuck

/-- TRANSFER_TOKENS: a transaction of `m` mutez with parameter `p` to the entrypoint the handle names -/
def transferTokensV (env : Env) : Val → Val → Val → Res Val
  | p, .num .mutez m, .contract t s =>
    if typeOf p = t then .ok (.opTransfer env.self (addrOf s) (epOf s) m p t) else .stuck
  | _, _, _ => .stuck

/-! ### Phase B (first half): PACK of the plain data classes.  `PACK v` = the byte `05` followed by the binary Micheline of the
canonical *optimized* form of `v`: numbers as integers (a timestamp as its seconds), a right comb of 2 components as `Pair a b`,
of 3 as `Pair a (Pair b c)`, of 4 or more as the sequence of its components, sets / lists as sequences, maps as sequences of
`Elt`.  Binary Micheline (Tezos data encoding): `00` zarith integer; `01` / `0a` string / bytes with a 4-byte big-endian
length; `02` sequence with the 4-byte length of its body; `03 tag` / `05 tag arg` / `07 tag arg arg` primitive applications
without annotations; primitive tags: False 3, Elt 4, Left 5, None 6, Pair 7, Right 8, Some 9, True 10, Unit 11. -/
/-- a right comb of 2 components is `Pair a b`, of 3 `Pair a (Pair b c)`, of 4 or more the sequence of its components -/
def combLayout : List BMich → BMich
  | [x, y] => .prim 7 [x, y] none
  | [x, y, z] => .prim 7 [x, .prim 7 [y, z] none] none
  | cs => .seq cs

mutual
  /-- first component: the canonical optimized Micheline of the value (`BMich`: primitives as tags, strings as bytes);
  second: the components it contributes when it stands as the right part of a pair — those of its own right spine if it
  is a pair, else the value itself.  `none`: a value outside the plain classes -/
  def optBoth : Val → Option (BMich × List BMich)
    | .pair a b =>
      match optBoth a, optBoth b with
      | some x, some y => some (combLayout (x.1 :: y.2), x.1 :: y.2)
      | _, _ => none
    | .unit => some (.prim 11 [] none, [.prim 11 [] none])
    | .bool true => some (.prim 10 [] none, [.prim 10 [] none])
    | .bool false => some (.prim 3 [] none, [.prim 3 [] none])
    | .num _ v => some (.int v, [.int v])
    | .str s => some (.str s, [.str s])
    | .bytes b => some (.bytes b, [.bytes b])
    | .some v => (optBoth v).map fun x => (.prim 9 [x.1] none, [.prim 9 [x.1] none])
    | .none _ => some (.prim 6 [] none, [.prim 6 [] none])
    | .left v _ => (optBoth v).map fun x => (.prim 5 [x.1] none, [.prim 5 [x.1] none])
    | .right _ v => (optBoth v).map fun x => (.prim 8 [x.1] none, [.prim 8 [x.1] none])
    | .list _ xs => (optimizedL xs).map fun ys => (.seq ys, [.seq ys])
    | .set _ xs => (optimizedL xs).map fun ys => (.seq ys, [.seq ys])
    | .map _ _ xs => (optimizedE xs).map fun ys => (.seq ys, [.seq ys])
    | _ => none
  def optimizedL : List Val → Option (List BMich)
    | [] => some []
    | x :: xs =>
      match optBoth x, optimizedL xs with
      | some y, some ys => some (y.1 :: ys)
      | _, _ => none
  /-- the bindings of a map (`Pair key value` items of the model) as `Elt key value` -/
  def optimizedE : List Val → Option (List BMich)
    | [] => some []
    | .pair k v :: xs =>
      match optBoth k, optBoth v, optimizedE xs with
      | some a, some b, some ys => some (.prim 4 [a.1, b.1] none :: ys)
      | _, _, _ => none
    | _ :: _ => none
end

/-- canonical optimized Micheline of a value of the plain data classes -/
def optimized (v : Val) : Option BMich := (optBoth v).map (·.1)

/-- 4-byte big-endian length prefix (`none`: 2^32 bytes or more) -/
def lenPrefixed (data : List Nat) : Option (List Nat) :=
  if data.length < 2 ^ 32 then some (beDigits 4 data.length ++ data) else none

mutual
  /-- binary Micheline of an annotation-free expression whose primitive applications have at most two arguments -/
  def encodeM : BMich → Option (List Nat)
    | .int v => some (0 :: Core.forgeInt v)
    | .str s => (lenPrefixed s).map (1 :: ·)
    | .bytes b => (lenPrefixed b).map (10 :: ·)
    | .seq xs => ((encodeL xs).bind lenPrefixed).map (2 :: ·)
    | .prim t [] none => some [3, t]
    | .prim t [a] none => (encodeM a).map fun x => 5 :: t :: x
    | .prim t [a, b] none =>
      match encodeM a, encodeM b with
      | some x, some y => some (7 :: t :: (x ++ y))
      | _, _ => none
    | .prim _ _ _ => none
  def encodeL : List BMich → Option (List Nat)
    | [] => some []
    | x :: xs =>
      match encodeM x, encodeL xs with
      | some a, some b => some (a ++ b)
      | _, _ => none
end

/-- PACK: defined on the plain data classes; a serialization of 2^32 bytes or more is a runtime failure -/
def packV (v : Val) : Res Val :=
  if !Typing.packable (typeOf v) then .stuck else
  match optimized v with
  | none => .stuck
  | some m =>
    match encodeM m with
    | some bs => .ok (.bytes (5 :: bs))
    | none => .rtfail

/-! ### Extension 3, phase 1: UNPACK.  `UNPACK t` answers `Some v` exactly on the byte `05` followed by the binary Micheline
encoding of an expression that the protocol reads as a value `v` of type `t`, and `None` on every other byte string.
*Encoding*: the strict length-delimited decoder of property C05 (`Spec.Micheline.decode`: tags 0–10 only, known primitives,
minimal integers, length prefixes that fit exactly, no trailing bytes).  *Reading* (Tezos `parse_data`, not in legacy mode):
no annotation on any data constructor; `Unit`; `True` / `False`; integers within the range of their type; a timestamp as
its seconds or as a text in timestamp notation (`Env.readTimestamp`, a parameter); strings of printable ASCII characters
and newlines; `Some x` / `None`; `Left x` / `Right x`; a pair as `Pair x y`, as `Pair x₁ … xₙ` (n ≥ 3, unfolded to the right,
which needs a pair type on the right) or as the sequence `{x₁; …; xₙ}` (n ≥ 2) of the same components; lists as sequences; sets
as strictly ascending sequences; maps as sequences of `Elt k v` with strictly ascending keys. -/
/-- the characters of a Michelson string: printable ASCII and the newline -/
def printable (c : Nat) : Bool := c == 10 || (decide (32 ≤ c) && decide (c ≤ 126))

/-- the tags `0x00`–`0x9e` are the primitives of the protocol -/
def knownPrim (t : Nat) : Bool := decide (t ≤ 158)

def readAll (f : BMich → Option Val) : List BMich → Option (List Val)
  | [] => some []
  | x :: xs =>
    match f x, readAll f xs with
    | some v, some vs => some (v :: vs)
    | _, _ => none

def mkPair : Option Val → Option Val → Option Val
  | some a, some b => some (.pair a b)
  | _, _ => none

/-- the bindings of a map: `Elt key value` (tag 4), no annotation -/
def readElts (fk fv : BMich → Option Val) : List BMich → Option (List Val)
  | [] => some []
  | .prim t [a, b] none :: xs =>
    if t = 4 then
      match mkPair (fk a) (fv b), readElts fk fv xs with
      | some p, some ps => some (p :: ps)
      | _, _ => none
    else none
  | _ :: _ => none

def isPairTy : Ty → Bool
  | .pair _ _ => true
  | _ => false

/-- the value of type `t` an expression denotes (`rt`: the reading of timestamp notation) -/
def readVal (rt : List Nat → Option Int) : Ty → BMich → Option Val
  | .unit, m =>
    match m with
    | .prim t [] none => if t = 11 then some .unit else none
    | _ => none
  | .bool, m =>
    match m with
    | .prim t [] none => if t = 10 then some (.bool true) else if t = 3 then some (.bool false) else none
    | _ => none
  | .int, m =>
    match m with
    | .int v => some (.num .int v)
    | _ => none
  | .nat, m =>
    match m with
    | .int v => if 0 ≤ v then some (.num .nat v) else none
    | _ => none
  | .mutez, m =>
    match m with
    | .int v => if 0 ≤ v ∧ v < 2 ^ 63 then some (.num .mutez v) else none
    | _ => none
  | .timestamp, m =>
    match m with
    | .int v => some (.num .timestamp v)
    | .str s => (rt s).map fun v => .num .timestamp v
    | _ => none
  | .string, m =>
    match m with
    | .str s => if s.all printable then some (.str s) else none
    | _ => none
  | .bytes, m =>
    match m with
    | .bytes b => some (.bytes b)
    | _ => none
  | .option t, m =>
    match m with
    | .prim p [x] none => if p = 9 then (readVal rt t x).map .some else none
    | .prim p [] none => if p = 6 then some (.none t) else none
    | _ => none
  | .or l r, m =>
    match m with
    | .prim p [x] none =>
      if p = 5 then (readVal rt l x).map fun v => .left v r
      else if p = 8 then (readVal rt r x).map fun v => .right l v
      else none
    | _ => none
  | .pair l r, m =>
    match m with
    | .prim p [x, y] none => if p = 7 then mkPair (readVal rt l x) (readVal rt r y) else none
    | .prim p (x :: y :: z :: rs) none =>
      if p = 7 ∧ isPairTy r = true then mkPair (readVal rt l x) (readVal rt r (.prim 7 (y :: z :: rs) none)) else none
    | .seq [x, y] => mkPair (readVal rt l x) (readVal rt r y)
    | .seq (x :: y :: z :: rs) =>
      if isPairTy r = true then mkPair (readVal rt l x) (readVal rt r (.prim 7 (y :: z :: rs) none)) else none
    | _ => none
  | .list t, m =>
    match m with
    | .seq xs => (readAll (readVal rt t) xs).map fun vs => .list t vs
    | _ => none
  | .set t, m =>
    match m with
    | .seq xs => (readAll (readVal rt t) xs).bind fun vs => if Typing.strictSorted vs then some (.set t vs) else none
    | _ => none
  | .map k v, m =>
    match m with
    | .seq xs =>
      (readElts (readVal rt k) (readVal rt v) xs).bind fun items =>
        if Typing.strictSorted (items.map Typing.keyOf) then some (.map k v items) else none
    | _ => none
  | _, _ => none

/-- `UNPACK t` (for the types `Typing.unpackable`) -/
def unpackV (env : Env) (t : Ty) : Val → Res Val
  | .bytes b =>
    if !Typing.unpackable t then .stuck else
    match b with
    | 5 :: rest =>
      match (_root_.Spec.Micheline.decode knownPrim rest).bind (readVal env.readTimestamp t) with
      | some v => .ok (.some v)
      | none => .ok (.none t)
    | _ => .ok (.none t)
  | _ => .stuck

/-- CHECK_SIGNATURE: does the signature verify for the key and the message (the verification function is a parameter:
`env.hashes.checkSig`) -/
def checkSignatureV (env : Env) : Val → Val → Val → Res Val
  | .atom .key k, .atom .signature s, .bytes m => .ok (.bool (env.hashes.checkSig k s m))
  | _, _, _ => .stuck

/-- **extension 2, rules of the form `i / a : S ⇒ r : S`**.  `NEVER` has no rule (there is no value of type `never`). -/
def unV (env : Env) (i : Instr) (a : Val) : Res Val :=
  match i with
  | .NAT => natV a
  | .BYTES => bytesV a
  | .VOTING_POWER => votingPowerV env a
  | .HASH_KEY => hashKeyV env a
  | .ADDRESS => addressV a
  | .IMPLICIT_ACCOUNT => implicitAccountV a
  | .CONTRACT t ep => contractV t ep a
  | .SET_DELEGATE => setDelegateV env a
  | .EMIT tag t => emitV env tag t a
  | .PACK => packV a
  | .UNPACK t => unpackV env t a
  | _ => .stuck

def stepExt (env : Env) : Instr → List Val → Res (List Val)
  -- `SELF %ep`: the handle on entrypoint `ep` (of type `t`) of the running contract
  | .SELF ep t, st => .ok (.contract t (normAddr (env.self ++ 37 :: ep)) :: st)
  | .TRANSFER_TOKENS, a :: b :: c :: st => (transferTokensV env a b c).bind fun r => .ok (r :: st)
  | .TRANSFER_TOKENS, _ => .stuck
  | .CHECK_SIGNATURE, a :: b :: c :: st => (checkSignatureV env a b c).bind fun r => .ok (r :: st)
  | .CHECK_SIGNATURE, _ => .stuck
  | .EMPTY_BIG_MAP k v, st => if Typing.simpleComparable k && Typing.bigMapValue v then .ok (.bigMap k v [] :: st) else .stuck
  | i, a :: st => (unV env i a).bind fun r => .ok (r :: st)
  | _, [] => .stuck

/-- further rules without sub-programs (kept apart from `step` so that either pattern match stays small) -/
def stepMore (env : Env) : Instr → List Val → Res (List Val)
  | .TOTAL_VOTING_POWER, st => (numOk .nat env.totalVotingPower).bind fun r => .ok (r :: st)
  | .MIN_BLOCK_TIME, st => (numOk .nat env.minBlockTime).bind fun r => .ok (r :: st)
  -- cryptographic hashes of a byte sequence (the functions themselves are parameters: `env.hashes`)
  | .BLAKE2B, .bytes b :: st => .ok (.bytes (env.hashes.blake2b b) :: st)
  | .SHA256, .bytes b :: st => .ok (.bytes (env.hashes.sha256 b) :: st)
  | .SHA512, .bytes b :: st => .ok (.bytes (env.hashes.sha512 b) :: st)
  | .KECCAK, .bytes b :: st => .ok (.bytes (env.hashes.keccak b) :: st)
  | .SHA3, .bytes b :: st => .ok (.bytes (env.hashes.sha3 b) :: st)
  -- `CAST t` / `RENAME`: identity on a top element of type `t` / on any top element (annotations are not modelled)
  | .CAST t, x :: st => if typeOf x = t then .ok (x :: st) else .stuck
  | .RENAME, x :: st => .ok (x :: st)
  | i, st => stepExt env i st

/-- the rules for instructions without sub-programs -/
def step (env : Env) : Instr → List Val → Res (List Val)
  | .DROP, _ :: st => .ok st
  | .DROPN n, st => if n ≤ st.length then .ok (st.drop n) else .stuck
  | .DUP, x :: st => .ok (x :: x :: st)
  | .DUPN n, st =>
    if n = 0 then .stuck else
    match st[n - 1]? with
    | some x => .ok (x :: st)
    | none => .stuck
  | .SWAP, x :: y :: st => .ok (y :: x :: st)
  | .DIG n, st =>
    match st[n]? with
    | some x => .ok (x :: (st.take n ++ st.drop (n + 1)))
    | none => .stuck
  | .DUG n, x :: st => if n ≤ st.length then .ok (st.take n ++ x :: st.drop n) else .stuck
  | .PUSH _ v, st => .ok (v :: st)
  | .LAMBDA a b body, st => .ok (.lam a b body :: st)
  | .APPLY, x :: .lam (.pair ta tb) b body :: st =>
    -- the captured value is written into the code as a `PUSH`: its type has to be pushable
    if typeOf x = ta ∧ Typing.pushable ta = true then .ok (.lam tb b (.seq [.PUSH ta x, .PAIR, body]) :: st) else .stuck
  | .FAILWITH, x :: _ => .failed x
  | .UNIT, st => .ok (.unit :: st)
  | .PAIR, x :: y :: st => .ok (.pair x y :: st)
  | .UNPAIR, .pair x y :: st => .ok (x :: y :: st)
  | .PAIRN n, st =>
    match pairN n st with
    | some (r, st') => .ok (r :: st')
    | none => .stuck
  | .UNPAIRN n, v :: st =>
    match unpairN n v with
    | some xs => .ok (xs ++ st)
    | none => .stuck
  | .GETN n, v :: st =>
    match getN n v with
    | some r => .ok (r :: st)
    | none => .stuck
  | .UPDATEN n, e :: v :: st =>
    match updateN n e v with
    | some r => .ok (r :: st)
    | none => .stuck
  | .CAR, .pair x _ :: st => .ok (x :: st)
  | .CDR, .pair _ y :: st => .ok (y :: st)
  | .SOME, x :: st => .ok (.some x :: st)
  | .NONE t, st => .ok (.none t :: st)
  | .LEFT t, x :: st => .ok (.left x t :: st)
  | .RIGHT t, x :: st => .ok (.right t x :: st)
  | .NIL t, st => .ok (.list t [] :: st)
  | .CONS, x :: .list t xs :: st => if typeOf x = t then .ok (.list t (x :: xs) :: st) else .stuck
  | .EMPTY_MAP k v, st => .ok (.map k v [] :: st)
  | .EMPTY_SET t, st => if Typing.simpleComparable t then .ok (.set t [] :: st) else .stuck   -- elements must be comparable
  | .SIZE, .set _ xs :: st => .ok (.num .nat xs.length :: st)
  | .MEM, a :: b :: st => (memB a b).bind fun r => .ok (r :: st)
  | .GET, a :: b :: st => (getB a b).bind fun r => .ok (r :: st)
  | .UPDATE, a :: b :: c :: st => (updateB a b c).bind fun r => .ok (r :: st)
  | .GET_AND_UPDATE, a :: b :: c :: st => (getAndUpdateB a b c).bind fun r => .ok (r.1 :: r.2 :: st)
  | .SIZE, .str x :: st => .ok (.num .nat x.length :: st)
  | .SIZE, .bytes x :: st => .ok (.num .nat x.length :: st)
  | .SIZE, .list _ xs :: st => .ok (.num .nat xs.length :: st)
  | .SIZE, .map _ _ xs :: st => .ok (.num .nat xs.length :: st)
  | .ADD, .num ta x :: .num tb y :: st =>
    match addTy ta tb with
    | some t => (numOk t (x + y)).bind fun r => .ok (r :: st)
    | none => .stuck
  | .SUB, .num ta x :: .num tb y :: st =>
    match subTy ta tb with
    | some t => (numOk t (x - y)).bind fun r => .ok (r :: st)
    | none => .stuck
  | .MUL, .num ta x :: .num tb y :: st =>
    match mulTy ta tb with
    | some t => (numOk t (x * y)).bind fun r => .ok (r :: st)
    | none => .stuck
  | .EDIV, a :: b :: st => (edivV a b).bind fun r => .ok (r :: st)
  | .LSL, a :: b :: st => (lslV a b).bind fun r => .ok (r :: st)
  | .LSR, a :: b :: st => (lsrV a b).bind fun r => .ok (r :: st)
  | .SUB_MUTEZ, a :: b :: st => (subMutezV a b).bind fun r => .ok (r :: st)
  | .NEG, .num .int x :: st => .ok (.num .int (-x) :: st)
  | .NEG, .num .nat x :: st => .ok (.num .int (-x) :: st)
  | .ABS, .num .int x :: st => .ok (.num .nat (Int.ofNat x.natAbs) :: st)
  | .ISNAT, .num .int x :: st => .ok ((if 0 ≤ x then .some (.num .nat x) else .none .nat) :: st)
  | .INT, .num .nat x :: st => .ok (.num .int x :: st)
  | .INT, .bytes b :: st => .ok (.num .int (beInt b) :: st)      -- big-endian two's complement
  | .COMPARE, a :: b :: st =>
    if typeOf a = typeOf b then
      match compare a b with
      | some c => .ok (.num .int c :: st)
      | none => .stuck
    else .stuck
  | .EQ, .num .int x :: st => .ok (.bool (decide (x = 0)) :: st)
  | .NEQ, .num .int x :: st => .ok (.bool (decide (x ≠ 0)) :: st)
  | .LT, .num .int x :: st => .ok (.bool (decide (x < 0)) :: st)
  | .GT, .num .int x :: st => .ok (.bool (decide (x > 0)) :: st)
  | .LE, .num .int x :: st => .ok (.bool (decide (x ≤ 0)) :: st)
  | .GE, .num .int x :: st => .ok (.bool (decide (x ≥ 0)) :: st)
  | .NOT, .bool x :: st => .ok (.bool (!x) :: st)
  | .NOT, .num .nat x :: st => .ok (.num .int (-x - 1) :: st)     -- two's complement
  | .NOT, .num .int x :: st => .ok (.num .int (-x - 1) :: st)
  | .AND, a :: b :: st => (andV a b).bind fun r => .ok (r :: st)
  | .OR, a :: b :: st => (orV a b).bind fun r => .ok (r :: st)
  | .XOR, a :: b :: st => (xorV a b).bind fun r => .ok (r :: st)
  | .CONCAT, .str x :: .str y :: st => .ok (.str (x ++ y) :: st)
  | .CONCAT, .bytes x :: .bytes y :: st => .ok (.bytes (x ++ y) :: st)
  | .CONCAT, .list .string xs :: st =>
    match strs xs with
    | some s => .ok (.str s :: st)
    | none => .stuck
  | .CONCAT, .list .bytes xs :: st =>
    match bytess xs with
    | some s => .ok (.bytes s :: st)
    | none => .stuck
  | .SLICE, .num .nat off :: .num .nat len :: .str x :: st =>
    .ok ((match slice off.toNat len.toNat x with | some r => Val.some (.str r) | none => .none .string) :: st)
  | .SLICE, .num .nat off :: .num .nat len :: .bytes x :: st =>
    .ok ((match slice off.toNat len.toNat x with | some r => Val.some (.bytes r) | none => .none .bytes) :: st)
  | .AMOUNT, st => (numOk .mutez env.amount).bind fun r => .ok (r :: st)
  | .BALANCE, st => (numOk .mutez env.balance).bind fun r => .ok (r :: st)
  | .SENDER, st => .ok (.atom .address env.sender :: st)
  | .SOURCE, st => .ok (.atom .address env.source :: st)
  | .SELF_ADDRESS, st => .ok (.atom .address env.self :: st)
  | .NOW, st => .ok (.num .timestamp env.now :: st)
  | .LEVEL, st => (numOk .nat env.level).bind fun r => .ok (r :: st)
  | .CHAIN_ID, st => .ok (.atom .chainId env.chainId :: st)
  | i, st => stepMore env i st

/-- element type the typing rule gives to `MAP body` over a collection with element type `elt` -/
def mapOutTy (body : Instr) (elt : Ty) (st : List Val) : Option Ty :=
  match Typing.typeInstr false body (elt :: st.map typeOf) with
  | some (.ok (t' :: _)) => some t'
  | _ => none

/-- result of MAP over a list: all produced elements must have one type -/
def listOf (guard : Bool) (body : Instr) (t : Ty) (st : List Val) (ys : List Val) : Res Val :=
  match ys with
  | [] =>
    match mapOutTy body t st with
    | some t' => if guard && t' != t then .offguard else .ok (.list t' [])
    | none => .stuck
  | y :: rest => if rest.all (fun z => typeOf z = typeOf y) then .ok (.list (typeOf y) ys) else .stuck

def mapOf (guard : Bool) (body : Instr) (k v : Ty) (st : List Val) (ys : List Val) : Res Val :=
  match ys with
  | [] =>
    match mapOutTy body (.pair k v) st with
    | some v' => if guard && v' != v then .offguard else .ok (.map k v' [])
    | none => .stuck
  | .pair a b :: rest =>
    if rest.all (fun z => typeOf z = .pair (typeOf a) (typeOf b)) then .ok (.map (typeOf a) (typeOf b) ys) else .stuck
  | _ => .stuck

mutual
  def eval (guard : Bool) (env : Env) : (fuel : Nat) → Instr → List Val → Res (List Val)
    | 0, _, _ => .oof
    | fuel + 1, i, st =>
      match i, st with
      | .seq is, st => evalSeq guard env fuel is st
      | .DIP body, x :: st => (eval guard env fuel body st).bind fun st' => .ok (x :: st')
      | .DIPN n body, st =>
        if n ≤ st.length then (eval guard env fuel body (st.drop n)).bind fun st' => .ok (st.take n ++ st') else .stuck
      | .IF bt bf, .bool b :: st => eval guard env fuel (if b then bt else bf) st
      | .IF_NONE bn _, .none _ :: st => eval guard env fuel bn st
      | .IF_NONE _ bs, .some v :: st => eval guard env fuel bs (v :: st)
      | .IF_LEFT bl _, .left v _ :: st => eval guard env fuel bl (v :: st)
      | .IF_LEFT _ br, .right _ v :: st => eval guard env fuel br (v :: st)
      | .IF_CONS bc _, .list t (x :: xs) :: st => eval guard env fuel bc (x :: .list t xs :: st)
      | .IF_CONS _ bn, .list _ [] :: st => eval guard env fuel bn st
      | .LOOP body, .bool true :: st => (eval guard env fuel body st).bind fun st' => eval guard env fuel (.LOOP body) st'
      | .LOOP _, .bool false :: st => .ok st
      | .LOOP_LEFT body, .left v _ :: st =>
        (eval guard env fuel body (v :: st)).bind fun st' => eval guard env fuel (.LOOP_LEFT body) st'
      | .LOOP_LEFT _, .right _ v :: st => .ok (v :: st)
      | .ITER body, .list _ xs :: st => evalIter guard env fuel body xs st
      | .ITER body, .map _ _ xs :: st => evalIter guard env fuel body xs st
      | .ITER body, .set _ xs :: st => evalIter guard env fuel body xs st
      | .MAP body, .list t xs :: st =>
        (evalMap guard env fuel body false xs st).bind fun (ys, st') =>
          (listOf guard body t st ys).bind fun r => .ok (r :: st')
      | .MAP body, .map k v xs :: st =>
        (evalMap guard env fuel body true xs st).bind fun (ys, st') =>
          (mapOf guard body k v st ys).bind fun r => .ok (r :: st')
      | .EXEC, arg :: .lam a b body :: st =>
        if typeOf arg = a then
          (eval guard env fuel body [arg]).bind fun r =>
            match r with
            | [y] => if typeOf y = b then .ok (y :: st) else .stuck
            | _ => .stuck
        else .stuck
      | i, st => step env i st
  def evalSeq (guard : Bool) (env : Env) : (fuel : Nat) → List Instr → List Val → Res (List Val)
    | _, [], st => .ok st
    | 0, _ :: _, _ => .oof
    | fuel + 1, i :: is, st => (eval guard env fuel i st).bind fun st' => evalSeq guard env fuel is st'
  def evalIter (guard : Bool) (env : Env) : (fuel : Nat) → Instr → List Val → List Val → Res (List Val)
    | _, _, [], st => .ok st
    | 0, _, _ :: _, _ => .oof
    | fuel + 1, body, x :: xs, st => (eval guard env fuel body (x :: st)).bind fun st' => evalIter guard env fuel body xs st'
  /-- the body maps each element (for maps: each `Pair key value` binding, the key being kept) -/
  def evalMap (guard : Bool) (env : Env) : (fuel : Nat) → Instr → (isMap : Bool) → List Val → List Val → Res (List Val × List Val)
    | _, _, _, [], st => .ok ([], st)
    | 0, _, _, _ :: _, _ => .oof
    | fuel + 1, body, isMap, x :: xs, st =>
      (eval guard env fuel body (x :: st)).bind fun r =>
        match r with
        | y :: st' =>
          (match isMap, x with
            | false, _ => Res.ok y
            | true, .pair k _ => Res.ok (Val.pair k y)
            | true, _ => Res.stuck).bind fun item =>
          (evalMap guard env fuel body isMap xs st').bind fun (ys, st'') => .ok (item :: ys, st'')
        | [] => .stuck
end

end Spec
end Interp
