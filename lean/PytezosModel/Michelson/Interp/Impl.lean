import PytezosModel.Michelson.Interp.Syntax
import PytezosModel.Michelson.Collections
import PytezosModel.Michelson.Arith
import PytezosModel.Micheline.Lower
import PytezosModel.Generated.C01
/-! `Impl.exec` — mirror of the `execute` methods of src/pytezos/michelson/instructions/*.py over the
`MichelsonStack` of src/pytezos/michelson/stack.py (`items` + `protected` prefix).

The dynamic `assert_type_equal` checks that compare *runtime type objects* (EXEC, APPLY, CONS, COMPARE,
`from_items`) are mirrored (`typeOf`); class checks (`assert_type_in`, `dispatch_types`) are the pattern
matches.  Not mirrored: `stdout` traces, the returned instruction objects.

What is *read from the source* instead of being written here (`Generated.C01`, regenerated on every run by
translator/c01.py): the `dispatch_types` tables of ADD / SUB / MUL / EDIV / NEG / AND / OR / XOR / NOT / CONCAT and the
operand classes of SIZE / SLICE (`Impl.dispatch` is the lookup `dispatch_types` performs), the shift bound, the
`from_value` guards of the integer classes, `count >= 2` of PAIR n / UNPAIR n, the `count - 2` handed to `unpairn_comb`
and the index `MichelsonStack.push / pop / peek` use.  That these agree with the reference (`Spec` / `Typing`) is
`Proofs/InterpTables.lean`; editing the source changes the model and re-opens the corresponding obligation there. -/
namespace Interp

structure Stack where
  items : List Val
  protected_ : Nat
  deriving Inhabited

namespace Stack

/-- the index expression read from stack.py (`self.protected` or `0`); anything else was not recognised: no such item -/
def idx (o : Option Generated.C01.StackIdx) (s : Stack) : Nat :=
  match o with
  | some .atProtected => s.protected_
  | some .atZero => 0
  | none => s.items.length + 1

/-- `protect(count)` -/
def protect (s : Stack) (count : Nat) : Res Stack :=
  if s.items.length < count then .stuck else .ok { s with protected_ := s.protected_ + count }

/-- `restore(count)` -/
def restore (s : Stack) (count : Nat) : Res Stack :=
  if s.protected_ < count then .stuck else .ok { s with protected_ := s.protected_ - count }

/-- `push(item)`: `items.insert(protected, item)` (Python's insert clamps the index; the index is read from the source) -/
def push (s : Stack) (v : Val) : Stack :=
  { s with items := s.items.take (s.idx Generated.C01.pushIndex) ++ v :: s.items.drop (s.idx Generated.C01.pushIndex) }

/-- `peek()` -/
def peek (s : Stack) : Res Val :=
  if s.items.isEmpty then .stuck
  else match s.items[s.idx Generated.C01.peekIndex]? with
    | some v => .ok v
    | none => .stuck

/-- `pop(count)`: `[items.pop(protected) for _ in range(count)]` (the index is read from the source; popping past the
end of the list raises) -/
def pop (s : Stack) (count : Nat) : Res (List Val × Stack) :=
  if s.items.length - s.protected_ < count then .stuck
  else if s.items.length - s.idx Generated.C01.popIndex < count then .stuck
  else .ok ((s.items.drop (s.idx Generated.C01.popIndex)).take count,
            { s with items := s.items.take (s.idx Generated.C01.popIndex) ++ (s.items.drop (s.idx Generated.C01.popIndex)).drop count })

def pop1 (s : Stack) : Res (Val × Stack) :=
  (s.pop 1).bind fun p =>
    match p with
    | ([a], s') => .ok (a, s')
    | _ => .stuck

def pop2 (s : Stack) : Res (Val × Val × Stack) :=
  (s.pop 2).bind fun p =>
    match p with
    | ([a, b], s') => .ok (a, b, s')
    | _ => .stuck

def pop3 (s : Stack) : Res (Val × Val × Val × Stack) :=
  (s.pop 3).bind fun p =>
    match p with
    | ([a, b, c], s') => .ok (a, b, c, s')
    | _ => .stuck

end Stack

namespace Impl

open Generated.C01 (Prim Conv Guard)

/-- `cls.prim` of the runtime class of a value of type `t`, for the classes that occur in the tables -/
def primOf : Ty → Option Prim
  | .int => some .int
  | .nat => some .nat
  | .mutez => some .mutez
  | .timestamp => some .timestamp
  | .bytes => some .bytes
  | .bool => some .bool
  | .string => some .string
  | .list _ => some .list
  | .set _ => some .set
  | .map _ _ => some .map
  | _ => none

/-- the parameter-free classes of the model by prim (a BLS class as a result is outside the model) -/
def tyOfPrim : Prim → Option Ty
  | .int => some .int
  | .nat => some .nat
  | .mutez => some .mutez
  | .timestamp => some .timestamp
  | .bytes => some .bytes
  | .bool => some .bool
  | .string => some .string
  | _ => none

def primsOf : List Ty → Option (List Prim)
  | [] => some []
  | t :: ts =>
    match primOf t, primsOf ts with
    | some p, some ps => some (p :: ps)
    | _, _ => none

def lookupRow {α : Type} (key : List Prim) : List (List Prim × α) → Option α
  | [] => none
  | (k, v) :: rest => if k = key then some v else lookupRow key rest

/-- `dispatch_types(*args, mapping=…)`: `key = tuple(arg.prim for arg in args)`, `assert key in mapping`, `mapping[key]`
(`none`: the assertion fails — or the table could not be read from the source) -/
def dispatch {α : Type} (table : Option (List (List Prim × α))) (args : List Ty) : Option α :=
  match table, primsOf args with
  | some rows, some key => lookupRow key rows
  | _, _ => none

/-- one result class -/
def dispatch1 (table : Option (List (List Prim × List Prim))) (args : List Ty) : Option Ty :=
  match dispatch table args with
  | some [r] => tyOfPrim r
  | _ => none

/-- one guard of a `from_value`: `assert value >= 0`; `if value.bit_length() > n: raise` (`|v| ≥ 2^n`) -/
def guardOk (v : Int) : Guard → Bool
  | .assertNonneg => decide (0 ≤ v)
  | .overflowIfBitsGt n => decide (-(2 ^ n) < v ∧ v < 2 ^ n)

def guardsOf (p : Prim) : Option (List Guard) :=
  match Generated.C01.guards with
  | some rows => (rows.find? (fun r => r.1 = p)).map (·.2)
  | none => none

/-- `XType.from_value(v)` for the integer classes, with the guards read from the source: `nat` asserts `v ≥ 0`; `mutez`
asserts `v ≥ 0` and at most 63 bits (a guard failing is the *runtime failure* outcome: the operation fails, e.g. on mutez
overflow) -/
def numFromValue (t : Ty) (v : Int) : Res Val :=
  match t with
  | .int | .nat | .mutez | .timestamp =>
    match (primOf t).bind guardsOf with
    | some gs => if gs.all (guardOk v) then .ok (.num t v) else .rtfail
    | none => .stuck
  | _ => .stuck

/-- `dispatch_types` table of ADD (integer classes only; BLS is C21) -/
def addTy (a b : Ty) : Option Ty := dispatch1 Generated.C01.addTable [a, b]

def subTy (a b : Ty) : Option Ty := dispatch1 Generated.C01.subTable [a, b]

def mulTy (a b : Ty) : Option Ty := dispatch1 Generated.C01.mulTable [a, b]

def negTy (a : Ty) : Option Ty := dispatch1 Generated.C01.negTable [a]

/-- `dispatch_types` table of EDIV: (quotient class, remainder class) -/
def edivTy (a b : Ty) : Option (Ty × Ty) :=
  match dispatch Generated.C01.edivTable [a, b] with
  | some [q, r] =>
    match tyOfPrim q, tyOfPrim r with
    | some tq, some tr => some (tq, tr)
    | _, _ => none
  | _ => none

/-- a row `(res_type, convert)` of boolean.py / generic.py -/
def convRow (table : Option (List (List Prim × (Prim × Conv)))) (args : List Ty) : Option (Ty × Conv) :=
  match dispatch table args with
  | some (r, c) => (tyOfPrim r).map fun t => (t, c)
  | none => none

/-- the operand classes an `assert_type_in(…)` / `assert_type_equal(…)` accepts, read from the source -/
def classIn (classes : Option (List Prim)) (t : Ty) : Bool :=
  match classes, primOf t with
  | some cs, some p => cs.contains p
  | _, _ => false

/-- EDIV's arithmetic: `q, r = divmod(a, b)` (floors), then `if r < 0: r += abs(b); q += 1` -/
def pyEdiv (a b : Int) : Int × Int :=
  let q := Int.fdiv a b
  let r := Int.fmod a b
  if r < 0 then (q + 1, r + Int.ofNat b.natAbs) else (q, r)

/-- Python's `a & b` on ints: arbitrary precision two's complement (`-[m+1]` is `~m`) -/
def pyAnd : Int → Int → Int
  | .ofNat m, .ofNat n => Int.ofNat (m &&& n)
  | .negSucc m, .ofNat n => Int.ofNat (n - (m &&& n))       -- ~m & n
  | .ofNat m, .negSucc n => Int.ofNat (m - (m &&& n))       -- m & ~n
  | .negSucc m, .negSucc n => Int.negSucc (m ||| n)         -- ~m & ~n = ~(m | n)

/-- Python's `a | b` -/
def pyOr : Int → Int → Int
  | .ofNat m, .ofNat n => Int.ofNat (m ||| n)
  | .negSucc m, .ofNat n => Int.negSucc (m - (m &&& n))     -- ~m | n = ~(m & ~n)
  | .ofNat m, .negSucc n => Int.negSucc (n - (m &&& n))
  | .negSucc m, .negSucc n => Int.negSucc (m &&& n)         -- ~m | ~n = ~(m & n)

/-- Python's `a ^ b` -/
def pyXor : Int → Int → Int
  | .ofNat m, .ofNat n => Int.ofNat (m ^^^ n)
  | .negSucc m, .ofNat n => Int.negSucc (m ^^^ n)           -- ~m ^ n = ~(m ^ n)
  | .ofNat m, .negSucc n => Int.negSucc (m ^^^ n)
  | .negSucc m, .negSucc n => Int.ofNat (m ^^^ n)

/-- `execute_shift`: both operands `nat`, `assert int(b) < 257` (the bound is read from the source); Python rejects a
negative shift count -/
def execShift (shift : Int → Nat → Int) (a b : Val) : Res Val :=
  match a, b with
  | .num .nat x, .num .nat y =>
    match Generated.C01.shiftLimit with
    | some limit => if y < (limit : Int) then (if y < 0 then .stuck else numFromValue .nat (shift x y.toNat)) else .rtfail
    | none => .stuck
  | _, _ => .stuck

/-- Python `<` on two lists of ints (str / bytes comparison) -/
def listLt : List Nat → List Nat → Bool
  | [], [] => false
  | [], _ :: _ => true
  | _ :: _, [] => false
  | a :: as, b :: bs => if a < b then true else if b < a then false else listLt as bs

/-- `compare(a, b)` of instructions/compare.py on the simple classes modelled here
(`==` then `<`; the general order is property C03) -/
def compareVals : Val → Val → Option Int
  | .num _ a, .num _ b => some (if a = b then 0 else if a < b then -1 else 1)
  | .str a, .str b => some (if a = b then 0 else if listLt a b then -1 else 1)
  | .bytes a, .bytes b => some (if a = b then 0 else if listLt a b then -1 else 1)
  | .bool a, .bool b => some (if a = b then 0 else if (!a && b) then -1 else 1)
  | .unit, .unit => some 0
  | _, _ => none

/-- `ListType.from_items(items)` as used by MAP: element class = class of the first item -/
def listFromItems (items : List Val) : Res Val :=
  match items with
  | [] => .stuck
  | x :: rest => if rest.all (fun y => typeOf y = typeOf x) then .ok (.list (typeOf x) items) else .stuck

/-- `MapType.from_items` as used by MAP over a map (items are `(key, value)` in the source order) -/
def mapFromItems (items : List Val) : Res Val :=
  match items with
  | .pair k v :: rest =>
    if rest.all (fun y => typeOf y = .pair (typeOf k) (typeOf v)) then .ok (.map (typeOf k) (typeOf v) items) else .stuck
  | _ => .stuck

/-- `PairType.from_comb(items)`: `create_type` asserts at least two items, `init` nests to the right -/
def fromComb : List Val → Res Val
  | [a, b] => .ok (.pair a b)
  | a :: b :: c :: rest => (fromComb (b :: c :: rest)).bind fun r => .ok (.pair a r)
  | _ => .stuck

/-- `PairType.iter_comb(include_nodes)`: `yield self` (with nodes), then the first item, then — `i == 1` — the
second item's own `iter_comb` if it is a pair, else the item itself (the last equation) -/
def iterComb (nodes : Bool) : Val → List Val
  | .pair a b => (if nodes then [Val.pair a b] else []) ++ a :: iterComb nodes b
  | v => [v]

/-- `PairType.unpairn_comb(count)`: like `iter_comb`, but descends into the second item only while `count > 0` -/
def unpairnComb : Nat → Val → List Val
  | count + 1, .pair a (.pair c d) => a :: unpairnComb count (.pair c d)
  | _, .pair a b => [a, b]
  | _, v => [v]

/-- `[element if 2 * i + 1 == idx else item for i, item in enumerate(leaves)]` (enumeration continuing at `i`) -/
def replaceLeaf (idx : Nat) (element : Val) : Nat → List Val → List Val
  | _, [] => []
  | i, x :: xs => (if 2 * i + 1 = idx then element else x) :: replaceLeaf idx element (i + 1) xs

/-- `[item for i, item in enumerate(leaves) if 2 * i + 1 < idx]` -/
def leavesBelow (idx : Nat) : Nat → List Val → List Val
  | _, [] => []
  | i, x :: xs => if 2 * i + 1 < idx then x :: leavesBelow idx (i + 1) xs else leavesBelow idx (i + 1) xs

/-- `if isinstance(element, PairType): leaves.extend(element.iter_comb()) else: leaves.append(element)` -/
def elementLeaves (element : Val) : List Val :=
  match element with
  | .pair _ _ => iterComb false element
  | _ => [element]

/-- `PairType.update_comb(idx, element)` -/
def updateComb (idx : Nat) (element : Val) (p : Val) : Res Val :=
  if idx % 2 = 1 then fromComb (replaceLeaf idx element 0 (iterComb false p))
  else fromComb (leavesBelow idx 0 (iterComb false p) ++ elementLeaves element)

/-- EDIV after `pop2`: dispatch, `None` on a zero divisor, else `Some (Pair q r)` built by `from_value` / `from_comb` -/
def execEdiv (a b : Val) : Res Val :=
  match a, b with
  | .num ta x, .num tb y =>
    match edivTy ta tb with
    | some (qt, rt) =>
      if y = 0 then .ok (.none (.pair qt rt))
      else do
        let q ← numFromValue qt (pyEdiv x y).1
        let r ← numFromValue rt (pyEdiv x y).2
        let p ← fromComb [q, r]
        pure (.some p)
    | none => .stuck
  | _, _ => .stuck

/-- SUB_MUTEZ after `pop2` -/
def execSubMutez (a b : Val) : Res Val :=
  match a, b with
  | .num .mutez x, .num .mutez y =>
    if x < y then .ok (.none .mutez)
    else do let r ← numFromValue .mutez (x - y); pure (.some r)
  | _, _ => .stuck

/-- `res_type.from_value(op(convert(a), convert(b)))` for a row `(res_type, convert)`: `bool` on two booleans, `int` on two
numbers; any other combination is not part of the model -/
def execBitwise (table : Option (List (List Prim × (Prim × Conv)))) (opB : Bool → Bool → Bool) (opI : Int → Int → Int)
    (a b : Val) : Res Val :=
  match convRow table [typeOf a, typeOf b] with
  | some (.bool, .bool) =>
    match a, b with
    | .bool x, .bool y => .ok (.bool (opB x y))
    | _, _ => .stuck
  | some (rt, .int) =>
    match a, b with
    | .num _ x, .num _ y => numFromValue rt (opI x y)
    | _, _ => .stuck
  | _ => .stuck

/-- AND after `pop2`: `dispatch_types` {(bool,bool), (nat,nat), (nat,int), (int,nat)} then `from_value(convert(a) & convert(b))` -/
def execAnd (a b : Val) : Res Val := execBitwise Generated.C01.andTable (· && ·) pyAnd a b

/-- OR / XOR (`execute_boolean_add`): {(bool,bool), (nat,nat)} -/
def execOr (a b : Val) : Res Val := execBitwise Generated.C01.boolAddTable (· || ·) pyOr a b

def execXor (a b : Val) : Res Val := execBitwise Generated.C01.boolAddTable (· != ·) pyXor a b

/-- NOT after `pop1`: `res_type.from_value(convert(a))` with `convert` = `lambda x: ~int(x)` / `lambda x: not bool(x)` -/
def execNot (a : Val) : Res Val :=
  match convRow Generated.C01.notTable [typeOf a] with
  | some (.bool, .not) =>
    match a with
    | .bool x => .ok (.bool (!x))
    | _ => .stuck
  | some (rt, .invert) =>
    match a with
    | .num _ x => numFromValue rt (-x - 1)
    | _ => .stuck
  | _ => .stuck

/-- NEG after `pop1`: `res_type.from_value(-int(a))` for the integer classes -/
def execNeg (a : Val) : Res Val :=
  match a with
  | .num ta x =>
    match negTy ta with
    | some t => numFromValue t (-x)
    | none => .stuck
  | _ => .stuck

/-- `a == b` (`__eq__`) on the key classes of the model: `IntType` and its subclasses compare their values
(`isinstance(other, IntType)`), strings / bytes / booleans their contents, `UnitType` is equal to itself -/
def valEq : Val → Val → Bool
  | .num _ a, .num _ b => a == b
  | .str a, .str b => a == b
  | .bytes a, .bytes b => a == b
  | .bool a, .bool b => a == b
  | .unit, .unit => true
  | _, _ => false

/-- `a < b` (`__lt__`) on the same classes (`UnitType.__lt__` is `False`) -/
def valLt : Val → Val → Bool
  | .num _ a, .num _ b => decide (a < b)
  | .str a, .str b => listLt a b
  | .bytes a, .bytes b => listLt a b
  | .bool a, .bool b => !a && b
  | _, _ => false

/-- key classes inside the model (the others are property C03 / C14) -/
def keyModelled : Ty → Bool
  | .int | .nat | .mutez | .timestamp | .string | .bytes | .bool | .unit => true
  | _ => false

/-- the model keeps the `(key, value)` tuples of a `MapType` as `pair key value` values -/
def toKV : Val → Val × Val
  | .pair k v => (k, v)
  | v => (v, v)

def ofKV (e : Val × Val) : Val := .pair e.1 e.2

def isPairVal : Val → Bool
  | .pair _ _ => true
  | _ => false

/-- MEM after `pop2`: `SetType.contains` (`assert_type_equal`, `item in self.items`) / `MapType.contains` (`get(…) is not None`) -/
def execMem (key src : Val) : Res Val :=
  match src with
  | .set t xs =>
    if keyModelled t && typeOf key == t then .ok (.bool (_root_.Impl.Coll.Set.contains valEq xs key)) else .stuck
  | .map k _ items =>
    if keyModelled k && items.all isPairVal && typeOf key == k then
      .ok (.bool (_root_.Impl.Coll.Map.contains valEq (items.map toKV) key))
    else .stuck
  -- `BigMapType.contains` is `MapType.contains`: `self.get(key, dup=False) is not None`; `BigMapType.get` searches `self` (the
  -- items, then the removed keys with value `None`) and, for a key found in neither, asks the context — which holds nothing for
  -- the temporary id of a map created in the run: `None`
  | .bigMap k _ items =>
    if keyModelled k && items.all isPairVal && typeOf key == k then
      .ok (.bool (_root_.Impl.Coll.Map.contains valEq (items.map toKV) key))
    else .stuck
  | _ => .stuck

/-- GET after `pop2`: `MapType.get` then `OptionType.none(src.args[1])` / `from_some` -/
def execGet (key src : Val) : Res Val :=
  match src with
  | .map k v items =>
    if keyModelled k && items.all isPairVal && typeOf key == k then
      match _root_.Impl.Coll.Map.get valEq (items.map toKV) key with
      | some y => .ok (.some y)
      | none => .ok (.none v)
    else .stuck
  | .bigMap k v items =>
    if keyModelled k && items.all isPairVal && typeOf key == k then
      match _root_.Impl.Coll.Map.get valEq (items.map toKV) key with
      | some y => .ok (.some y)
      | none => .ok (.none v)
    else .stuck
  | _ => .stuck

/-- `src.update(key, None if val.is_none() else val.get_some())` → `(prev_val, dst)` -/
def mapUpdate (k v : Ty) (items : List Val) (key : Val) (val : Option Val) : Res (Option Val × Val) :=
  if keyModelled k && items.all isPairVal && typeOf key == k then
    let r := _root_.Impl.Coll.Map.update valEq valLt (items.map toKV) key val
    .ok (r.1, .map k v (r.2.map ofKV))
  else .stuck

/-- `BigMapType.update` on a map created in the run: `prev_val = self.get(key, dup=False)` is found among the items or is
`None`, so the branches are those of `MapType.update` (replace / filter out / `sorted(items + [(key, val)])` / unchanged); the
bookkeeping of `removed_keys` does not show in any later answer.  Result: `type(self)(items=…, ptr=self.ptr, …)` -/
def bigMapUpdate (k v : Ty) (items : List Val) (key : Val) (val : Option Val) : Res (Option Val × Val) :=
  if keyModelled k && items.all isPairVal && typeOf key == k then
    let r := _root_.Impl.Coll.Map.update valEq valLt (items.map toKV) key val
    .ok (r.1, .bigMap k v (r.2.map ofKV))
  else .stuck

/-- UPDATE after `pop3`: a `bool` selects `SetType.add` / `remove`, an `option` goes to `MapType.update` -/
def execUpdate (key val src : Val) : Res Val :=
  match val, src with
  | .bool b, .set t xs =>
    if keyModelled t && typeOf key == t then
      .ok (.set t (if b then _root_.Impl.Coll.Set.add valEq valLt xs key else _root_.Impl.Coll.Set.remove valEq xs key))
    else .stuck
  | .none _, .map k v items => (mapUpdate k v items key none).bind fun r => .ok r.2
  | .some y, .map k v items => (mapUpdate k v items key (some y)).bind fun r => .ok r.2
  | .none _, .bigMap k v items => (bigMapUpdate k v items key none).bind fun r => .ok r.2
  | .some y, .bigMap k v items => (bigMapUpdate k v items key (some y)).bind fun r => .ok r.2
  | _, _ => .stuck

/-- GET_AND_UPDATE after `pop3`: `(res, dst)`; `res` is pushed last -/
def execGetAndUpdate (key val src : Val) : Res (Val × Val) :=
  match val, src with
  | .none _, .map k v items =>
    (mapUpdate k v items key none).bind fun r => .ok ((match r.1 with | some p => Val.some p | none => Val.none v), r.2)
  | .some y, .map k v items =>
    (mapUpdate k v items key (some y)).bind fun r => .ok ((match r.1 with | some p => Val.some p | none => Val.none v), r.2)
  | .none _, .bigMap k v items =>
    (bigMapUpdate k v items key none).bind fun r => .ok ((match r.1 with | some p => Val.some p | none => Val.none v), r.2)
  | .some y, .bigMap k v items =>
    (bigMapUpdate k v items key (some y)).bind fun r => .ok ((match r.1 with | some p => Val.some p | none => Val.none v), r.2)
  | _, _ => .stuck

/-- `execute_hash` after `pop1`: `assert_type_equal(BytesType)`, `BytesType.from_value(hash_digest(bytes(a)))` -/
def execHash (h : List Nat → List Nat) (a : Val) : Res Val :=
  match a with
  | .bytes b => .ok (.bytes (h b))
  | _ => .stuck

def strVals : List Val → Option (List (List Nat))
  | [] => some []
  | .str s :: rest => (strVals rest).map (s :: ·)
  | _ => none

def bytesVals : List Val → Option (List (List Nat))
  | [] => some []
  | .bytes s :: rest => (bytesVals rest).map (s :: ·)
  | _ => none

/-- `len(src)` of the classes with a `__len__` -/
def valLen : Val → Option Nat
  | .str x => some x.length
  | .bytes x => some x.length
  | .list _ xs => some xs.length
  | .map _ _ xs => some xs.length
  | .set _ xs => some xs.length
  | _ => none

/-- SIZE after `pop1`: `src.assert_type_in(…)` (classes read from the source), `NatType.from_value(len(src))` -/
def execSize (a : Val) : Res Val :=
  if classIn Generated.C01.sizeClasses (typeOf a) then
    match valLen a with
    | some n => numFromValue .nat n
    | none => .stuck
  else .stuck

/-- CONCAT on a list: `dispatch_types(a.args[0], …)` on the element class, `res_type.from_value(delim.join(map(convert, a)))` -/
def execConcatList (t : Ty) (xs : List Val) : Res Val :=
  match convRow Generated.C01.concatListTable [t] with
  | some (.string, .str) =>
    match strVals xs with
    | some ss => .ok (.str ss.flatten)
    | none => .stuck
  | some (.bytes, .bytes) =>
    match bytesVals xs with
    | some ss => .ok (.bytes ss.flatten)
    | none => .stuck
  | _ => .stuck

/-- CONCAT on two operands: `res_type.from_value(convert(a) + convert(b))` -/
def execConcatPair (a b : Val) : Res Val :=
  match convRow Generated.C01.concatPairTable [typeOf a, typeOf b] with
  | some (.string, .str) =>
    match a, b with
    | .str x, .str y => .ok (.str (x ++ y))
    | _, _ => .stuck
  | some (.bytes, .bytes) =>
    match a, b with
    | .bytes x, .bytes y => .ok (.bytes (x ++ y))
    | _, _ => .stuck
  | _ => .stuck

/-- SLICE after `pop3`: `offset.assert_type_equal(…)`, `length.assert_type_equal(…)`, `s.assert_type_in(…)` (classes read
from the source), then `s[start:stop]` when `0 <= start < len(s) and stop <= len(s)` -/
def execSlice (o l v : Val) : Res Val :=
  if classIn Generated.C01.sliceOffsetClass (typeOf o) && classIn Generated.C01.sliceLengthClass (typeOf l)
      && classIn Generated.C01.sliceClasses (typeOf v) then
    match o, l with
    | .num _ off, .num _ len =>
      let start := off.toNat
      let stop := off.toNat + len.toNat
      match v with
      | .str x =>
        if start < x.length ∧ stop ≤ x.length then .ok (.some (.str ((x.drop start).take len.toNat)))
        else .ok (.none .string)
      | .bytes x =>
        if start < x.length ∧ stop ≤ x.length then .ok (.some (.bytes ((x.drop start).take len.toNat)))
        else .ok (.none .bytes)
      | _ => .stuck
    | _, _ => .stuck
  else .stuck

/-- BYTES after `pop1`: `a.assert_type_in(NatType, IntType)` (`issubclass`: every integer class passes),
`signed = not isinstance(a, NatType)` (`mutez` derives from `nat`), `length = (8 + (v + (v < 0)).bit_length()) // 8 if v
else 0` / `(7 + v.bit_length()) // 8`, `v.to_bytes(length, 'big', signed=signed)` (CPython's `bit_length` / `to_bytes` are
`PyNum`, Michelson/Arith.lean; an OverflowError — a negative `nat` — is an error) -/
def execBytes (a : Val) : Res Val :=
  match a with
  | .num t x =>
    let signed := !(t == .nat || t == .mutez)
    let length := if signed then (if x ≠ 0 then _root_.Impl.Arith.signedLen x else 0) else _root_.Impl.Arith.unsignedLen x
    match PyNum.toBytes x length signed with
    | some bs => .ok (.bytes bs)
    | none => .stuck
  | _ => .stuck

/-- NAT after `pop1`: `a.assert_type_in(BytesType)`, `NatType.from_value(int.from_bytes(bytes(a), 'big'))` -/
def execNat (a : Val) : Res Val :=
  match a with
  | .bytes b => numFromValue .nat (PyNum.fromBytes b false)
  | _ => .stuck

/-- VOTING_POWER after `pop1`: `address.assert_type_equal(KeyHashType)`,
`NatType.from_value(context.get_voting_power(str(address)))` -/
def execVotingPower (env : Env) (a : Val) : Res Val :=
  match a with
  | .atom .keyHash s => numFromValue .nat (env.votingPower s)
  | _ => .stuck

/-- HASH_KEY after `pop1`: `a.assert_type_equal(KeyType)`,
`KeyHashType.from_value(Key.from_encoded_key(str(a)).public_key_hash())` -/
def execHashKey (env : Env) (a : Val) : Res Val :=
  match a with
  | .atom .key s => .ok (.atom .keyHash (env.hashes.hashKey s))
  | _ => .stuck

/-! Phase C: address texts as Python handles them -/
/-- `value.partition('%')`: the text before the first `%` and the text after it -/
def pyPartition (s : List Nat) : List Nat × List Nat := (s.takeWhile (· != 37), (s.dropWhile (· != 37)).drop 1)

/-- `AddressType.from_value(value)` (also `ContractType.from_value`): `address, _, entrypoint = value.partition('%')`,
`if entrypoint == 'default': value = address` (`assert is_address(value)` concerns the opaque base58 part) -/
def addrFromValue (s : List Nat) : List Nat := if (pyPartition s).2 = defaultEp then (pyPartition s).1 else s

/-- `AddressType._split()`: `address, _, entrypoint = self.value.partition('%')`; `return address, entrypoint or 'default'` -/
def pySplit (s : List Nat) : List Nat × List Nat :=
  ((pyPartition s).1, if (pyPartition s).2 = [] then defaultEp else (pyPartition s).2)

/-- `is_pkh(address)`: a `tz…` text (the base58 check itself concerns the opaque part) -/
def isPkh (a : List Nat) : Bool := a.take 2 == [116, 122]

/-- ADDRESS after `pop1`: `contract.assert_type_in(ContractType)`, `AddressType.from_value(str(contract))` -/
def execAddress (a : Val) : Res Val :=
  match a with
  | .contract _ s => .ok (.atom .address (addrFromValue s))
  | _ => .stuck

/-- IMPLICIT_ACCOUNT after `pop1`: `key_hash.assert_type_equal(KeyHashType)`,
`ContractType.create_type(args=[UnitType]).from_value(str(key_hash))` -/
def execImplicitAccount (a : Val) : Res Val :=
  match a with
  | .atom .keyHash s => .ok (.contract .unit (addrFromValue s))
  | _ => .stuck

/-- `CONTRACT %entrypoint t` after `pop1` (no node: `get_entrypoint_type` answers `None` for an originated address —
"skip type checking"): `contract_address, address_entrypoint = address._split()`; inside the `try`: `assert 'default' in
(address_entrypoint, entrypoint)`, `if entrypoint == 'default': entrypoint = address_entrypoint`, `if
is_pkh(contract_address): assert entrypoint == 'default'; assert t.prim in ('unit', 'ticket')` (`Ty` has no ticket type,
so: `t = unit`),
`OptionType.from_some(contract_type.from_value(f'{contract_address}%{entrypoint}'))`; a failed assertion gives
`OptionType.none(contract_type)` -/
def execContract (t : Ty) (entrypoint : List Nat) (a : Val) : Res Val :=
  match a with
  | .atom .address s =>
    let contractAddress := (pySplit s).1
    let addressEntrypoint := (pySplit s).2
    if addressEntrypoint ≠ defaultEp ∧ entrypoint ≠ defaultEp then .ok (.none (.contract t))
    else
      let ep := if entrypoint = defaultEp then addressEntrypoint else entrypoint
      if isPkh contractAddress ∧ ¬ (ep = defaultEp ∧ t = .unit) then .ok (.none (.contract t))
      else .ok (.some (.contract t (addrFromValue (contractAddress ++ 37 :: ep))))
  | _ => .stuck

/-- SET_DELEGATE after `pop1`: `delegate.assert_type_equal(option key_hash)`,
`OperationType.delegation(source=context.get_self_address(), delegate=None if delegate.is_none() else str(delegate.get_some()))` -/
def execSetDelegate (env : Env) (a : Val) : Res Val :=
  match a with
  | .none .keyHash => .ok (.opDelegate env.self none)
  | .some (.atom .keyHash s) => .ok (.opDelegate env.self (some s))
  | _ => .stuck

/-- `EMIT %tag t` after `pop1`: `payload.assert_type_equal(event_type)`, `OperationType.event(source=…, event_type, payload, tag)` -/
def execEmit (env : Env) (tag : List Nat) (t : Ty) (a : Val) : Res Val :=
  if typeOf a = t then .ok (.opEmit env.self tag t a) else .stuck

/-- TRANSFER_TOKENS after `pop3`: `amount.assert_type_equal(MutezType)`, `isinstance(destination, ContractType)`,
`parameter.assert_type_equal(destination.args[0])` (no node: no second check), `OperationType.transaction(source=self,
destination=destination.get_address(), amount=int(amount), entrypoint=destination.get_entrypoint(), value=…, param_type)` -/
def execTransferTokens (env : Env) (parameter amount destination : Val) : Res Val :=
  match amount, destination with
  | .num .mutez m, .contract t s =>
    if typeOf parameter = t then .ok (.opTransfer env.self (pySplit s).1 (pySplit s).2 m parameter t) else .stuck
  | _, _ => .stuck

/-! Phase B (first half): `a.pack()` = `b'\x05' + forge_micheline(a.to_micheline_value(mode='optimized'))` -/
/-- `prim_tags[name]` (the table `forge_micheline` uses, read from the source by property C05's translator) -/
def primTagOf (name : String) : Option Nat := _root_.Impl.Lower.primTag name

def primNode (name : String) (args : List BMich) : Option BMich := (primTagOf name).map fun t => .prim t args none

/-- the tail of `PairType.to_micheline_value` in mode `optimized`, given `args`: `len(args) == 2` → `Pair`, `== 3` →
`Pair a (Pair b c)`, `>= 4` → the list itself, else `raise AssertionError` -/
def pairNode (args : List BMich) : Option BMich :=
  if args.length = 2 then primNode "Pair" args
  else if args.length = 3 then
    match args with
    | [x, y, z] => (primNode "Pair" [y, z]).bind fun inner => primNode "Pair" [x, inner]
    | _ => none
  else if args.length ≥ 4 then some (.seq args)
  else none

mutual
  /-- first component: `v.to_micheline_value(mode='optimized')` with the primitives looked up in `prim_tags`; second:
  `[x.to_micheline_value(…) for x in v.iter_comb()]` if `v` is a pair (what the enclosing pair's `iter_comb` yields for its
  second item), else the one-element list.  `none`: a class outside the model (or a primitive missing from the table) -/
  def toMichBoth : Val → Option (BMich × List BMich)
    | .pair a b =>
      match toMichBoth a, toMichBoth b with
      | some x, some y => (pairNode (x.1 :: y.2)).map fun m => (m, x.1 :: y.2)
      | _, _ => none
    | .unit => (primNode "Unit" []).map fun m => (m, [m])
    | .bool b => (primNode (if b then "True" else "False") []).map fun m => (m, [m])
    | .num _ v => some (.int v, [.int v])
    | .str s => some (.str s, [.str s])
    | .bytes b => some (.bytes b, [.bytes b])
    | .some v => (toMichBoth v).bind fun x => (primNode "Some" [x.1]).map fun m => (m, [m])
    | .none _ => (primNode "None" []).map fun m => (m, [m])
    | .left v _ => (toMichBoth v).bind fun x => (primNode "Left" [x.1]).map fun m => (m, [m])
    | .right _ v => (toMichBoth v).bind fun x => (primNode "Right" [x.1]).map fun m => (m, [m])
    | .list _ xs => (toMichL xs).map fun ys => (.seq ys, [.seq ys])
    | .set _ xs => (toMichL xs).map fun ys => (.seq ys, [.seq ys])
    | .map _ _ xs => (toMichE xs).map fun ys => (.seq ys, [.seq ys])
    | _ => none
  def toMichL : List Val → Option (List BMich)
    | [] => some []
    | x :: xs =>
      match toMichBoth x, toMichL xs with
      | some y, some ys => some (y.1 :: ys)
      | _, _ => none
  /-- `[{'prim': 'Elt', 'args': [x.to_micheline_value(…) for x in elt]} for elt in self]` -/
  def toMichE : List Val → Option (List BMich)
    | [] => some []
    | .pair k v :: xs =>
      match toMichBoth k, toMichBoth v, toMichE xs with
      | some a, some b, some ys => (primNode "Elt" [a.1, b.1]).map fun e => e :: ys
      | _, _, _ => none
    | _ :: _ => none
end

/-- PACK after `pop1`: `BytesType.from_value(a.pack())`; `forge_micheline` is property C05's mirror `Impl.Forge.forge`
(an `OverflowError` of `len(data).to_bytes(4, 'big')` is the runtime failure) -/
def execPack (a : Val) : Res Val :=
  match toMichBoth a with
  | none => .stuck
  | some m =>
    match _root_.Impl.Forge.forge m.1 with
    | some bs => .ok (.bytes (5 :: bs))
    | none => .rtfail

/-! Extension 3, phase 1: `UNPACK t` — `cls.args[0].unpack(bytes(a))` inside `try … except Exception` (EVERY exception gives
`None`): `assert data.startswith(b'\x05')`, `unforge_micheline(data[1:])` (property C05's mirror `Impl.Forge.unforge` with the
`prim_int` table and the strictness flag read from the source), then `cls.from_micheline_value(val_expr)` class by class.
Expressions are `BMich` (primitives as tags, texts as their UTF-8 bytes): `expr['prim'] = prim_int[tag]` is
`Impl.Lower.primOfTag`; `value.decode()` raises on invalid UTF-8. -/
/-- `parse_micheline_value(val_expr, handlers)`: `assert isinstance(val_expr, dict)`; `prim, args = val_expr.get('prim'),
val_expr.get('args', [])` (a literal is a dict without `prim`); `assert not val_expr.get('annots')` (the repair C01-5: an
annotation list read from bytes is never empty); `assert (prim, len(args)) in handlers`.  Result: the position of the
handler and `args` -/
def parseValue (handlers : List (String × Nat)) (m : BMich) : Option (Nat × List BMich) :=
  match m with
  | .prim t args annot =>
    if annot.isSome then none
    else
      match _root_.Impl.Lower.primOfTag t with
      | none => none
      | some name => (handlers.findIdx? fun h => h.1 == name && h.2 == args.length).map fun i => (i, args)
  | _ => none

/-- `parse_micheline_literal(val_expr, {core_type: handler})`: the literal of the wanted kind (`assert isinstance(val_expr,
dict)`: not a sequence; a primitive application has the first key `prim`, which is no handler) -/
def litInt : BMich → Option Int
  | .int v => some v
  | _ => none

/-- `{'string': value.decode()}` followed by `StringType.from_value`: `assert len(value) == len(value.encode())` — the text
decodes and is ASCII, i.e. every byte is below 128 — and (the repair C01-7) `assert all(c == '\n' or ' ' <= c <= '~' …)` -/
def strFromValue (s : List Nat) : Option Val :=
  if s.all (fun c => decide (c < 128)) && s.all (fun c => c == 10 || (decide (32 ≤ c) && decide (c ≤ 126))) then some (.str s) else none

/-- `check_constraints(items)` of `SetType` / `MapType`: C14's mirror with the `__eq__` / `__lt__` of the key classes -/
def constraintsOk (ks : List Val) : Bool :=
  match _root_.Impl.Coll.checkConstraints valEq valLt ks with
  | .ok _ => true
  | .error _ => false

def mapAll (f : BMich → Option Val) : List BMich → Option (List Val)
  | [] => some []
  | x :: xs =>
    match f x, mapAll f xs with
    | some v, some vs => some (v :: vs)
    | _, _ => none

def tuple2 : Option Val → Option Val → Option Val
  | some a, some b => some (.pair a b)
  | _, _ => none

/-- `parse_elt` of `MapType.parse_micheline_value`: `parse_micheline_value(elt_expr, {('Elt', 2): …})` on every item -/
def parseElts (fk fv : BMich → Option Val) : List BMich → Option (List Val)
  | [] => some []
  | e :: xs =>
    match parseValue [("Elt", 2)] e with
    | some (_, [a, b]) =>
      match tuple2 (fk a) (fv b), parseElts fk fv xs with
      | some p, some ps => some (p :: ps)
      | _, _ => none
    | _ => none

/-- the head of `PairType.from_micheline_value`: a dict with `prim == 'Pair'` (and, repair C01-5, no annotations) gives its
`args`, a list is `args` itself -/
def pairArgs : BMich → Option (List BMich)
  | .prim t args annot =>
    if _root_.Impl.Lower.primOfTag t = some "Pair" ∧ annot.isSome = false then some args else none
  | .seq xs => some xs
  | _ => none

def isPairClass : Ty → Bool
  | .pair _ _ => true
  | _ => false

/-- `cls.from_micheline_value(val_expr)` for the classes of `Typing.unpackable` (`none`: an exception) -/
def fromMich (rt : List Nat → Option Int) : Ty → BMich → Option Val
  | .unit, m => (parseValue [("Unit", 0)] m).map fun _ => .unit
  | .bool, m =>
    match parseValue [("False", 0), ("True", 0)] m with
    | some (0, _) => some (.bool false)
    | some (1, _) => some (.bool true)
    | _ => none
  | .int, m => (litInt m).map fun v => .num .int v
  -- `NatType.from_value` / `MutezType.from_value`: the guards read from the source (`numFromValue`)
  | .nat, m =>
    match litInt m with
    | some v => (match numFromValue .nat v with | .ok r => some r | _ => none)
    | none => none
  | .mutez, m =>
    match litInt m with
    | some v => (match numFromValue .mutez v with | .ok r => some r | _ => none)
    | none => none
  -- `{'int': int, 'string': optimize_timestamp}`
  | .timestamp, m =>
    match m with
    | .int v => some (.num .timestamp v)
    | .str s => (rt s).map fun v => .num .timestamp v
    | _ => none
  | .string, m =>
    match m with
    | .str s => strFromValue s
    | _ => none
  | .bytes, m =>
    match m with
    | .bytes b => some (.bytes b)
    | _ => none
  | .option t, m =>
    match parseValue [("Some", 1), ("None", 0)] m with
    | some (0, [x]) => (fromMich rt t x).map .some
    | some (1, _) => some (.none t)
    | _ => none
  | .or l r, m =>
    match parseValue [("Left", 1), ("Right", 1)] m with
    | some (0, [x]) => (fromMich rt l x).map fun v => .left v r
    | some (1, [x]) => (fromMich rt r x).map fun v => .right l v
    | _ => none
  | .pair l r, m =>
    match pairArgs m with
    | none => none
    | some args =>
      if args.length = 2 then
        match args with
        | [x, y] => tuple2 (fromMich rt l x) (fromMich rt r y)
        | _ => none
      else if args.length > 2 then
        -- repair C01-6: `assert issubclass(cls.args[1], PairType)`; then `cls.args[1].from_micheline_value(args[1:])`
        if isPairClass r then
          match args with
          | x :: rest => tuple2 (fromMich rt l x) (fromMich rt r (.seq rest))
          | [] => none
        else none
      else none
  | .list t, m =>
    match m with
    | .seq xs => (mapAll (fromMich rt t) xs).map fun vs => .list t vs
    | _ => none
  | .set t, m =>
    match m with
    | .seq xs => (mapAll (fromMich rt t) xs).bind fun vs => if constraintsOk vs then some (.set t vs) else none
    | _ => none
  | .map k v, m =>
    match m with
    | .seq xs =>
      (parseElts (fromMich rt k) (fromMich rt v) xs).bind fun items =>
        if constraintsOk (items.map fun e => (toKV e).1) then some (.map k v items) else none
    | _ => none
  | _, _ => none

/-- UNPACK after `pop1`: `a.assert_type_equal(BytesType)`; `try: some = cls.args[0].unpack(bytes(a)); res =
OptionType.from_some(some)`; `except Exception: res = OptionType.none(cls.args[0])`.  `unpack`: `assert cls.is_packable()`
(true for the classes of the model's `unpackable`), `assert data.startswith(b'\x05')`, `unforge_micheline(data[1:])`,
`from_micheline_value` -/
def execUnpack (env : Env) (t : Ty) (a : Val) : Res Val :=
  match a with
  | .bytes b =>
    match b with
    | 5 :: rest =>
      match (_root_.Impl.Forge.unforge _root_.Impl.Lower.known _root_.Impl.Lower.strict rest).bind (fromMich env.readTimestamp t) with
      | some v => .ok (.some v)
      | none => .ok (.none t)
    | _ => .ok (.none t)
  | _ => .stuck

/-- CHECK_SIGNATURE after `pop3`: `pk.assert_type_equal(KeyType)`, `sig.assert_type_equal(SignatureType)`,
`msg.assert_type_equal(BytesType)`, `key = Key.from_encoded_key(str(pk))`, `try: key.verify(signature=str(sig),
message=bytes(msg)) except ValueError: res = BoolType(False) else: res = BoolType(True)` — whether `verify` raises is the
parameter `env.hashes.checkSig` -/
def execCheckSignature (env : Env) (pk sig msg : Val) : Res Val :=
  match pk, sig, msg with
  | .atom .key k, .atom .signature s, .bytes m => .ok (.bool (env.hashes.checkSig k s m))
  | _, _, _ => .stuck

/-- the instructions of extension 2 of the shape `a = stack.pop1(); a.assert_type_…(…); res = …; stack.push(res)`:
`res` for the popped `a` -/
def execUn (env : Env) (i : Instr) (a : Val) : Res Val :=
  match i with
  | .NAT => execNat a
  | .BYTES => execBytes a
  | .VOTING_POWER => execVotingPower env a
  | .HASH_KEY => execHashKey env a
  | .ADDRESS => execAddress a
  | .IMPLICIT_ACCOUNT => execImplicitAccount a
  | .CONTRACT t ep => execContract t ep a
  | .SET_DELEGATE => execSetDelegate env a
  | .EMIT tag t => execEmit env tag t a
  | .PACK => execPack a
  | .UNPACK t => execUnpack env t a
  | _ => .stuck

/-- the instructions of extension 2 -/
def stepExt (env : Env) (i : Instr) (s : Stack) : Res Stack :=
  match i with
  -- NEVER: `never = stack.pop1(); never.assert_type_equal(NeverType)`; nothing is pushed
  | .NEVER => do let (a, s) ← s.pop1; if typeOf a = .never then pure s else .stuck
  -- `SELF %entrypoint`: `res_type.from_value(f'{self_address}%{entrypoint}')`, `res_type = contract self_type` where
  -- `self_type = get_entrypoint_type(context, entrypoint)` is the type the instruction form carries (looked up in the
  -- parameter section at the driver boundary)
  | .SELF ep t => pure (s.push (.contract t (addrFromValue (env.self ++ 37 :: ep))))
  | .TRANSFER_TOKENS => do let (a, b, c, s) ← s.pop3; let r ← execTransferTokens env a b c; pure (s.push r)
  | .CHECK_SIGNATURE => do let (a, b, c, s) ← s.pop3; let r ← execCheckSignature env a b c; pure (s.push r)
  -- `res = BigMapType.empty(key_type, val_type)`; `res.attach_context(context)` gives it a temporary id
  | .EMPTY_BIG_MAP k v => pure (s.push (.bigMap k v []))
  | i => do let (a, s) ← s.pop1; let r ← execUn env i a; pure (s.push r)

/-- further instructions without sub-programs (kept apart from `step` so that either pattern match stays small) -/
def stepMore (env : Env) (i : Instr) (s : Stack) : Res Stack :=
  match i with
  | .TOTAL_VOTING_POWER => do let r ← numFromValue .nat env.totalVotingPower; pure (s.push r)
  | .MIN_BLOCK_TIME => do let r ← numFromValue .nat env.minBlockTime; pure (s.push r)
  | .BLAKE2B => do let (a, s) ← s.pop1; let r ← execHash env.hashes.blake2b a; pure (s.push r)
  | .SHA256 => do let (a, s) ← s.pop1; let r ← execHash env.hashes.sha256 a; pure (s.push r)
  | .SHA512 => do let (a, s) ← s.pop1; let r ← execHash env.hashes.sha512 a; pure (s.push r)
  | .KECCAK => do let (a, s) ← s.pop1; let r ← execHash env.hashes.keccak a; pure (s.push r)
  | .SHA3 => do let (a, s) ← s.pop1; let r ← execHash env.hashes.sha3 a; pure (s.push r)
  | .CAST _ => do let (a, s) ← s.pop1; pure (s.push a)      -- the cast itself is commented out in the source
  | .RENAME => pure s
  | i => stepExt env i s

/-- instructions that touch only the top of the stack -/
def step (env : Env) (i : Instr) (s : Stack) : Res Stack :=
  match i with
  | .DROP => do let (_, s) ← s.pop1; pure s
  | .DROPN n => do let (_, s) ← s.pop n; pure s
  | .DUP => do let a ← s.peek; pure (s.push a)
  | .DUPN n =>
    if n = 0 then .stuck   -- `DUP 0` is rejected by Tezos; outside the modelled domain
    else do
      let s ← s.protect (n - 1)
      let a ← s.peek
      let s ← s.restore (n - 1)
      pure (s.push a)
  | .SWAP => do let (a, b, s) ← s.pop2; pure ((s.push a).push b)
  | .DIG n => do
      let s ← s.protect n
      let (a, s) ← s.pop1
      let s ← s.restore n
      pure (s.push a)
  | .DUG n => do
      let (a, s) ← s.pop1
      let s ← s.protect n
      let s := s.push a
      s.restore n
  | .PUSH _ v => pure (s.push v)
  | .LAMBDA a b body => pure (s.push (.lam a b body))
  | .APPLY => do
      let (left, lam, s) ← s.pop2
      match lam with
      | .lam (.pair lt rt) b body =>
        if typeOf left = lt then pure (s.push (.lam rt b (.seq [.PUSH lt left, .PAIR, body]))) else .stuck
      | _ => .stuck
  | .FAILWITH => do let (a, _) ← s.pop1; .failed a
  | .UNIT => pure (s.push .unit)
  | .PAIR => do let (a, b, s) ← s.pop2; pure (s.push (.pair a b))
  | .UNPAIR => do
      let (p, s) ← s.pop1
      match p with
      | .pair a b => pure ((s.push b).push a)
      | _ => .stuck
  | .PAIRN n =>
      match Generated.C01.pairnMin with
      | some m =>
        if n < m then .stuck      -- `assert count >= 2` (the bound is read from the source)
        else do
          let (leaves, s) ← s.pop n
          let r ← fromComb leaves
          pure (s.push r)
      | none => .stuck
  | .UNPAIRN n =>
      match Generated.C01.unpairnMin, Generated.C01.unpairnCombOffset with
      | some m, some off =>
        if n < m then .stuck
        else do
          let (p, s) ← s.pop1
          match p with
          | .pair _ _ => pure ((unpairnComb (n - off) p).reverse.foldl Stack.push s)
          | _ => .stuck
      | _, _ => .stuck
  | .GETN n => do
      let (p, s) ← s.pop1
      if n = 0 then pure (s.push p)      -- `GET 0` is the identity on any value
      else match p with
        | .pair _ _ =>
          match (iterComb true p)[n]? with      -- `access_comb`: `next(…)` raises when the index is past the end
          | some r => pure (s.push r)
          | none => .stuck
        | _ => .stuck
  | .UPDATEN n => do
      let (element, p, s) ← s.pop2
      if n = 0 then pure (s.push element)      -- `UPDATE 0` replaces the whole value
      else match p with
        | .pair _ _ => do let r ← updateComb n element p; pure (s.push r)
        | _ => .stuck
  | .CAR => do
      let (p, s) ← s.pop1
      match p with
      | .pair a _ => pure (s.push a)
      | _ => .stuck
  | .CDR => do
      let (p, s) ← s.pop1
      match p with
      | .pair _ b => pure (s.push b)
      | _ => .stuck
  | .SOME => do let (a, s) ← s.pop1; pure (s.push (.some a))
  | .NONE t => pure (s.push (.none t))
  | .LEFT t => do let (a, s) ← s.pop1; pure (s.push (.left a t))
  | .RIGHT t => do let (a, s) ← s.pop1; pure (s.push (.right t a))
  | .NIL t => pure (s.push (.list t []))
  | .CONS => do
      let (a, l, s) ← s.pop2
      match l with
      | .list t xs => if typeOf a = t then pure (s.push (.list t (a :: xs))) else .stuck
      | _ => .stuck
  | .EMPTY_MAP k v => pure (s.push (.map k v []))
  | .EMPTY_SET t => pure (s.push (.set t []))
  | .MEM => do let (a, b, s) ← s.pop2; let r ← execMem a b; pure (s.push r)
  | .GET => do let (a, b, s) ← s.pop2; let r ← execGet a b; pure (s.push r)
  | .UPDATE => do let (a, b, c, s) ← s.pop3; let r ← execUpdate a b c; pure (s.push r)
  | .GET_AND_UPDATE => do
      let (a, b, c, s) ← s.pop3
      let r ← execGetAndUpdate a b c
      pure ((s.push r.2).push r.1)
  | .SIZE => do let (a, s) ← s.pop1; let r ← execSize a; pure (s.push r)
  | .ADD => do
      let (a, b, s) ← s.pop2
      match a, b with
      | .num ta x, .num tb y =>
        match addTy ta tb with
        | some t => do let r ← numFromValue t (x + y); pure (s.push r)
        | none => .stuck
      | _, _ => .stuck
  | .SUB => do
      let (a, b, s) ← s.pop2
      match a, b with
      | .num ta x, .num tb y =>
        match subTy ta tb with
        | some t => do let r ← numFromValue t (x - y); pure (s.push r)
        | none => .stuck
      | _, _ => .stuck
  | .MUL => do
      let (a, b, s) ← s.pop2
      match a, b with
      | .num ta x, .num tb y =>
        match mulTy ta tb with
        | some t => do let r ← numFromValue t (x * y); pure (s.push r)
        | none => .stuck
      | _, _ => .stuck
  | .EDIV => do let (a, b, s) ← s.pop2; let r ← execEdiv a b; pure (s.push r)
  | .LSL => do let (a, b, s) ← s.pop2; let r ← execShift (fun x n => x <<< n) a b; pure (s.push r)
  | .LSR => do let (a, b, s) ← s.pop2; let r ← execShift (fun x n => x >>> n) a b; pure (s.push r)
  | .SUB_MUTEZ => do let (a, b, s) ← s.pop2; let r ← execSubMutez a b; pure (s.push r)
  | .NEG => do let (a, s) ← s.pop1; let r ← execNeg a; pure (s.push r)
  | .ABS => do
      let (a, s) ← s.pop1
      match a with
      | .num .int x => pure (s.push (.num .nat (Int.ofNat x.natAbs)))
      | _ => .stuck
  | .ISNAT => do
      let (a, s) ← s.pop1
      match a with
      | .num .int x => pure (s.push (if x ≥ 0 then .some (.num .nat x) else .none .nat))
      | _ => .stuck
  | .INT => do
      let (a, s) ← s.pop1
      match a with
      | .bytes b => do      -- `isinstance(a, BytesType)`: `IntType.from_value(int.from_bytes(bytes(a), 'big', signed=True))`
          let r ← numFromValue .int (PyNum.fromBytes b true)
          pure (s.push r)
      | .num .nat x => pure (s.push (.num .int x))
      | _ => .stuck
  | .COMPARE => do
      let (a, b, s) ← s.pop2
      if typeOf a = typeOf b then
        match compareVals a b with
        | some c => pure (s.push (.num .int c))
        | none => .stuck
      else .stuck
  | .EQ => do
      let (a, s) ← s.pop1
      match a with | .num .int x => pure (s.push (.bool (decide (x = 0)))) | _ => .stuck
  | .NEQ => do
      let (a, s) ← s.pop1
      match a with | .num .int x => pure (s.push (.bool (decide (x ≠ 0)))) | _ => .stuck
  | .LT => do
      let (a, s) ← s.pop1
      match a with | .num .int x => pure (s.push (.bool (x < 0))) | _ => .stuck
  | .GT => do
      let (a, s) ← s.pop1
      match a with | .num .int x => pure (s.push (.bool (x > 0))) | _ => .stuck
  | .LE => do
      let (a, s) ← s.pop1
      match a with | .num .int x => pure (s.push (.bool (x ≤ 0))) | _ => .stuck
  | .GE => do
      let (a, s) ← s.pop1
      match a with | .num .int x => pure (s.push (.bool (x ≥ 0))) | _ => .stuck
  | .NOT => do let (a, s) ← s.pop1; let r ← execNot a; pure (s.push r)
  | .AND => do let (a, b, s) ← s.pop2; let r ← execAnd a b; pure (s.push r)
  | .OR => do let (a, b, s) ← s.pop2; let r ← execOr a b; pure (s.push r)
  | .XOR => do let (a, b, s) ← s.pop2; let r ← execXor a b; pure (s.push r)
  | .CONCAT => do
      let (a, s) ← s.pop1
      match a with
      | .list t xs => do let r ← execConcatList t xs; pure (s.push r)
      | _ => do
        let (b, s) ← s.pop1
        let r ← execConcatPair a b
        pure (s.push r)
  | .SLICE => do let (o, l, v, s) ← s.pop3; let r ← execSlice o l v; pure (s.push r)
  | .AMOUNT => do let r ← numFromValue .mutez env.amount; pure (s.push r)
  | .BALANCE => do let r ← numFromValue .mutez env.balance; pure (s.push r)
  | .SENDER => pure (s.push (.atom .address env.sender))
  | .SOURCE => pure (s.push (.atom .address env.source))
  | .SELF_ADDRESS => pure (s.push (.atom .address env.self))
  | .NOW => pure (s.push (.num .timestamp env.now))
  | .LEVEL => do let r ← numFromValue .nat env.level; pure (s.push r)
  | .CHAIN_ID => pure (s.push (.atom .chainId env.chainId))
  | i => stepMore env i s

mutual
  /-- `cls.execute(stack, stdout, context)`; `fuel` bounds loop iterations and nesting -/
  def exec (env : Env) : (fuel : Nat) → Instr → Stack → Res Stack
    | 0, _, _ => .oof
    | fuel + 1, i, s =>
      match i with
      | .seq is => execSeq env fuel is s
      | .DIP body => do
          let s ← s.protect 1
          let s ← exec env fuel body s
          s.restore 1
      | .DIPN n body => do
          let s ← s.protect n
          let s ← exec env fuel body s
          s.restore n
      | .IF bt bf => do
          let (c, s) ← s.pop1
          match c with
          | .bool b => exec env fuel (if b then bt else bf) s
          | _ => .stuck
      | .IF_NONE bn bs => do
          let (o, s) ← s.pop1
          match o with
          | .none _ => exec env fuel bn s
          | .some v => exec env fuel bs (s.push v)
          | _ => .stuck
      | .IF_LEFT bl br => do
          let (o, s) ← s.pop1
          match o with
          | .left v _ => exec env fuel bl (s.push v)
          | .right _ v => exec env fuel br (s.push v)
          | _ => .stuck
      | .IF_CONS bc bn => do
          let (l, s) ← s.pop1
          match l with
          | .list t (x :: xs) => exec env fuel bc ((s.push (.list t xs)).push x)
          | .list _ [] => exec env fuel bn s
          | _ => .stuck
      | .LOOP body => do
          let (c, s) ← s.pop1
          match c with
          | .bool true => do
              let s ← exec env fuel body s
              exec env fuel (.LOOP body) s
          | .bool false => pure s
          | _ => .stuck
      | .LOOP_LEFT body => do
          let (o, s) ← s.pop1
          match o with
          | .left v _ => do
              let s ← exec env fuel body (s.push v)
              exec env fuel (.LOOP_LEFT body) s
          | .right _ v => pure (s.push v)
          | _ => .stuck
      | .ITER body => do
          let (c, s) ← s.pop1
          match c with
          | .list _ xs => iterLoop env fuel body xs s
          | .map _ _ xs => iterLoop env fuel body xs s
          | .set _ xs => iterLoop env fuel body xs s
          | _ => .stuck
      | .MAP body => do
          let (c, s) ← s.pop1
          match c with
          | .list t xs => do
              let (items, s) ← mapLoop env fuel body false xs s
              if items.isEmpty then pure (s.push (.list t xs))
              else do let r ← listFromItems items; pure (s.push r)
          | .map k v xs => do
              let (items, s) ← mapLoop env fuel body true xs s
              if items.isEmpty then pure (s.push (.map k v xs))
              else do let r ← mapFromItems items; pure (s.push r)
          | _ => .stuck
      | .EXEC => do
          let (param, lam, s) ← s.pop2
          match lam with
          | .lam a b body =>
            if typeOf param = a then do
              let ls ← exec env fuel body ⟨[param], 0⟩
              let (r, ls) ← ls.pop1
              if typeOf r = b ∧ ls.items.isEmpty then pure (s.push r) else .stuck
            else .stuck
          | _ => .stuck
      | i => step env i s
  def execSeq (env : Env) : (fuel : Nat) → List Instr → Stack → Res Stack
    | _, [], s => .ok s
    | 0, _ :: _, _ => .oof
    | fuel + 1, i :: is, s => do
        let s ← exec env fuel i s
        execSeq env fuel is s
  /-- `for elt in src: stack.push(elt); body.execute(...)` -/
  def iterLoop (env : Env) : (fuel : Nat) → Instr → List Val → Stack → Res Stack
    | _, _, [], s => .ok s
    | 0, _, _ :: _, _ => .oof
    | fuel + 1, body, x :: xs, s => do
        let s ← exec env fuel body (s.push x)
        iterLoop env fuel body xs s
  /-- MAP's loop: push the element, run the body, pop the new element; for maps the key is kept -/
  def mapLoop (env : Env) : (fuel : Nat) → Instr → (isMap : Bool) → List Val → Stack → Res (List Val × Stack)
    | _, _, _, [], s => .ok ([], s)
    | 0, _, _, _ :: _, _ => .oof
    | fuel + 1, body, isMap, x :: xs, s => do
        let s ← exec env fuel body (s.push x)
        let (y, s) ← s.pop1
        let item ← (if isMap then
            match x with
            | .pair k _ => Res.ok (Val.pair k y)
            | _ => Res.stuck
          else Res.ok y)
        let (rest, s) ← mapLoop env fuel body isMap xs s
        pure (item :: rest, s)
end

/-- run a program on a fresh REPL stack holding `st` -/
def run (env : Env) (fuel : Nat) (i : Instr) (st : List Val) : Res (List Val) :=
  (exec env fuel i ⟨st, 0⟩).bind fun s => .ok s.items

end Impl
end Interp
