/-! Syntax of the modelled core of the Michelson interpreter (C01, C02): annotation-free types, runtime
values carrying the type decorations pytezos' value objects carry (the value's *class*), instructions. -/
namespace Interp

inductive Ty where
  | unit | bool | int | nat | mutez | timestamp | string | bytes | address | chainId
  | option (t : Ty)
  | or (l r : Ty)
  | pair (l r : Ty)
  | list (t : Ty)
  | lambda (a b : Ty)
  | map (k v : Ty)
  | set (t : Ty)
  deriving DecidableEq, Repr, Inhabited

mutual
  inductive Val where
    | unit
    | bool (b : Bool)
    /-- `int`, `nat`, `mutez`, `timestamp`: the class and the Python int -/
    | num (t : Ty) (v : Int)
    /-- strings are ASCII (pytezos asserts it): list of character codes -/
    | str (s : List Nat)
    | bytes (b : List Nat)
    /-- `address` / `chain_id`: opaque base58 text -/
    | atom (t : Ty) (s : List Nat)
    | pair (a b : Val)
    | some (v : Val)
    | none (t : Ty)
    | left (v : Val) (tr : Ty)
    | right (tl : Ty) (v : Val)
    | list (t : Ty) (xs : List Val)
    /-- items are `pair k v` values, in key order -/
    | map (k v : Ty) (items : List Val)
    /-- elements in ascending order -/
    | set (t : Ty) (xs : List Val)
    | lam (a b : Ty) (body : Instr)
  inductive Instr where
    | seq (is : List Instr)
    | DROP | DROPN (n : Nat) | DUP | DUPN (n : Nat) | SWAP | DIG (n : Nat) | DUG (n : Nat)
    | PUSH (t : Ty) (v : Val)
    | DIP (body : Instr) | DIPN (n : Nat) (body : Instr)
    | IF (bt bf : Instr) | IF_NONE (bn bs : Instr) | IF_LEFT (bl br : Instr) | IF_CONS (bc bn : Instr)
    | LOOP (body : Instr) | LOOP_LEFT (body : Instr) | ITER (body : Instr) | MAP (body : Instr)
    | LAMBDA (a b : Ty) (body : Instr) | EXEC | APPLY | FAILWITH
    | PAIRN (n : Nat) | UNPAIRN (n : Nat) | GETN (n : Nat) | UPDATEN (n : Nat)
    | UNIT | PAIR | UNPAIR | CAR | CDR | SOME | NONE (t : Ty) | LEFT (t : Ty) | RIGHT (t : Ty)
    | NIL (t : Ty) | CONS | SIZE | EMPTY_MAP (k v : Ty)
    | EMPTY_SET (t : Ty) | MEM | GET | UPDATE | GET_AND_UPDATE
    | EDIV | LSL | LSR | SUB_MUTEZ
    | ADD | SUB | MUL | NEG | ABS | ISNAT | INT | COMPARE | EQ | NEQ | LT | GT | LE | GE
    | NOT | AND | OR | XOR
    | CONCAT | SLICE
    | AMOUNT | BALANCE | SENDER | SOURCE | NOW | LEVEL | CHAIN_ID | SELF_ADDRESS | TOTAL_VOTING_POWER | MIN_BLOCK_TIME
    | BLAKE2B | SHA256 | SHA512 | KECCAK | SHA3
    | CAST (t : Ty) | RENAME
end

instance : Inhabited Val := ⟨.unit⟩
instance : Inhabited Instr := ⟨.seq []⟩

/-- the hash functions behind BLAKE2B / SHA256 / SHA512 / KECCAK / SHA3 (`blake2b_32`, `hashlib.sha256`, `hashlib.sha512`,
pytezos' `Keccak256`, `hashlib.sha3_256`): *parameters* of the model — every theorem holds for every choice; the driver
instantiates them with executable implementations that the correspondence run cross-checks against `hashlib` -/
structure Hashes where
  blake2b : List Nat → List Nat
  sha256 : List Nat → List Nat
  sha512 : List Nat → List Nat
  keccak : List Nat → List Nat
  sha3 : List Nat → List Nat

instance : Inhabited Hashes := ⟨⟨fun _ => [], fun _ => [], fun _ => [], fun _ => [], fun _ => []⟩⟩

/-- execution environment (`ExecutionContext` getters) -/
structure Env where
  amount : Int
  balance : Int
  sender : List Nat
  source : List Nat
  self : List Nat
  now : Int
  level : Int
  chainId : List Nat
  /-- `context.get_total_voting_power()` / `context.get_min_block_time()` -/
  totalVotingPower : Int := 0
  minBlockTime : Int := 1
  hashes : Hashes := default
  deriving Inhabited

/-- outcome of running code: a result, a FAILWITH value, or any other runtime error / stuck state -/
inductive Res (α : Type) where
  | ok (a : α)
  | failed (v : Val)
  | err
  deriving Inhabited

namespace Res
def bind {α β : Type} (r : Res α) (f : α → Res β) : Res β :=
  match r with
  | .ok a => f a
  | .failed v => .failed v
  | .err => .err
instance : Monad Res where
  pure := .ok
  bind := bind
def map' {α β : Type} (f : α → β) (r : Res α) : Res β := r.bind fun a => .ok (f a)
@[simp] theorem bind_ok {α β : Type} (a : α) (f : α → Res β) : (Res.ok a >>= f) = f a := rfl
@[simp] theorem bind_failed {α β : Type} (v : Val) (f : α → Res β) : (Res.failed v >>= f) = Res.failed v := rfl
@[simp] theorem bind_err {α β : Type} (f : α → Res β) : ((Res.err : Res α) >>= f) = Res.err := rfl
@[simp] theorem pure_eq {α : Type} (a : α) : (pure a : Res α) = Res.ok a := rfl
end Res

/-- the runtime type of a value = its class in pytezos (`type(item)`), annotations dropped -/
def typeOf : Val → Ty
  | .unit => .unit
  | .bool _ => .bool
  | .num t _ => t
  | .str _ => .string
  | .bytes _ => .bytes
  | .atom t _ => t
  | .pair a b => .pair (typeOf a) (typeOf b)
  | .some v => .option (typeOf v)
  | .none t => .option t
  | .left v tr => .or (typeOf v) tr
  | .right tl v => .or tl (typeOf v)
  | .list t _ => .list t
  | .map k v _ => .map k v
  | .set t _ => .set t
  | .lam a b _ => .lambda a b

end Interp
