/-! Syntax of the modelled core of the Michelson interpreter (C01, C02): annotation-free types, runtime
values carrying the type decorations pytezos' value objects carry (the value's *class*), instructions. -/
namespace Interp

inductive Ty where
  | unit | bool | int | nat | mutez | timestamp | string | bytes | address | chainId
  /-- `never` (no values), `key_hash` and `key` (opaque base58 text, like `address`) -/
  | never | keyHash | key
  /-- `signature` (opaque base58 text) -/
  | signature
  /-- `contract t` (a handle on an entrypoint of type `t`) and `operation` -/
  | contract (t : Ty) | operation
  | option (t : Ty)
  | or (l r : Ty)
  | pair (l r : Ty)
  | list (t : Ty)
  | lambda (a b : Ty)
  | map (k v : Ty)
  | set (t : Ty)
  /-- `big_map k v` -/
  | bigMap (k v : Ty)
  deriving DecidableEq, Repr, Inhabited

mutual
  inductive Val where
    | unit
    | bool (b : Bool)
    /-- `int`, `nat`, `mutez`, `timestamp`: the class and the Python int -/
    | num (t : Ty) (v : Int)
    /-- strings are ASCII (pytezos asserts it): list of character codes -/
    | str (s : List Nat)
    | bytes (b : List Nat)
    /-- `address` / `chain_id` / `key_hash` / `key` / `signature`: opaque base58 text -/
    | atom (t : Ty) (s : List Nat)
    | pair (a b : Val)
    | some (v : Val)
    | none (t : Ty)
    | left (v : Val) (tr : Ty)
    | right (tl : Ty) (v : Val)
    | list (t : Ty) (xs : List Val)
    /-- items are `pair k v` values, in key order -/
    | map (k v : Ty) (items : List Val)
    /-- elements in ascending order -/
    | set (t : Ty) (xs : List Val)
    | lam (a b : Ty) (body : Instr)
    /-- `contract t`: the address text, followed by `%entrypoint` unless the entrypoint is `default` -/
    | contract (t : Ty) (s : List Nat)
    /-- internal operations (`OperationType.content`): a transaction to `dest` / `ep` with parameter `param : pty`, … -/
    | opTransfer (source dest ep : List Nat) (amount : Int) (param : Val) (pty : Ty)
    | opDelegate (source : List Nat) (delegate : Option (List Nat))
    | opEmit (source tag : List Nat) (ty : Ty) (payload : Val)
    /-- `big_map k v` inside one run: the bindings (`pair key value`, in key order) it denotes.  pytezos also keeps a
    temporary id and the list of removed keys (the lazy diff: property C15's model); neither changes an answer of MEM / GET /
    UPDATE / GET_AND_UPDATE on a map created in the run (no context value behind it) -/
    | bigMap (k v : Ty) (items : List Val)
  inductive Instr where
    | seq (is : List Instr)
    | DROP | DROPN (n : Nat) | DUP | DUPN (n : Nat) | SWAP | DIG (n : Nat) | DUG (n : Nat)
    | PUSH (t : Ty) (v : Val)
    | DIP (body : Instr) | DIPN (n : Nat) (body : Instr)
    | IF (bt bf : Instr) | IF_NONE (bn bs : Instr) | IF_LEFT (bl br : Instr) | IF_CONS (bc bn : Instr)
    | LOOP (body : Instr) | LOOP_LEFT (body : Instr) | ITER (body : Instr) | MAP (body : Instr)
    | LAMBDA (a b : Ty) (body : Instr) | EXEC | APPLY | FAILWITH
    | PAIRN (n : Nat) | UNPAIRN (n : Nat) | GETN (n : Nat) | UPDATEN (n : Nat)
    | UNIT | PAIR | UNPAIR | CAR | CDR | SOME | NONE (t : Ty) | LEFT (t : Ty) | RIGHT (t : Ty)
    | NIL (t : Ty) | CONS | SIZE | EMPTY_MAP (k v : Ty)
    | EMPTY_SET (t : Ty) | MEM | GET | UPDATE | GET_AND_UPDATE
    | EDIV | LSL | LSR | SUB_MUTEZ
    | ADD | SUB | MUL | NEG | ABS | ISNAT | INT | COMPARE | EQ | NEQ | LT | GT | LE | GE
    | NOT | AND | OR | XOR
    | CONCAT | SLICE
    | AMOUNT | BALANCE | SENDER | SOURCE | NOW | LEVEL | CHAIN_ID | SELF_ADDRESS | TOTAL_VOTING_POWER | MIN_BLOCK_TIME
    | BLAKE2B | SHA256 | SHA512 | KECCAK | SHA3
    | CAST (t : Ty) | RENAME
    /- extension 2, phase A: `never`, the int / nat ↔ bytes conversions (`INT` also takes `bytes`), voting power of a
    delegate, hash of a public key -/
    | NEVER | NAT | BYTES | VOTING_POWER | HASH_KEY
    /- phase C: contracts and operations.  `CONTRACT %ep t`; `SELF %ep` carries the type `t` of that entrypoint of the
    running contract's parameter (what type checking against the parameter gives — the elaborated instruction);
    `EMIT %tag t` -/
    | ADDRESS | IMPLICIT_ACCOUNT | CONTRACT (t : Ty) (ep : List Nat) | SELF (ep : List Nat) (t : Ty)
    | TRANSFER_TOKENS | SET_DELEGATE | EMIT (tag : List Nat) (t : Ty)
    /- phase B (first half): serialization of the plain data classes -/
    | PACK
    /- extension 3, phase 1: deserialization -/
    | UNPACK (t : Ty)
    /- phase 3: signature verification (the verification function is a parameter: `Hashes.checkSig`) -/
    | CHECK_SIGNATURE
    /- phase 2: big maps created in the run -/
    | EMPTY_BIG_MAP (k v : Ty)
end

instance : Inhabited Val := ⟨.unit⟩
instance : Inhabited Instr := ⟨.seq []⟩

/-- the hash functions behind BLAKE2B / SHA256 / SHA512 / KECCAK / SHA3 (`blake2b_32`, `hashlib.sha256`, `hashlib.sha512`,
pytezos' `Keccak256`, `hashlib.sha3_256`): *parameters* of the model — every theorem holds for every choice; the driver
instantiates them with executable implementations that the correspondence run cross-checks against `hashlib` -/
structure Hashes where
  blake2b : List Nat → List Nat
  sha256 : List Nat → List Nat
  sha512 : List Nat → List Nat
  keccak : List Nat → List Nat
  sha3 : List Nat → List Nat
  /-- HASH_KEY: base58 text of a public key ↦ base58 text of its hash (`Key.from_encoded_key(k).public_key_hash()`:
  Base58Check decoding, BLAKE2b with a 20-byte digest, Base58Check encoding under the prefix of the curve) -/
  hashKey : List Nat → List Nat := fun _ => []
  /-- CHECK_SIGNATURE: base58 text of a public key, base58 text of a signature, message ↦ does the signature verify
  (`Key.from_encoded_key(k).verify(signature=s, message=m)` does not raise `ValueError`).  A parameter like the hash functions:
  every theorem holds for every choice; the run instantiates it with a table of what `Key.verify` answers on the triples that
  occur in the program (signature verification itself is property C07's subject) -/
  checkSig : List Nat → List Nat → List Nat → Bool := fun _ _ _ => false

instance : Inhabited Hashes := ⟨⟨fun _ => [], fun _ => [], fun _ => [], fun _ => [], fun _ => [], fun _ => [], fun _ _ _ => false⟩⟩

/-- execution environment (`ExecutionContext` getters) -/
structure Env where
  amount : Int
  balance : Int
  sender : List Nat
  source : List Nat
  self : List Nat
  now : Int
  level : Int
  chainId : List Nat
  /-- `context.get_total_voting_power()` / `context.get_min_block_time()` -/
  totalVotingPower : Int := 0
  minBlockTime : Int := 1
  /-- `context.get_voting_power(key_hash)`: voting power of every delegate (by the base58 text of its key hash) -/
  votingPower : List Nat → Int := fun _ => 0
  /-- the reading of a *text* as a timestamp (UNPACK of a `timestamp` given in its readable form): `none` = not a timestamp
  notation.  A *parameter* of the model, like the hash functions: every theorem holds for every choice; the run instantiates it
  with a table of what pytezos' `optimize_timestamp` answers on the texts that occur (that function is property C11's subject) -/
  readTimestamp : List Nat → Option Int := fun _ => none
  hashes : Hashes := default
  deriving Inhabited

/-- outcome of running code.

* `ok a` — a result;
* `failed v` — `FAILWITH` was executed on `v`;
* `rtfail` — a *runtime failure* of an instruction that Michelson defines to fail the operation on some well-typed
  arguments: the result of an arithmetic instruction does not fit its type (`mutez` overflow / underflow of ADD, SUB,
  MUL, …), a shift by more than 256 bits, an environment reading outside the range of its type.  pytezos raises;
* `oof` — the fuel bound (loop iterations / nesting) was exhausted before the run ended;
* `stuck` — no rule applies: the configuration is ill-typed (wrong stack shape, wrong argument types, an ill-formed
  value).  `progress` (Proofs/InterpProgress.lean) shows a well-typed program on a well-typed stack never gets here;
* `offguard` — only the reference semantics in guard mode returns it: `MAP` was applied to an *empty* list / map with a
  body that changes the element type (the documented guard of C01: the open finding of pytezos). -/
inductive Res (α : Type) where
  | ok (a : α)
  | failed (v : Val)
  | rtfail
  | oof
  | stuck
  | offguard
  deriving Inhabited

namespace Res
def bind {α β : Type} (r : Res α) (f : α → Res β) : Res β :=
  match r with
  | .ok a => f a
  | .failed v => .failed v
  | .rtfail => .rtfail
  | .oof => .oof
  | .stuck => .stuck
  | .offguard => .offguard
instance : Monad Res where
  pure := .ok
  bind := bind
def map' {α β : Type} (f : α → β) (r : Res α) : Res β := r.bind fun a => .ok (f a)
@[simp] theorem bind_ok {α β : Type} (a : α) (f : α → Res β) : (Res.ok a >>= f) = f a := rfl
@[simp] theorem bind_failed {α β : Type} (v : Val) (f : α → Res β) : (Res.failed v >>= f) = Res.failed v := rfl
@[simp] theorem bind_rtfail {α β : Type} (f : α → Res β) : ((Res.rtfail : Res α) >>= f) = Res.rtfail := rfl
@[simp] theorem bind_oof {α β : Type} (f : α → Res β) : ((Res.oof : Res α) >>= f) = Res.oof := rfl
@[simp] theorem bind_stuck {α β : Type} (f : α → Res β) : ((Res.stuck : Res α) >>= f) = Res.stuck := rfl
@[simp] theorem bind_offguard {α β : Type} (f : α → Res β) : ((Res.offguard : Res α) >>= f) = Res.offguard := rfl
@[simp] theorem pure_eq {α : Type} (a : α) : (pure a : Res α) = Res.ok a := rfl
end Res

@[simp] theorem map'_ok {α β : Type} (f : α → β) (a : α) : (Res.ok a).map' f = .ok (f a) := rfl
@[simp] theorem map'_failed {α β : Type} (f : α → β) (v : Val) : (Res.failed v : Res α).map' f = .failed v := rfl
@[simp] theorem map'_rtfail {α β : Type} (f : α → β) : (Res.rtfail : Res α).map' f = .rtfail := rfl
@[simp] theorem map'_oof {α β : Type} (f : α → β) : (Res.oof : Res α).map' f = .oof := rfl
@[simp] theorem map'_stuck {α β : Type} (f : α → β) : (Res.stuck : Res α).map' f = .stuck := rfl
@[simp] theorem map'_offguard {α β : Type} (f : α → β) : (Res.offguard : Res α).map' f = .offguard := rfl
@[simp] theorem rbind_ok {α β : Type} (a : α) (f : α → Res β) : (Res.ok a).bind f = f a := rfl
@[simp] theorem rbind_failed {α β : Type} (v : Val) (f : α → Res β) : (Res.failed v : Res α).bind f = .failed v := rfl
@[simp] theorem rbind_rtfail {α β : Type} (f : α → Res β) : (Res.rtfail : Res α).bind f = .rtfail := rfl
@[simp] theorem rbind_oof {α β : Type} (f : α → Res β) : (Res.oof : Res α).bind f = .oof := rfl
@[simp] theorem rbind_stuck {α β : Type} (f : α → Res β) : (Res.stuck : Res α).bind f = .stuck := rfl
@[simp] theorem rbind_offguard {α β : Type} (f : α → Res β) : (Res.offguard : Res α).bind f = .offguard := rfl

/-- a sub-evaluation that is not stuck / not outside the guard, given that the whole evaluation is not -/
theorem bind_ne_stuck {α β : Type} {r : Res α} {f : α → Res β} (h : r.bind f ≠ .stuck) : r ≠ .stuck := by
  intro e; subst e; exact h rfl
theorem bind_ne_offguard {α β : Type} {r : Res α} {f : α → Res β} (h : r.bind f ≠ .offguard) : r ≠ .offguard := by
  intro e; subst e; exact h rfl

/-- the runtime type of a value = its class in pytezos (`type(item)`), annotations dropped -/
def typeOf : Val → Ty
  | .unit => .unit
  | .bool _ => .bool
  | .num t _ => t
  | .str _ => .string
  | .bytes _ => .bytes
  | .atom t _ => t
  | .pair a b => .pair (typeOf a) (typeOf b)
  | .some v => .option (typeOf v)
  | .none t => .option t
  | .left v tr => .or (typeOf v) tr
  | .right tl v => .or tl (typeOf v)
  | .list t _ => .list t
  | .map k v _ => .map k v
  | .set t _ => .set t
  | .lam a b _ => .lambda a b
  | .contract t _ => .contract t
  | .opTransfer .. | .opDelegate .. | .opEmit .. => .operation
  | .bigMap k v _ => .bigMap k v

/-! Address texts: `KT1…` / `tz1…`, optionally followed by `%entrypoint` (37 = `%`); no entrypoint means `default`. -/
def defaultEp : List Nat := [100, 101, 102, 97, 117, 108, 116]      -- "default"

/-- the address part of an address text (up to the first `%`) -/
def addrOf (s : List Nat) : List Nat := s.takeWhile (· != 37)

/-- the entrypoint an address text names (`default` when there is none) -/
def epOf (s : List Nat) : List Nat :=
  match s.dropWhile (· != 37) with
  | [] => defaultEp
  | _ :: e => if e = [] then defaultEp else e

/-- the text of address `a` with entrypoint `e` (`%default` is not written) -/
def mkAddr (a e : List Nat) : List Nat := if e = defaultEp then a else a ++ 37 :: e

/-- an implicit account: the address text starts with `tz` -/
def isImplicit (a : List Nat) : Bool := a.take 2 == [116, 122]

end Interp
