import PytezosModel.Michelson.Interp.Syntax
/-! Static typing of the modelled core (annotation-free Michelson typing rules, written from the reference).
`typeInstr i S = some (.ok S')`: `i` maps stacks of type `S` to stacks of type `S'`;
`some .failed`: `i` always fails (FAILWITH in tail position); `none`: ill-typed. -/
namespace Interp

inductive TRes where
  | ok (st : List Ty)
  | failed
  deriving DecidableEq, Repr

namespace Typing

def addTy : Ty → Ty → Option Ty
  | .nat, .nat => some .nat
  | .nat, .int | .int, .nat | .int, .int => some .int
  | .timestamp, .int | .int, .timestamp => some .timestamp
  | .mutez, .mutez => some .mutez
  | _, _ => none

def subTy : Ty → Ty → Option Ty
  | .nat, .nat | .nat, .int | .int, .nat | .int, .int => some .int
  | .timestamp, .int => some .timestamp
  | .timestamp, .timestamp => some .int
  | .mutez, .mutez => some .mutez
  | _, _ => none

def mulTy : Ty → Ty → Option Ty
  | .nat, .nat => some .nat
  | .nat, .int | .int, .nat | .int, .int => some .int
  | .mutez, .nat | .nat, .mutez => some .mutez
  | _, _ => none

def edivTy : Ty → Ty → Option (Ty × Ty)
  | .nat, .nat => some (.nat, .nat)
  | .nat, .int | .int, .nat | .int, .int => some (.int, .nat)
  | .mutez, .nat => some (.mutez, .mutez)
  | .mutez, .mutez => some (.nat, .mutez)
  | _, _ => none

def andTy : Ty → Ty → Option Ty
  | .bool, .bool => some .bool
  | .nat, .nat | .int, .nat | .nat, .int => some .nat
  | _, _ => none

/-- OR and XOR -/
def orTy : Ty → Ty → Option Ty
  | .bool, .bool => some .bool
  | .nat, .nat => some .nat
  | _, _ => none

def shiftTy : Ty → Ty → Option Ty
  | .nat, .nat => some .nat
  | _, _ => none

def subMutezTy : Ty → Ty → Option Ty
  | .mutez, .mutez => some (.option .mutez)
  | _, _ => none

def edivResTy (a b : Ty) : Option Ty := (edivTy a b).map fun p => .option (.pair p.1 p.2)

/-- types on which the modelled COMPARE is defined -/
def simpleComparable : Ty → Bool
  | .int | .nat | .mutez | .timestamp | .string | .bytes | .bool | .unit => true
  | _ => false

/-- `PAIR n`: the right-comb type of the top `n` slots -/
def pairNTy : Nat → List Ty → Option (Ty × List Ty)
  | 2, a :: b :: s => some (.pair a b, s)
  | n + 3, a :: s => (pairNTy (n + 2) s).map fun p => (.pair a p.1, p.2)
  | _, _ => none

def unpairNTy : Nat → Ty → Option (List Ty)
  | 2, .pair a b => some [a, b]
  | n + 3, .pair a b => (unpairNTy (n + 2) b).map (a :: ·)
  | _, _ => none

def getNTy : Nat → Ty → Option Ty
  | 0, t => some t
  | 1, .pair a _ => some a
  | n + 2, .pair _ b => getNTy n b
  | _, _ => none

def updateNTy : Nat → Ty → Ty → Option Ty
  | 0, e, _ => some e
  | 1, e, .pair _ b => some (.pair e b)
  | n + 2, e, .pair a b => (updateNTy n e b).map (.pair a)
  | _, _, _ => none

/-- lexicographic order on strings / byte sequences -/
def lexLt : List Nat → List Nat → Bool
  | [], [] => false
  | [], _ :: _ => true
  | _ :: _, [] => false
  | a :: as, b :: bs => a < b || (a == b && lexLt as bs)

/-- `v` is a value of the simple comparable type `k` -/
def isKey : Ty → Val → Bool
  | .int, .num .int _ | .nat, .num .nat _ | .mutez, .num .mutez _ | .timestamp, .num .timestamp _ => true
  | .string, .str _ | .bytes, .bytes _ | .bool, .bool _ | .unit, .unit => true
  | _, _ => false

/-- the total order of the simple comparable types: numbers by value, strings and bytes lexicographically,
`False < True` (the full order, on pairs / options / unions / addresses …, is property C03) -/
def keyLt : Val → Val → Bool
  | .num _ a, .num _ b => decide (a < b)
  | .str a, .str b => lexLt a b
  | .bytes a, .bytes b => lexLt a b
  | .bool a, .bool b => !a && b
  | _, _ => false

/-- strictly ascending (every element below all later ones) -/
def strictSorted : List Val → Bool
  | [] => true
  | a :: rest => rest.all (keyLt a) && strictSorted rest

/-- key of a map binding (`Pair key value`) -/
def keyOf : Val → Val
  | .pair k _ => k
  | v => v

def isBinding (k : Ty) : Val → Bool
  | .pair a _ => isKey k a
  | _ => false

/-- a set of simple comparable elements, strictly ascending -/
def goodSet (t : Ty) (xs : List Val) : Bool := simpleComparable t && xs.all (isKey t) && strictSorted xs

/-- a map with simple comparable keys: bindings in strictly ascending key order -/
def goodMap (k : Ty) (items : List Val) : Bool :=
  simpleComparable k && items.all (isBinding k) && strictSorted (items.map keyOf)

mutual
  /-- every set / map literal inside `v` respects the strict ordering of its keys (maps with composite key types, on which
  the modelled order is not defined, are taken as given) -/
  def litOk : Val → Bool
    | .pair a b => litOk a && litOk b
    | .some v => litOk v
    | .left v _ => litOk v
    | .right _ v => litOk v
    | .list _ xs => litOks xs
    | .set t xs => goodSet t xs && litOks xs
    | .map k _ xs => (!simpleComparable k || goodMap k xs) && litOks xs
    | .bigMap k _ xs => (!simpleComparable k || goodMap k xs) && litOks xs
    | .lam _ _ body => literalsOk body
    | _ => true
  def litOks : List Val → Bool
    | [] => true
    | x :: xs => litOk x && litOks xs
  /-- **literals of a program**: every `PUSH`ed value (also inside lambdas and sub-programs) is a well-formed literal.
  Together with `typeInstr` this is what "well-typed program" means for programs that contain set / map literals;
  it is a check of the program text only (values built at run time by `APPLY` are not literals). -/
  def literalsOk : Instr → Bool
    | .seq is => literalsOks is
    | .PUSH _ v => litOk v
    | .LAMBDA _ _ b | .DIP b | .DIPN _ b | .LOOP b | .LOOP_LEFT b | .ITER b | .MAP b => literalsOk b
    | .IF a b | .IF_NONE a b | .IF_LEFT a b | .IF_CONS a b => literalsOk a && literalsOk b
    | _ => true
  def literalsOks : List Instr → Bool
    | [] => true
    | i :: is => literalsOk i && literalsOks is
end

/-- MEM: key, then a set or a map with that (simple comparable) key type -/
def memTy : Ty → Ty → Option Ty
  | k, .set t => if k = t ∧ simpleComparable t then some .bool else none
  | k, .map k' _ => if k = k' ∧ simpleComparable k' then some .bool else none
  | _, _ => none

def getTy : Ty → Ty → Option Ty
  | k, .map k' v => if k = k' ∧ simpleComparable k' then some (.option v) else none
  | _, _ => none

/-- UPDATE: `key : bool : set key` or `key : option value : map key value` -/
def updateTy : Ty → Ty → Ty → Option Ty
  | k, .bool, .set t => if k = t ∧ simpleComparable t then some (.set t) else none
  | k, .option v', .map k' v => if k = k' ∧ v' = v ∧ simpleComparable k' then some (.map k' v) else none
  | _, _, _ => none

/-! Big maps: MEM / GET / UPDATE / GET_AND_UPDATE are typed on `big_map k v` as on `map k v`. -/
def memTyB : Ty → Ty → Option Ty
  | k, .bigMap k' _ => if k = k' ∧ simpleComparable k' then some .bool else none
  | k, m => memTy k m

def getTyB : Ty → Ty → Option Ty
  | k, .bigMap k' v => if k = k' ∧ simpleComparable k' then some (.option v) else none
  | k, m => getTy k m

def updateTyB : Ty → Ty → Ty → Option Ty
  | k, .option v', .bigMap k' v => if k = k' ∧ v' = v ∧ simpleComparable k' then some (.bigMap k' v) else none
  | k, o, m => updateTy k o m

/-- the value type of a big map holds no big map and no operation -/
def bigMapValue : Ty → Bool
  | .bigMap _ _ | .operation => false
  | .contract _ | .lambda _ _ => true
  | .option t | .list t | .set t => bigMapValue t
  | .or a b | .pair a b | .map a b => bigMapValue a && bigMapValue b
  | _ => true

/-- the types a `PUSH` can carry: no big map, no contract handle, no operation (inside a `lambda` type they are allowed) -/
def pushable : Ty → Bool
  | .bigMap _ _ | .operation | .contract _ => false
  | .lambda _ _ => true
  | .option t | .list t | .set t => pushable t
  | .or a b | .pair a b | .map a b => pushable a && pushable b
  | _ => true

/-- join of two branch results -/
def join : TRes → TRes → Option TRes
  | .failed, r => some r
  | r, .failed => some r
  | .ok a, .ok b => if a = b then some (.ok a) else none

def natTy : Ty → Option Ty
  | .bytes => some .nat
  | _ => none

def bytesTy : Ty → Option Ty
  | .nat | .int => some .bytes
  | _ => none

def votingPowerTy : Ty → Option Ty
  | .keyHash => some .nat
  | _ => none

def hashKeyTy : Ty → Option Ty
  | .key => some .keyHash
  | _ => none

def addressTy : Ty → Option Ty
  | .contract _ => some .address
  | _ => none

def implicitAccountTy : Ty → Option Ty
  | .keyHash => some (.contract .unit)
  | _ => none

def contractTy (t : Ty) : Ty → Option Ty
  | .address => some (.option (.contract t))
  | _ => none

def setDelegateTy : Ty → Option Ty
  | .option .keyHash => some .operation
  | _ => none

def emitTy (t : Ty) (a : Ty) : Option Ty := if a = t then some .operation else none

/-- the packable types of the model: the plain data classes (numbers, strings, bytes, unit, bool and pairs / options /
unions / lists / sets / maps of them); addresses, keys, lambdas, contract handles have a packed form too, but it needs
Base58 decoding / code serialization: outside the model -/
def packable : Ty → Bool
  | .unit | .bool | .int | .nat | .mutez | .timestamp | .string | .bytes => true
  | .option t | .list t | .set t => packable t
  | .or a b | .pair a b | .map a b => packable a && packable b
  | _ => false

def packTy (a : Ty) : Option Ty := if packable a then some .bytes else none

/-- the types `UNPACK` is modelled for: the packable types of the model whose sets and maps have *simple* comparable keys (the
order of the other comparable types is property C03's subject; a set / map literal has to be checked for strictly ascending
keys when it is read) -/
def unpackable : Ty → Bool
  | .unit | .bool | .int | .nat | .mutez | .timestamp | .string | .bytes => true
  | .option t | .list t => unpackable t
  | .set t => simpleComparable t
  | .or a b | .pair a b => unpackable a && unpackable b
  | .map k v => simpleComparable k && unpackable v
  | _ => false

/-- `UNPACK t :: bytes : S ⇒ option t : S` -/
def unpackTy (t : Ty) (a : Ty) : Option Ty := if a = .bytes ∧ unpackable t = true then some (.option t) else none

/-- extension 2, the rules of the form `i :: a : S ⇒ r : S`: result type for the operand type -/
def unTy (i : Instr) (a : Ty) : Option Ty :=
  match i with
  | .NAT => natTy a
  | .BYTES => bytesTy a
  | .VOTING_POWER => votingPowerTy a
  | .HASH_KEY => hashKeyTy a
  | .ADDRESS => addressTy a
  | .IMPLICIT_ACCOUNT => implicitAccountTy a
  | .CONTRACT t _ => contractTy t a
  | .SET_DELEGATE => setDelegateTy a
  | .EMIT _ t => emitTy t a
  | .PACK => packTy a
  | .UNPACK t => unpackTy t a
  | _ => none

/-- TRANSFER_TOKENS: `p : mutez : contract p : S ⇒ operation : S` -/
def transferTokensTy : Ty → Ty → Ty → Option Ty
  | p, .mutez, .contract t => if p = t then some .operation else none
  | _, _, _ => none

/-- CHECK_SIGNATURE: `key : signature : bytes : S ⇒ bool : S` -/
def checkSignatureTy : Ty → Ty → Ty → Option Ty
  | .key, .signature, .bytes => some .bool
  | _, _, _ => none

/-- the rules of extension 2 -/
def stepExt : Instr → List Ty → Option TRes
  | .NEVER, .never :: _ => some .failed      -- `NEVER :: never : A ⇒ B` for every `B`: like FAILWITH, nothing follows
  | .SELF _ t, s => some (.ok (.contract t :: s))      -- `t`: the type of that entrypoint of the contract's parameter
  | .TRANSFER_TOKENS, a :: b :: c :: s => (transferTokensTy a b c).map fun t => .ok (t :: s)
  | .TRANSFER_TOKENS, _ => none
  | .CHECK_SIGNATURE, a :: b :: c :: s => (checkSignatureTy a b c).map fun t => .ok (t :: s)
  | .CHECK_SIGNATURE, _ => none
  -- `EMPTY_BIG_MAP k v`: a (simple) comparable key type, a value type without big maps and operations
  | .EMPTY_BIG_MAP k v, s => if simpleComparable k && bigMapValue v then some (.ok (.bigMap k v :: s)) else none
  | i, a :: s => (unTy i a).map fun t => .ok (t :: s)
  | _, [] => none

def stepMore : Instr → List Ty → Option TRes
  | .TOTAL_VOTING_POWER, s | .MIN_BLOCK_TIME, s => some (.ok (.nat :: s))
  | .BLAKE2B, .bytes :: s | .SHA256, .bytes :: s | .SHA512, .bytes :: s | .KECCAK, .bytes :: s | .SHA3, .bytes :: s =>
    some (.ok (.bytes :: s))
  | .CAST t, a :: s => if a = t then some (.ok (a :: s)) else none
  | .RENAME, a :: s => some (.ok (a :: s))
  | i, s => stepExt i s

def step : Instr → List Ty → Option TRes
  | .DROP, _ :: s => some (.ok s)
  | .DROPN n, s => if n ≤ s.length then some (.ok (s.drop n)) else none
  | .DUP, t :: s => some (.ok (t :: t :: s))
  | .DUPN n, s => if n = 0 then none else (s[n - 1]?).map fun t => .ok (t :: s)
  | .SWAP, a :: b :: s => some (.ok (b :: a :: s))
  | .DIG n, s => (s[n]?).map fun t => .ok (t :: (s.take n ++ s.drop (n + 1)))
  | .DUG n, t :: s => if n ≤ s.length then some (.ok (s.take n ++ t :: s.drop n)) else none
  | .APPLY, a :: .lambda (.pair a' b) c :: s => if a = a' ∧ pushable a = true then some (.ok (.lambda b c :: s)) else none
  | .FAILWITH, _ :: _ => some .failed
  | .UNIT, s => some (.ok (.unit :: s))
  | .PAIR, a :: b :: s => some (.ok (.pair a b :: s))
  | .UNPAIR, .pair a b :: s => some (.ok (a :: b :: s))
  | .PAIRN n, s => (pairNTy n s).map fun p => .ok (p.1 :: p.2)
  | .UNPAIRN n, t :: s => (unpairNTy n t).map fun ts => .ok (ts ++ s)
  | .GETN n, t :: s => (getNTy n t).map fun r => .ok (r :: s)
  | .UPDATEN n, e :: t :: s => (updateNTy n e t).map fun r => .ok (r :: s)
  | .CAR, .pair a _ :: s => some (.ok (a :: s))
  | .CDR, .pair _ b :: s => some (.ok (b :: s))
  | .SOME, a :: s => some (.ok (.option a :: s))
  | .NONE t, s => some (.ok (.option t :: s))
  | .LEFT t, a :: s => some (.ok (.or a t :: s))
  | .RIGHT t, a :: s => some (.ok (.or t a :: s))
  | .NIL t, s => some (.ok (.list t :: s))
  | .CONS, a :: .list t :: s => if a = t then some (.ok (.list t :: s)) else none
  | .EMPTY_MAP k v, s => some (.ok (.map k v :: s))
  | .EMPTY_SET t, s => if simpleComparable t then some (.ok (.set t :: s)) else none
  | .SIZE, .set _ :: s => some (.ok (.nat :: s))
  | .MEM, a :: b :: s => (memTyB a b).map fun t => .ok (t :: s)
  | .GET, a :: b :: s => (getTyB a b).map fun t => .ok (t :: s)
  | .UPDATE, a :: b :: c :: s => (updateTyB a b c).map fun t => .ok (t :: s)
  | .GET_AND_UPDATE, a :: b :: c :: s => (updateTyB a b c).bind fun t => (getTyB a t).map fun o => .ok (o :: t :: s)
  | .SIZE, .string :: s | .SIZE, .bytes :: s | .SIZE, .list _ :: s | .SIZE, .map _ _ :: s => some (.ok (.nat :: s))
  | .ADD, a :: b :: s => (addTy a b).map fun t => .ok (t :: s)
  | .SUB, a :: b :: s => (subTy a b).map fun t => .ok (t :: s)
  | .MUL, a :: b :: s => (mulTy a b).map fun t => .ok (t :: s)
  | .EDIV, a :: b :: s => (edivResTy a b).map fun t => .ok (t :: s)
  | .LSL, a :: b :: s | .LSR, a :: b :: s => (shiftTy a b).map fun t => .ok (t :: s)
  | .SUB_MUTEZ, a :: b :: s => (subMutezTy a b).map fun t => .ok (t :: s)
  | .NEG, .int :: s | .NEG, .nat :: s => some (.ok (.int :: s))
  | .ABS, .int :: s => some (.ok (.nat :: s))
  | .ISNAT, .int :: s => some (.ok (.option .nat :: s))
  | .INT, .nat :: s => some (.ok (.int :: s))
  | .INT, .bytes :: s => some (.ok (.int :: s))
  | .COMPARE, a :: b :: s => if a = b ∧ simpleComparable a then some (.ok (.int :: s)) else none
  | .EQ, .int :: s | .NEQ, .int :: s | .LT, .int :: s | .GT, .int :: s | .LE, .int :: s | .GE, .int :: s =>
    some (.ok (.bool :: s))
  | .NOT, .bool :: s => some (.ok (.bool :: s))
  | .NOT, .nat :: s | .NOT, .int :: s => some (.ok (.int :: s))
  | .AND, a :: b :: s => (andTy a b).map fun t => .ok (t :: s)
  | .OR, a :: b :: s | .XOR, a :: b :: s => (orTy a b).map fun t => .ok (t :: s)
  | .CONCAT, .string :: .string :: s => some (.ok (.string :: s))
  | .CONCAT, .bytes :: .bytes :: s => some (.ok (.bytes :: s))
  | .CONCAT, .list .string :: s => some (.ok (.string :: s))
  | .CONCAT, .list .bytes :: s => some (.ok (.bytes :: s))
  | .SLICE, .nat :: .nat :: .string :: s => some (.ok (.option .string :: s))
  | .SLICE, .nat :: .nat :: .bytes :: s => some (.ok (.option .bytes :: s))
  | .AMOUNT, s | .BALANCE, s => some (.ok (.mutez :: s))
  | .SENDER, s | .SOURCE, s | .SELF_ADDRESS, s => some (.ok (.address :: s))
  | .NOW, s => some (.ok (.timestamp :: s))
  | .LEVEL, s => some (.ok (.nat :: s))
  | .CHAIN_ID, s => some (.ok (.chainId :: s))
  | i, s => stepMore i s

mutual
  /-- `strictMap`: additionally require MAP bodies to preserve the element type -/
  def typeInstr (strictMap : Bool) : Instr → List Ty → Option TRes
    | .seq is, s => typeSeq strictMap is s
    | .PUSH t v, s => if pushable t && checkVal strictMap v t then some (.ok (t :: s)) else none
    | .LAMBDA a b body, s =>
      match typeInstr strictMap body [a] with
      | some (.ok [b']) => if b' = b then some (.ok (.lambda a b :: s)) else none
      | some .failed => some (.ok (.lambda a b :: s))
      | _ => none
    | .DIP body, t :: s =>
      match typeInstr strictMap body s with
      | some (.ok s') => some (.ok (t :: s'))
      | _ => none
    | .DIPN n body, s =>
      if n ≤ s.length then
        match typeInstr strictMap body (s.drop n) with
        | some (.ok s') => some (.ok (s.take n ++ s'))
        | _ => none
      else none
    | .IF bt bf, .bool :: s =>
      match typeInstr strictMap bt s, typeInstr strictMap bf s with
      | some a, some b => join a b
      | _, _ => none
    | .IF_NONE bn bs, .option t :: s =>
      match typeInstr strictMap bn s, typeInstr strictMap bs (t :: s) with
      | some a, some b => join a b
      | _, _ => none
    | .IF_LEFT bl br, .or l r :: s =>
      match typeInstr strictMap bl (l :: s), typeInstr strictMap br (r :: s) with
      | some a, some b => join a b
      | _, _ => none
    | .IF_CONS bc bn, .list t :: s =>
      match typeInstr strictMap bc (t :: .list t :: s), typeInstr strictMap bn s with
      | some a, some b => join a b
      | _, _ => none
    | .LOOP body, .bool :: s =>
      match typeInstr strictMap body s with
      | some (.ok s') => if s' = .bool :: s then some (.ok s) else none
      | some .failed => some (.ok s)
      | none => none
    | .LOOP_LEFT body, .or l r :: s =>
      match typeInstr strictMap body (l :: s) with
      | some (.ok s') => if s' = .or l r :: s then some (.ok (r :: s)) else none
      | some .failed => some (.ok (r :: s))
      | none => none
    | .ITER body, .list t :: s =>
      match typeInstr strictMap body (t :: s) with
      | some (.ok s') => if s' = s then some (.ok s) else none
      | some .failed => some (.ok s)
      | none => none
    | .ITER body, .set t :: s =>
      match typeInstr strictMap body (t :: s) with
      | some (.ok s') => if s' = s then some (.ok s) else none
      | some .failed => some (.ok s)
      | none => none
    | .ITER body, .map k v :: s =>
      match typeInstr strictMap body (.pair k v :: s) with
      | some (.ok s') => if s' = s then some (.ok s) else none
      | some .failed => some (.ok s)
      | none => none
    | .MAP body, .list t :: s =>
      match typeInstr strictMap body (t :: s) with
      | some (.ok (t' :: s')) => if s' = s ∧ (!strictMap || t' = t) then some (.ok (.list t' :: s)) else none
      | _ => none
    | .MAP body, .map k v :: s =>
      match typeInstr strictMap body (.pair k v :: s) with
      | some (.ok (v' :: s')) => if s' = s ∧ (!strictMap || v' = v) then some (.ok (.map k v' :: s)) else none
      | _ => none
    | .EXEC, a :: .lambda a' b :: s => if a = a' then some (.ok (b :: s)) else none
    | i, s => step i s
  def typeSeq (strictMap : Bool) : List Instr → List Ty → Option TRes
    | [], s => some (.ok s)
    | [i], s => typeInstr strictMap i s
    | i :: j :: is, s =>
      match typeInstr strictMap i s with
      | some (.ok s') => typeSeq strictMap (j :: is) s'
      | _ => none      -- FAILWITH is only allowed in tail position
  /-- `v` is a well-formed value of type `t` (deep: elements of collections, lambda bodies) -/
  def checkVal (strictMap : Bool) : Val → Ty → Bool
    | .unit, .unit => true
    | .bool _, .bool => true
    | .num .int _, .int => true
    | .num .timestamp _, .timestamp => true
    | .num .nat v, .nat => decide (0 ≤ v)
    | .num .mutez v, .mutez => decide (0 ≤ v ∧ v < 2 ^ 63)
    | .str _, .string => true
    | .bytes _, .bytes => true
    | .atom .address _, .address => true
    | .atom .chainId _, .chainId => true
    | .atom .keyHash _, .keyHash => true
    | .atom .key _, .key => true
    | .atom .signature _, .signature => true
    | .contract t' _, .contract t => t' = t
    | .opTransfer _ _ _ _ p pty, .operation => checkVal strictMap p pty
    | .opDelegate _ _, .operation => true
    | .opEmit _ _ t p, .operation => checkVal strictMap p t
    | .pair a b, .pair ta tb => checkVal strictMap a ta && checkVal strictMap b tb
    | .some v, .option t => checkVal strictMap v t
    | .none t', .option t => t' = t
    | .left v tr, .or l r => tr = r && checkVal strictMap v l
    | .right tl v, .or l r => tl = l && checkVal strictMap v r
    | .list t' xs, .list t => t' = t && checkVals strictMap xs t
    | .map k' v' xs, .map k v => k' = k && v' = v && checkVals strictMap xs (.pair k v)
    | .set t' xs, .set t => t' = t && checkVals strictMap xs t
    | .bigMap k' v' xs, .bigMap k v => k' = k && v' = v && checkVals strictMap xs (.pair k v)
    | .lam a' b' body, .lambda a b =>
      a' = a && b' = b &&
        (match typeInstr strictMap body [a] with
          | some (.ok [b'']) => b'' = b
          | some .failed => true
          | _ => false)
    | _, _ => false
  def checkVals (strictMap : Bool) : List Val → Ty → Bool
    | [], _ => true
    | x :: xs, t => checkVal strictMap x t && checkVals strictMap xs t
end

end Typing
end Interp
