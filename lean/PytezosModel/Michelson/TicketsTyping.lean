import PytezosModel.Michelson.Tickets
/-! C20 — a small static type checker for the instruction set of `Impl.Tickets` (the Michelson typing rules of the
fragment), used to replace the ghost guard `typedStores` of the conservation theorem by a static hypothesis.

`tySeq c prog Γ = some (some Γ')`: the program maps a stack of types `Γ` (top first) to `Γ'`;
`some none`: it is well typed and always fails (FAILWITH; any stack type); `none`: ill typed.

The rules are the Michelson ones with ONE restriction, forced by an open defect of pytezos that C01 / C02 record
(`MAP-over-empty-collection-with-type-changing-body`): `MapInstruction.execute` returns the source collection unchanged
when it is empty, so the runtime class of the result of a type-changing MAP is not the type the Michelson rule assigns.
The checker therefore accepts `MAP` only when the body gives back the element type it received (`list a → list a`,
`map k v → map k v`); `C20.typed_map_rule_is_restricted` shows by evaluation that this is needed.

Runtime values are typed by their class: `v : t` iff `v.wt` (every container element has the declared class, map keys
have the key class and are distinct, tickets carry the class `ticket <class of contents>`) and `v.typeOf = t`. -/
namespace Impl.Tickets

mutual
  /-- deeply well typed (by class) runtime value -/
  def Val.wt : Val → Bool
    | .atom _ => true
    | .ticket cls _ ct _ => cls == .ticket ct.ty
    | .pair l r => l.wt && r.wt
    | .none _ => true
    | .some v => v.wt
    | .list t xs => Val.wtList t xs
    | .map _ k v keys vals _ => keys.length == vals.length && nodupB keys && keys.all (fun a => a.ty == k) && Val.wtList v vals
    | .left v _ => v.wt
    | .right _ v => v.wt
    | .set t xs => nodupB xs && xs.all (fun a => a.ty == t)
    | .lam .. => false          -- the checker does not cover lambdas (LAMBDA / EXEC / APPLY are rejected below)
  def Val.wtList (t : Ty) : List Val → Bool
    | [] => true
    | x :: xs => x.typeOf == t && x.wt && Val.wtList t xs
end

/-- result of checking: `none` = always fails (any stack type) -/
abbrev TyRes := Option (List Ty)

/-- two branches agree (a failing branch agrees with anything) -/
def joinRes : TyRes → TyRes → Option TyRes
  | none, r => some r
  | r, none => some r
  | some a, some b => if a == b then some (some a) else none

/-- a loop body must give back the invariant stack (or fail) -/
def loopOk (r : TyRes) (Γ : List Ty) : Bool :=
  match r with
  | none => true
  | some Δ => Δ == Γ

/-- the instructions that pop a fixed number of items and push their results -/
def tySimple (c : Cfg) (i : Instr) (Γ : List Ty) : Option (List Ty) :=
  match i with
  | .ticket =>
    match Γ with
    | a :: .nat :: Δ => if a.all c.nonCmp then some (.option (.ticket a) :: Δ) else none
    | _ => none
  | .readTicket =>
    match Γ with
    | .ticket a :: Δ => some (.pair .address (.pair a .nat) :: .ticket a :: Δ)
    | _ => none
  | .splitTicket =>
    match Γ with
    | .ticket a :: .pair .nat .nat :: Δ => some (.option (.pair (.ticket a) (.ticket a)) :: Δ)
    | _ => none
  | .joinTickets =>
    match Γ with
    | .pair (.ticket a) (.ticket b) :: Δ => if a == b then some (.option (.ticket a) :: Δ) else none
    | _ => none
  | .pair =>
    match Γ with
    | a :: b :: Δ => some (.pair a b :: Δ)
    | _ => none
  | .unpair =>
    match Γ with
    | .pair a b :: Δ => some (a :: b :: Δ)
    | _ => none
  | .car =>
    match Γ with
    | .pair a _ :: Δ => some (a :: Δ)
    | _ => none
  | .cdr =>
    match Γ with
    | .pair _ b :: Δ => some (b :: Δ)
    | _ => none
  | .some =>
    match Γ with
    | a :: Δ => some (.option a :: Δ)
    | _ => none
  | .none t => some (.option t :: Γ)
  | .nil t => some (.list t :: Γ)
  | .cons =>
    match Γ with
    | a :: .list b :: Δ => if a == b then some (.list a :: Δ) else none
    | _ => none
  | .swap =>
    match Γ with
    | a :: b :: Δ => some (b :: a :: Δ)
    | _ => none
  | .drop =>
    match Γ with
    | _ :: Δ => some Δ
    | _ => none
  | .push t v => if v.wt && v.typeOf == t then some (t :: Γ) else none     -- the literal is checked against the type
  | .emptyMap k v => some (.map k v :: Γ)
  | .emptyBigMap k v => some (.bigMap k v :: Γ)
  | .get =>
    match Γ with
    | key :: .map k v :: Δ => if key == k then some (.option v :: Δ) else none
    | key :: .bigMap k v :: Δ => if key == k then some (.option v :: Δ) else none
    | _ => none
  | .getAndUpdate =>
    match Γ with
    | key :: val :: .map k v :: Δ => if key == k && val == .option v then some (.option v :: .map k v :: Δ) else none
    | key :: val :: .bigMap k v :: Δ => if key == k && val == .option v then some (.option v :: .bigMap k v :: Δ) else none
    | _ => none
  | .update =>
    match Γ with
    | key :: val :: .map k v :: Δ => if key == k && val == .option v then some (.map k v :: Δ) else none
    | key :: val :: .bigMap k v :: Δ => if key == k && val == .option v then some (.bigMap k v :: Δ) else none
    | key :: .bool :: .set t :: Δ => if key == t then some (.set t :: Δ) else none
    | _ => none
  | .left t =>
    match Γ with
    | a :: Δ => some (.or a t :: Δ)
    | _ => none
  | .right t =>
    match Γ with
    | a :: Δ => some (.or t a :: Δ)
    | _ => none
  | .emptySet t => some (.set t :: Γ)
  | .mem =>
    match Γ with
    | key :: .set t :: Δ => if key == t then some (.bool :: Δ) else none
    | key :: .map k _ :: Δ => if key == k then some (.bool :: Δ) else none
    | key :: .bigMap k _ :: Δ => if key == k then some (.bool :: Δ) else none
    | _ => none
  | _ => none

/-- DIG n -/
def tyDig (n : Nat) (Γ : List Ty) : Option (List Ty) :=
  match Γ.drop n with
  | t :: rest => some (t :: (Γ.take n ++ rest))
  | [] => none

/-- DUG n -/
def tyDug (n : Nat) (Γ : List Ty) : Option (List Ty) :=
  match Γ with
  | t :: rest => if n ≤ rest.length then some (rest.take n ++ t :: rest.drop n) else none
  | [] => none

mutual
  def tyInstr (c : Cfg) : Instr → List Ty → Option TyRes
    | .dup, Γ =>
      match Γ with
      | a :: Δ => if a.all c.nonDup then some (some (a :: a :: Δ)) else none
      | [] => none
    | .dupN n, Γ =>
      if n == 0 then none else
        match Γ.drop (n - 1) with
        | a :: _ => if a.all c.nonDup then some (some (a :: Γ)) else none
        | [] => none
    | .dig n, Γ => (tyDig n Γ).map some
    | .dug n, Γ => (tyDug n Γ).map some
    | .dip body, Γ =>
      match Γ with
      | a :: Δ =>
        match tySeq c body Δ with
        | some (some Δ') => some (some (a :: Δ'))
        | r => r
      | [] => none
    | .dipN n body, Γ =>
      if Γ.length < n then none else
        match tySeq c body (Γ.drop n) with
        | some (some Δ') => some (some (Γ.take n ++ Δ'))
        | r => r
    | .seq body, Γ => tySeq c body Γ
    | .ifNone bt bf, Γ =>
      match Γ with
      | .option a :: Δ =>
        match tySeq c bt Δ, tySeq c bf (a :: Δ) with
        | some r1, some r2 => joinRes r1 r2
        | _, _ => none
      | _ => none
    | .ifLeft bt bf, Γ =>
      match Γ with
      | .or a b :: Δ =>
        match tySeq c bt (a :: Δ), tySeq c bf (b :: Δ) with
        | some r1, some r2 => joinRes r1 r2
        | _, _ => none
      | _ => none
    | .iter body, Γ =>
      match Γ with
      | .list a :: Δ =>
        match tySeq c body (a :: Δ) with
        | some r => if loopOk r Δ then some (some Δ) else none
        | none => none
      | .set a :: Δ =>
        match tySeq c body (a :: Δ) with
        | some r => if loopOk r Δ then some (some Δ) else none
        | none => none
      | .map k v :: Δ =>
        match tySeq c body (.pair k v :: Δ) with
        | some r => if loopOk r Δ then some (some Δ) else none
        | none => none
      | _ => none
    | .map body, Γ =>
      match Γ with
      | .list a :: Δ =>
        match tySeq c body (a :: Δ) with
        | some r => if loopOk r (a :: Δ) then some (some (.list a :: Δ)) else none
        | none => none
      | .map k v :: Δ =>
        match tySeq c body (.pair k v :: Δ) with
        | some r => if loopOk r (v :: Δ) then some (some (.map k v :: Δ)) else none
        | none => none
      | _ => none
    | .failwith, Γ =>
      match Γ with
      | _ :: _ => some none
      | [] => none
    | i, Γ => (tySimple c i Γ).map some
  def tySeq (c : Cfg) : List Instr → List Ty → Option TyRes
    | [], Γ => some (some Γ)
    | i :: is, Γ =>
      match tyInstr c i Γ with
      | some (some Γ') => tySeq c is Γ'
      | r => r          -- ill typed, or failed (what follows FAILWITH is dead code)
end

/-- the static hypothesis: the start stack is well typed (by class) and the program type-checks against its types -/
def wellTyped (c : Cfg) (prog : List Instr) (items : List Val) : Bool :=
  items.all Val.wt && (tySeq c prog (items.map Val.typeOf)).isSome

/-- start state of a run: nothing protected, empty mint log -/
def State.start (items : List Val) (self : String) : State := { items := items, prot := 0, self := self }

end Impl.Tickets
