import PytezosModel.Michelson.ValueCodec
import PytezosModel.Michelson.CivilDate
/-! The concrete `Env` used by the C11 / C04 drivers (correspondence only — the theorems quantify over every lawful
`Env`).

* domain values: base58 text is replaced on the protocol line by the placeholder `#prefix:payloadhex:ephex`
  (the harness converts with the real library at the boundary; base58 is C09's business); the optimized bytes
  mirror `forge_contract` / `forge_address(tz_only)` / `forge_public_key` / `forge_base58` and the
  *length-dispatching* (repaired, C10) `unforge_*` at the structured level;
* timestamps: `Civil.fmtTimestamp` / `Civil.parseTimestamp` (`Michelson/CivilDate.lean`) — `format_timestamp` and
  `strict_rfc3339.rfc3339_to_timestamp` over proleptic-Gregorian civil-date arithmetic; the RFC 3339 law of
  `Env.Lawful` is a THEOREM for them (`Proofs/C11Civil.lean`: `Civil.parse_fmt`; `Proofs/C11Clock.lean`:
  `VC.Inst.clock_rt`); what stays sampled is that `datetime` / `strict_rfc3339` compute the same function;
* `check_constraints`: strictly increasing under the Michelson order of the simple comparable types (C03 owns the
  order; the harness only sends multi-element collections of key types on which the library agrees);
* lambda bodies: identity (the harness only sends bodies that `Micheline.match` re-renders unchanged). -/
namespace VC.Inst
open VC Core

def hexDigit (n : Nat) : Char := if n < 10 then Char.ofNat (48 + n) else Char.ofNat (87 + n)
def hexOf (bs : Bytes) : String := String.ofList (bs.flatMap fun b => [hexDigit (b / 16), hexDigit (b % 16)])

def unhexDigit (c : Char) : Option Nat :=
  if '0' ≤ c ∧ c ≤ '9' then some (c.toNat - 48)
  else if 'a' ≤ c ∧ c ≤ 'f' then some (c.toNat - 87)
  else none

def unhexAux : List Char → Option Bytes
  | [] => some []
  | [_] => none
  | a :: b :: rest => do
    let x ← unhexDigit a
    let y ← unhexDigit b
    let r ← unhexAux rest
    pure ((x * 16 + y) :: r)

def unhex (s : String) : Option Bytes := unhexAux s.toList

def kindName : DomKind → String
  | .address => "address" | .contract => "contract" | .keyHash => "key_hash" | .key => "key"
  | .signature => "signature" | .chainId => "chain_id" | .txrAddress => "txr"

/-- payload length by kind and tag (`none` = unknown tag).
address / contract: 0 tz1, 1 tz2, 2 tz3, 3 tz4, 4 KT1, 5 sr1; key_hash: 0–3; key: 0 edpk, 1 sppk, 2 p2pk, 3 BLpk;
signature: 0 edsig, 1 spsig, 2 p2sig, 3 sig, 4 BLsig; chain_id: 0 Net; tx_rollup_l2_address: 0 txr1 -/
def payloadLen : DomKind → Nat → Option Nat
  | .address, t => if t < 6 then some 20 else none
  | .contract, t => if t < 6 then some 20 else none
  | .keyHash, t => if t < 4 then some 20 else none
  | .txrAddress, t => if t = 0 then some 20 else none
  | .key, 0 => some 32 | .key, 1 => some 33 | .key, 2 => some 33 | .key, 3 => some 48 | .key, _ => none
  | .signature, t => if t < 4 then some 64 else if t = 4 then some 96 else none
  | .chainId, t => if t = 0 then some 4 else none

def hasEp : DomKind → Bool
  | .address | .contract | .txrAddress => true
  | _ => false

def defaultEp : Bytes := [100, 101, 102, 97, 117, 108, 116]

/-- the entrypoint bytes decode as UTF-8 (`data[22:].decode()`) -/
def utf8Ok (b : Bytes) : Bool := (String.fromUTF8? (ByteArray.mk (b.map UInt8.ofNat).toArray)).isSome

def valid (k : DomKind) (d : DomVal) : Bool :=
  payloadLen k d.tag == some d.payload.length && d.payload.all (· < 256) &&
    (if hasEp k then d.ep != defaultEp && d.ep.all (· < 256) && utf8Ok d.ep else d.ep.isEmpty)

/-- human prefixes by kind, in `tag` order -/
def prefixes : DomKind → List String
  | .address | .contract => ["tz1", "tz2", "tz3", "tz4", "KT1", "sr1"]
  | .keyHash => ["tz1", "tz2", "tz3", "tz4"]
  | .key => ["edpk", "sppk", "p2pk", "BLpk"]
  | .signature => ["edsig", "spsig", "p2sig", "sig", "BLsig"]
  | .chainId => ["Net"]
  | .txrAddress => ["txr1"]

/-- placeholder for the base58 text: `#<human prefix>:<payload hex>:<entrypoint hex>` -/
def text (k : DomKind) (d : DomVal) : String :=
  "#" ++ ((prefixes k)[d.tag]?).getD "?" ++ ":" ++ hexOf d.payload ++ ":" ++ hexOf d.ep

/-- `from_value` on the placeholder: the prefix must be one of the kind (`is_address`, `is_pkh`, …), `%default` is
stripped -/
def ofText (k : DomKind) (s : String) : Option DomVal :=
  match s.splitOn ":" with
  | [h, p, e] =>
    if h.startsWith "#" then do
      let tag ← (prefixes k).idxOf? (h.drop 1).toString
      let payload ← unhex p
      let ep ← unhex e
      let d : DomVal := { tag := tag, payload := payload, ep := if ep = defaultEp then [] else ep }
      if valid k d then some d else none
    else none
  | _ => none

/-- `forge_address` -/
def forgeAddress (tag : Nat) (payload : Bytes) : Bytes :=
  if tag < 4 then 0 :: tag :: payload
  else if tag = 4 then 1 :: payload ++ [0]
  else if tag = 5 then 3 :: payload ++ [0]
  else 2 :: payload ++ [0]          -- txr1 (tag 6 inside this function)

def bin (k : DomKind) (d : DomVal) : Bytes :=
  match k with
  | .address | .contract => forgeAddress d.tag d.payload ++ d.ep
  | .txrAddress => forgeAddress 6 d.payload ++ d.ep
  | .keyHash => d.tag :: d.payload
  | .key => d.tag :: d.payload
  | .signature | .chainId => d.payload

/-- `unforge_address` (repaired, C10: a 21-byte input is the key-hash form): tag in the numbering of `forgeAddress`
and the payload; the payload length is validated afterwards (`base58_encode`) -/
def unforgeAddress (b : Bytes) : Option (Nat × Bytes) :=
  let short : Option (Nat × Bytes) :=
    match b with
    | t :: rest => if t < 4 then some (t, rest) else none       -- `tz_prefixes[b'\x00' + data[:1]]`
    | [] => none
  if b.length = 21 then short
  else
    match b with
    | 0 :: t :: rest => if t < 4 then some (t, rest) else short
    | 1 :: rest => if rest.getLast? = some 0 then some (4, rest.dropLast) else short
    | 2 :: rest => if rest.getLast? = some 0 then some (6, rest.dropLast) else short
    | 3 :: rest => if rest.getLast? = some 0 then some (5, rest.dropLast) else short
    | _ => short

def ofBin (k : DomKind) (b : Bytes) : Option DomVal :=
  let chk (d : DomVal) : Option DomVal := if valid k d then some d else none
  match k with
  | .address | .contract | .txrAddress =>
    -- `unforge_contract`: address from the first 22 bytes, the rest is the entrypoint
    match unforgeAddress (b.take 22) with
    | some (t, payload) =>
      let ep := b.drop 22
      let ep := if ep = defaultEp then [] else ep
      if k = .txrAddress then (if t = 6 then chk { tag := 0, payload := payload, ep := ep } else none)
      else if t = 6 then none else chk { tag := t, payload := payload, ep := ep }
    | none => none
  | .keyHash =>
    match unforgeAddress b with
    | some (t, payload) => chk { tag := t, payload := payload }
    | none => none
  | .key =>
    match b with
    | t :: rest => chk { tag := t, payload := rest }
    | [] => none
  | .signature =>
    if b.length = 64 then chk { tag := genericSigTag, payload := b }
    else if b.length = 96 then chk { tag := blsSigTag, payload := b }
    else none
  | .chainId => chk { tag := 0, payload := b }

/-! ### timestamps -/

/-- `format_timestamp` (`Civil.fmtTimestamp`, proved in `Proofs/C11Civil.lean`); the year is zero-padded or not as the
translator read it from the source.  Outside 0001…9999 the Python function raises — that is `Impl.Value.raises`,
`Civil.fmtTimestamp_eq_none_iff` says the two coincide; the text is then never used -/
def fmtTs (t : Int) : String :=
  match Civil.fmtTimestamp (Generated.C11.yearPadded == some true) t with
  | some cs => String.ofList cs
  | none => ""

/-- `int(strict_rfc3339.rfc3339_to_timestamp(s))` (`Civil.parseTimestamp`) -/
def parseTs (s : String) : Option Int := Civil.parseTimestamp s.toList

/-! ### `check_constraints` -/

def ltBytes : Bytes → Bytes → Bool
  | [], [] => false
  | [], _ :: _ => true
  | _ :: _, [] => false
  | a :: as, b :: bs => a < b || (a == b && ltBytes as bs)

def cmpBytes : Bytes → Bytes → Ordering
  | [], [] => .eq
  | [], _ :: _ => .lt
  | _ :: _, [] => .gt
  | a :: as, b :: bs => if a < b then .lt else if b < a then .gt else cmpBytes as bs

/-- Michelson order on the simple comparable values (`none` = not covered by this instance) -/
def cmpVal : Val → Val → Option Ordering
  | .unit, .unit => some .eq
  | .bool a, .bool b => some (compare a b)
  | .int a, .int b => some (compare a b)
  | .timestamp a, .timestamp b => some (compare a b)
  | .str a, .str b => some (compare a b)
  | .bytes a, .bytes b => some (cmpBytes a b)
  | .none, .none => some .eq
  | .none, .some _ => some .lt
  | .some _, .none => some .gt
  | .some a, .some b => cmpVal a b
  | .left a, .left b => cmpVal a b
  | .left _, .right _ => some .lt
  | .right _, .left _ => some .gt
  | .right a, .right b => cmpVal a b
  | .pair _ a b, .pair _ c d =>
    match cmpVal a c with
    | some .eq => cmpVal b d
    | r => r
  | _, _ => none

def strictlySorted : List Val → Bool
  | [] => true
  | [_] => true
  | a :: b :: rest => cmpVal a b == some .lt && strictlySorted (b :: rest)

/-- any environment with the concrete clock of this file in place of its RFC 3339 parameters -/
def withCivilClock (env : Env) : Env := { env with fmtTs := fmtTs, parseTs := parseTs }

def env : Env where
  valid := valid
  text := text
  ofText := ofText
  bin := bin
  ofBin := ofBin
  fmtTs := fmtTs
  parseTs := parseTs
  keysOk := fun _ xs => strictlySorted xs
  normLambda := fun c => some c
  lambdaOk := fun _ => true

end VC.Inst
