import PytezosModel.Michelson.ValueCodec
/-! The concrete `Env` used by the C11 / C04 drivers (correspondence only — the theorems quantify over every lawful
`Env`).

* domain values: base58 text is replaced on the protocol line by the placeholder `#prefix:payloadhex:ephex`
  (the harness converts with the real library at the boundary; base58 is C09's business); the optimized bytes
  mirror `forge_contract` / `forge_address(tz_only)` / `forge_public_key` / `forge_base58` and the
  *length-dispatching* (repaired, C10) `unforge_*` at the structured level;
* timestamps: proleptic-Gregorian civil date arithmetic for `format_timestamp` / `strict_rfc3339` (cross-checked
  with `datetime` by the harness; not proved);
* `check_constraints`: strictly increasing under the Michelson order of the simple comparable types (C03 owns the
  order; the harness only sends multi-element collections of key types on which the library agrees);
* lambda bodies: identity (the harness only sends bodies that `Micheline.match` re-renders unchanged). -/
namespace VC.Inst
open VC Core

def hexDigit (n : Nat) : Char := if n < 10 then Char.ofNat (48 + n) else Char.ofNat (87 + n)
def hexOf (bs : Bytes) : String := String.ofList (bs.flatMap fun b => [hexDigit (b / 16), hexDigit (b % 16)])

def unhexDigit (c : Char) : Option Nat :=
  if '0' ≤ c ∧ c ≤ '9' then some (c.toNat - 48)
  else if 'a' ≤ c ∧ c ≤ 'f' then some (c.toNat - 87)
  else none

def unhexAux : List Char → Option Bytes
  | [] => some []
  | [_] => none
  | a :: b :: rest => do
    let x ← unhexDigit a
    let y ← unhexDigit b
    let r ← unhexAux rest
    pure ((x * 16 + y) :: r)

def unhex (s : String) : Option Bytes := unhexAux s.toList

def kindName : DomKind → String
  | .address => "address" | .contract => "contract" | .keyHash => "key_hash" | .key => "key"
  | .signature => "signature" | .chainId => "chain_id" | .txrAddress => "txr"

/-- payload length by kind and tag (`none` = unknown tag).
address / contract: 0 tz1, 1 tz2, 2 tz3, 3 tz4, 4 KT1, 5 sr1; key_hash: 0–3; key: 0 edpk, 1 sppk, 2 p2pk, 3 BLpk;
signature: 0 edsig, 1 spsig, 2 p2sig, 3 sig, 4 BLsig; chain_id: 0 Net; tx_rollup_l2_address: 0 txr1 -/
def payloadLen : DomKind → Nat → Option Nat
  | .address, t => if t < 6 then some 20 else none
  | .contract, t => if t < 6 then some 20 else none
  | .keyHash, t => if t < 4 then some 20 else none
  | .txrAddress, t => if t = 0 then some 20 else none
  | .key, 0 => some 32 | .key, 1 => some 33 | .key, 2 => some 33 | .key, 3 => some 48 | .key, _ => none
  | .signature, t => if t < 4 then some 64 else if t = 4 then some 96 else none
  | .chainId, t => if t = 0 then some 4 else none

def hasEp : DomKind → Bool
  | .address | .contract | .txrAddress => true
  | _ => false

def defaultEp : Bytes := [100, 101, 102, 97, 117, 108, 116]

/-- the entrypoint bytes decode as UTF-8 (`data[22:].decode()`) -/
def utf8Ok (b : Bytes) : Bool := (String.fromUTF8? (ByteArray.mk (b.map UInt8.ofNat).toArray)).isSome

def valid (k : DomKind) (d : DomVal) : Bool :=
  payloadLen k d.tag == some d.payload.length && d.payload.all (· < 256) &&
    (if hasEp k then d.ep != defaultEp && d.ep.all (· < 256) && utf8Ok d.ep else d.ep.isEmpty)

/-- human prefixes by kind, in `tag` order -/
def prefixes : DomKind → List String
  | .address | .contract => ["tz1", "tz2", "tz3", "tz4", "KT1", "sr1"]
  | .keyHash => ["tz1", "tz2", "tz3", "tz4"]
  | .key => ["edpk", "sppk", "p2pk", "BLpk"]
  | .signature => ["edsig", "spsig", "p2sig", "sig", "BLsig"]
  | .chainId => ["Net"]
  | .txrAddress => ["txr1"]

/-- placeholder for the base58 text: `#<human prefix>:<payload hex>:<entrypoint hex>` -/
def text (k : DomKind) (d : DomVal) : String :=
  "#" ++ ((prefixes k)[d.tag]?).getD "?" ++ ":" ++ hexOf d.payload ++ ":" ++ hexOf d.ep

/-- `from_value` on the placeholder: the prefix must be one of the kind (`is_address`, `is_pkh`, …), `%default` is
stripped -/
def ofText (k : DomKind) (s : String) : Option DomVal :=
  match s.splitOn ":" with
  | [h, p, e] =>
    if h.startsWith "#" then do
      let tag ← (prefixes k).idxOf? (h.drop 1).toString
      let payload ← unhex p
      let ep ← unhex e
      let d : DomVal := { tag := tag, payload := payload, ep := if ep = defaultEp then [] else ep }
      if valid k d then some d else none
    else none
  | _ => none

/-- `forge_address` -/
def forgeAddress (tag : Nat) (payload : Bytes) : Bytes :=
  if tag < 4 then 0 :: tag :: payload
  else if tag = 4 then 1 :: payload ++ [0]
  else if tag = 5 then 3 :: payload ++ [0]
  else 2 :: payload ++ [0]          -- txr1 (tag 6 inside this function)

def bin (k : DomKind) (d : DomVal) : Bytes :=
  match k with
  | .address | .contract => forgeAddress d.tag d.payload ++ d.ep
  | .txrAddress => forgeAddress 6 d.payload ++ d.ep
  | .keyHash => d.tag :: d.payload
  | .key => d.tag :: d.payload
  | .signature | .chainId => d.payload

/-- `unforge_address` (repaired, C10: a 21-byte input is the key-hash form): tag in the numbering of `forgeAddress`
and the payload; the payload length is validated afterwards (`base58_encode`) -/
def unforgeAddress (b : Bytes) : Option (Nat × Bytes) :=
  let short : Option (Nat × Bytes) :=
    match b with
    | t :: rest => if t < 4 then some (t, rest) else none       -- `tz_prefixes[b'\x00' + data[:1]]`
    | [] => none
  if b.length = 21 then short
  else
    match b with
    | 0 :: t :: rest => if t < 4 then some (t, rest) else short
    | 1 :: rest => if rest.getLast? = some 0 then some (4, rest.dropLast) else short
    | 2 :: rest => if rest.getLast? = some 0 then some (6, rest.dropLast) else short
    | 3 :: rest => if rest.getLast? = some 0 then some (5, rest.dropLast) else short
    | _ => short

def ofBin (k : DomKind) (b : Bytes) : Option DomVal :=
  let chk (d : DomVal) : Option DomVal := if valid k d then some d else none
  match k with
  | .address | .contract | .txrAddress =>
    -- `unforge_contract`: address from the first 22 bytes, the rest is the entrypoint
    match unforgeAddress (b.take 22) with
    | some (t, payload) =>
      let ep := b.drop 22
      let ep := if ep = defaultEp then [] else ep
      if k = .txrAddress then (if t = 6 then chk { tag := 0, payload := payload, ep := ep } else none)
      else if t = 6 then none else chk { tag := t, payload := payload, ep := ep }
    | none => none
  | .keyHash =>
    match unforgeAddress b with
    | some (t, payload) => chk { tag := t, payload := payload }
    | none => none
  | .key =>
    match b with
    | t :: rest => chk { tag := t, payload := rest }
    | [] => none
  | .signature =>
    if b.length = 64 then chk { tag := genericSigTag, payload := b }
    else if b.length = 96 then chk { tag := blsSigTag, payload := b }
    else none
  | .chainId => chk { tag := 0, payload := b }

/-! ### timestamps -/

/-- days since 1970-01-01 → (year, month, day), proleptic Gregorian (Hinnant's `civil_from_days`) -/
def civilFromDays (z : Int) : Int × Int × Int :=
  let z := z + 719468
  let era := z / 146097          -- `Int./` floors for a positive divisor
  let doe := z - era * 146097
  let yoe := (doe - doe / 1460 + doe / 36524 - doe / 146096) / 365
  let y := yoe + era * 400
  let doy := doe - (365 * yoe + yoe / 4 - yoe / 100)
  let mp := (5 * doy + 2) / 153
  let d := doy - (153 * mp + 2) / 5 + 1
  let m := if mp < 10 then mp + 3 else mp - 9
  (if m ≤ 2 then y + 1 else y, m, d)

def daysFromCivil (y m d : Int) : Int :=
  let y := if m ≤ 2 then y - 1 else y
  let era := y / 400
  let yoe := y - era * 400
  let mp := if m > 2 then m - 3 else m + 9
  let doy := (153 * mp + 2) / 5 + d - 1
  let doe := yoe * 365 + yoe / 4 - yoe / 100 + doy
  era * 146097 + doe - 719468

def pad (w : Nat) (n : Int) : String :=
  let s := toString n.toNat
  String.ofList (List.replicate (w - s.length) '0') ++ s

/-- `format_timestamp`: `%Y-%m-%dT%H:%M:%SZ`; glibc's `%Y` does not pad, the repaired code does -/
def fmtTs (t : Int) : String :=
  let days := t / 86400
  let secs := t % 86400
  let (y, m, d) := civilFromDays days
  let ys := if Generated.C11.yearPadded = some true then pad 4 y else toString y.toNat
  ys ++ "-" ++ pad 2 m ++ "-" ++ pad 2 d ++ "T" ++ pad 2 (secs / 3600) ++ ":" ++ pad 2 (secs % 3600 / 60) ++ ":"
    ++ pad 2 (secs % 60) ++ "Z"

def isLeap (y : Int) : Bool := (y % 4 = 0 && y % 100 ≠ 0) || y % 400 = 0

def monthLen (y m : Int) : Int :=
  if m = 2 then (if isLeap y then 29 else 28)
  else if m = 4 ∨ m = 6 ∨ m = 9 ∨ m = 11 then 30 else 31

def num (cs : List Char) : Option Int := (digitsToNat cs 0).map Int.ofNat

/-- `int(strict_rfc3339.rfc3339_to_timestamp(s))`:
`^(\d{4})-(\d\d)-(\d\d)T(\d\d):(\d\d):(\d\d)(\.\d+)?(Z|[+-]\d\d:\d\d)$`, year 1–9999, valid day, no leap second -/
def parseTs (s : String) : Option Int :=
  match s.toList with
  | y1 :: y2 :: y3 :: y4 :: '-' :: m1 :: m2 :: '-' :: d1 :: d2 :: 'T' :: h1 :: h2 :: ':' :: n1 :: n2 :: ':' :: s1 :: s2 :: rest => do
    let y ← num [y1, y2, y3, y4]
    let m ← num [m1, m2]
    let d ← num [d1, d2]
    let h ← num [h1, h2]
    let n ← num [n1, n2]
    let sec ← num [s1, s2]
    -- optional fraction `(\.\d+)?`
    let fr : Option (List Char × List Char) :=
      match rest with
      | '.' :: r =>
        let ds := r.takeWhile Char.isDigit
        if ds.isEmpty then none else some (ds, r.dropWhile Char.isDigit)
      | r => some ([], r)
    let (frac, rest) ← fr
    let off : Option Int :=
      match rest with
      | ['Z'] => some 0
      | [sg, a, b, ':', c, e] =>
        if sg = '+' ∨ sg = '-' then do
          let oh ← num [a, b]
          let om ← num [c, e]
          if oh ≤ 23 ∧ om ≤ 59 then some ((if sg = '-' then -1 else 1) * (oh * 3600 + om * 60)) else none
        else none
      | _ => none
    let off ← off
    if 1 ≤ y ∧ y ≤ 9999 ∧ 1 ≤ m ∧ m ≤ 12 ∧ 1 ≤ d ∧ d ≤ monthLen y m ∧ h ≤ 23 ∧ n ≤ 59 ∧ sec ≤ 59 then
      let total := daysFromCivil y m d * 86400 + h * 3600 + n * 60 + sec - off
      let fracNonZero := frac.any (· ≠ '0')
      -- `int(float)` truncates toward zero
      some (if fracNonZero && total < 0 then total + 1 else total)
    else none
  | _ => none

/-! ### `check_constraints` -/

def ltBytes : Bytes → Bytes → Bool
  | [], [] => false
  | [], _ :: _ => true
  | _ :: _, [] => false
  | a :: as, b :: bs => a < b || (a == b && ltBytes as bs)

def cmpBytes : Bytes → Bytes → Ordering
  | [], [] => .eq
  | [], _ :: _ => .lt
  | _ :: _, [] => .gt
  | a :: as, b :: bs => if a < b then .lt else if b < a then .gt else cmpBytes as bs

/-- Michelson order on the simple comparable values (`none` = not covered by this instance) -/
def cmpVal : Val → Val → Option Ordering
  | .unit, .unit => some .eq
  | .bool a, .bool b => some (compare a b)
  | .int a, .int b => some (compare a b)
  | .timestamp a, .timestamp b => some (compare a b)
  | .str a, .str b => some (compare a b)
  | .bytes a, .bytes b => some (cmpBytes a b)
  | .none, .none => some .eq
  | .none, .some _ => some .lt
  | .some _, .none => some .gt
  | .some a, .some b => cmpVal a b
  | .left a, .left b => cmpVal a b
  | .left _, .right _ => some .lt
  | .right _, .left _ => some .gt
  | .right a, .right b => cmpVal a b
  | .pair _ a b, .pair _ c d =>
    match cmpVal a c with
    | some .eq => cmpVal b d
    | r => r
  | _, _ => none

def strictlySorted : List Val → Bool
  | [] => true
  | [_] => true
  | a :: b :: rest => cmpVal a b == some .lt && strictlySorted (b :: rest)

def env : Env where
  valid := valid
  text := text
  ofText := ofText
  bin := bin
  ofBin := ofBin
  fmtTs := fmtTs
  parseTs := parseTs
  keysOk := fun _ xs => strictlySorted xs
  normLambda := fun c => some c
  lambdaOk := fun _ => true

end VC.Inst
