import PytezosModel.Generated.C16
/-! C16 — arithmetic, bitwise and numeric-conversion instructions.

* `PyNum.*`   — the CPython `int`/`bytes` operations the instructions call, *defined* from positional
                numerals (halving / base-256 digits), nothing assumed.
* `Impl.Arith.*` — literal mirror of `execute` of each instruction in `instructions/arithmetic.py`,
                `instructions/boolean.py` and of the `from_value` constructors of the numeric types.  It consumes the
                tables regenerated from the source (`Generated.C16`): dispatch maps, class hierarchy, `from_value`
                guards, the shift limit and the shape of every `execute` body.
* `Spec.Arith.*` — the Michelson reference semantics, written directly with integer arithmetic.
-/

namespace PyNum

/-- number of binary digits of `n` by repeated halving (`fuel = n` always suffices: `n < 2^n`) -/
def bitsAux : Nat → Nat → Nat
  | 0, _ => 0
  | f + 1, n => if n = 0 then 0 else bitsAux f (n / 2) + 1

/-- `int.bit_length()`: the number of bits of `|z|` -/
def bitLength (z : Int) : Nat := bitsAux z.natAbs z.natAbs

/-- `abs(z)` -/
def abs (z : Int) : Int := if z < 0 then -z else z

/-- `len` base-256 digits of `n`, most significant first (digits above `len` are dropped) -/
def toBytesBE : Nat → Nat → List Nat
  | 0, _ => []
  | k + 1, n => toBytesBE k (n / 256) ++ [n % 256]

/-- value of a big-endian base-256 digit string -/
def fromBytesBE (bs : List Nat) : Nat := bs.foldl (fun acc b => acc * 256 + b) 0

/-- `z.to_bytes(len, 'big', signed=signed)`; `none` = OverflowError.
(CPython accepts `(-1).to_bytes(0, 'big', signed=True) == b''`; the truncated `8*len-1` reproduces that.) -/
def toBytes (z : Int) (len : Nat) (signed : Bool) : Option (List Nat) :=
  if signed then
    if -(2 ^ (8 * len - 1) : Int) ≤ z ∧ z < 2 ^ (8 * len - 1) then some (toBytesBE len (z % 256 ^ len).toNat) else none
  else
    if 0 ≤ z ∧ z < 256 ^ len then some (toBytesBE len z.toNat) else none

/-- `int.from_bytes(bs, 'big', signed=signed)` -/
def fromBytes (bs : List Nat) (signed : Bool) : Int :=
  let n := fromBytesBE bs
  if signed ∧ bs ≠ [] ∧ 2 ^ (8 * bs.length - 1) ≤ n then (n : Int) - 2 ^ (8 * bs.length) else n

/-- `bs.lstrip(b'\x00')` -/
def lstrip0 (bs : List Nat) : List Nat := bs.dropWhile (· == 0)

/-- `divmod(a, b)` for `b ≠ 0`: floor division, remainder has the sign of `b` -/
def divmod (a b : Int) : Int × Int := (a.fdiv b, a.fmod b)

/-- `a << s` := `a * 2**s` (Python language reference) -/
def shl (a : Int) (s : Nat) : Int := a * 2 ^ s

/-- `a >> s` := floor division by `2**s` (Python language reference) -/
def shr (a : Int) (s : Nat) : Int := a.fdiv (2 ^ s)

/-- `~a` := `-(a+1)` (Python language reference) -/
def invert (a : Int) : Int := -(a + 1)

/-- Bitwise combination of two integers in two's complement with infinite sign extension, digit by digit:
the lowest bit is `z % 2`, the rest is `z / 2` (floor — `Int./` and `%` are floor/Euclidean for the positive
divisor 2); after `fuel` halvings only the sign (all zeros = `0`, all ones = `-1`) is left. -/
def bitop (f : Bool → Bool → Bool) : Nat → Int → Int → Int
  | 0, a, b => if f (decide (a < 0)) (decide (b < 0)) then -1 else 0
  | n + 1, a, b => 2 * bitop f n (a / 2) (b / 2) + (if f (decide (a % 2 = 1)) (decide (b % 2 = 1)) then 1 else 0)

def width (a b : Int) : Nat := max (bitLength a) (bitLength b)

/-- `a & b`, `a | b`, `a ^ b` on Python ints -/
def and (a b : Int) : Int := bitop (· && ·) (width a b) a b
def or (a b : Int) : Int := bitop (· || ·) (width a b) a b
def xor (a b : Int) : Int := bitop (· != ·) (width a b) a b

end PyNum

namespace Impl.Arith
open Generated.C16

/-- root cause of the `MichelsonRuntimeError`: an `assert` (type dispatch, negative nat/mutez, shift limit),
an `OverflowError` (mutez range, `to_bytes`), or a source shape the model does not know -/
inductive Err | assertion | overflow | unrecognised
  deriving DecidableEq, Repr

/-- the subclasses of `IntType` -/
inductive NTy | int | nat | mutez | timestamp
  deriving DecidableEq, Repr

def NTy.prim : NTy → Prim
  | .int => .int | .nat => .nat | .mutez => .mutez | .timestamp => .timestamp

def NTy.ofPrim : Prim → Option NTy
  | .int => some .int | .nat => some .nat | .mutez => some .mutez | .timestamp => some .timestamp
  | _ => none

/-- runtime value: class tag + payload -/
inductive Val
  | num (t : NTy) (v : Int)
  | bytes (bs : List Nat)
  | bool (b : Bool)
  deriving DecidableEq, Repr

def Val.prim : Val → Prim
  | .num t _ => t.prim
  | .bytes _ => .bytes
  | .bool _ => .bool

/-- what `PUSH` can build: nat ≥ 0, 0 ≤ mutez < 2^63, bytes are bytes -/
def Val.WF : Val → Prop
  | .num .nat v => 0 ≤ v
  | .num .mutez v => 0 ≤ v ∧ v < 2 ^ 63
  | .num _ _ => True
  | .bytes bs => ∀ b ∈ bs, b < 256
  | .bool _ => True

instance : (v : Val) → Decidable v.WF
  | .num .nat v => inferInstanceAs (Decidable (0 ≤ v))
  | .num .mutez v => inferInstanceAs (Decidable (0 ≤ v ∧ v < 2 ^ 63))
  | .num .int _ => isTrue trivial
  | .num .timestamp _ => isTrue trivial
  | .bytes bs => inferInstanceAs (Decidable (∀ b ∈ bs, b < 256))
  | .bool _ => isTrue trivial

/-- what an instruction leaves on the stack -/
inductive Out
  | one (v : Val)
  | none1 (t : Prim)              -- `None : option t`
  | some1 (v : Val)               -- `Some v`
  | none2 (q r : Prim)            -- `None : option (pair q r)`
  | some2 (q r : Val)             -- `Some (Pair q r)`
  deriving DecidableEq, Repr

def Out.WF : Out → Prop
  | .one v | .some1 v => v.WF
  | .some2 q r => q.WF ∧ r.WF
  | _ => True

/-- `issubclass(c, p)` over the extracted class hierarchy -/
def isSubAux : Nat → Prim → Prim → Bool
  | 0, c, p => c == p
  | f + 1, c, p => c == p || parents.any fun e => e.1 == c && isSubAux f e.2 p

def isSub (c p : Prim) : Bool := isSubAux parents.length c p

/-- `T.from_value(x)` guards, in source order -/
def runGuards : List Guard → Int → Except Err Unit
  | [], _ => .ok ()
  | .assertNonneg :: gs, x => if x < 0 then .error .assertion else runGuards gs x
  | .overflowIfBitsGt n :: gs, x => if PyNum.bitLength x > n then .error .overflow else runGuards gs x

/-- `T.from_value(x)` for a subclass of `IntType` -/
def fromValue (p : Prim) (x : Int) : Except Err Val :=
  match guards with
  | none => .error .unrecognised
  | some tbl =>
    match tbl.lookup p, NTy.ofPrim p with
    | some gs, some t =>
      match runGuards gs x with
      | .ok () => .ok (.num t x)
      | .error e => .error e
    | _, _ => .error .unrecognised

/-- `dispatch_types(type(a), ..., mapping=table)` -/
def dispatch {α : Type} (table : Option (List (List Prim × α))) (key : List Prim) : Except Err α :=
  match table with
  | none => .error .unrecognised
  | some rows =>
    match rows.lookup key with
    | some r => .ok r
    | none => .error .assertion

/-- the source shape of this `execute` (and of the helpers it calls) is one the mirror was written for -/
def known (body : Bool) : Bool := body && helpersRecognised

/-- `a.assert_type_equal(T)` -/
def typeEqual (a : Val) (p : Prim) : Bool := a.prim == p

/-- `a.assert_type_in(T1, T2, …)` -/
def typeIn (a : Val) (ps : List Prim) : Bool := ps.any fun p => isSub a.prim p

def wrap (r : Except Err Val) : Except Err Out :=
  match r with
  | .ok v => .ok (.one v)
  | .error e => .error e

/-- ADD / MUL share their body; `op` is `+` / `*` -/
def arith (body : Bool) (table : Option (List (List Prim × List Prim))) (op : Int → Int → Int) (a b : Val) : Except Err Out :=
  if !known body then .error .unrecognised else
  match dispatch table [a.prim, b.prim] with
  | .error e => .error e
  | .ok [rt] =>
    if isSub rt .int then
      match a, b with
      | .num _ x, .num _ y => wrap (fromValue rt (op x y))
      | _, _ => .error .unrecognised
    else .error .unrecognised       -- BLS12-381 branch: outside this model (C21)
  | .ok _ => .error .unrecognised

def add (a b : Val) : Except Err Out := arith addBody addTable (· + ·) a b
def mul (a b : Val) : Except Err Out := arith mulBody mulTable (· * ·) a b

def sub (a b : Val) : Except Err Out :=
  if !known subBody then .error .unrecognised else
  match dispatch subTable [a.prim, b.prim] with
  | .error e => .error e
  | .ok [rt] =>
    match a, b with
    | .num _ x, .num _ y => wrap (fromValue rt (x - y))
    | _, _ => .error .unrecognised
  | .ok _ => .error .unrecognised

def subMutez (a b : Val) : Except Err Out :=
  if !helpersRecognised then .error .unrecognised else
  if !typeEqual a .mutez then .error .assertion else
  if !typeEqual b .mutez then .error .assertion else
  match subMutezShape, a, b with
  | some .tryExceptOverflow, .num _ x, .num _ y =>
    -- `except OverflowError` never fires: `MutezType.from_value` is wrapped by the ErrorTrace metaclass, which
    -- re-raises every exception as MichelsonRuntimeError
    match fromValue .mutez (x - y) with
    | .ok v => .ok (.some1 v)
    | .error e => .error e
  | some .compareFirst, .num _ x, .num _ y =>
    if x < y then .ok (.none1 .mutez)
    else
      match fromValue .mutez (x - y) with
      | .ok v => .ok (.some1 v)
      | .error e => .error e
  | _, _, _ => .error .unrecognised

/-- the body of EDIV after the dispatch: `qt`/`rt` are the classes of quotient and remainder -/
def edivNum (qt rt : Prim) (x y : Int) : Except Err Out :=
  if y = 0 then .ok (.none2 qt rt)
  else
    let d := PyNum.divmod x y
    let d := if d.2 < 0 then (d.1 + 1, d.2 + PyNum.abs y) else d
    match fromValue qt d.1, fromValue rt d.2 with
    | .ok qv, .ok rv => .ok (.some2 qv rv)
    | .error e, _ => .error e
    | _, .error e => .error e

def ediv (a b : Val) : Except Err Out :=
  if !known edivBody then .error .unrecognised else
  match dispatch edivTable [a.prim, b.prim] with
  | .error e => .error e
  | .ok [qt, rt] =>
    match a, b with
    | .num _ x, .num _ y => edivNum qt rt x y
    | _, _ => .error .unrecognised
  | .ok _ => .error .unrecognised

def abs (a : Val) : Except Err Out :=
  if !known absBody then .error .unrecognised else
  if !typeEqual a .int then .error .assertion else
  match a with
  | .num _ x => wrap (fromValue .nat (PyNum.abs x))
  | _ => .error .unrecognised

def neg (a : Val) : Except Err Out :=
  if !helpersRecognised then .error .unrecognised else
  match dispatch negTable [a.prim] with
  | .error e => .error e
  | .ok [rt] =>
    if isSub rt .int then
      match negShape, a with
      | some .intFromValue, .num _ x => wrap (fromValue .int (-x))        -- `IntType.from_value(-int(a))`
      | some .resTypeFromValue, .num _ x => wrap (fromValue rt (-x))      -- `res_type.from_value(-int(a))`
      | _, _ => .error .unrecognised
    else .error .unrecognised
  | .ok _ => .error .unrecognised

def isnat (a : Val) : Except Err Out :=
  if !known isnatBody then .error .unrecognised else
  if !typeEqual a .int then .error .assertion else
  match a with
  | .num _ x =>
    if x ≥ 0 then
      match fromValue .nat x with
      | .ok v => .ok (.some1 v)
      | .error e => .error e
    else .ok (.none1 .nat)
  | _ => .error .unrecognised

/-- INT: `isinstance(a, BytesType)` first, otherwise `assert_type_in(NatType, BLS12_381_FrType)` -/
def int (a : Val) : Except Err Out :=
  if !known intBody then .error .unrecognised else
  if isSub a.prim .bytes then
    match a with
    | .bytes bs => wrap (fromValue .int (PyNum.fromBytes bs true))
    | _ => .error .unrecognised
  else if !typeIn a [.nat, .bls12_381_fr] then .error .assertion else
    match a with
    | .num _ x => wrap (fromValue .int x)
    | _ => .error .unrecognised

def nat (a : Val) : Except Err Out :=
  if !known natBody then .error .unrecognised else
  if !typeIn a [.bytes] then .error .assertion else
  match a with
  | .bytes bs => wrap (fromValue .nat (PyNum.fromBytes bs false))
  | _ => .error .unrecognised

/-- `(8 + (v + (v < 0)).bit_length()) // 8` -/
def signedLen (x : Int) : Nat := (8 + PyNum.bitLength (x + (if x < 0 then 1 else 0))) / 8

/-- `(7 + v.bit_length()) // 8` -/
def unsignedLen (x : Int) : Nat := (7 + PyNum.bitLength x) / 8

/-- the byte string BYTES produces for an instance of a class with prim `p` holding `x` -/
def bytesOf (shape : BytesShape) (p : Prim) (x : Int) : Except Err (List Nat) :=
  match shape with
  | .signedIfIntThenLstrip =>
    let signed := isSub p .int
    let len := if signed then signedLen x else unsignedLen x
    match PyNum.toBytes x len signed with
    | some bs => .ok (PyNum.lstrip0 bs)
    | none => .error .overflow
  | .signedUnlessNatExactLength =>
    let signed := !isSub p .nat
    let len := if signed then (if x ≠ 0 then signedLen x else 0) else unsignedLen x
    match PyNum.toBytes x len signed with
    | some bs => .ok bs
    | none => .error .overflow

def bytes (a : Val) : Except Err Out :=
  if !helpersRecognised then .error .unrecognised else
  if !typeIn a [.nat, .int] then .error .assertion else
  match bytesShape, a with
  | some shape, .num t x =>
    match bytesOf shape t.prim x with
    | .ok bs => .ok (.one (.bytes bs))
    | .error e => .error e
  | _, _ => .error .unrecognised

/-- `execute_shift` -/
def executeShift (body : Bool) (shift : Int → Nat → Int) (a b : Val) : Except Err Out :=
  if !known body then .error .unrecognised else
  if !typeEqual a .nat then .error .assertion else
  if !typeEqual b .nat then .error .assertion else
  match shiftLimit, a, b with
  | some lim, .num _ x, .num _ y =>
    if ¬ (y < lim) then .error .assertion
    else wrap (fromValue .nat (shift x y.toNat))
  | _, _, _ => .error .unrecognised

def lsl (a b : Val) : Except Err Out := executeShift lslBody PyNum.shl a b
def lsr (a b : Val) : Except Err Out := executeShift lsrBody PyNum.shr a b

/-- a Python value after `convert(...)` -/
inductive PyV | int (z : Int) | bool (b : Bool)
  deriving DecidableEq, Repr

/-- the second component of a boolean.py mapping row applied to a runtime value -/
def convert (c : Conv) (v : Val) : Option PyV :=
  match c, v with
  | .int, .num _ x => some (.int x)                     -- `int(a)`
  | .bool, .bool b => some (.bool b)                     -- `bool(a)`
  | .invert, .num _ x => some (.int (PyNum.invert x))    -- `~int(a)`
  | .not, .bool b => some (.bool (!b))                   -- `not bool(a)`
  | _, _ => none

/-- `x & y`, `x | y`, `x ^ y` on converted values -/
def pyBin (fi : Int → Int → Int) (fb : Bool → Bool → Bool) : PyV → PyV → Option PyV
  | .int x, .int y => some (.int (fi x y))
  | .bool x, .bool y => some (.bool (fb x y))
  | _, _ => none

/-- `res_type.from_value(val)` where `res_type` is `BoolType` or a subclass of `IntType` -/
def fromPy (p : Prim) (v : PyV) : Except Err Val :=
  match p, v with
  | .bool, .bool b => .ok (.bool b)
  | .bool, .int _ => .error .unrecognised
  | p, .int z => fromValue p z
  | _, .bool _ => .error .unrecognised

def boolBin (body : Bool) (table : Option (List (List Prim × (Prim × Conv))))
    (fi : Int → Int → Int) (fb : Bool → Bool → Bool) (a b : Val) : Except Err Out :=
  if !known body then .error .unrecognised else
  match dispatch table [a.prim, b.prim] with
  | .error e => .error e
  | .ok (rt, conv) =>
    match convert conv a, convert conv b with
    | some x, some y =>
      match pyBin fi fb x y with
      | some v => wrap (fromPy rt v)
      | none => .error .unrecognised
    | _, _ => .error .unrecognised

def or (a b : Val) : Except Err Out := boolBin orBody boolAddTable PyNum.or (· || ·) a b
def xor (a b : Val) : Except Err Out := boolBin xorBody boolAddTable PyNum.xor (· != ·) a b
def and (a b : Val) : Except Err Out := boolBin andBody andTable PyNum.and (· && ·) a b

def not (a : Val) : Except Err Out :=
  if !known notBody then .error .unrecognised else
  match dispatch notTable [a.prim] with
  | .error e => .error e
  | .ok (rt, conv) =>
    match convert conv a with
    | some v => wrap (fromPy rt v)
    | none => .error .unrecognised

/-- `PUSH int z; BYTES; INT` and `PUSH nat n; BYTES; NAT` -/
def andThen (r : Except Err Out) (f : Val → Except Err Out) : Except Err Out :=
  match r with
  | .ok (.one v) => f v
  | .ok _ => .error .unrecognised
  | .error e => .error e

def bytesInt (a : Val) : Except Err Out := andThen (bytes a) int
def bytesNat (a : Val) : Except Err Out := andThen (bytes a) nat

end Impl.Arith

namespace Spec.Arith
open Impl.Arith (Val Out NTy)
open Generated.C16 (Prim)

/-- a value of a numeric type exists iff it is in the type's range: nat ≥ 0, 0 ≤ mutez < 2^63 -/
def mk (t : NTy) (x : Int) : Option Val :=
  match t with
  | .nat => if 0 ≤ x then some (.num .nat x) else none
  | .mutez => if 0 ≤ x ∧ x < 2 ^ 63 then some (.num .mutez x) else none
  | t => some (.num t x)

/-! Michelson typing tables (operand on top of the stack first); BLS rows are outside the model -/
def addTy : NTy → NTy → Option NTy
  | .nat, .nat => some .nat | .nat, .int => some .int | .int, .nat => some .int | .int, .int => some .int
  | .timestamp, .int => some .timestamp | .int, .timestamp => some .timestamp
  | .mutez, .mutez => some .mutez
  | _, _ => none

def subTy : NTy → NTy → Option NTy
  | .nat, .nat => some .int | .nat, .int => some .int | .int, .nat => some .int | .int, .int => some .int
  | .timestamp, .int => some .timestamp | .timestamp, .timestamp => some .int
  | .mutez, .mutez => some .mutez
  | _, _ => none

def mulTy : NTy → NTy → Option NTy
  | .nat, .nat => some .nat | .nat, .int => some .int | .int, .nat => some .int | .int, .int => some .int
  | .mutez, .nat => some .mutez | .nat, .mutez => some .mutez
  | _, _ => none

def edivTy : NTy → NTy → Option (NTy × NTy)
  | .nat, .nat => some (.nat, .nat) | .nat, .int => some (.int, .nat) | .int, .nat => some (.int, .nat)
  | .int, .int => some (.int, .nat)
  | .mutez, .nat => some (.mutez, .mutez) | .mutez, .mutez => some (.nat, .mutez)
  | _, _ => none

/-- result of a typed binary arithmetic instruction: the exact mathematical value, if the result type has it -/
def binNum (ty : NTy → NTy → Option NTy) (op : Int → Int → Int) : Val → Val → Option Out
  | .num ta a, .num tb b =>
    match ty ta tb with
    | some t => (mk t (op a b)).map .one
    | none => none
  | _, _ => none

def add : Val → Val → Option Out := binNum addTy (· + ·)
def sub : Val → Val → Option Out := binNum subTy (· - ·)
def mul : Val → Val → Option Out := binNum mulTy (· * ·)

def subMutez : Val → Val → Option Out
  | .num .mutez a, .num .mutez b => if a - b < 0 then some (.none1 .mutez) else (mk .mutez (a - b)).map .some1
  | _, _ => none

/-- Euclidean division (`Int./` and `Int.%` are the Euclidean pair: `0 ≤ a % b < |b|`) -/
def edivAt (tq tr : NTy) (a b : Int) : Option Out :=
  if b = 0 then some (.none2 tq.prim tr.prim)
  else
    match mk tq (a / b), mk tr (a % b) with
    | some q, some r => some (.some2 q r)
    | _, _ => none

def ediv : Val → Val → Option Out
  | .num ta a, .num tb b =>
    match edivTy ta tb with
    | some (tq, tr) => edivAt tq tr a b
    | none => none
  | _, _ => none

def abs : Val → Option Out
  | .num .int a => some (.one (.num .nat a.natAbs))
  | _ => none

def neg : Val → Option Out
  | .num .int a => some (.one (.num .int (-a)))
  | .num .nat a => some (.one (.num .int (-a)))
  | _ => none

def isnat : Val → Option Out
  | .num .int a => if 0 ≤ a then some (.some1 (.num .nat a)) else some (.none1 .nat)
  | _ => none

def lsl : Val → Val → Option Out
  | .num .nat a, .num .nat s => if s ≤ 256 then (mk .nat (a * 2 ^ s.toNat)).map .one else none
  | _, _ => none

def lsr : Val → Val → Option Out
  | .num .nat a, .num .nat s => if s ≤ 256 then (mk .nat (a / 2 ^ s.toNat)).map .one else none
  | _, _ => none

/-- bit `i` of an integer in two's complement with infinite sign extension -/
def bit (z : Int) (i : Nat) : Bool :=
  match z with
  | .ofNat n => n.testBit i
  | .negSucc n => !n.testBit i

/-- value of a big-endian byte string, positionally: the first byte is the most significant -/
def beUnsigned : List Nat → Nat
  | [] => 0
  | b :: bs => b * 256 ^ bs.length + beUnsigned bs

/-- big-endian two's complement: negative iff the top bit of the first byte is set -/
def beSigned : List Nat → Int
  | [] => 0
  | b :: bs => if 128 ≤ b then (beUnsigned (b :: bs) : Int) - 256 ^ (bs.length + 1) else beUnsigned (b :: bs)

end Spec.Arith
