import PytezosModel.Generated.C03
/-!
# C03 — comparable Michelson values, the mirror of pytezos' `__eq__` / `__lt__` / `compare`, and the Tezos order

`CVal` is the *structured* form of a comparable value: base58-text-valued types (key_hash, address, key, chain_id)
are a kind tag + the payload bytes (+ the entrypoint text for addresses); a signature is its raw bytes.

**Bridge (text ↔ structure).**  pytezos keeps those values as base58check *text* and compares the text with Python's
`str` operators (`StringType.__eq__/__lt__`, `AddressType.__lt__`) or the decoded bytes (`KeyType`, `SignatureType`).
For two texts of the same kind the text is the fixed-length base-58 numeral of `binary prefix ‖ payload ‖ checksum`, the
base-58 alphabet is ASCII-increasing, so `str` order = numeric order = lexicographic order of `prefix ‖ payload`
(the 4 checksum bytes are the least significant digits and cannot decide between different payloads); texts of
different kinds but the same length are decided by their (kind-determined) leading characters.  `textLt` / `textEq`
below are that statement used as a *modelling step*; it is PROVED in Proofs/C03Bridge.lean (`Order.b58_text_order`,
`textLt_is_string_lt`, restated as `C03.text_bridge`) on top of the Base58 model of C09, with "both texts have the same
number of characters" as a hypothesis (true for every table row: C09), and it is exercised by the correspondence run on
adversarial payloads (first/last byte ±1, 00…/ff… payloads, every kind pair).

`Impl.*` mirrors the code (shape constants and tables come from `Generated.C03`, i.e. from the source);
`Spec.cmp` is the structural Tezos order (hand-written from the Michelson reference).
-/
namespace Order

/-- Python `<` on `str` / `bytes` (sequences of code points / bytes) -/
def lexLt : List Nat → List Nat → Bool
  | [], [] => false
  | [], _ :: _ => true
  | _ :: _, [] => false
  | a :: as, b :: bs => if a < b then true else if b < a then false else lexLt as bs

def cmpNat (a b : Nat) : Ordering := if a < b then .lt else if b < a then .gt else .eq
def cmpInt (a b : Int) : Ordering := if a < b then .lt else if b < a then .gt else .eq
def cmpBool : Bool → Bool → Ordering
  | false, true => .lt
  | true, false => .gt
  | _, _ => .eq

/-- lexicographic order of byte / character sequences, a proper prefix first -/
def lexCmp : List Nat → List Nat → Ordering
  | [], [] => .eq
  | [], _ :: _ => .lt
  | _ :: _, [] => .gt
  | a :: as, b :: bs => (cmpNat a b).then (lexCmp as bs)

inductive IntTag | int | nat | mutez | timestamp
  deriving DecidableEq, Repr

/-- comparable types -/
inductive CTy
  | unit | never | bool | num (t : IntTag) | string | bytes
  | keyHash | address | key | signature | chainId
  | option (t : CTy) | or (l r : CTy) | pair (l r : CTy)
  deriving DecidableEq, Repr

/-- comparable values, structured form (`never` has no value) -/
inductive CVal
  | unit
  | bool (b : Bool)
  | num (t : IntTag) (v : Int)
  | str (s : List Nat)
  | bytes (b : List Nat)
  | keyHash (kind : Nat) (p : List Nat)                      -- kind 0..3 = tz1..tz4
  | address (kind : Nat) (p : List Nat) (ep : List Nat)      -- kind 0..3 = tz1..tz4, 4 = KT1, 5 = sr1; ep = [] : no entrypoint
  | key (curve : Nat) (p : List Nat)                         -- curve 0..3 = edpk, sppk, p2pk, BLpk
  | signature (p : List Nat)
  | chainId (p : List Nat)
  | none
  | some (v : CVal)
  | left (v : CVal)
  | right (v : CVal)
  | pair (a b : CVal)
  deriving DecidableEq, Repr

/-- "default" -/
def defaultEp : List Nat := [100, 101, 102, 97, 117, 108, 116]

def numOk : IntTag → Int → Bool
  | .int, _ => true
  | .nat, v => decide (0 ≤ v)
  | .mutez, v => decide (0 ≤ v) && decide (v < 9223372036854775808)
  | .timestamp, _ => true

def keyLen : Nat → Nat
  | 0 => 32 | 1 => 33 | 2 => 33 | _ => 48

/-- typing of structured values.  Side conditions: what `from_value`/`PUSH` guarantee and the model relies on
(kind tags in range, payload lengths of the kind, an explicit entrypoint is never the text "default" —
`AddressType.from_value` strips `%default` — and never empty). -/
inductive HasTy : CVal → CTy → Prop
  | unit : HasTy .unit .unit
  | bool (b) : HasTy (.bool b) .bool
  | num (t v) : numOk t v = true → HasTy (.num t v) (.num t)
  | str (s) : HasTy (.str s) .string
  | bytes (b) : HasTy (.bytes b) .bytes
  | keyHash (k p) : k < 4 → p.length = 20 → HasTy (.keyHash k p) .keyHash
  | address (k p ep) : k < 6 → p.length = 20 → ep ≠ defaultEp → HasTy (.address k p ep) .address
  | key (c p) : c < 4 → p.length = keyLen c → HasTy (.key c p) .key
  | signature (p) : HasTy (.signature p) .signature
  | chainId (p) : p.length = 4 → HasTy (.chainId p) .chainId
  | none (t) : HasTy .none (.option t)
  | some {v t} : HasTy v t → HasTy (.some v) (.option t)
  | left {v l} (r) : HasTy v l → HasTy (.left v) (.or l r)
  | right {v r} (l) : HasTy v r → HasTy (.right v) (.or l r)
  | pair {a b l r} : HasTy a l → HasTy b r → HasTy (.pair a b) (.pair l r)

/-- executable typing check (used by the driver; `check_iff` relates it to `HasTy`) -/
def check : CTy → CVal → Bool
  | .unit, .unit => true
  | .bool, .bool _ => true
  | .num t, .num t' v => t == t' && numOk t v
  | .string, .str _ => true
  | .bytes, .bytes _ => true
  | .keyHash, .keyHash k p => decide (k < 4) && p.length == 20
  | .address, .address k p ep => decide (k < 6) && p.length == 20 && !(ep == defaultEp)
  | .key, .key c p => decide (c < 4) && p.length == keyLen c
  | .signature, .signature _ => true
  | .chainId, .chainId p => p.length == 4
  | .option _, .none => true
  | .option t, .some v => check t v
  | .or l _, .left v => check l v
  | .or _ r, .right v => check r v
  | .pair l r, .pair a b => check l a && check r b
  | _, _ => false

/-! ## text side of the bridge -/

def code (s : String) : List Nat := s.toList.map Char.toNat

/-- text prefix of a key_hash kind: tz1 tz2 tz3 tz4 -/
def khPrefix : Nat → Option (List Nat)
  | 0 => some [116, 122, 49] | 1 => some [116, 122, 50] | 2 => some [116, 122, 51] | 3 => some [116, 122, 52]
  | _ => .none

/-- text prefix of an address kind: tz1 tz2 tz3 tz4 KT1 sr1 (always 3 characters = `value[:3]`) -/
def addrPrefix : Nat → Option (List Nat)
  | 4 => some [75, 84, 49] | 5 => some [115, 114, 49]
  | k => khPrefix k

/-- text prefix of a key curve: edpk sppk p2pk BLpk (always 4 characters = `KeyType.prefix`) -/
def keyPrefix : Nat → Option (List Nat)
  | 0 => some [101, 100, 112, 107] | 1 => some [115, 112, 112, 107] | 2 => some [112, 50, 112, 107] | 3 => some [66, 76, 112, 107]
  | _ => .none

/-- Python `==` on two base58check texts, each given as (kind-determined text prefix, payload): see the bridge note -/
def textEq (x₁ p₁ x₂ p₂ : List Nat) : Bool := x₁ == x₂ && p₁ == p₂

/-- Python `<` on two base58check texts of the same length: the kind prefixes decide, then the payload bytes -/
def textLt (x₁ p₁ x₂ p₂ : List Nat) : Bool := if x₁ == x₂ then lexLt p₁ p₂ else lexLt x₁ x₂

end Order

namespace Impl.Order
open _root_.Order Generated.C03

/-- every comparison method has the (repaired) shape this mirror was written against -/
def shapesOk : Bool :=
  compareShape == some .eqThenLt && leafShape == some .valueCompare
  && unitEqShape == some .checksType && unitLtShape == some .alwaysFalse
  && pairLtShape == some .lexicographic && pairEqShape == some .isinstanceAllEq
  && optionLtShape == some .noneBeforeSome && optionEqShape == some .isinstanceItemEq
  && orLtShape == some .leftBeforeRight && orEqShape == some .isinstanceAllEq
  && keyLtShape == some .rankThenRawFromOffset && addrLtShape == some .kindThenSplit
  && sigShape == some .rawBytes

/-- `a.__eq__(b)` (never raises).  A constructor mismatch is the `isinstance` test failing; COMPARE asserts equal types
first, so mismatches below the top level only arise as `Some x == None` / `x == Undefined`. -/
def eq : CVal → CVal → Bool
  | .unit, .unit => true                                   -- `isinstance(other, UnitType)`
  | .bool a, .bool b => a == b
  | .num _ a, .num _ b => a == b                           -- `isinstance(other, IntType)`: nat/mutez/timestamp are subclasses
  | .str a, .str b => a == b
  | .bytes a, .bytes b => a == b
  | .keyHash k₁ p₁, .keyHash k₂ p₂ =>                      -- StringType.__eq__ on the text
    match khPrefix k₁, khPrefix k₂ with
    | .some x₁, .some x₂ => textEq x₁ p₁ x₂ p₂
    | _, _ => false
  | .address k₁ p₁ e₁, .address k₂ p₂ e₂ =>                -- StringType.__eq__ on `addr` / `addr%ep`
    match addrPrefix k₁, addrPrefix k₂ with
    | .some x₁, .some x₂ => textEq x₁ p₁ x₂ p₂ && e₁ == e₂
    | _, _ => false
  | .key c₁ p₁, .key c₂ p₂ =>
    match keyPrefix c₁, keyPrefix c₂ with
    | .some x₁, .some x₂ => textEq x₁ p₁ x₂ p₂
    | _, _ => false
  | .signature a, .signature b => a == b                   -- `self.raw == other.raw`
  | .chainId a, .chainId b => a == b                       -- one kind: text equality = payload equality
  | .none, .none => true                                   -- `None == None`
  | .some a, .some b => eq a b
  | .left a, .left b => eq a b                             -- `all(...)`: a == b and Undefined == Undefined
  | .right a, .right b => eq a b
  | .pair a₁ a₂, .pair b₁ b₂ => eq a₁ b₁ && eq a₂ b₂
  | _, _ => false

/-- `kinds[value[:3]]` of `AddressType.__lt__` (`none`: no table in the source, or KeyError) -/
def addrRank (k : Nat) : Option Nat := do
  let kinds ← addrKinds
  let x ← addrPrefix k
  kinds.lookup x

/-- `curves[self.prefix]` of `KeyType.__lt__`: (rank, offset) (`none`: KeyError) -/
def keyRow (c : Nat) : Option (Nat × Nat) := do
  let curves ← keyCurves
  let x ← keyPrefix c
  curves.lookup x

/-- `entrypoint or 'default'` (an empty string is falsy) -/
def orDefault (dflt e : List Nat) : List Nat := if e.isEmpty then dflt else e

/-- Python `<` on the tuples `(address text, entrypoint)`: the first component that differs (by `==`) decides -/
def splitLt (x₁ p₁ ep₁ x₂ p₂ ep₂ : List Nat) : Bool :=
  if !(textEq x₁ p₁ x₂ p₂) then textLt x₁ p₁ x₂ p₂
  else if !(ep₁ == ep₂) then lexLt ep₁ ep₂
  else false

/-- `a.__lt__(b)`; `none` = the call raises (KeyError of a table lookup) or the operands are not of one type -/
def lt : CVal → CVal → Option Bool
  | .unit, .unit => some false
  | .bool a, .bool b => some (!a && b)                     -- False < True
  | .num _ a, .num _ b => some (decide (a < b))
  | .str a, .str b => some (lexLt a b)
  | .bytes a, .bytes b => some (lexLt a b)
  | .keyHash k₁ p₁, .keyHash k₂ p₂ => do                   -- StringType.__lt__ on the text
    let x₁ ← khPrefix k₁
    let x₂ ← khPrefix k₂
    some (textLt x₁ p₁ x₂ p₂)
  | .address k₁ p₁ e₁, .address k₂ p₂ e₂ => do
    let dflt ← addrDefaultEntrypoint
    let x₁ ← addrPrefix k₁
    let x₂ ← addrPrefix k₂
    let r₁ ← addrRank k₁                                   -- kinds[self.value[:3]]
    let r₂ ← addrRank k₂
    let res : Int := (r₁ : Int) - (r₂ : Int)
    if res < 0 then some true
    else if res > 0 then some false
    else some (splitLt x₁ p₁ (orDefault dflt e₁) x₂ p₂ (orDefault dflt e₂))   -- self._split() < other._split()
  | .key c₁ p₁, .key c₂ p₂ => do
    let (r₁, off) ← keyRow c₁                              -- curves[self.prefix]
    let (r₂, _) ← keyRow c₂
    let res : Int := (r₁ : Int) - (r₂ : Int)
    if res < 0 then some true
    else if res > 0 then some false
    else some (lexLt (p₁.drop off) (p₂.drop off))          -- self.raw[offset:] < other.raw[offset:]
  | .signature a, .signature b => some (lexLt a b)         -- self.raw < other.raw
  | .chainId a, .chainId b => some (lexLt a b)
  | .none, .none => some false                             -- `other.item is None` → False
  | .some _, .none => some false
  | .none, .some _ => some true
  | .some a, .some b => lt a b
  | .left _, .right _ => some true
  | .left a, .left b => lt a b
  | .right a, .right b => lt a b
  | .right _, .left _ => some false
  | .pair a₁ a₂, .pair b₁ b₂ =>
    -- `for i, item: if item != other.items[i]: return item < other.items[i]`; `return False`
    if !(eq a₁ b₁) then lt a₁ b₁
    else if !(eq a₂ b₂) then lt a₂ b₂
    else some false
  | _, _ => .none

/-- `compare(a, b)` of instructions/compare.py; `none` = raises, or the source is not of the recognised shape -/
def compare (a b : CVal) : Option Int :=
  if !shapesOk then .none
  else if eq a b then some 0
  else match lt a b with
    | some true => some (-1)
    | some false => some 1
    | .none => .none

/-- `MichelsonType.is_comparable` over a prim tree -/
inductive PrimTree | node (prim : List Nat) (args : List PrimTree)

def isComparable (bad : List (List Nat)) : PrimTree → Bool
  | .node p args => !(bad.contains p) && isComparableL bad args
where isComparableL (bad : List (List Nat)) : List PrimTree → Bool
  | [] => true
  | t :: ts => isComparable bad t && isComparableL bad ts

/-! ### comparability, typed values, set / map literals -/
open _root_.Order in
/-- the type as the prim tree `is_comparable` walks -/
def toPrim : CTy → PrimTree
  | .unit => .node [117, 110, 105, 116] []          -- unit
  | .never => .node [110, 101, 118, 101, 114] []        -- never
  | .bool => .node [98, 111, 111, 108] []          -- bool
  | .num .int => .node [105, 110, 116] []       -- int
  | .num .nat => .node [110, 97, 116] []       -- nat
  | .num .mutez => .node [109, 117, 116, 101, 122] []   -- mutez
  | .num .timestamp => .node [116, 105, 109, 101, 115, 116, 97, 109, 112] []   -- timestamp
  | .string => .node [115, 116, 114, 105, 110, 103] []      -- string
  | .bytes => .node [98, 121, 116, 101, 115] []        -- bytes
  | .keyHash => .node [107, 101, 121, 95, 104, 97, 115, 104] []   -- key_hash
  | .address => .node [97, 100, 100, 114, 101, 115, 115] []    -- address
  | .key => .node [107, 101, 121] []            -- key
  | .signature => .node [115, 105, 103, 110, 97, 116, 117, 114, 101] []   -- signature
  | .chainId => .node [99, 104, 97, 105, 110, 95, 105, 100] []   -- chain_id
  | .option t => .node [111, 112, 116, 105, 111, 110] [toPrim t]               -- option
  | .or l r => .node [111, 114] [toPrim l, toPrim r]           -- or
  | .pair l r => .node [112, 97, 105, 114] [toPrim l, toPrim r]       -- pair

/-- `cls.is_comparable()` for a `CTy`; `none`: the prim list was not recognised in the source -/
def isComparableC (τ : CTy) : Option Bool := nonComparable.map fun bad => isComparable bad (toPrim τ)

/-- can `hash(v)` be computed (needed by `len(set(items))`)?  Only `UnitType.__hash__` can fail: `hash(Unit)` with a
`unit` class that defines `__eq__` but no `__hash__` (the pinned defect). -/
def hashable : CVal → Bool
  | .unit => unitHashable == some true
  | .some v => hashable v
  | .left v => hashable v
  | .right v => hashable v
  | .pair a b => hashable a && hashable b
  | _ => true

end Impl.Order

namespace Order
theorem check_sound (τ : CTy) (v : CVal) (h : check τ v = true) : HasTy v τ := by
  induction τ generalizing v with
  | unit => cases v <;> simp [check] at h; exact .unit
  | never => cases v <;> simp [check] at h
  | bool => cases v <;> simp [check] at h; exact .bool _
  | num t => cases v <;> simp [check] at h; obtain ⟨rfl, h2⟩ := h; exact .num _ _ h2
  | string => cases v <;> simp [check] at h; exact .str _
  | bytes => cases v <;> simp [check] at h; exact .bytes _
  | keyHash => cases v <;> simp [check] at h; exact .keyHash _ _ h.1 h.2
  | address => cases v <;> simp [check] at h; exact .address _ _ _ h.1.1 h.1.2 h.2
  | key => cases v <;> simp [check] at h; exact .key _ _ h.1 h.2
  | signature => cases v <;> simp [check] at h; exact .signature _
  | chainId => cases v <;> simp [check] at h; exact .chainId _ h
  | option t ih =>
    cases v <;> simp [check] at h
    · exact .none t
    · exact .some (ih _ h)
  | or l r ihl ihr =>
    cases v <;> simp [check] at h
    · exact .left r (ihl _ h)
    · exact .right l (ihr _ h)
  | pair l r ihl ihr =>
    cases v <;> simp [check] at h
    exact .pair (ihl _ h.1) (ihr _ h.2)

/-- values of one comparable type -/
def TVal (τ : CTy) : Type := {v : CVal // HasTy v τ}

def TVal.mk? (τ : CTy) (v : CVal) : Option (TVal τ) :=
  if h : check τ v = true then some ⟨v, check_sound τ v h⟩ else .none

/-- `a == b` on runtime values of type τ -/
def TVal.eq {τ : CTy} (a b : TVal τ) : Bool := Impl.Order.eq a.1 b.1

/-- `a < b` evaluated to True (a raising `__lt__` is handled by the callers that need it: see `ltDefined`) -/
def TVal.lt {τ : CTy} (a b : TVal τ) : Bool := Impl.Order.lt a.1 b.1 == some true

end Order

namespace Spec.Order
open _root_.Order

/-- implicit accounts (tz1..tz4) < originated contracts (KT1) < smart rollups (sr1) -/
def addrClass (k : Nat) : Nat := if k < 4 then 0 else if k = 4 then 1 else 2

/-- the entrypoint an address denotes: none = "default" -/
def epOf (e : List Nat) : List Nat := if e.isEmpty then defaultEp else e

/-- the Tezos total order on comparable values of one type (result for operands of different types: unspecified, `.eq`) -/
def cmp : CVal → CVal → Ordering
  | .unit, .unit => .eq
  | .bool a, .bool b => cmpBool a b
  | .num _ a, .num _ b => cmpInt a b
  | .str a, .str b => lexCmp a b
  | .bytes a, .bytes b => lexCmp a b
  | .keyHash k₁ p₁, .keyHash k₂ p₂ => (cmpNat k₁ k₂).then (lexCmp p₁ p₂)
  | .address k₁ p₁ e₁, .address k₂ p₂ e₂ =>
    (cmpNat (addrClass k₁) (addrClass k₂)).then ((cmpNat k₁ k₂).then ((lexCmp p₁ p₂).then (lexCmp (epOf e₁) (epOf e₂))))
  | .key c₁ p₁, .key c₂ p₂ => (cmpNat c₁ c₂).then (lexCmp p₁ p₂)
  | .signature a, .signature b => lexCmp a b
  | .chainId a, .chainId b => lexCmp a b
  | .none, .none => .eq
  | .none, .some _ => .lt
  | .some _, .none => .gt
  | .some a, .some b => cmp a b
  | .left a, .left b => cmp a b
  | .left _, .right _ => .lt
  | .right _, .left _ => .gt
  | .right a, .right b => cmp a b
  | .pair a₁ a₂, .pair b₁ b₂ => (cmp a₁ b₁).then (cmp a₂ b₂)
  | _, _ => .eq

def toInt : Ordering → Int
  | .lt => -1
  | .eq => 0
  | .gt => 1

end Spec.Order
