import PytezosModel.Generated.C22
import PytezosModel.Michelson.BigMap
/-! Mirror of a REPL session (`Interpreter.execute`, src/pytezos/michelson/repl.py) over the cell alphabet of C22:
storage / parameter / code declarations, PUSH, SOME, NONE, UNIT, EMPTY_BIG_MAP, UPDATE, GET, MEM, GET_AND_UPDATE, DUP,
DROP, SWAP, PAIR, CAR, CDR, NIL operation, ADD, FAILWITH, BEGIN, COMMIT, RUN, DROP_ALL, BIG_MAP_DIFF
(src/pytezos/michelson/instructions/{jupyter,struct,stack}.py, sections/*.py, program.py `begin`/`end`).

What the property is about is *aliasing*: a `BigMapType` on the stack holds a reference to an `ExecutionContext`
object, `Interpreter.execute` deep-copies stack and context before a cell and swaps the copies in when the cell fails.
So context objects live in an explicit heap (`List Ctx`, a reference is an index), a stacked big map carries a
reference, and every instruction reaches a context through the reference the code uses: the interpreter's own
(`cur`) for declarations, EMPTY_BIG_MAP, BEGIN, RUN; the big map's for GET / MEM / UPDATE (`get_big_map_value`) and
for `aggregate_lazy_diff` (`get_big_map_diff`: id allocation) in COMMIT, RUN and BIG_MAP_DIFF.

The instruction semantics is written once, generic in the reference type `ρ` and a store `S` of contexts
(`Store`); `heapStore` is the mirror, `unitStore` (one context, trivial references) is the aliasing-free reading
used to state what a session *without* the failing cells does.  How the backup is taken (`Generated.C22.snapshot`,
`deepcopyContext`) and what `update` iterates over (`Generated.C15`) are read from the source.

Fragment: keys and values of big maps are naturals (`big_map nat nat`), `stack.protected` is always 0 (no DIP).
`Err.outOfModel` marks inputs on which the real code does something the value domain here cannot express (UPDATE
with a non-nat payload is accepted unchecked by pytezos); the correspondence never generates them. -/

namespace Impl.Session
open Impl.BigMap

inductive Ty
  | unit | nat | bool | option (t : Ty) | pair (a b : Ty) | bigmap | listOp
  deriving DecidableEq, Repr

/-- runtime values; `ρ` = type of context references held by big maps -/
inductive Val (ρ : Type)
  | unit
  | nat (n : Nat)
  | bool (b : Bool)
  | none (t : Ty)
  | some (v : Val ρ)
  | pair (a b : Val ρ)
  | nilOp
  | bigmap (b : BM Nat Nat) (ctx : ρ)
  deriving DecidableEq, Repr

def Val.map {ρ ρ' : Type} (f : ρ → ρ') : Val ρ → Val ρ'
  | .unit => .unit
  | .nat n => .nat n
  | .bool b => .bool b
  | .none t => .none t
  | .some v => .some (v.map f)
  | .pair a b => .pair (a.map f) (b.map f)
  | .nilOp => .nilOp
  | .bigmap b r => .bigmap b (f r)

/-- the context references held inside a value, left to right -/
def Val.refs {ρ : Type} : Val ρ → List ρ
  | .some v => v.refs
  | .pair a b => a.refs ++ b.refs
  | .bigmap _ r => [r]
  | _ => []

def Val.typeOf {ρ : Type} : Val ρ → Ty
  | .unit => .unit
  | .nat _ => .nat
  | .bool _ => .bool
  | .none t => .option t
  | .some v => .option v.typeOf
  | .pair a b => .pair a.typeOf b.typeOf
  | .nilOp => .listOp
  | .bigmap _ _ => .bigmap

/-- instructions that may appear in a `code { … }` body and in cells -/
inductive Basic
  | push (n : Nat) | some | none_ (t : Ty) | unit | emptyBigMap | update | get | mem | getAndUpdate
  | dup | drop | swap | pair | car | cdr | nilOp | add | failwith
  deriving DecidableEq, Repr

/-- literals of BEGIN / RUN -/
inductive Lit
  | unit
  | int (n : Int)
  | seq (elts : List (Nat × Nat))
  | pair (a b : Lit)
  deriving DecidableEq, Repr

inductive Instr
  | basic (b : Basic)
  | declStorage (t : Ty)
  | declParam (t : Ty)
  | declCode (c : List Basic)
  | begin_ (p s : Lit)
  | commit
  | run (p s : Lit)
  | dropAll
  | bigMapDiff
  | parseError        -- the cell text does not parse: `MichelsonParserError` before anything runs
  deriving DecidableEq, Repr

/-- an `ExecutionContext` as far as the alphabet can see it -/
structure Ctx where
  storageTy : Option Ty
  paramTy : Option Ty
  code : Option (List Basic)
  big : BigMap.Ctx
  deriving DecidableEq, Repr

def Ctx.init : Ctx := ⟨none, none, none, BigMap.Ctx.empty⟩

inductive Err
  | underflow | illTyped | failwith | noShell | notInitialised | rejected | parse | dangling | unrecognised | outOfModel
  deriving DecidableEq, Repr

abbrev Entry := DiffEntry Nat Nat Unit

/-- what a cell shows besides the stack: the `lazy_diff` (and `result`) of COMMIT / RUN / BIG_MAP_DIFF;
values are shown without their context references -/
structure Out where
  kind : String
  diff : List Entry
  result : Option (Val Unit)
  deriving DecidableEq, Repr

/-- a store of context objects addressed by references -/
structure Store (ρ S : Type) where
  rd : S → ρ → Option Ctx
  wr : S → ρ → Ctx → S

/-- the heap of the Python process: a reference is an index -/
def heapStore : Store Nat (List Ctx) := ⟨fun h r => h[r]?, fun h r c => h.set r c⟩

/-- a single context, no aliasing possible -/
def unitStore : Store Unit Ctx := ⟨fun c _ => some c, fun _ _ c => c⟩

abbrev Res (S α : Type) := Except Err α × S

section generic
variable {ρ S : Type}

/-! ### instructions that only touch the stack -/

/-- `none`: not a stack-only instruction -/
def stackOnly : Basic → List (Val ρ) → Option (Except Err (List (Val ρ)))
  | .push n, st => some (.ok (.nat n :: st))
  | .some, v :: st => some (.ok (.some v :: st))
  | .some, [] => some (.error .underflow)
  | .none_ t, st => some (.ok (.none t :: st))
  | .unit, st => some (.ok (.unit :: st))
  | .dup, v :: st => some (.ok (v :: v :: st))          -- `duplicate()` keeps `context`
  | .dup, [] => some (.error .underflow)
  | .drop, _ :: st => some (.ok st)
  | .drop, [] => some (.error .underflow)
  | .swap, a :: b :: st => some (.ok (b :: a :: st))
  | .swap, _ => some (.error .underflow)
  | .pair, a :: b :: st => some (.ok (.pair a b :: st))
  | .pair, _ => some (.error .underflow)
  | .car, .pair a _ :: st => some (.ok (a :: st))
  | .car, _ :: _ => some (.error .illTyped)
  | .car, [] => some (.error .underflow)
  | .cdr, .pair _ b :: st => some (.ok (b :: st))
  | .cdr, _ :: _ => some (.error .illTyped)
  | .cdr, [] => some (.error .underflow)
  | .nilOp, st => some (.ok (.nilOp :: st))
  | .add, .nat a :: .nat b :: st => some (.ok (.nat (a + b) :: st))
  | .add, _ :: _ :: _ => some (.error .illTyped)
  | .add, _ => some (.error .underflow)
  | .failwith, _ :: _ => some (.error .failwith)
  | .failwith, [] => some (.error .underflow)
  | _, _ => none

/-! ### big map instructions: read the context the *big map* points at -/

/-- `BigMapType.get` without a shell: local diff first, then `self.context.get_big_map_value(self.ptr, …)` -/
def bmGet (σ : Store ρ S) (s : S) (b : BM Nat Nat) (r : ρ) (k : Nat) : Except Err (Option Nat) :=
  match findLocal b k with
  | some v => .ok v
  | none =>
    match σ.rd s r with
    | none => .error .dangling
    | some c =>
      match b.ptr with
      | none => .ok none
      | some p =>
        match getBigMapValue (K := Nat) (V := Nat) none c.big p k with
        | .ok v => .ok v
        | .error _ => .error .noShell

def optVal : Option Nat → Val ρ
  | some n => .some (.nat n)
  | none => .none .nat

/-- payload of UPDATE / GET_AND_UPDATE: `None` removes, `Some n` sets; anything else is outside the model -/
def asOptNat : Val ρ → Except Err (Option Nat)
  | .none _ => .ok none
  | .some (.nat n) => .ok (some n)
  | .some _ => .error .outOfModel
  | _ => .error .illTyped

def bmUpdate (σ : Store ρ S) (s : S) (b : BM Nat Nat) (r : ρ) (k : Nat) (v : Option Nat) : Except Err (Option Nat × BM Nat Nat) :=
  match config with
  | none => .error .unrecognised
  | some sh =>
    match bmGet σ s b r k with
    | .error e => .error e
    | .ok prev => .ok (prev, updateWith sh Nat.blt b k v prev)

/-- GET, MEM, UPDATE, GET_AND_UPDATE (only on `big_map nat nat` and nat keys here) -/
def stepBigMap (σ : Store ρ S) (s : S) : Basic → List (Val ρ) → Except Err (List (Val ρ))
  | .get, .nat k :: .bigmap b r :: st => (bmGet σ s b r k).map fun v => optVal v :: st
  | .get, _ :: _ :: _ => .error .illTyped
  | .get, _ => .error .underflow
  | .mem, .nat k :: .bigmap b r :: st => (bmGet σ s b r k).map fun v => .bool v.isSome :: st
  | .mem, _ :: _ :: _ => .error .illTyped
  | .mem, _ => .error .underflow
  | .update, .nat k :: v :: .bigmap b r :: st =>
    (asOptNat v).bind fun ov => (bmUpdate σ s b r k ov).map fun res => .bigmap res.2 r :: st
  | .update, _ :: _ :: _ :: _ => .error .illTyped
  | .update, _ => .error .underflow
  | .getAndUpdate, .nat k :: v :: .bigmap b r :: st =>
    (asOptNat v).bind fun ov => (bmUpdate σ s b r k ov).map fun res => optVal res.1 :: .bigmap res.2 r :: st
  | .getAndUpdate, _ :: _ :: _ :: _ => .error .illTyped
  | .getAndUpdate, _ => .error .underflow
  | _, _ => .error .unrecognised

/-- one instruction of a code body / cell; `cur` = the interpreter's context reference -/
def stepBasic (σ : Store ρ S) (cur : ρ) (b : Basic) (st : List (Val ρ)) (s : S) : Res S (List (Val ρ)) :=
  match stackOnly b st with
  | some r => (r, s)
  | none =>
    match b with
    | .emptyBigMap =>
      match σ.rd s cur with
      | none => (.error .dangling, s)
      | some c =>
        let r := getTmpBigMapId c.big
        (.ok (.bigmap ⟨[], [], some r.1⟩ cur :: st), σ.wr s cur { c with big := r.2 })
    | b => (stepBigMap σ s b st, s)

def runBasics (σ : Store ρ S) (cur : ρ) : List Basic → List (Val ρ) → S → Res S (List (Val ρ))
  | [], st, s => (.ok st, s)
  | b :: bs, st, s =>
    match stepBasic σ cur b st s with
    | (.ok st', s') => runBasics σ cur bs st' s'
    | (.error e, s') => (.error e, s')

/-! ### literals, `attach_context`, `aggregate_lazy_diff` -/

/-- `from_micheline_value` for the storage / parameter types of the fragment (no context yet) -/
def parseLit : Ty → Lit → Except Err (Val Unit)
  | .unit, .unit => .ok .unit
  | .nat, .int n => if 0 ≤ n then .ok (.nat n.toNat) else .error .rejected
  | .bigmap, .int p => .ok (.bigmap ⟨[], [], some p⟩ ())
  | .bigmap, .seq elts =>
    match fromLiteral Nat.blt elts with
    | some b => .ok (.bigmap b ())
    | none => .error .rejected
  | .pair ta tb, .pair a b =>
    match parseLit ta a, parseLit tb b with
    | .ok va, .ok vb => .ok (.pair va vb)
    | .error e, _ => .error e
    | _, .error e => .error e
  | .unit, _ => .error .rejected
  | .nat, _ => .error .rejected
  | .bigmap, _ => .error .rejected
  | .pair _ _, _ => .error .rejected
  | _, _ => .error .outOfModel

/-- `attach_context(context, big_map_copy=copy)` on a freshly parsed value: every big map gets the reference `cur`
and a temporary / registered id -/
def attachVal (cur : ρ) (copy : Bool) : Val Unit → BigMap.Ctx → Val ρ × BigMap.Ctx
  | .bigmap b (), c => let r := attachContext c b copy; (.bigmap r.1 cur, r.2)
  | .pair a b, c =>
    let ra := attachVal cur copy a c
    let rb := attachVal cur copy b ra.2
    (.pair ra.1 rb.1, rb.2)
  | .some v, c => let r := attachVal cur copy v c; (.some r.1, r.2)
  | .unit, c => (.unit, c)
  | .nat n, c => (.nat n, c)
  | .bool b, c => (.bool b, c)
  | .none t, c => (.none t, c)
  | .nilOp, c => (.nilOp, c)

/-- `aggregate_lazy_diff`: every big map inside the value asks *its own* context for the id -/
def aggVal (σ : Store ρ S) : Val ρ → S → Res S (Val ρ × List Entry)
  | .bigmap b r, s =>
    match σ.rd s r with
    | none => (.error .dangling, s)
    | some c =>
      match aggregateLazyDiff (fun _ => ()) c.big b with
      | none => (.error .illTyped, s)
      | some res => (.ok (.bigmap res.2.1 r, [res.1]), σ.wr s r { c with big := res.2.2 })
  | .pair a b, s =>
    match aggVal σ a s with
    | (.error e, s1) => (.error e, s1)
    | (.ok ra, s1) =>
      match aggVal σ b s1 with
      | (.error e, s2) => (.error e, s2)
      | (.ok rb, s2) => (.ok (.pair ra.1 rb.1, ra.2 ++ rb.2), s2)
  | .some v, s =>
    match aggVal σ v s with
    | (.error e, s1) => (.error e, s1)
    | (.ok r, s1) => (.ok (.some r.1, r.2), s1)
  | .unit, s => (.ok (.unit, []), s)
  | .nat n, s => (.ok (.nat n, []), s)
  | .bool b, s => (.ok (.bool b, []), s)
  | .none t, s => (.ok (.none t, []), s)
  | .nilOp, s => (.ok (.nilOp, []), s)

def erase : Val ρ → Val Unit := Val.map fun _ => ()

/-- BEGIN / `program.begin`: parse both literals, attach parameter (as copy) then storage to `cur`, push the pair -/
def beginWith (σ : Store ρ S) (cur : ρ) (p s : Lit) (st : S) : Res S (Val ρ) :=
  match σ.rd st cur with
  | none => (.error .dangling, st)
  | some c =>
    match c.paramTy, c.storageTy with
    | some pt, some sty =>
      match parseLit pt p, parseLit sty s with
      | .ok pv, .ok sv =>
        let rp := attachVal cur true pv c.big
        let rs := attachVal cur false sv rp.2
        (.ok (.pair rp.1 rs.1), σ.wr st cur { c with big := rs.2 })
      | .error e, _ => (.error e, st)
      | _, .error e => (.error e, st)
    | _, _ => (.error .notInitialised, st)

/-- COMMIT / `program.end` on the popped value -/
def endWith (σ : Store ρ S) (cur : ρ) (res : Val ρ) (st : S) : Res S (Val ρ × List Entry) :=
  match σ.rd st cur with
  | none => (.error .dangling, st)
  | some c =>
    match c.storageTy, res with
    | some sty, .pair ops sv =>
      if res.typeOf = .pair .listOp sty then
        match aggVal σ sv st with
        | (.ok r, st') => (.ok (.pair ops r.1, r.2), st')
        | (.error e, st') => (.error e, st')
      else (.error .illTyped, st)
    | some _, _ => (.error .illTyped, st)
    | none, _ => (.error .notInitialised, st)

/-- one instruction of a cell: new stack and what it shows -/
def stepInstr (σ : Store ρ S) (cur : ρ) (i : Instr) (st : List (Val ρ)) (s : S) : Res S (List (Val ρ) × List Out) :=
  match i with
  | .basic b =>
    match stepBasic σ cur b st s with
    | (.ok st', s') => (.ok (st', []), s')
    | (.error e, s') => (.error e, s')
  | .declStorage t =>
    match σ.rd s cur with
    | none => (.error .dangling, s)
    | some c => (.ok (st, []), σ.wr s cur { c with storageTy := some t })
  | .declParam t =>
    match σ.rd s cur with
    | none => (.error .dangling, s)
    | some c => (.ok (st, []), σ.wr s cur { c with paramTy := some t })
  | .declCode code =>
    match σ.rd s cur with
    | none => (.error .dangling, s)
    | some c => (.ok (st, []), σ.wr s cur { c with code := some code })
  | .begin_ p sl =>
    match beginWith σ cur p sl s with
    | (.ok v, s') => (.ok ([v], []), s')               -- `stack.items = []`, then push
    | (.error e, s') => (.error e, s')
  | .commit =>
    match st with
    | [] => (.error .underflow, s)
    | [res] =>
      match endWith σ cur res s with
      | (.ok r, s') => (.ok ([], [⟨"COMMIT", r.2, some (erase r.1)⟩]), s')
      | (.error e, s') => (.error e, s')
    | _ :: _ :: _ => (.error .illTyped, s)               -- 'Stack is not empty'
  | .run p sl =>
    -- `stack.clear()`; load needs parameter, storage and code
    match σ.rd s cur with
    | none => (.error .dangling, s)
    | some c =>
      match c.code with
      | none => (.error .notInitialised, s)
      | some code =>
        match beginWith σ cur p sl s with
        | (.error e, s1) => (.error e, s1)
        | (.ok v, s1) =>
          match runBasics σ cur code [v] s1 with
          | (.error e, s2) => (.error e, s2)
          | (.ok [res], s2) =>
            match endWith σ cur res s2 with
            | (.ok r, s3) => (.ok ([], [⟨"RUN", r.2, some (erase res)⟩]), s3)   -- `result=res`: the popped pair
            | (.error e, s3) => (.error e, s3)
          | (.ok [], s2) => (.error .underflow, s2)
          | (.ok (_ :: _ :: _), s2) => (.error .illTyped, s2)
  | .dropAll => (.ok ([], []), s)
  | .bigMapDiff =>
    match st with
    | [] => (.error .underflow, s)
    | v :: _ =>
      match aggVal σ v s with
      | (.ok r, s') => (.ok (st, [⟨"BIG_MAP_DIFF", r.2, none⟩]), s')
      | (.error e, s') => (.error e, s')
  | .parseError => (.error .parse, s)

/-- the instructions of a cell, left to right, until one raises -/
def runInstrs (σ : Store ρ S) (cur : ρ) : List Instr → List (Val ρ) → S → Res S (List (Val ρ) × List Out)
  | [], st, s => (.ok (st, []), s)
  | i :: is, st, s =>
    match stepInstr σ cur i st s with
    | (.error e, s') => (.error e, s')
    | (.ok r, s') =>
      match runInstrs σ cur is r.1 s' with
      | (.ok r2, s'') => (.ok (r2.1, r.2 ++ r2.2), s'')
      | (.error e, s'') => (.error e, s'')

end generic

/-! ### `Interpreter.execute` over the heap -/

abbrev Cell := List Instr

/-- the interpreter object: the heap of context objects, `self.context`, `self.stack` -/
structure State where
  heap : List Ctx
  cur : Nat
  stack : List (Val Nat)
  deriving DecidableEq, Repr

/-- `Interpreter()` -/
def State.init : State := ⟨[Ctx.init], 0, []⟩

/-- what a cell returns: `error` set or not, and what its instructions show -/
inductive CellResult
  | ok (outs : List Out)
  | failed
  deriving DecidableEq, Repr

def CellResult.isFailed : CellResult → Bool
  | .failed => true
  | .ok _ => false

open Generated.C22 in
/-- does `deepcopy(self.stack, …)` redirect a big map whose context is `self.context` to the context copy?
Only when the context was copied first into the *same* memo and `__deepcopy__` looks the memo up. -/
def rebinds (snap : Snapshot) (dc : DeepcopyContext) : Bool :=
  match snap, dc with
  | .sharedMemoContextFirst, .memoLookup => true
  | _, _ => false

/-- `execute` for a given backup shape -/
def cellWith (rebind : Bool) (σ : State) (c : Cell) : State × CellResult :=
  match σ.heap[σ.cur]? with
  | none => (σ, .failed)
  | some ctx =>
    -- context_backup = deepcopy(self.context): a fresh object with the same fields
    let n := σ.heap.length
    let heap1 := σ.heap ++ [ctx]
    -- stack_backup = deepcopy(self.stack): big maps go through `__deepcopy__`
    let stackBackup := σ.stack.map (Val.map fun r => if rebind && r = σ.cur then n else r)
    match runInstrs heapStore σ.cur c σ.stack heap1 with
    | (.ok r, h) => (⟨h, σ.cur, r.1⟩, .ok r.2)
    | (.error _, h) => (⟨h, n, stackBackup⟩, .failed)      -- self.stack = stack_backup; self.context = context_backup

open Generated.C22 in
/-- every structural fact the mirror depends on was recognised in the source -/
def config : Option Bool :=
  match snapshot, deepcopyContext, duplicateKeeps, contextCopy, stackShape, instrShape with
  | some sn, some dc, some _, some _, some _, some _ => some (rebinds sn dc)
  | _, _, _, _, _, _ => none

/-- the source under test -/
def cell (σ : State) (c : Cell) : Option (State × CellResult) := config.map fun rb => cellWith rb σ c

def sessionWith (rebind : Bool) : State → List Cell → List CellResult × State
  | σ, [] => ([], σ)
  | σ, c :: cs =>
    let r := cellWith rebind σ c
    let rest := sessionWith rebind r.1 cs
    (r.2 :: rest.1, rest.2)

def session (σ : State) (cs : List Cell) : Option (List CellResult × State) := config.map fun rb => sessionWith rb σ cs

/-- the cells of a session that did not fail -/
def dropFailingWith (rebind : Bool) : State → List Cell → List Cell
  | _, [] => []
  | σ, c :: cs =>
    let r := cellWith rebind σ c
    if r.2.isFailed then dropFailingWith rebind r.1 cs else c :: dropFailingWith rebind r.1 cs

def dropFailing (σ : State) (cs : List Cell) : Option (List Cell) := config.map fun rb => dropFailingWith rb σ cs

/-- what can be seen of a state, following references: the stack (values without addresses), the contents of every
context reachable from a stacked big map, and the interpreter's own context -/
structure Observation where
  stack : List (Val Unit)
  reachable : List (Option Ctx)
  context : Option Ctx
  deriving DecidableEq, Repr

def observe (σ : State) : Observation :=
  ⟨σ.stack.map erase, (σ.stack.flatMap Val.refs).map fun r => σ.heap[r]?, σ.heap[σ.cur]?⟩

/-- result and observation after every cell of a session -/
def traceWith (rebind : Bool) : State → List Cell → List (CellResult × Observation)
  | _, [] => []
  | σ, c :: cs =>
    let r := cellWith rebind σ c
    (r.2, observe r.1) :: traceWith rebind r.1 cs

def trace (σ : State) (cs : List Cell) : Option (List (CellResult × Observation)) := config.map fun rb => traceWith rb σ cs

/-- well-formed: the interpreter's context exists and every stacked big map points at it -/
def WF (σ : State) : Prop := σ.cur < σ.heap.length ∧ ∀ v ∈ σ.stack, ∀ r ∈ v.refs, r = σ.cur

end Impl.Session
