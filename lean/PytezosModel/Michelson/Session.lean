import PytezosModel.Generated.C22
import PytezosModel.Michelson.BigMap
/-! Mirror of a REPL session (`Interpreter.execute`, src/pytezos/michelson/repl.py) over the cell alphabet of C22:
storage / parameter / code declarations, PUSH, SOME, NONE, UNIT, EMPTY_BIG_MAP, UPDATE, GET, MEM, GET_AND_UPDATE, DUP,
DROP, SWAP, PAIR, CAR, CDR, NIL operation, ADD, FAILWITH, DROP n, DIG n, DUG n, DUP n, DIP { … }, DIP n { … } (bodies
nest), AMOUNT, BALANCE, NOW, SENDER, SOURCE, PATCH <field> [value], BEGIN, COMMIT, RUN, DROP_ALL, BIG_MAP_DIFF
(src/pytezos/michelson/instructions/{jupyter,struct,stack,control,tezos}.py, sections/*.py, program.py `begin`/`end`).

The stack is pytezos' `MichelsonStack` (src/pytezos/michelson/stack.py): `items` plus the counter `protected`; `protect`,
`restore`, `push`, `peek`, `pop`, `clear` are transcribed literally (`Stk`), every instruction goes through them, and
`execute_dip` is `protect; body; restore` with NO try/finally: when an instruction raises inside a DIP body (or between
the `protect` and the `restore` of DIG / DUP n) the live stack object keeps `protected > 0`.  What is left of the
machine stack when a cell raises is therefore part of the result (`Fail.prot`); its items are not, because both restore
shapes found in the source overwrite or discard them.

What the property is about is *aliasing*: a `BigMapType` on the stack holds a reference to an `ExecutionContext`
object, `Interpreter.execute` deep-copies stack and context before a cell and swaps the copies in when the cell fails.
So context objects live in an explicit heap (`List Ctx`, a reference is an index), a stacked big map carries a
reference, and every instruction reaches a context through the reference the code uses: the interpreter's own
(`cur`) for declarations, EMPTY_BIG_MAP, BEGIN, RUN, PATCH, AMOUNT …; the big map's for GET / MEM / UPDATE
(`get_big_map_value`) and for `aggregate_lazy_diff` (`get_big_map_diff`: id allocation) in COMMIT, RUN and BIG_MAP_DIFF.

The instruction semantics is written once, generic in the reference type `ρ` and a store `S` of contexts
(`Store`); `heapStore` is the mirror, `unitStore` (one context, trivial references) is the aliasing-free reading
used to state what a session *without* the failing cells does.  How the backup is taken (`Generated.C22.snapshot`,
`deepcopyContext`), how it is put back (`Generated.C22.restore`: the stack object is replaced, or only its `items`) and
what `update` iterates over (`Generated.C15`) are read from the source.

Fragment: keys and values of big maps are naturals (`big_map nat nat`); strings (PATCH SENDER / SOURCE / CHAIN_ID) are
tokens: the empty string, a well-formed address of the driver's table, any other non-empty string (`Str`); `DUP n` is
`dupn (n - 1)` (`DUP 0` is not in the alphabet); no shell, no key, `balance_update = 0` (nothing in the alphabet spends).
`Err.outOfModel` marks inputs on which the real code does something the value domain here cannot express (UPDATE
with a non-nat payload is accepted unchecked by pytezos); the correspondence never generates them. -/

namespace Impl.Session
open Impl.BigMap

/-! ### `MichelsonStack` -/

/-- `MichelsonStack`: `items` (top first) and the number of protected leading items -/
structure Stk (α : Type) where
  items : List α
  prot : Nat
  deriving DecidableEq, Repr

namespace Stk
variable {α β : Type}

/-- `MichelsonStack()` -/
def empty : Stk α := ⟨[], 0⟩

/-- `protect(count)`: `if len(self.items) < count: raise`; `self.protected += count` -/
def protect (s : Stk α) (count : Nat) : Option (Stk α) :=
  if s.items.length < count then none else some { s with prot := s.prot + count }

/-- `restore(count)`: `if self.protected < count: raise`; `self.protected -= count` -/
def restore (s : Stk α) (count : Nat) : Option (Stk α) :=
  if s.prot < count then none else some { s with prot := s.prot - count }

/-- `push(item)`: `self.items.insert(self.protected, item)` (`list.insert` clamps the index) -/
def push (s : Stk α) (v : α) : Stk α :=
  { s with items := s.items.take s.prot ++ v :: s.items.drop s.prot }

/-- `peek()`: `if not self.items: raise`; `self.items[self.protected]` (IndexError beyond the end) -/
def peek (s : Stk α) : Option α :=
  if s.items.isEmpty then none else s.items[s.prot]?

/-- `pop(count)`: `if len(self.items) - self.protected < count: raise`; `[self.items.pop(self.protected) for _ in range(count)]` -/
def pop (s : Stk α) (count : Nat) : Option (List α × Stk α) :=
  if s.items.length < s.prot + count then none
  else some ((s.items.drop s.prot).take count, { s with items := s.items.take s.prot ++ (s.items.drop s.prot).drop count })

/-- `clear()` -/
def clear (_ : Stk α) : Stk α := ⟨[], 0⟩

def map (f : α → β) (s : Stk α) : Stk β := ⟨s.items.map f, s.prot⟩

/-- what an instruction with `k` operands does first: `pop1()` / `pop2()` / `pop3()` — nothing when it has none -/
def popArgs (s : Stk α) (k : Nat) : Option (List α × Stk α) :=
  if k = 0 then some ([], s) else s.pop k

/-- push a segment given top first (the last element is pushed first) -/
def pushAll (s : Stk α) (vs : List α) : Stk α := vs.foldr (fun v acc => acc.push v) s

end Stk

/-! ### values, instructions, contexts -/

inductive Ty
  | unit | nat | bool | option (t : Ty) | pair (a b : Ty) | bigmap | listOp | mutez | timestamp | address
  deriving DecidableEq, Repr

/-- an address on the stack: the dummy key hash, or entry `i` of the driver's table of well-formed addresses -/
inductive Addr
  | dummy | known (i : Nat)
  deriving DecidableEq, Repr

/-- runtime values; `ρ` = type of context references held by big maps -/
inductive Val (ρ : Type)
  | unit
  | nat (n : Nat)
  | bool (b : Bool)
  | none (t : Ty)
  | some (v : Val ρ)
  | pair (a b : Val ρ)
  | nilOp
  | bigmap (b : BM Nat Nat) (ctx : ρ)
  | mutez (n : Nat)
  | timestamp (z : Int)
  | address (a : Addr)
  deriving DecidableEq, Repr

def Val.map {ρ ρ' : Type} (f : ρ → ρ') : Val ρ → Val ρ'
  | .unit => .unit
  | .nat n => .nat n
  | .bool b => .bool b
  | .none t => .none t
  | .some v => .some (v.map f)
  | .pair a b => .pair (a.map f) (b.map f)
  | .nilOp => .nilOp
  | .bigmap b r => .bigmap b (f r)
  | .mutez n => .mutez n
  | .timestamp z => .timestamp z
  | .address a => .address a

/-- the context references held inside a value, left to right -/
def Val.refs {ρ : Type} : Val ρ → List ρ
  | .some v => v.refs
  | .pair a b => a.refs ++ b.refs
  | .bigmap _ r => [r]
  | _ => []

def Val.typeOf {ρ : Type} : Val ρ → Ty
  | .unit => .unit
  | .nat _ => .nat
  | .bool _ => .bool
  | .none t => .option t
  | .some v => .option v.typeOf
  | .pair a b => .pair a.typeOf b.typeOf
  | .nilOp => .listOp
  | .bigmap _ _ => .bigmap
  | .mutez _ => .mutez
  | .timestamp _ => .timestamp
  | .address _ => .address

/-- instructions that may appear in a `code { … }` body and in cells (DIP is `Prog.dip`); `dupn d` is `DUP (d + 1)` -/
inductive Basic
  | push (n : Nat) | some | none_ (t : Ty) | unit | emptyBigMap | update | get | mem | getAndUpdate
  | dup | drop | swap | pair | car | cdr | nilOp | add | failwith
  | dropn (n : Nat) | dig (n : Nat) | dug (n : Nat) | dupn (d : Nat)
  | amount | balance | now | sender | source
  deriving DecidableEq, Repr

/-- a program over leaf instructions `α`: a leaf, `DIP { body }`, `DIP n { body }` -/
inductive Prog (α : Type)
  | op (a : α)
  | dip (body : List (Prog α))
  | dipn (n : Nat) (body : List (Prog α))
  deriving Repr

section decEq
variable {α : Type} [DecidableEq α]
mutual
def Prog.decEq : (a b : Prog α) → Decidable (a = b)
  | .op a, .op b => if h : a = b then isTrue (by rw [h]) else isFalse (by intro h'; cases h'; exact h rfl)
  | .dip x, .dip y =>
    match Prog.decEqList x y with
    | isTrue h => isTrue (by rw [h])
    | isFalse h => isFalse (by intro h'; cases h'; exact h rfl)
  | .dipn n x, .dipn m y =>
    if hn : n = m then
      match Prog.decEqList x y with
      | isTrue h => isTrue (by rw [hn, h])
      | isFalse h => isFalse (by intro h'; cases h'; exact h rfl)
    else isFalse (by intro h'; cases h'; exact hn rfl)
  | .op _, .dip _ => isFalse (by intro h; cases h)
  | .op _, .dipn _ _ => isFalse (by intro h; cases h)
  | .dip _, .op _ => isFalse (by intro h; cases h)
  | .dip _, .dipn _ _ => isFalse (by intro h; cases h)
  | .dipn _ _, .op _ => isFalse (by intro h; cases h)
  | .dipn _ _, .dip _ => isFalse (by intro h; cases h)
def Prog.decEqList : (a b : List (Prog α)) → Decidable (a = b)
  | [], [] => isTrue rfl
  | [], _ :: _ => isFalse (by intro h; cases h)
  | _ :: _, [] => isFalse (by intro h; cases h)
  | x :: xs, y :: ys =>
    match Prog.decEq x y with
    | isFalse h => isFalse (by intro h'; cases h'; exact h rfl)
    | isTrue h =>
      match Prog.decEqList xs ys with
      | isTrue h2 => isTrue (by rw [h, h2])
      | isFalse h2 => isFalse (by intro h'; cases h'; exact h2 rfl)
end
instance : DecidableEq (Prog α) := Prog.decEq
end decEq

/-- literals of BEGIN / RUN -/
inductive Lit
  | unit
  | int (n : Int)
  | seq (elts : List (Nat × Nat))
  | pair (a b : Lit)
  deriving DecidableEq, Repr

/-- a string literal, as far as the alphabet tells strings apart: `""`, entry `i` of the driver's table of well-formed
addresses, any other non-empty string (never an address, never an RFC 3339 timestamp) -/
inductive Str
  | empty | addr (i : Nat) | other (i : Nat)
  deriving DecidableEq, Repr

/-- `PatchInstruction.allowed_primitives` -/
inductive Field
  | amount | balance | chainId | sender | source | now
  deriving DecidableEq, Repr

/-- the literal of `PATCH <field> <literal>` -/
inductive PatchVal
  | int (n : Int) | str (s : Str)
  deriving DecidableEq, Repr

/-- the leaf instructions of a cell -/
inductive Instr
  | basic (b : Basic)
  | declStorage (t : Ty)
  | declParam (t : Ty)
  | declCode (c : List (Prog Basic))
  | begin_ (p s : Lit)
  | commit
  | run (p s : Lit)
  | dropAll
  | bigMapDiff
  | patch (f : Field) (v : Option PatchVal)
  | parseError        -- the cell text does not parse: `MichelsonParserError` before anything runs
  deriving DecidableEq, Repr

/-- an `ExecutionContext` as far as the alphabet can see it -/
structure Ctx where
  storageTy : Option Ty
  paramTy : Option Ty
  code : Option (List (Prog Basic))
  big : BigMap.Ctx
  amount : Option Int
  balance : Option Int
  now : Option Int
  sender : Option Str
  source : Option Str
  chainId : Option Str
  deriving DecidableEq, Repr

def Ctx.init : Ctx := ⟨none, none, none, BigMap.Ctx.empty, none, none, none, none, none, none⟩

inductive Err
  | underflow | illTyped | failwith | noShell | notInitialised | rejected | parse | dangling | unrecognised | outOfModel
  deriving DecidableEq, Repr

/-- what is known of a raising instruction: the error, and the `protected` counter of the live stack object at that
moment (its items are overwritten or discarded by the rollback) -/
structure Fail where
  err : Err
  prot : Nat
  deriving DecidableEq, Repr

abbrev Entry := DiffEntry Nat Nat Unit

/-- what a cell shows besides the stack: the `lazy_diff` (and `result`) of COMMIT / RUN / BIG_MAP_DIFF;
values are shown without their context references -/
structure Out where
  kind : String
  diff : List Entry
  result : Option (Val Unit)
  deriving DecidableEq, Repr

/-- a store of context objects addressed by references -/
structure Store (ρ S : Type) where
  rd : S → ρ → Option Ctx
  wr : S → ρ → Ctx → S

/-- the heap of the Python process: a reference is an index -/
def heapStore : Store Nat (List Ctx) := ⟨fun h r => h[r]?, fun h r c => h.set r c⟩

/-- a single context, no aliasing possible -/
def unitStore : Store Unit Ctx := ⟨fun c _ => some c, fun _ _ c => c⟩

abbrev Res (S α : Type) := Except Fail α × S

section generic
variable {ρ S : Type}

/-! ### instructions that pop, compute, push -/

/-- how many items the instruction pops (`pop1` / `pop2` / `pop3`) before it looks at them -/
def arity : Basic → Nat
  | .some | .drop | .car | .cdr | .failwith => 1
  | .swap | .pair | .add | .get | .mem => 2
  | .update | .getAndUpdate => 3
  | _ => 0

/-- `MutezType.from_value`: `assert value >= 0`, at most 63 bits -/
def mutezOf (v : Int) : Except Err (Val ρ) :=
  if v < 0 then .error .rejected else if 2 ^ 63 ≤ v then .error .rejected else .ok (.mutez v.toNat)

/-- the popped items (top first, followed by whatever the caller leaves below) to what is pushed back;
`none`: not an instruction of this kind -/
def stackOnly : Basic → List (Val ρ) → Option (Except Err (List (Val ρ)))
  | .push n, st => some (.ok (.nat n :: st))
  | .some, v :: st => some (.ok (.some v :: st))
  | .some, [] => some (.error .underflow)
  | .none_ t, st => some (.ok (.none t :: st))
  | .unit, st => some (.ok (.unit :: st))
  | .drop, _ :: st => some (.ok st)
  | .drop, [] => some (.error .underflow)
  | .swap, a :: b :: st => some (.ok (b :: a :: st))
  | .swap, _ => some (.error .underflow)
  | .pair, a :: b :: st => some (.ok (.pair a b :: st))
  | .pair, _ => some (.error .underflow)
  | .car, .pair a _ :: st => some (.ok (a :: st))
  | .car, _ :: _ => some (.error .illTyped)
  | .car, [] => some (.error .underflow)
  | .cdr, .pair _ b :: st => some (.ok (b :: st))
  | .cdr, _ :: _ => some (.error .illTyped)
  | .cdr, [] => some (.error .underflow)
  | .nilOp, st => some (.ok (.nilOp :: st))
  | .add, .nat a :: .nat b :: st => some (.ok (.nat (a + b) :: st))
  | .add, .mutez a :: .mutez b :: st => some ((mutezOf ((a + b : Nat) : Int)).map fun v => v :: st)
  | .add, _ :: _ :: _ => some (.error .illTyped)
  | .add, _ => some (.error .underflow)
  | .failwith, _ :: _ => some (.error .failwith)
  | .failwith, [] => some (.error .underflow)
  | _, _ => none

/-! ### big map instructions: read the context the *big map* points at -/

/-- `BigMapType.get` without a shell: local diff first, then `self.context.get_big_map_value(self.ptr, …)` -/
def bmGet (σ : Store ρ S) (s : S) (b : BM Nat Nat) (r : ρ) (k : Nat) : Except Err (Option Nat) :=
  match findLocal b k with
  | some v => .ok v
  | none =>
    match σ.rd s r with
    | none => .error .dangling
    | some c =>
      match b.ptr with
      | none => .ok none
      | some p =>
        match getBigMapValue (K := Nat) (V := Nat) none c.big p k with
        | .ok v => .ok v
        | .error _ => .error .noShell

def optVal : Option Nat → Val ρ
  | some n => .some (.nat n)
  | none => .none .nat

/-- payload of UPDATE / GET_AND_UPDATE: `None` removes, `Some n` sets; anything else is outside the model -/
def asOptNat : Val ρ → Except Err (Option Nat)
  | .none _ => .ok none
  | .some (.nat n) => .ok (some n)
  | .some _ => .error .outOfModel
  | _ => .error .illTyped

def bmUpdate (σ : Store ρ S) (s : S) (b : BM Nat Nat) (r : ρ) (k : Nat) (v : Option Nat) : Except Err (Option Nat × BM Nat Nat) :=
  match config with
  | none => .error .unrecognised
  | some sh =>
    match bmGet σ s b r k with
    | .error e => .error e
    | .ok prev => .ok (prev, updateWith sh Nat.blt b k v prev)

/-- GET, MEM, UPDATE, GET_AND_UPDATE (only on `big_map nat nat` and nat keys here): popped items to pushed items -/
def stepBigMap (σ : Store ρ S) (s : S) : Basic → List (Val ρ) → Except Err (List (Val ρ))
  | .get, .nat k :: .bigmap b r :: st => (bmGet σ s b r k).map fun v => optVal v :: st
  | .get, _ :: _ :: _ => .error .illTyped
  | .get, _ => .error .underflow
  | .mem, .nat k :: .bigmap b r :: st => (bmGet σ s b r k).map fun v => .bool v.isSome :: st
  | .mem, _ :: _ :: _ => .error .illTyped
  | .mem, _ => .error .underflow
  | .update, .nat k :: v :: .bigmap b r :: st =>
    (asOptNat v).bind fun ov => (bmUpdate σ s b r k ov).map fun res => .bigmap res.2 r :: st
  | .update, _ :: _ :: _ :: _ => .error .illTyped
  | .update, _ => .error .underflow
  | .getAndUpdate, .nat k :: v :: .bigmap b r :: st =>
    (asOptNat v).bind fun ov => (bmUpdate σ s b r k ov).map fun res => optVal res.1 :: .bigmap res.2 r :: st
  | .getAndUpdate, _ :: _ :: _ :: _ => .error .illTyped
  | .getAndUpdate, _ => .error .underflow
  | _, _ => .error .unrecognised

/-! ### the execution environment: AMOUNT, BALANCE, NOW, SENDER, SOURCE -/

/-- `AddressType.from_value(self.sender or self.get_dummy_key_hash())` (no key: the dummy is the all-zero tz1) -/
def addrOf : Option Str → Except Err (Val ρ)
  | none => .ok (.address .dummy)
  | some .empty => .ok (.address .dummy)
  | some (.addr i) => .ok (.address (.known i))
  | some (.other _) => .error .rejected            -- `assert is_address(value)`

/-- what AMOUNT / BALANCE / NOW / SENDER / SOURCE push, read from the context passed down -/
def readEnv (c : Ctx) : Basic → Except Err (Val ρ)
  | .amount => mutezOf (c.amount.getD 0)     -- `self.amount or 0`
  | .balance => mutezOf (c.balance.getD 0)   -- no shell; `+ self.balance_update`, which is 0
  | .now => .ok (.timestamp (c.now.getD 0))  -- no shell
  | .sender => addrOf c.sender
  | .source => addrOf c.source
  | _ => .error .unrecognised

/-- an error raised while the live stack is `st` -/
def failAt {α : Type} (st : Stk (Val ρ)) (e : Err) (s : S) : Res S α := (.error ⟨e, st.prot⟩, s)

/-- an instruction that pops its operands (`pop1` / `pop2` / `pop3`), checks them and pushes its results -/
def stepPops (σ : Store ρ S) (b : Basic) (st : Stk (Val ρ)) (s : S) : Res S (Stk (Val ρ)) :=
  match st.popArgs (arity b) with
  | none => failAt st .underflow s
  | some (xs, st1) =>
    match (match stackOnly b xs with
           | some r => r
           | none => stepBigMap σ s b xs) with
    | .ok ys => (.ok (st1.pushAll ys), s)
    | .error e => failAt st e s

/-- AMOUNT / BALANCE / NOW / SENDER / SOURCE: `context.get_…()`, `XType.from_value(…)`, `stack.push(res)` -/
def stepEnv (σ : Store ρ S) (cur : ρ) (b : Basic) (st : Stk (Val ρ)) (s : S) : Res S (Stk (Val ρ)) :=
  match σ.rd s cur with
  | none => failAt st .dangling s
  | some c =>
    match readEnv c b with
    | .ok v => (.ok (st.push v), s)
    | .error e => failAt st e s

/-- one leaf instruction of a code body / cell; `cur` = the interpreter's context reference -/
def stepBasic (σ : Store ρ S) (cur : ρ) (b : Basic) (st : Stk (Val ρ)) (s : S) : Res S (Stk (Val ρ)) :=
  match b with
  | .dup =>
    -- `top = stack.peek()`; `stack.push(top.duplicate())` — `duplicate()` keeps `context`
    match st.peek with
    | none => failAt st .underflow s
    | some v => (.ok (st.push v), s)
  | .dropn n =>
    -- `stack.pop(count=n)`
    match st.pop n with
    | none => failAt st .underflow s
    | some r => (.ok r.2, s)
  | .dig n =>
    -- `protect(n)`; `pop1()`; `restore(n)`; `push(res)`
    match st.protect n with
    | none => failAt st .underflow s
    | some st1 =>
      match st1.pop 1 with
      | none => failAt st1 .underflow s                     -- raised with `n` more items protected
      | some (vs, st2) =>
        match st2.restore n with
        | none => failAt st2 .underflow s
        | some st3 => (.ok (st3.pushAll vs), s)
  | .dug n =>
    -- `pop1()`; `protect(n)`; `push(res)`; `restore(n)`
    match st.pop 1 with
    | none => failAt st .underflow s
    | some (vs, st1) =>
      match st1.protect n with
      | none => failAt st1 .underflow s
      | some st2 =>
        match (st2.pushAll vs).restore n with
        | none => failAt (st2.pushAll vs) .underflow s
        | some st3 => (.ok st3, s)
  | .dupn d =>
    -- `DUP (d+1)`: `protect(d)`; `peek()`; `duplicate()`; `restore(d)`; `push(res)`
    match st.protect d with
    | none => failAt st .underflow s
    | some st1 =>
      match st1.peek with
      | none => failAt st1 .underflow s                     -- raised with `d` more items protected
      | some v =>
        match st1.restore d with
        | none => failAt st1 .underflow s
        | some st2 => (.ok (st2.push v), s)
  | .emptyBigMap =>
    match σ.rd s cur with
    | none => failAt st .dangling s
    | some c =>
      let r := getTmpBigMapId c.big
      (.ok (st.push (.bigmap ⟨[], [], some r.1⟩ cur)), σ.wr s cur { c with big := r.2 })
  | .amount | .balance | .now | .sender | .source => stepEnv σ cur b st s
  | b => stepPops σ b st s

/-! ### programs: DIP bodies -/

/-- `execute_dip`: `stack.protect(count)`; `body.execute(…)`; `stack.restore(count)` — no try/finally -/
def executeDip {α : Type} (count : Nat) (body : Stk (Val ρ) → S → Res S (Stk (Val ρ) × α))
    (st : Stk (Val ρ)) (s : S) : Res S (Stk (Val ρ) × α) :=
  match st.protect count with
  | none => failAt st .underflow s
  | some st1 =>
    match body st1 s with
    | (.error f, s') => (.error f, s')
    | (.ok r, s') =>
      match r.1.restore count with
      | none => failAt r.1 .underflow s'
      | some st2 => (.ok (st2, r.2), s')

mutual
/-- one instruction: a leaf, or a DIP around a body -/
def execProg {α : Type} (step : α → Stk (Val ρ) → S → Res S (Stk (Val ρ) × List Out)) :
    Prog α → Stk (Val ρ) → S → Res S (Stk (Val ρ) × List Out)
  | .op a, st, s => step a st s
  | .dip body, st, s => executeDip 1 (execProgs step body) st s
  | .dipn n body, st, s => executeDip n (execProgs step body) st s
/-- `MichelineSequence.execute`: left to right, until one raises -/
def execProgs {α : Type} (step : α → Stk (Val ρ) → S → Res S (Stk (Val ρ) × List Out)) :
    List (Prog α) → Stk (Val ρ) → S → Res S (Stk (Val ρ) × List Out)
  | [], st, s => (.ok (st, []), s)
  | p :: ps, st, s =>
    match execProg step p st s with
    | (.error f, s') => (.error f, s')
    | (.ok r, s') =>
      match execProgs step ps r.1 s' with
      | (.ok r2, s'') => (.ok (r2.1, r.2 ++ r2.2), s'')
      | (.error f, s'') => (.error f, s'')
end

/-- a leaf of a code body shows nothing -/
def basicStep (σ : Store ρ S) (cur : ρ) (b : Basic) (st : Stk (Val ρ)) (s : S) : Res S (Stk (Val ρ) × List Out) :=
  match stepBasic σ cur b st s with
  | (.ok st', s') => (.ok (st', []), s')
  | (.error f, s') => (.error f, s')

/-- a `code { … }` body -/
def runBasics (σ : Store ρ S) (cur : ρ) (code : List (Prog Basic)) (st : Stk (Val ρ)) (s : S) : Res S (Stk (Val ρ) × List Out) :=
  execProgs (basicStep σ cur) code st s

/-! ### literals, `attach_context`, `aggregate_lazy_diff` -/

/-- `from_micheline_value` for the storage / parameter types of the fragment (no context yet) -/
def parseLit : Ty → Lit → Except Err (Val Unit)
  | .unit, .unit => .ok .unit
  | .nat, .int n => if 0 ≤ n then .ok (.nat n.toNat) else .error .rejected
  | .bigmap, .int p => .ok (.bigmap ⟨[], [], some p⟩ ())
  | .bigmap, .seq elts =>
    match fromLiteral Nat.blt elts with
    | some b => .ok (.bigmap b ())
    | none => .error .rejected
  | .pair ta tb, .pair a b =>
    match parseLit ta a, parseLit tb b with
    | .ok va, .ok vb => .ok (.pair va vb)
    | .error e, _ => .error e
    | _, .error e => .error e
  | .unit, _ => .error .rejected
  | .nat, _ => .error .rejected
  | .bigmap, _ => .error .rejected
  | .pair _ _, _ => .error .rejected
  | _, _ => .error .outOfModel

/-- `attach_context(context, big_map_copy=copy)` on a freshly parsed value: every big map gets the reference `cur`
and a temporary / registered id -/
def attachVal (cur : ρ) (copy : Bool) : Val Unit → BigMap.Ctx → Val ρ × BigMap.Ctx
  | .bigmap b (), c => let r := attachContext c b copy; (.bigmap r.1 cur, r.2)
  | .pair a b, c =>
    let ra := attachVal cur copy a c
    let rb := attachVal cur copy b ra.2
    (.pair ra.1 rb.1, rb.2)
  | .some v, c => let r := attachVal cur copy v c; (.some r.1, r.2)
  | .unit, c => (.unit, c)
  | .nat n, c => (.nat n, c)
  | .bool b, c => (.bool b, c)
  | .none t, c => (.none t, c)
  | .nilOp, c => (.nilOp, c)
  | .mutez n, c => (.mutez n, c)
  | .timestamp z, c => (.timestamp z, c)
  | .address a, c => (.address a, c)

/-- `aggregate_lazy_diff`: every big map inside the value asks *its own* context for the id -/
def aggVal (σ : Store ρ S) : Val ρ → S → Except Err (Val ρ × List Entry) × S
  | .bigmap b r, s =>
    match σ.rd s r with
    | none => (.error .dangling, s)
    | some c =>
      match aggregateLazyDiff (fun _ => ()) c.big b with
      | none => (.error .illTyped, s)
      | some res => (.ok (.bigmap res.2.1 r, [res.1]), σ.wr s r { c with big := res.2.2 })
  | .pair a b, s =>
    match aggVal σ a s with
    | (.error e, s1) => (.error e, s1)
    | (.ok ra, s1) =>
      match aggVal σ b s1 with
      | (.error e, s2) => (.error e, s2)
      | (.ok rb, s2) => (.ok (.pair ra.1 rb.1, ra.2 ++ rb.2), s2)
  | .some v, s =>
    match aggVal σ v s with
    | (.error e, s1) => (.error e, s1)
    | (.ok r, s1) => (.ok (.some r.1, r.2), s1)
  | .unit, s => (.ok (.unit, []), s)
  | .nat n, s => (.ok (.nat n, []), s)
  | .bool b, s => (.ok (.bool b, []), s)
  | .none t, s => (.ok (.none t, []), s)
  | .nilOp, s => (.ok (.nilOp, []), s)
  | .mutez n, s => (.ok (.mutez n, []), s)
  | .timestamp z, s => (.ok (.timestamp z, []), s)
  | .address a, s => (.ok (.address a, []), s)

def erase : Val ρ → Val Unit := Val.map fun _ => ()

/-- BEGIN / `program.begin`: parse both literals, attach parameter (as copy) then storage to `cur`, build the pair -/
def beginWith (σ : Store ρ S) (cur : ρ) (p s : Lit) (st : S) : Except Err (Val ρ) × S :=
  match σ.rd st cur with
  | none => (.error .dangling, st)
  | some c =>
    match c.paramTy, c.storageTy with
    | some pt, some sty =>
      match parseLit pt p, parseLit sty s with
      | .ok pv, .ok sv =>
        let rp := attachVal cur true pv c.big
        let rs := attachVal cur false sv rp.2
        (.ok (.pair rp.1 rs.1), σ.wr st cur { c with big := rs.2 })
      | .error e, _ => (.error e, st)
      | _, .error e => (.error e, st)
    | _, _ => (.error .notInitialised, st)

/-- COMMIT / `program.end` on the popped value -/
def endWith (σ : Store ρ S) (cur : ρ) (res : Val ρ) (st : S) : Except Err (Val ρ × List Entry) × S :=
  match σ.rd st cur with
  | none => (.error .dangling, st)
  | some c =>
    match c.storageTy, res with
    | some sty, .pair ops sv =>
      if res.typeOf = .pair .listOp sty then
        match aggVal σ sv st with
        | (.ok r, st') => (.ok (.pair ops r.1, r.2), st')
        | (.error e, st') => (.error e, st')
      else (.error .illTyped, st)
    | some _, _ => (.error .illTyped, st)
    | none, _ => (.error .notInitialised, st)

/-- `res = stack.pop1()`; `if len(stack): raise` (every item counts, protected or not); type check; lazy diff -/
def popResult (σ : Store ρ S) (cur : ρ) (stk : Stk (Val ρ)) (s : S) : Res S (Stk (Val ρ) × Val ρ × Val ρ × List Entry) :=
  match stk.pop 1 with
  | some ([res], stk1) =>
    if stk1.items.isEmpty then
      match endWith σ cur res s with
      | (.ok r, s') => (.ok (stk1, res, r.1, r.2), s')
      | (.error e, s') => failAt stk1 e s'
    else failAt stk1 .illTyped s                            -- 'Stack is not empty'
  | _ => failAt stk .underflow s

/-- PATCH: `context.<field> = None` / `literal.get_int()` / `literal.get_string()` -/
def patchCtx (c : Ctx) : Field → Option PatchVal → Except Err Ctx
  | .amount, none => .ok { c with amount := none }
  | .amount, some (.int n) => .ok { c with amount := some n }
  | .amount, some (.str _) => .error .rejected            -- `get_int`: TypeError
  | .balance, none => .ok { c with balance := none }
  | .balance, some (.int n) => .ok { c with balance := some n }
  | .balance, some (.str _) => .error .rejected
  | .chainId, none => .ok { c with chainId := none }
  | .chainId, some (.str x) => .ok { c with chainId := some x }
  | .chainId, some (.int _) => .error .rejected           -- `get_string`: TypeError
  | .sender, none => .ok { c with sender := none }
  | .sender, some (.str x) => .ok { c with sender := some x }
  | .sender, some (.int _) => .error .rejected
  | .source, none => .ok { c with source := none }
  | .source, some (.str x) => .ok { c with source := some x }
  | .source, some (.int _) => .error .rejected
  | .now, none => .ok { c with now := none }
  | .now, some (.int n) => .ok { c with now := some n }
  | .now, some (.str _) => .error .rejected               -- not an int, and no `Str` is an RFC 3339 timestamp

/-- one leaf instruction of a cell: new stack and what it shows -/
def stepInstr (σ : Store ρ S) (cur : ρ) (i : Instr) (st : Stk (Val ρ)) (s : S) : Res S (Stk (Val ρ) × List Out) :=
  match i with
  | .basic b => basicStep σ cur b st s
  | .declStorage t =>
    match σ.rd s cur with
    | none => failAt st .dangling s
    | some c => (.ok (st, []), σ.wr s cur { c with storageTy := some t })
  | .declParam t =>
    match σ.rd s cur with
    | none => failAt st .dangling s
    | some c => (.ok (st, []), σ.wr s cur { c with paramTy := some t })
  | .declCode code =>
    match σ.rd s cur with
    | none => failAt st .dangling s
    | some c => (.ok (st, []), σ.wr s cur { c with code := some code })
  | .begin_ p sl =>
    match beginWith σ cur p sl s with
    | (.ok v, s') => (.ok (({ st with items := [] } : Stk (Val ρ)).push v, []), s')   -- `stack.items = []`; `stack.push(res)`
    | (.error e, s') => failAt st e s'
  | .commit =>
    match popResult σ cur st s with
    | (.ok r, s') => (.ok (r.1, [⟨"COMMIT", r.2.2.2, some (erase r.2.2.1)⟩]), s')
    | (.error f, s') => (.error f, s')
  | .run p sl =>
    -- `stack.clear()`; load needs parameter, storage and code
    let st0 := st.clear
    match σ.rd s cur with
    | none => failAt st0 .dangling s
    | some c =>
      match c.code with
      | none => failAt st0 .notInitialised s
      | some code =>
        match beginWith σ cur p sl s with
        | (.error e, s1) => failAt st0 e s1
        | (.ok v, s1) =>
          match runBasics σ cur code (st0.push v) s1 with
          | (.error f, s2) => (.error f, s2)
          | (.ok r, s2) =>
            match popResult σ cur r.1 s2 with
            | (.ok q, s3) => (.ok (q.1, [⟨"RUN", q.2.2.2, some (erase q.2.1)⟩]), s3)   -- `result=res`: the popped pair
            | (.error f, s3) => (.error f, s3)
  | .dropAll => (.ok ({ st with items := [] }, []), s)       -- `stack.items = []`: `protected` stays
  | .bigMapDiff =>
    match st.peek with
    | none => failAt st .underflow s
    | some v =>
      match aggVal σ v s with
      | (.ok r, s') => (.ok (st, [⟨"BIG_MAP_DIFF", r.2, none⟩]), s')
      | (.error e, s') => failAt st e s'
  | .patch f v =>
    match σ.rd s cur with
    | none => failAt st .dangling s
    | some c =>
      match patchCtx c f v with
      | .ok c' => (.ok (st, []), σ.wr s cur c')
      | .error e => failAt st e s
  | .parseError => failAt st .parse s

/-- the instructions of a cell, left to right, until one raises -/
def runInstrs (σ : Store ρ S) (cur : ρ) (c : List (Prog Instr)) (st : Stk (Val ρ)) (s : S) : Res S (Stk (Val ρ) × List Out) :=
  execProgs (stepInstr σ cur) c st s

end generic

/-! ### `Interpreter.execute` over the heap -/

abbrev Cell := List (Prog Instr)

/-- the interpreter object: the heap of context objects, `self.context`, `self.stack` -/
structure State where
  heap : List Ctx
  cur : Nat
  stack : Stk (Val Nat)
  deriving DecidableEq, Repr

/-- `Interpreter()` -/
def State.init : State := ⟨[Ctx.init], 0, Stk.empty⟩

/-- what a cell returns: `error` set or not, and what its instructions show -/
inductive CellResult
  | ok (outs : List Out)
  | failed
  deriving DecidableEq, Repr

def CellResult.isFailed : CellResult → Bool
  | .failed => true
  | .ok _ => false

open Generated.C22 in
/-- does `deepcopy(self.stack, …)` redirect a big map whose context is `self.context` to the context copy?
Only when the context was copied first into the *same* memo and `__deepcopy__` looks the memo up. -/
def rebinds (snap : Snapshot) (dc : DeepcopyContext) : Bool :=
  match snap, dc with
  | .sharedMemoContextFirst, .memoLookup => true
  | _, _ => false

/-- the shape of `execute` read from the source: does the stack copy follow the context copy, and how is the stack
put back when the cell raises -/
structure Cfg where
  rebind : Bool
  restore : Generated.C22.Restore
  deriving DecidableEq, Repr

/-- `execute` for a given backup / restore shape -/
def cellWith (cfg : Cfg) (σ : State) (c : Cell) : State × CellResult :=
  match σ.heap[σ.cur]? with
  | none => (σ, .failed)
  | some ctx =>
    -- context_backup = deepcopy(self.context): a fresh object with the same fields
    let n := σ.heap.length
    let heap1 := σ.heap ++ [ctx]
    -- stack_backup = deepcopy(self.stack): big maps go through `__deepcopy__`, `protected` is copied
    let stackBackup := σ.stack.map (Val.map fun r => if cfg.rebind && r = σ.cur then n else r)
    match runInstrs heapStore σ.cur c σ.stack heap1 with
    | (.ok r, h) => (⟨h, σ.cur, r.1⟩, .ok r.2)
    | (.error f, h) =>
      match cfg.restore with
      | .replaceStack => (⟨h, n, stackBackup⟩, .failed)                      -- self.stack = stack_backup; self.context = context_backup
      | .itemsOnly => (⟨h, n, ⟨stackBackup.items, f.prot⟩⟩, .failed)         -- self.stack.items = stack_backup.items: the live object keeps its `protected`

open Generated.C22 in
/-- every structural fact the mirror depends on was recognised in the source -/
def config : Option Cfg :=
  match snapshot, deepcopyContext, restore, duplicateKeeps, contextCopy, stackShape, instrShape with
  | some sn, some dc, some rs, some _, some _, some _, some _ => some ⟨rebinds sn dc, rs⟩
  | _, _, _, _, _, _, _ => none

/-- the source under test -/
def cell (σ : State) (c : Cell) : Option (State × CellResult) := config.map fun cfg => cellWith cfg σ c

def sessionWith (cfg : Cfg) : State → List Cell → List CellResult × State
  | σ, [] => ([], σ)
  | σ, c :: cs =>
    let r := cellWith cfg σ c
    let rest := sessionWith cfg r.1 cs
    (r.2 :: rest.1, rest.2)

def session (σ : State) (cs : List Cell) : Option (List CellResult × State) := config.map fun cfg => sessionWith cfg σ cs

/-- the cells of a session that did not fail -/
def dropFailingWith (cfg : Cfg) : State → List Cell → List Cell
  | _, [] => []
  | σ, c :: cs =>
    let r := cellWith cfg σ c
    if r.2.isFailed then dropFailingWith cfg r.1 cs else c :: dropFailingWith cfg r.1 cs

def dropFailing (σ : State) (cs : List Cell) : Option (List Cell) := config.map fun cfg => dropFailingWith cfg σ cs

/-- what can be seen of a state, following references: the stack (values without addresses), its `protected` counter
(where the next push lands, how many items the next pop can reach), the contents of every context reachable from a
stacked big map, and the interpreter's own context (declared types, code, big map counters and registry, the patched
AMOUNT / BALANCE / NOW / SENDER / SOURCE / CHAIN_ID) -/
structure Observation where
  stack : List (Val Unit)
  protected_ : Nat
  reachable : List (Option Ctx)
  context : Option Ctx
  deriving DecidableEq, Repr

def observe (σ : State) : Observation :=
  ⟨σ.stack.items.map erase, σ.stack.prot, (σ.stack.items.flatMap Val.refs).map fun r => σ.heap[r]?, σ.heap[σ.cur]?⟩

/-- result and observation after every cell of a session -/
def traceWith (cfg : Cfg) : State → List Cell → List (CellResult × Observation)
  | _, [] => []
  | σ, c :: cs =>
    let r := cellWith cfg σ c
    (r.2, observe r.1) :: traceWith cfg r.1 cs

def trace (σ : State) (cs : List Cell) : Option (List (CellResult × Observation)) := config.map fun cfg => traceWith cfg σ cs

/-- well-formed: the interpreter's context exists and every stacked big map points at it -/
def WF (σ : State) : Prop := σ.cur < σ.heap.length ∧ ∀ v ∈ σ.stack.items, ∀ r ∈ v.refs, r = σ.cur

end Impl.Session
