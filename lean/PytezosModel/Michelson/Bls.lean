import PytezosModel.Generated.C21
import PytezosModel.Core.Bytes
/-! Mirror of the BLS12-381 support of the Michelson interpreter:

* `src/pytezos/michelson/types/bls.py` — `BLS12_381_FrType` (integers reduced modulo `modulus`, 32-byte
  little-endian literals), `BLS12_381_G1Type` / `BLS12_381_G2Type` (`from_point` / `to_point`: 48-byte big-endian
  coordinates, the infinity encoding, the coefficient order of G2);
* the BLS rows of `ADD` / `MUL` / `NEG` / `INT` (`michelson/instructions/arithmetic.py`);
* `PAIRING_CHECK` (`michelson/instructions/crypto.py`).

**What is abstract.**  The curve arithmetic itself is py_ecc's (`optimized_bls12_381.add / neg / multiply /
normalize / is_inf / pairing`, the `FQ` / `FQ2` / `FQ12` classes).  It is *modelled, not verified*: `CurveOps`,
`TargetOps` and `Env` are plain records of operations (the driver instantiates them with executable arithmetic),
and the group / bilinearity laws are the `Prop`-valued records `CurveLaws` / `PairingLaws` that the theorems take
as hypotheses — they are structure fields, not Lean axioms, and `Props/C21.lean` exhibits an instance.

Everything the constants and shapes of which come from the source (field widths, wire order, slices, infinity
coordinates, whether `to_point` decodes infinity, the Fr modulus, dispatch tables, which NEG branch keeps the
operand class) is read from `Generated.C21` through `src`. -/
namespace Bls
open Core Generated.C21

/-- the base-field modulus of py_ecc (`field_properties["bls12_381"]["field_modulus"]`; not part of pytezos' source,
compared with the installed py_ecc by the harness on every run) -/
def q : Nat := 0x1a0111ea397fe69a4b1ba7b6434bacd764774b84f38512bf6730d2a0f6b0f6241eabfffeb153ffffb9feffffffffaaab

/-- the order of the prime-order subgroups G1, G2, GT (reference value; the source's `modulus` must equal it) -/
def r : Nat := 0x73eda753299d7d483339d80809a1d80553bda402fffe5bfeffffffff00000001

/-! ### the py_ecc interface -/

/-- operations on projective points of one curve (`optimized_bls12_381`).  `G` stands for py_ecc's point triples
*up to projective equivalence*; coordinates are lists of naturals in py_ecc order
(G1: `[x, y]`; G2: `[x.coeffs[0], x.coeffs[1], y.coeffs[0], y.coeffs[1]]`). -/
structure CurveOps where
  G : Type
  /-- `Z1` / `Z2` -/
  zero : G
  add : G → G → G
  neg : G → G
  /-- `multiply(pt, n)` for `n ≥ 0` (py_ecc recurses forever on negative `n`) -/
  mul : G → Nat → G
  isInf : G → Bool
  /-- `normalize(pt)` flattened to integers -/
  normalize : G → List Nat
  /-- the triple `(FQ(x), FQ(y), FQ(1))` resp. `(FQ2([x_re, x_im]), FQ2([y_re, y_im]), FQ2([1, 0]))` -/
  ofAffine : List Nat → G

/-- `FQ12` as far as PAIRING_CHECK uses it -/
structure TargetOps where
  GT : Type
  one : GT
  mul : GT → GT → GT
  /-- `FQ12.one() == x` -/
  isOne : GT → Bool

structure Env where
  K1 : CurveOps
  K2 : CurveOps
  T : TargetOps
  /-- `bls12_381.pairing(Q, P)` -/
  pairing : K2.G → K1.G → T.GT

/-- affine coordinates of a point of the curve: the right number of field elements, each reduced -/
def okCoords (n : Nat) (cs : List Nat) : Prop := cs.length = n ∧ ∀ c ∈ cs, c < q

/-- py_ecc's contract on one prime-order subgroup (**assumed, not proved**: commutative group, `multiply` is the
iterated sum, every point has order dividing `r`, `is_inf` recognises exactly the neutral element, and
`normalize` returns reduced affine coordinates from which the point is rebuilt). -/
structure CurveLaws (K : CurveOps) (n : Nat) : Prop where
  add_assoc : ∀ P Q R, K.add (K.add P Q) R = K.add P (K.add Q R)
  add_comm : ∀ P Q, K.add P Q = K.add Q P
  zero_add : ∀ P, K.add K.zero P = P
  neg_add : ∀ P, K.add (K.neg P) P = K.zero
  mul_zero : ∀ P, K.mul P 0 = K.zero
  mul_succ : ∀ P k, K.mul P (k + 1) = K.add (K.mul P k) P
  order : ∀ P, K.mul P r = K.zero
  isInf_iff : ∀ P, K.isInf P = true ↔ P = K.zero
  normalize_ok : ∀ P, P ≠ K.zero → okCoords n (K.normalize P)
  ofAffine_normalize : ∀ P, P ≠ K.zero → K.ofAffine (K.normalize P) = P

/-- py_ecc's contract on the pairing (**assumed, not proved**): `FQ12` restricted to the image is a commutative
monoid and the pairing is bilinear. -/
structure PairingLaws (E : Env) : Prop where
  mul_assoc : ∀ x y z, E.T.mul (E.T.mul x y) z = E.T.mul x (E.T.mul y z)
  mul_comm : ∀ x y, E.T.mul x y = E.T.mul y x
  one_mul : ∀ x, E.T.mul E.T.one x = x
  isOne_iff : ∀ x, E.T.isOne x = true ↔ x = E.T.one
  pair_add_left : ∀ Q Q' P, E.pairing (E.K2.add Q Q') P = E.T.mul (E.pairing Q P) (E.pairing Q' P)
  pair_add_right : ∀ Q P P', E.pairing Q (E.K1.add P P') = E.T.mul (E.pairing Q P) (E.pairing Q P')
  pair_zero_left : ∀ P, E.pairing E.K2.zero P = E.T.one
  pair_zero_right : ∀ Q, E.pairing Q E.K1.zero = E.T.one

/-! ### what the translator read from the source -/

structure Src where
  /-- `BLS12_381_FrType.modulus` -/
  modulus : Nat
  /-- `from_value` reduces modulo `modulus` -/
  reduces : Bool
  /-- `bytes_to_int` accepts at most this many bytes -/
  frMaxLen : Nat
  /-- `value.to_bytes(frOutLen, 'little')` -/
  frOutLen : Nat
  L1 : PointLayout
  L2 : PointLayout
  intSub : List Ty
  addRows : List (List Ty × Ty)
  mulRows : List (List Ty × Ty)
  negRows : List (List Ty × Ty)
  /-- integer branch of NEG builds `res_type.from_value` (true) or `IntType.from_value` (false) -/
  negUsesResType : Bool
  deriving DecidableEq, Repr

/-- `none` when some anchored construct was not recognised -/
def src : Option Src := do
  let m ← frModulus
  let red ← frReduces
  let (mx, out) ← frCodec
  let l1 ← g1
  let l2 ← g2
  let sub ← intSubclasses
  let ar ← addRows
  let mr ← mulRows
  let nr ← negRows
  let () ← addMulShape
  let nu ← negUsesResType
  let () ← intShape
  let () ← pairingShape
  pure { modulus := m, reduces := red, frMaxLen := mx, frOutLen := out, L1 := l1, L2 := l2, intSub := sub,
         addRows := ar, mulRows := mr, negRows := nr, negUsesResType := nu }

/-! ### byte codecs -/

/-- all-or-nothing: the first failing element fails the whole computation (a Python exception) -/
def optAll {α : Type} : List (Option α) → Option (List α)
  | [] => some []
  | none :: _ => none
  | some a :: rest => (optAll rest).map (a :: ·)

/-- `int.from_bytes(bs, 'little')` -/
def leToNat : Bytes → Nat
  | [] => 0
  | b :: bs => b + 256 * leToNat bs

/-- `v.to_bytes(n, 'little')` (`none` = OverflowError) -/
def natToLE : (n : Nat) → (v : Nat) → Option Bytes
  | 0, v => if v = 0 then some [] else none
  | n + 1, v => (natToLE n (v / 256)).map (v % 256 :: ·)

/-- `value[lo:hi]` -/
def slice (v : Bytes) (lo : Nat) (hi : Option Nat) : Bytes :=
  match hi with
  | none => v.drop lo
  | some h => (v.take h).drop lo

/-- the `value = a.to_bytes(w, 'big') + b.to_bytes(w, 'big') + …` line of `from_point` -/
def coordsToBytes (L : PointLayout) (cs : List Nat) : Option Bytes := do
  let wire ← optAll (L.write.map (cs[·]?))
  let parts ← optAll (wire.map (natToBE L.width))
  pure parts.flatten

/-- `from_point` -/
def fromPoint (K : CurveOps) (L : PointLayout) (P : K.G) : Option Bytes := do
  let cs := if K.isInf P then L.infCoords else K.normalize P
  let value ← coordsToBytes L cs
  match L.assertLen with
  | some n => if value.length = n then some value else none
  | none => some value

/-- the `int.from_bytes(self.value[a:b], 'big')` lines of `to_point`, in py_ecc coordinate order -/
def readCoords (L : PointLayout) (v : Bytes) : List Nat :=
  L.read.map fun (lo, hi) => beToNat (slice v lo hi)

/-- `to_point` (total: Python slicing and `int.from_bytes` never fail, whatever the length of the value) -/
def toPoint (K : CurveOps) (L : PointLayout) (v : Bytes) : K.G :=
  let cs := readCoords L v
  match L.decodeInf with
  | some inf => if cs = inf then K.zero else K.ofAffine cs
  | none => K.ofAffine cs

/-! ### stack values and instructions -/

inductive Val
  /-- `IntType` and its subclasses (`int(a)` is `v`) -/
  | num (t : Ty) (v : Int)
  /-- `BLS12_381_G1Type` / `BLS12_381_G2Type` -/
  | pt (t : Ty) (b : Bytes)
  | bool (b : Bool)
  deriving DecidableEq, Repr

inductive Err
  /-- `dispatch_types`: "unexpected types" -/
  | types
  /-- AssertionError / OverflowError inside a constructor -/
  | value
  /-- py_ecc `multiply` with a negative scalar (unbounded recursion) -/
  | recursion
  /-- a class whose constructor is outside this model (mutez, timestamp) -/
  | notModelled
  /-- a branch the dispatch tables rule out (attribute missing on the operand class) -/
  | attribute
  | unrecognisedSource
  deriving DecidableEq, Repr

abbrev R := Except Err

def ofOpt {α : Type} (e : Err) : Option α → R α
  | some a => .ok a
  | none => .error e

/-- `res_type.from_value(v)` for the integer classes -/
def fromValue (S : Src) (t : Ty) (v : Int) : R Val :=
  match t with
  | .int => .ok (.num .int v)
  | .nat => if 0 ≤ v then .ok (.num .nat v) else .error .value
  | .fr => .ok (.num .fr (if S.reduces then v % (S.modulus : Int) else v))
  | .mutez | .timestamp => .error .notModelled
  | .g1 | .g2 => .error .attribute

def Val.ty : Val → Option Ty
  | .num t _ => some t
  | .pt t _ => some t
  | .bool _ => none

/-- `int(a)` -/
def Val.asInt : Val → R Int
  | .num _ v => .ok v
  | _ => .error .attribute

/-- `dispatch_types(type(a), …, mapping=rows)` -/
def dispatch (rows : List (List Ty × Ty)) (args : List Val) : R Ty := do
  let key ← ofOpt .types (optAll (args.map Val.ty))
  match rows.find? (·.1 = key) with
  | some row => .ok row.2
  | none => .error .types

/-- `a.to_point()` followed by `k`: the operand's own class selects the curve -/
def withPoint {α : Type} (S : Src) (E : Env) (a : Val) (k1 : E.K1.G → R α) (k2 : E.K2.G → R α) : R α :=
  match a with
  | .pt .g1 b => k1 (toPoint E.K1 S.L1 b)
  | .pt .g2 b => k2 (toPoint E.K2 S.L2 b)
  | _ => .error .attribute

/-- `res_type.from_point(P)` for a G1 point -/
def fromPoint1 (S : Src) (E : Env) (res : Ty) (P : E.K1.G) : R Val :=
  match res with
  | .g1 => (ofOpt .value (fromPoint E.K1 S.L1 P)).map (.pt .g1)
  | _ => .error .attribute

def fromPoint2 (S : Src) (E : Env) (res : Ty) (P : E.K2.G) : R Val :=
  match res with
  | .g2 => (ofOpt .value (fromPoint E.K2 S.L2 P)).map (.pt .g2)
  | _ => .error .attribute

namespace Impl

/-- `AddInstruction.execute` on the two popped operands -/
def add (S : Src) (E : Env) (a b : Val) : R Val := do
  let res ← dispatch S.addRows [a, b]
  if S.intSub.contains res then
    fromValue S res ((← a.asInt) + (← b.asInt))
  else
    withPoint S E a
      (fun P => withPoint S E b (fun Q => fromPoint1 S E res (E.K1.add P Q)) (fun _ => .error .attribute))
      (fun P => withPoint S E b (fun _ => .error .attribute) (fun Q => fromPoint2 S E res (E.K2.add P Q)))

/-- `MulInstruction.execute` (`a` is the top of the stack) -/
def mul (S : Src) (E : Env) (a b : Val) : R Val := do
  let res ← dispatch S.mulRows [a, b]
  if S.intSub.contains res then
    fromValue S res ((← a.asInt) * (← b.asInt))
  else
    let k ← b.asInt
    if k < 0 then .error .recursion
    else withPoint S E a (fun P => fromPoint1 S E res (E.K1.mul P k.toNat)) (fun P => fromPoint2 S E res (E.K2.mul P k.toNat))

/-- `NegInstruction.execute` -/
def neg (S : Src) (E : Env) (a : Val) : R Val := do
  let res ← dispatch S.negRows [a]
  if S.intSub.contains res then
    fromValue S (if S.negUsesResType then res else .int) (-(← a.asInt))
  else
    withPoint S E a (fun P => fromPoint1 S E res (E.K1.neg P)) (fun P => fromPoint2 S E res (E.K2.neg P))

/-- `IntInstruction.execute`, the branch for non-bytes operands (`assert_type_in(NatType, BLS12_381_FrType)`).
The bytes branch (which a curve point, being a `BytesType`, would take) belongs to C16 and is not modelled. -/
def int (a : Val) : R Val :=
  match a with
  | .num .nat v => .ok (.num .int v)
  | .num .fr v => .ok (.num .int v)
  | .num _ _ => .error .types
  | .pt _ _ => .error .notModelled
  | .bool _ => .error .types

/-- `PairingCheckInstruction.execute` on the list of `(g1, g2)` byte pairs -/
def pairingCheck (S : Src) (E : Env) (ps : List (Bytes × Bytes)) : Val :=
  .bool (E.T.isOne (ps.foldl
    (fun prod p => E.T.mul prod (E.pairing (toPoint E.K2 S.L2 p.2) (toPoint E.K1 S.L1 p.1))) E.T.one))

/-- `BLS12_381_FrType.from_micheline_value({'int': z})` -/
def frOfInt (S : Src) (z : Int) : R Val := fromValue S .fr z

/-- `BLS12_381_FrType.from_micheline_value({'bytes': bs})` -/
def frOfBytes (S : Src) (bs : Bytes) : R Val :=
  if bs.length ≤ S.frMaxLen then fromValue S .fr (leToNat bs) else .error .value

/-- `to_micheline_value(mode='optimized')` of an Fr value -/
def frToBytes (S : Src) (a : Val) : R Bytes :=
  match a with
  | .num .fr v => if 0 ≤ v then ofOpt .value (natToLE S.frOutLen v.toNat) else .error .value
  | _ => .error .attribute

end Impl

/-! ### entry points bound to the current source -/

def withSrc {α : Type} (f : Src → R α) : R α :=
  match src with
  | some S => f S
  | none => .error .unrecognisedSource

def ADD (E : Env) (a b : Val) : R Val := withSrc fun S => Impl.add S E a b
def MUL (E : Env) (a b : Val) : R Val := withSrc fun S => Impl.mul S E a b
def NEG (E : Env) (a : Val) : R Val := withSrc fun S => Impl.neg S E a
def INT (a : Val) : R Val := withSrc fun _ => Impl.int a
def PAIRING_CHECK (E : Env) (ps : List (Bytes × Bytes)) : R Val := withSrc fun S => .ok (Impl.pairingCheck S E ps)
def pushFrInt (z : Int) : R Val := withSrc fun S => Impl.frOfInt S z
def pushFrBytes (bs : Bytes) : R Val := withSrc fun S => Impl.frOfBytes S bs
def frBytes (a : Val) : R Bytes := withSrc fun S => Impl.frToBytes S a
/-- `BLS12_381_G1Type.from_point` / `to_point` of the current source -/
def enc1 (E : Env) (P : E.K1.G) : R Bytes := withSrc fun S => ofOpt .value (fromPoint E.K1 S.L1 P)
def enc2 (E : Env) (P : E.K2.G) : R Bytes := withSrc fun S => ofOpt .value (fromPoint E.K2 S.L2 P)
def dec1 (E : Env) (b : Bytes) : R E.K1.G := withSrc fun S => .ok (toPoint E.K1 S.L1 b)
def dec2 (E : Env) (b : Bytes) : R E.K2.G := withSrc fun S => .ok (toPoint E.K2 S.L2 b)

end Bls
