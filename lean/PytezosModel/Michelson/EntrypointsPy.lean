import PytezosModel.Michelson.Entrypoints
/-! C13 (extension) — the parts of a parameter type the entrypoint rules do *not* read, and the Python-object form
of a call.

* `RTy`: the type expression as written (Micheline): every node carries its raw annotation list (`%a`, `:t`, `@v`,
  several of them, in any order); non-union nodes (`pair`, `option`, `list`) may contain unions with annotated
  branches below them.
* `matchTy` (`Micheline.match` → `MichelsonType.create_type` → `parse_name`): `field_name` / `type_name` of every
  node; the expression is refused when one node has two `%` or two `:` annotations, or when the argument of an
  `option` / `list` carries a `%field` annotation.  A non-union node becomes an opaque leaf: what is below it is
  never looked at by the entrypoint functions (`iter_type_args` tests `issubclass(arg, OrType)`).
* `QTy`: the matched type (both names on every node, `prim` of every leaf — the generated display names are
  `f'{prim}_{i}'`).  `QTy.erase : QTy → PTy` forgets what `list_entrypoints` / `from_parameters` / `to_parameters`
  never read (`get_type_layout(entrypoints=True)` takes `field_name` only).
* `ParameterSection.from_python_object` / `to_python_object`, `OrType.from_python_object` / `to_python_object`,
  `wrap_or`, `get_flat_values`, the `entrypoints=False, infer_names=True` path of `get_type_layout` (display names:
  `%field`, else `:type`, else generated, made unique with `_`).

Representation: `Nested` / `Undefined` are not materialised — `from_python_object(wrap_or(obj, path))` is the
type-directed descent `descend`; Python objects of leaves are opaque (`PyObj.leaf`, their conversion is C12), the
`Unit` sentinel is `PyObj.unit`. -/
namespace Impl.Entrypoints

/-! ### matched types -/

inductive QTy where
  | leaf (fname tname : Option String) (prim : String) (ty : Nat)
  | or (fname tname : Option String) (l r : QTy)
  deriving DecidableEq, Repr, Inhabited

def QTy.erase : QTy → PTy
  | .leaf f _ _ ty => .leaf f ty
  | .or f _ l r => .or f l.erase r.erase

def QTy.fname : QTy → Option String
  | .leaf f _ _ _ => f
  | .or f _ _ _ => f

def QTy.tname : QTy → Option String
  | .leaf _ t _ _ => t
  | .or _ t _ _ => t

def QTy.prim : QTy → String
  | .leaf _ _ p _ => p
  | .or .. => "or"

def QTy.isOr : QTy → Bool
  | .or .. => true
  | .leaf .. => false

def nodeAtQ : QTy → Path → Option QTy
  | t, [] => some t
  | .or _ _ l _, false :: q => nodeAtQ l q
  | .or _ _ _ r, true :: q => nodeAtQ r q
  | .leaf .., _ :: _ => none

/-! ### type expressions as written, and `Micheline.match` -/

inductive RTy where
  | prim (annots : List String) (prim : String) (ty : Nat)
  | or (annots : List String) (l r : RTy)
  /-- `ty`: the opaque id the harness gives to the whole (anonymous) non-union type -/
  | pair (annots : List String) (ty : Nat) (l r : RTy)
  | option (annots : List String) (ty : Nat) (t : RTy)
  | list (annots : List String) (ty : Nat) (t : RTy)
  deriving DecidableEq, Repr, Inhabited

/-- `x.startswith(prefix)` for a one-character prefix -/
def hasPrefix (pfx : Char) (a : String) : Bool :=
  match a.toList with
  | c :: _ => c == pfx
  | [] => false

/-- `x[1:]` -/
def dropFirst (a : String) : String := String.ofList (a.toList.drop 1)

/-- `parse_name(annots, prefix)`:
`sub_annots = [x[1:] for x in annots if x.startswith(prefix)]; assert len(sub_annots) <= 1; sub_annots[0] or None` -/
def parseName (annots : List String) (pfx : Char) : Except Err (Option String) :=
  let sub := (annots.filter (hasPrefix pfx)).map dropFirst
  if sub.length ≤ 1 then .ok sub.head? else .error .rejectedType

/-- `Micheline.match(expr)`: the arguments are matched first, then `create_type` runs its assertions and `parse_name`
for `%` and `:` -/
def matchTy : RTy → Except Err QTy
  | .prim as p ty => do
    let f ← parseName as '%'
    let t ← parseName as ':'
    .ok (.leaf f t p ty)
  | .or as l r => do
    let l' ← matchTy l
    let r' ← matchTy r
    let f ← parseName as '%'
    let t ← parseName as ':'
    .ok (.or f t l' r')
  | .pair as ty l r => do
    let _ ← matchTy l
    let _ ← matchTy r
    let f ← parseName as '%'
    let t ← parseName as ':'
    .ok (.leaf f t "pair" ty)
  | .option as ty a => do
    let a' ← matchTy a
    -- `assert arg.field_name is None, f'{cls.prim} argument type cannot be annotated'`
    if a'.fname.isSome then .error .rejectedType else do
    let f ← parseName as '%'
    let t ← parseName as ':'
    .ok (.leaf f t "option" ty)
  | .list as ty a => do
    let a' ← matchTy a
    if a'.fname.isSome then .error .rejectedType else do
    let f ← parseName as '%'
    let t ← parseName as ':'
    .ok (.leaf f t "list" ty)

/-! ### Python objects -/

inductive PyObj where
  /-- the Python object of the opaque leaf value `(ty, x)` -/
  | leaf (ty x : Nat)
  /-- the `Unit` sentinel -/
  | unit
  | str (s : String)
  /-- a dict with a single string key -/
  | dict1 (k : String) (v : PyObj)
  deriving DecidableEq, Repr, Inhabited

/-! ### display names: `get_type_layout(flat_args, infer_names=True, entrypoints=False)` -/

/-- `OrType.iter_type_args(entrypoints=False)`: every non-union leaf with its path -/
def leafArgs : QTy → Path → List (Path × QTy)
  | .leaf f t p ty, path => [(path, .leaf f t p ty)]
  | .or _ _ l r, path => leafArgs l (path ++ [false]) ++ leafArgs r (path ++ [true])

def orLeafArgs : QTy → List (Path × QTy)
  | .or _ _ l r => leafArgs l [false] ++ leafArgs r [true]
  | .leaf .. => []

/-- first loop: `(path, name, generated?)`; `key = arg.field_name`, `if key is None: key = arg.type_name` (the empty
name is a name here: the test is `is None`) -/
def displayGo : List (Path × QTy) → Nat → List String → List (Path × String × Bool)
  | [], _, _ => []
  | (path, arg) :: rest, i, reserved =>
    let key := match arg.fname with
      | some k => some k
      | none => arg.tname
    match key with
    | some k =>
      if k ∈ reserved then (path, arg.prim ++ "_" ++ toString i, true) :: displayGo rest (i + 1) reserved
      else (path, k, false) :: displayGo rest (i + 1) (k :: reserved)
    | none => (path, arg.prim ++ "_" ++ toString i, true) :: displayGo rest (i + 1) reserved

/-- `while name in taken: name += '_'` (at most `len(taken)` rounds) -/
def freshGo : Nat → List String → String → String
  | 0, _, name => name
  | fuel + 1, taken, name => if name ∈ taken then freshGo fuel taken (name ++ "_") else name

def fresh (taken : List String) (name : String) : String := freshGo (taken.length + 1) taken name

/-- second loop, over the generated names in order -/
def renameGo : List (Path × String × Bool) → List String → List (Path × String)
  | [], _ => []
  | (p, n, false) :: rest, taken => (p, n) :: renameGo rest taken
  | (p, n, true) :: rest, taken =>
    let n' := fresh taken n
    (p, n') :: renameGo rest (n' :: taken)

/-- `path_to_key` of `get_type_layout(infer_names=True)` on an `or` -/
def displayPathToKey (q : QTy) : List (Path × String) :=
  let first := displayGo (orLeafArgs q) 0 []
  renameGo first ((first.filter (fun e => !e.2.2)).map (·.2.1))

/-- `key_to_path = {name: path for path, name in path_to_key.items()}` -/
def displayKeyToPath (q : QTy) : List (String × Path) :=
  (displayPathToKey q).foldl (fun d (e : Path × String) => dset d e.2 e.1) []

/-- `OrType.create_type`: `is_enum = all_units(args)` -/
def allUnits : QTy → Bool
  | .leaf _ _ p _ => p == "unit"
  | .or _ _ l r => allUnits l && allUnits r

def QTy.isEnum : QTy → Bool
  | .or _ _ l r => allUnits l && allUnits r
  | .leaf .. => false

/-! ### `from_python_object` -/

/-- `node.from_python_object(wrap_or(obj, path))` through the `Nested` branch: follow the path, hand the object to the
type found there -/
def descend : QTy → Path → (QTy → Except Err PVal) → Except Err PVal
  | t, [], k => k t
  | .or _ _ l _, false :: q, k => (descend l q k).map .left
  | .or _ _ _ r, true :: q, k => (descend r q k).map .right
  | .leaf .., _ :: _, _ => .error .badValue

/-- `from_python_object(Unit)` -/
def fromPyUnit : QTy → Except Err PVal
  | .leaf _ _ p ty => if p = "unit" then .ok (.leaf ty 0) else .error .badValue
  | .or .. => .error .pyAssert

/-- `from_python_object` of a type.  A leaf reads its own objects (opaque; `unit` reads the sentinel); `OrType` reads
`'name'` (enums only) and `{name: obj}`, the name being looked up among the *display* names of its leaves. -/
def fromPy : QTy → PyObj → Except Err PVal
  | .leaf _ _ p ty, o =>
    match o with
    | .leaf t' x => if ty = t' then .ok (.leaf t' x) else .error .badValue
    | .unit => if p = "unit" then .ok (.leaf ty 0) else .error .badValue
    | _ => .error .badValue
  | .or f t l r, .str s =>
    if (QTy.or f t l r).isEnum then
      match dget (displayKeyToPath (.or f t l r)) s with
      | none => .error .keyError
      | some path => descend (.or f t l r) path fromPyUnit
    else .error .pyAssert
  | .or f t l r, .dict1 k v =>
    match dget (displayKeyToPath (.or f t l r)) k with
    | none => .error .keyError
    | some path => descend (.or f t l r) path (fun qn => fromPy qn v)
  | .or .., _ => .error .pyAssert

/-- `ParameterSection.from_python_object` -/
def fromPythonObject (c : Cfg) (q : QTy) (o : PyObj) : Except Err PVal := do
  let rn ← rootName c q.erase
  let (entrypoint, arg) ← (match o with
    | .str s => .ok (s, PyObj.unit)
    | .dict1 k v => .ok (k, v)
    | _ => .error .typeError : Except Err (String × PyObj))
  if entrypoint = rn then fromPy q arg
  else if !q.isOr then .error .typeError
  else do
    -- `get_type_layout(infer_names=True, entrypoints=True)`: the entrypoint names, never the display names
    let k2p ← keyToPath q.erase
    if k2p.isEmpty then .error .typeError
    else match dget k2p entrypoint with
      | none => .error .keyError
      | some path => descend q path (fun qn => fromPy qn arg)

/-! ### `to_python_object` -/

/-- `to_python_object` of a value of the type -/
def toPy (q : QTy) (v : PVal) : Except Err PyObj :=
  match q with
  | .leaf _ _ p ty =>
    match v with
    | .leaf t' x => if ty = t' then .ok (if p = "unit" then .unit else .leaf t' x) else .error .badValue
    | _ => .error .badValue
  | .or f t l r =>
    -- `flat_values = self.get_flat_values(infer_names=True)`: `{path_to_key[path]: arg}` for the leaf of the value
    let (path, leaf) := iterValues v []
    match dget (displayPathToKey (.or f t l r)) path, nodeAtQ (.or f t l r) path with
    | some name, some (.leaf _ _ p ty) =>
      if (QTy.or f t l r).isEnum then .ok (.str name)
      else match leaf with
        | .leaf t' x => if ty = t' then .ok (.dict1 name (if p = "unit" then .unit else .leaf t' x)) else .error .badValue
        | _ => .error .badValue
    | _, _ => .error .keyError

/-- `ParameterSection.to_python_object` -/
def toPythonObject (c : Cfg) (q : QTy) (v : PVal) : Except Err PyObj := do
  let rn ← rootName c q.erase
  let o ← toPy q v
  if q.isOr then .ok o else .ok (.dict1 rn o)

/-! ### the API on type expressions as written -/

def listEntrypointsRaw (c : Cfg) (r : RTy) : Except Err (List (String × PTy)) := do
  let q ← matchTy r
  listEntrypoints c q.erase

def fromParametersRaw (c : Cfg) (r : RTy) (e : String) (v : PVal) : Except Err PVal := do
  let q ← matchTy r
  fromParameters c q.erase e v

def toParametersRaw (c : Cfg) (r : RTy) (v : PVal) : Except Err (String × PVal) := do
  let q ← matchTy r
  toParameters c q.erase v

end Impl.Entrypoints

/-! ## Specification on type expressions as written -/
namespace Spec.Entrypoints
open Impl.Entrypoints

/-- the `%` names / `:` names written on a node -/
def fieldAnnots (as : List String) : List String := (as.filter (hasPrefix '%')).map dropFirst
def typeAnnots (as : List String) : List String := (as.filter (hasPrefix ':')).map dropFirst

def RTy.annots : RTy → List String
  | .prim as _ _ => as
  | .or as _ _ => as
  | .pair as _ _ _ => as
  | .option as _ _ => as
  | .list as _ _ => as

/-- a type expression Tezos (and `Micheline.match`) accepts as far as annotations go: at most one `%` and one `:`
annotation per node, none on the argument of `option` / `list` -/
def RawOk : RTy → Bool
  | .prim as _ _ => decide ((fieldAnnots as).length ≤ 1) && decide ((typeAnnots as).length ≤ 1)
  | .or as l r => RawOk l && RawOk r && decide ((fieldAnnots as).length ≤ 1) && decide ((typeAnnots as).length ≤ 1)
  | .pair as _ l r => RawOk l && RawOk r && decide ((fieldAnnots as).length ≤ 1) && decide ((typeAnnots as).length ≤ 1)
  | .option as _ a => RawOk a && (fieldAnnots (RTy.annots a)).isEmpty
      && decide ((fieldAnnots as).length ≤ 1) && decide ((typeAnnots as).length ≤ 1)
  | .list as _ a => RawOk a && (fieldAnnots (RTy.annots a)).isEmpty
      && decide ((fieldAnnots as).length ≤ 1) && decide ((typeAnnots as).length ≤ 1)

/-- the parameter type the entrypoint rules see: unions down to the first non-union node, each node with its single
`%` name; everything below a non-union node is one opaque leaf -/
def view : RTy → PTy
  | .prim as _ ty => .leaf (fieldAnnots as).head? ty
  | .or as l r => .or (fieldAnnots as).head? (view l) (view r)
  | .pair as ty _ _ => .leaf (fieldAnnots as).head? ty
  | .option as ty _ => .leaf (fieldAnnots as).head? ty
  | .list as ty _ => .leaf (fieldAnnots as).head? ty

end Spec.Entrypoints
