import PytezosModel.Generated.C12
import PytezosModel.Michelson.CivilDate
/-! C12 — Python-object conversion of contract data.

Mirror of `get_type_layout`, `wrap_pair`, `wrap_or` (types/adt.py), `PairType.iter_type_args / iter_values /
to_python_object / from_python_object` (types/pair.py), the same four of `OrType` (types/sum.py) and of
`to_python_object` / `from_python_object` of unit, bool, nat, int, mutez, timestamp, string, bytes, option, list, set,
map, big_map (core.py, domain.py, option.py, list.py, set.py, map.py, big_map.py).

Representation choices (observationally equal to the source, validated by the correspondence run):
* binary paths are relative to the node that computes its layout (`false` = '0'); the source threads an absolute
  prefix `path + str(i)` through the recursion and strips it again with `startswith` / dict lookups;
* `Nested` / `Undefined` are not materialised: `wrap_pair` / `wrap_or` followed by the `Nested` branch of
  `from_python_object` is the type-directed descent `nestedPair` / `orNested`;
* `to_python_object` is the `lazy_diff=None` call (what `ContractData.decode` uses): a big_map literal renders as a
  dict, a big_map id as an int; `try_unpack=False`;
* Python's `set(py_list)` iterates in an unspecified order; the mirror takes list order (the sorted result does not
  depend on it when `__lt__` is a strict total order — C03).
Extension (domain leaves and input forms): `address`, `key_hash`, `key`, `signature`, `chain_id`, `contract t`,
`bls12_381_fr / g1 / g2`, `never`; RFC 3339 / decimal text for `timestamp`, `Decimal` / text for `mutez`, hex text for
`bytes` and the `bls12_381` types.  What belongs to other properties or to libraries is a field of `Cfg` (`valid` =
`is_address` / `is_pkh` / `is_public_key` / `is_sig` / `is_chain_id`, `raw` = `base58_decode`, C09; `originated0` =
`get_originated_address(0)`); the RFC 3339 reader is the concrete `Civil.parseTimestamp` of C11.
Unmodelled input shapes (`Undefined`, `bool` where an `int` is expected, `bytes` for key_hash / key / signature /
chain_id — the code stores the `bytes` object —, text with `_` or non-ASCII characters for numbers) are answered
`Err.unmodelled`; the harness never sends them. -/
namespace Impl.PyConv

abbrev Path := List Bool

structure Ann where
  field : Option String := none
  type : Option String := none
  deriving DecidableEq, Repr, Inhabited

inductive Scalar where
  | unit | bool | nat | int | mutez | timestamp | string | bytes
  | address | keyHash | key | signature | chainId
  | blsFr | blsG1 | blsG2 | never
  deriving DecidableEq, Repr, Inhabited

inductive Ty where
  | scalar (a : Ann) (s : Scalar)
  | pair (a : Ann) (l r : Ty)
  | or (a : Ann) (l r : Ty)
  | option (a : Ann) (t : Ty)
  | list (a : Ann) (t : Ty)
  | set (a : Ann) (t : Ty)
  | map (a : Ann) (k v : Ty)
  | bigMap (a : Ann) (k v : Ty)
  /-- `contract p`: the parameter type plays no role in the conversion -/
  | contract (a : Ann) (p : Ty)
  | ticket (a : Ann) (t : Ty)
  /-- `lambda p r`: the two types play no role in the conversion -/
  | lambda (a : Ann) (p r : Ty)
  deriving DecidableEq, Repr, Inhabited

inductive Val where
  | unit
  | bool (b : Bool)
  | int (n : Int)
  | str (s : String)
  | bytes (b : List Nat)
  | pair (a b : Val)
  | left (v : Val)
  | right (v : Val)
  | none
  | some (v : Val)
  | list (xs : List Val)
  | set (xs : List Val)
  | map (kvs : List (Val × Val))
  | bigMap (kvs : List (Val × Val))
  | bigMapId (id : Int)
  /-- `TicketType(ticketer, item, amount)` -/
  | ticket (ticketer : String) (item : Val) (amount : Int)
  /-- `LambdaType(value)`: the Micheline of the body as the class renders it (`value.as_micheline_expr()`), kept as an
  opaque text (canonical JSON on the protocol) — its structure is C18's / C05's business -/
  | lambda (code : String)
  deriving Repr, Inhabited

/-- the documented Python shapes -/
inductive PyObj where
  | none
  | unit                                    -- the `Unit` sentinel (`pytezos.michelson.types.core.unit`)
  | bool (b : Bool)
  | int (n : Int)
  | str (s : String)
  | bytes (b : List Nat)
  /-- a finite `decimal.Decimal`: (-1)^neg · coef · 10^exp -/
  | decimal (neg : Bool) (coef : Nat) (exp : Int)
  /-- `Decimal('NaN')` / `Decimal('sNaN')` (`inf = false`), `Decimal('±Infinity')` (`inf = true`) -/
  | decimalSpecial (inf : Bool)
  | tuple (xs : List PyObj)
  | list (xs : List PyObj)
  | record (fields : List (String × PyObj))   -- dict with string keys (pairs, unions)
  | dict (items : List (PyObj × PyObj))       -- dict with arbitrary hashable keys (map, big_map)
  deriving Repr, Inhabited

inductive Err where
  | key          -- KeyError
  | type         -- TypeError (unhashable)
  | assertion    -- AssertionError / any other exception
  | overflow     -- OverflowError (mutez; `int(Decimal('Infinity'))`)
  | unmodelled
  | unrecognised
  deriving DecidableEq, Repr

/-- what the translator reads from the source -/
structure Flags where
  /-- `class unit` defines `__hash__` (pinned tree: no — a dict key / set element containing `Unit` raises TypeError) -/
  unitHashable : Bool
  /-- `PairType.__lt__` is lexicographic (pinned tree: no) — only used by `sorted` on non-canonical input -/
  pairLtLex : Bool
  /-- `BLS12_381_FrType.modulus` -/
  frModulus : Nat
  deriving DecidableEq, Repr

/-- the kinds of base58 text a domain leaf validates -/
inductive Dom where
  | address | keyHash | key | signature | chainId
  deriving DecidableEq, Repr, Inhabited

/-- the source flags plus what this property does not own, as parameters (no law is needed about them: the round trip
is stated for the values `from_value` accepts, whatever `valid` is) -/
structure Cfg extends Flags where
  /-- `is_address` (the text may carry `%entrypoint`) / `is_pkh` / `is_public_key` / `is_sig` / `is_chain_id` -/
  valid : Dom → String → Bool := fun _ _ => false
  /-- `base58_decode(text.encode())` (`KeyType.raw`, `SignatureType.raw`): only read by `__lt__` / `__eq__` -/
  raw : String → List Nat := fun _ => []
  /-- `get_originated_address(0)`: what `ContractType.from_python_object(None)` stands for -/
  originated0 : String := ""
  /-- the `try_unpack` argument of `to_python_object` (the round trip is about the default, `False`) -/
  tryUnpack : Bool := false
  /-- `base58_encode(payload, prefix).decode()`; `blind_unpack` only calls it with a payload of the prefix's length -/
  b58 : String → List Nat → String := fun _ _ => ""
  /-- `micheline_value_to_python_object(unforge_micheline(data))` of `blind_unpack` (`none`: it raises one of the
  suppressed exceptions) — C05's reader, C18's formatter and `blind_unpack` again on the bytes inside -/
  unpackMich : List Nat → Option PyObj := fun _ => none
  /-- `micheline_to_michelson(code)`: the source text of a lambda body (C18's formatter) -/
  codeText : String → String := fun _ => ""
  /-- `michelson_to_micheline(text)`, `assert isinstance(·, list)`, `Micheline.match(·).as_micheline_expr()` (C18's
  parser, the class registry); `none`: one of them raises -/
  codeOfText : String → Option String := fun _ => none
  /-- the bodies a `LambdaType` can hold: Micheline sequences that `Micheline.match` re-renders unchanged -/
  codeOk : String → Bool := fun _ => false

/-- the mirror below follows the repaired name generator of `get_type_layout` (generated names made different from
every declared one): with the old shape (`generatedNamesFresh = some false`) or an unknown one there is no
configuration, the model refuses to run and `C12.source_shape` does not close -/
def cfg? : Option Flags :=
  match Generated.C12.sourceRecognised, Generated.C12.generatedNamesFresh, Generated.C12.unitHashable,
    Generated.C12.pairLtLexicographic with
  | some (), some true, some u, some p =>
    match Generated.C12.frModulus with
    | some m => some ⟨u, p, m⟩
    | none => none
  | _, _, _, _ => none

/-! ### Python equality / hashability of objects (dict keys, `set(...)`) -/

mutual
  def PyObj.beq : PyObj → PyObj → Bool
    | .none, .none => true
    | .unit, .unit => true
    | .bool a, .bool b => a == b
    | .int a, .int b => a == b
    | .str a, .str b => a == b
    | .bytes a, .bytes b => a == b
    | .decimal n c e, .decimal n' c' e' => n == n' && c == c' && e == e'    -- structural (numeric `==` is not modelled)
    | .decimalSpecial a, .decimalSpecial b => a == b
    | .tuple a, .tuple b => beqList a b
    | .list a, .list b => beqList a b
    | .record a, .record b => beqFields a b
    | .dict a, .dict b => beqItems a b
    | _, _ => false
  def PyObj.beqList : List PyObj → List PyObj → Bool
    | [], [] => true
    | a :: as, b :: bs => PyObj.beq a b && beqList as bs
    | _, _ => false
  def PyObj.beqFields : List (String × PyObj) → List (String × PyObj) → Bool
    | [], [] => true
    | (k, a) :: as, (k', b) :: bs => k == k' && PyObj.beq a b && beqFields as bs
    | _, _ => false
  def PyObj.beqItems : List (PyObj × PyObj) → List (PyObj × PyObj) → Bool
    | [], [] => true
    | (k, a) :: as, (k', b) :: bs => PyObj.beq k k' && PyObj.beq a b && beqItems as bs
    | _, _ => false
end

mutual
  /-- structural equality of values (what `__eq__` computes on values of one type) -/
  def Val.beq : Val → Val → Bool
    | .unit, .unit => true
    | .bool a, .bool b => a == b
    | .int a, .int b => a == b
    | .str a, .str b => a == b
    | .bytes a, .bytes b => a == b
    | .pair a b, .pair a' b' => Val.beq a a' && Val.beq b b'
    | .left a, .left b => Val.beq a b
    | .right a, .right b => Val.beq a b
    | .none, .none => true
    | .some a, .some b => Val.beq a b
    | .list a, .list b => Val.beqList a b
    | .set a, .set b => Val.beqList a b
    | .map a, .map b => Val.beqItems a b
    | .bigMap a, .bigMap b => Val.beqItems a b
    | .bigMapId a, .bigMapId b => a == b
    | .ticket t a n, .ticket t' b n' => t == t' && Val.beq a b && n == n'
    | .lambda a, .lambda b => a == b
    | _, _ => false
  def Val.beqList : List Val → List Val → Bool
    | [], [] => true
    | a :: as, b :: bs => Val.beq a b && Val.beqList as bs
    | _, _ => false
  def Val.beqItems : List (Val × Val) → List (Val × Val) → Bool
    | [], [] => true
    | (k, a) :: as, (k', b) :: bs => Val.beq k k' && Val.beq a b && Val.beqItems as bs
    | _, _ => false
end

/-- `r` is `ok x` -/
def okPy (r : Except Err PyObj) (x : PyObj) : Bool :=
  match r with
  | .ok y => PyObj.beq y x
  | .error _ => false

def okVal (r : Except Err Val) (x : Val) : Bool :=
  match r with
  | .ok y => Val.beq y x
  | .error _ => false

def isErr {α : Type} (r : Except Err α) (e : Err) : Bool :=
  match r with
  | .ok _ => false
  | .error e' => e' == e

mutual
  def PyObj.hashable (c : Cfg) : PyObj → Bool
    | .unit => c.unitHashable
    | .tuple xs => hashableList c xs
    | .list _ => false
    | .record _ => false
    | .dict _ => false
    | _ => true
  def PyObj.hashableList (c : Cfg) : List PyObj → Bool
    | [] => true
    | x :: xs => PyObj.hashable c x && hashableList c xs
end

def pyMem (x : PyObj) : List PyObj → Bool
  | [] => false
  | y :: ys => PyObj.beq y x || pyMem x ys

/-- `len(set(xs)) == len(xs)` -/
def pyDistinct : List PyObj → Bool
  | [] => true
  | x :: xs => !pyMem x xs && pyDistinct xs

/-- `d[k] = v` on a dict with object keys -/
def pySet : List (PyObj × PyObj) → PyObj → PyObj → List (PyObj × PyObj)
  | [], k, v => [(k, v)]
  | (k', v') :: rest, k, v => if PyObj.beq k' k then (k', v) :: rest else (k', v') :: pySet rest k v

/-! ### string-keyed / path-keyed dicts -/

def dget {κ α} [DecidableEq κ] : List (κ × α) → κ → Option α
  | [], _ => none
  | (k, v) :: rest, x => if k = x then some v else dget rest x

def dset {κ α} [DecidableEq κ] : List (κ × α) → κ → α → List (κ × α)
  | [], k, v => [(k, v)]
  | (k', v') :: rest, k, v => if k' = k then (k', v) :: rest else (k', v') :: dset rest k v

/-! ### types -/

def Ty.ann : Ty → Ann
  | .scalar a _ | .pair a _ _ | .or a _ _ | .option a _ | .list a _ | .set a _ | .map a _ _ | .bigMap a _ _
  | .contract a _ | .ticket a _ | .lambda a _ _ => a

def Scalar.prim : Scalar → String
  | .unit => "unit" | .bool => "bool" | .nat => "nat" | .int => "int" | .mutez => "mutez"
  | .timestamp => "timestamp" | .string => "string" | .bytes => "bytes"
  | .address => "address" | .keyHash => "key_hash" | .key => "key" | .signature => "signature"
  | .chainId => "chain_id" | .blsFr => "bls12_381_fr" | .blsG1 => "bls12_381_g1" | .blsG2 => "bls12_381_g2"
  | .never => "never"

def Ty.prim : Ty → String
  | .scalar _ s => s.prim
  | .pair .. => "pair" | .or .. => "or" | .option .. => "option" | .list .. => "list"
  | .set .. => "set" | .map .. => "map" | .bigMap .. => "big_map" | .contract .. => "contract"
  | .ticket .. => "ticket" | .lambda .. => "lambda"

/-- Python truthiness of an optional name -/
def truthy : Option String → Bool
  | some s => s ≠ ""
  | none => false

/-- `arg.field_name or arg.type_name` -/
def Ty.isNamed (t : Ty) : Bool := truthy t.ann.field || truthy t.ann.type

/-- an argument `iter_type_args` / `iter_values` of a pair descends into: a pair without names -/
def Ty.isFlatPair : Ty → Bool
  | .pair a _ _ => !(truthy a.field || truthy a.type)
  | _ => false

def Ty.isOr : Ty → Bool
  | .or .. => true
  | _ => false

def Ty.isOption : Ty → Bool
  | .option .. => true
  | _ => false

def pre (b : Bool) (e : Path × α) : Path × α := (b :: e.1, e.2)

/-- `PairType.iter_type_args` of a pair node (relative paths) -/
def pairArgs : Ty → List (Path × Ty)
  | .pair _ l r =>
    ((if l.isFlatPair then pairArgs l else [([], l)]).map (pre false))
      ++ ((if r.isFlatPair then pairArgs r else [([], r)]).map (pre true))
  | _ => []

/-- `OrType.iter_type_args(entrypoints=False)` of a union node: unions are always descended into -/
def orArgs : Ty → List (Path × Ty)
  | .or _ l r =>
    ((if l.isOr then orArgs l else [([], l)]).map (pre false))
      ++ ((if r.isOr then orArgs r else [([], r)]).map (pre true))
  | _ => []

/-- `OrType.create_type`: `is_enum` -/
def allUnits : Ty → Bool
  | .or _ l r => allUnits l && allUnits r
  | .scalar _ .unit => true
  | _ => false

def Ty.isEnum : Ty → Bool
  | .or _ l r => allUnits l && allUnits r
  | _ => false

/-! ### `get_type_layout(flat_args, infer_names, entrypoints=False)` (types/adt.py, repaired shape)

Two loops.  The first keeps every declared name (`%field`, else `:type`) at its first occurrence and gives the other
arguments the candidate `f'{arg.prim}_{i}'`, remembering which ones (`generated`).  The second makes every candidate
differ from all declared names — wherever they are declared, before or after it — and from the generated names chosen
before it: `while name in taken: name += '_'`.  (The pinned tree had only the first loop: `pair (nat %nat_1) nat` got
the names `nat_1`, `nat_1`.) -/

/-- `f'{arg.prim}_{i}'` -/
def genName (arg : Ty) (i : Nat) : String := arg.prim ++ "_" ++ toString i

/-- first loop: one entry `(path, name, generated?)` per argument, in order; `reserved` = declared names kept so far -/
def layoutGo : List (Path × Ty) → Nat → List String → List (Path × String × Bool)
  | [], _, _ => []
  | (path, arg) :: rest, i, reserved =>
    let key := match arg.ann.field with
      | some k => some k
      | none => arg.ann.type
    match key with
    | some k =>
      if k ∈ reserved then (path, genName arg i, true) :: layoutGo rest (i + 1) reserved
      else (path, k, false) :: layoutGo rest (i + 1) (k :: reserved)
    | none => (path, genName arg i, true) :: layoutGo rest (i + 1) reserved

/-- `reserved` when the first loop ends: the declared names that were kept -/
def declared : List (Path × String × Bool) → List String
  | [] => []
  | (_, k, false) :: rest => k :: declared rest
  | (_, _, true) :: rest => declared rest

/-- `while name in taken: name += '_'`, at most `fuel` iterations -/
def freshGo : Nat → List String → String → String
  | 0, _, name => name
  | fuel + 1, taken, name => if name ∈ taken then freshGo fuel taken (name ++ "_") else name

/-- the loop leaves after at most `len(taken)` iterations (every iteration uses up one element of `taken`: the
candidates get longer) — `fresh_not_mem` below shows that the fuel is never exhausted -/
def fresh (taken : List String) (name : String) : String := freshGo (taken.length + 1) taken name

/-- second loop: `taken` = declared names and the generated names fixed so far -/
def renameGo : List (Path × String × Bool) → List String → List (Path × String)
  | [], _ => []
  | (path, k, false) :: rest, taken => (path, k) :: renameGo rest taken
  | (path, k, true) :: rest, taken => (path, fresh taken k) :: renameGo rest (fresh taken k :: taken)

structure Layout where
  pathToKey : Option (List (Path × String))
  keyToPath : Option (List (String × Path))
  idxToPath : List Path
  deriving Repr

def getTypeLayout (flat : List (Path × Ty)) (inferNames : Bool) : Layout :=
  let first := layoutGo flat 0 []
  let reserved := declared first
  let p2k := renameGo first reserved
  let idx := p2k.map (·.1)
  if reserved.isEmpty && !inferNames then ⟨none, none, idx⟩
  else ⟨some p2k, some (p2k.foldl (fun d e => dset d e.2 e.1) []), idx⟩

def pairLayout (t : Ty) : Layout := getTypeLayout (pairArgs t) false
def orLayout (t : Ty) : Layout := getTypeLayout (orArgs t) true

/-! ### ordering used by `sorted` (only matters for non-canonical Python input) -/

def bytesLt : List Nat → List Nat → Bool
  | [], [] => false
  | [], _ :: _ => true
  | _ :: _, [] => false
  | a :: as, b :: bs => if a < b then true else if b < a then false else bytesLt as bs

/-! #### domain leaves: text, `%entrypoint`, the orders of `AddressType` / `KeyType` / `SignatureType` -/

/-- `value.partition('%')`: the text before the first `%` and the text after it (`none`: there is no `%`) -/
def partitionPct (s : String) : String × Option String :=
  let cs := s.toList
  match cs.dropWhile (· ≠ '%') with
  | [] => (s, none)
  | _ :: ep => (String.ofList (cs.takeWhile (· ≠ '%')), some (String.ofList ep))

/-- `AddressType.from_value`: `address, _, entrypoint = value.partition('%')`; `if entrypoint == 'default': value =
address`; `assert is_address(value)` -/
def addressFromValue (c : Cfg) (s : String) : Except Err String :=
  let s' := match partitionPct s with
    | (a, some "default") => a
    | _ => s
  if c.valid .address s' then .ok s' else .error .assertion

/-- `KeyHashType / KeyType / SignatureType / ChainIdType.from_value`: `assert is_…(value)` -/
def plainFromValue (c : Cfg) (d : Dom) (s : String) : Except Err String :=
  if c.valid d s then .ok s else .error .assertion

/-- `AddressType._split`: `(address, entrypoint or 'default')` -/
def addressSplit (s : String) : String × String :=
  match partitionPct s with
  | (a, some ep) => (a, if ep = "" then "default" else ep)
  | (a, none) => (a, "default")

/-- `kinds[self.value[:3]]` of `AddressType.__lt__` (implicit 0, originated 1, smart rollup 2).  Any other prefix is a
KeyError in the source; it cannot occur in a value (`is_address`), the mirror files it under 0 -/
def addressKind (s : String) : Nat :=
  match s.toList.take 3 with
  | ['K', 'T', '1'] => 1
  | ['s', 'r', '1'] => 2
  | _ => 0

/-- `AddressType.__lt__` -/
def addressLt (a b : String) : Bool :=
  if addressKind a < addressKind b then true
  else if addressKind b < addressKind a then false
  else
    let (a1, e1) := addressSplit a
    let (a2, e2) := addressSplit b
    a1 < a2 || (a1 == a2 && e1 < e2)

/-- `curves[self.prefix][0]` of `KeyType.__lt__` (edpk < sppk < p2pk < BLpk; another prefix — a secret key passes
`is_public_key` — is a KeyError in the source, here rank 4; the harness sends public keys only) -/
def keyRank (s : String) : Nat :=
  match s.toList.take 4 with
  | ['e', 'd', 'p', 'k'] => 0
  | ['s', 'p', 'p', 'k'] => 1
  | ['p', '2', 'p', 'k'] => 2
  | ['B', 'L', 'p', 'k'] => 3
  | _ => 4

/-- `KeyType.__lt__`: by curve, then by the whole byte representation -/
def keyLt (c : Cfg) (a b : String) : Bool :=
  if keyRank a < keyRank b then true
  else if keyRank b < keyRank a then false
  else bytesLt (c.raw a) (c.raw b)

mutual
  /-- `__eq__` of two values of one type (`SignatureType.__eq__` compares the decoded bytes) -/
  def eqV (c : Cfg) : Ty → Val → Val → Bool
    | .scalar _ .signature, .str a, .str b => c.raw a == c.raw b
    | .scalar _ _, .unit, .unit => true
    | .scalar _ _, .bool a, .bool b => a == b
    | .scalar _ _, .int a, .int b => a == b
    | .scalar _ _, .str a, .str b => a == b
    | .scalar _ _, .bytes a, .bytes b => a == b
    | .pair _ l r, .pair a b, .pair a' b' => eqV c l a a' && eqV c r b b'
    | .or _ l _, .left a, .left b => eqV c l a b
    | .or _ _ r, .right a, .right b => eqV c r a b
    | .option _ _, .none, .none => true
    | .option _ t, .some a, .some b => eqV c t a b
    | _, _, _ => false
end

def ltV (c : Cfg) : Ty → Val → Val → Bool
  | .scalar _ .address, .str a, .str b => addressLt a b
  | .scalar _ .key, .str a, .str b => keyLt c a b
  | .scalar _ .signature, .str a, .str b => bytesLt (c.raw a) (c.raw b)
  | .scalar _ _, .bool a, .bool b => !a && b
  | .scalar _ _, .int a, .int b => a < b
  | .scalar _ _, .str a, .str b => a < b                     -- string, key_hash, chain_id: `StringType.__lt__`
  | .scalar _ _, .bytes a, .bytes b => bytesLt a b
  | .pair _ l r, .pair a b, .pair a' b' =>
    if c.pairLtLex then (if !eqV c l a a' then ltV c l a a' else if !eqV c r b b' then ltV c r b b' else false)
    else !(ltV c l a' a) && !(ltV c r b' b)
  | .or _ l _, .left a, .left b => ltV c l a b
  | .or _ _ _, .left _, .right _ => true
  | .or _ _ r, .right a, .right b => ltV c r a b
  | .option _ _, .none, .some _ => true
  | .option _ t, .some a, .some b => ltV c t a b
  | _, _, _ => false

/-- insertion step of `sorted`: after every element that is not greater -/
def insertBy (lt : α → α → Bool) (x : α) : List α → List α
  | [] => [x]
  | y :: ys => if lt x y then x :: y :: ys else y :: insertBy lt x ys

def sortBy (lt : α → α → Bool) (xs : List α) : List α := xs.foldl (fun acc x => insertBy lt x acc) []

/-- `[f(x) for x in xs]` where `f` may raise -/
def mapE {α β : Type} (f : α → Except Err β) : List α → Except Err (List β)
  | [] => .ok []
  | x :: xs => do
    let y ← f x
    let ys ← mapE f xs
    .ok (y :: ys)

/-! ### `blind_unpack` (michelson/micheline.py): what `BytesType.to_python_object(try_unpack=True)` shows

The decision is mirrored in full: which of the seven readings applies depends on the length and the first / last bytes
only (`base58_encode` raises ValueError exactly when the payload does not have the length of the prefix; the dict
lookups of `unforge_address` / `unforge_public_key` raise KeyError on an unknown tag).  The texts themselves
(`c.b58`), and the content of PACKed data (`c.unpackMich`) are parameters. -/

/-- `bytes.decode()` (strict UTF-8: no overlong forms, no surrogates, nothing above U+10FFFF) -/
def utf8Decode : List Nat → Option (List Char)
  | [] => some []
  | b0 :: rest =>
    if b0 < 0x80 then (utf8Decode rest).map fun cs => Char.ofNat b0 :: cs
    else if 0xC2 ≤ b0 && b0 < 0xE0 then
      match rest with
      | b1 :: rest' =>
        if 0x80 ≤ b1 && b1 < 0xC0 then (utf8Decode rest').map fun cs => Char.ofNat ((b0 - 0xC0) * 64 + (b1 - 0x80)) :: cs
        else none
      | _ => none
    else if 0xE0 ≤ b0 && b0 < 0xF0 then
      match rest with
      | b1 :: b2 :: rest' =>
        let cp := (b0 - 0xE0) * 4096 + (b1 - 0x80) * 64 + (b2 - 0x80)
        if 0x80 ≤ b1 && b1 < 0xC0 && 0x80 ≤ b2 && b2 < 0xC0 && 0x800 ≤ cp && !(0xD800 ≤ cp && cp < 0xE000) then
          (utf8Decode rest').map fun cs => Char.ofNat cp :: cs
        else none
      | _ => none
    else if 0xF0 ≤ b0 && b0 < 0xF5 then
      match rest with
      | b1 :: b2 :: b3 :: rest' =>
        let cp := (b0 - 0xF0) * 262144 + (b1 - 0x80) * 4096 + (b2 - 0x80) * 64 + (b3 - 0x80)
        if 0x80 ≤ b1 && b1 < 0xC0 && 0x80 ≤ b2 && b2 < 0xC0 && 0x80 ≤ b3 && b3 < 0xC0 && 0x10000 ≤ cp && cp < 0x110000 then
          (utf8Decode rest').map fun cs => Char.ofNat cp :: cs
        else none
      | _ => none
    else none

/-- `unforge_address(data)` as `blind_unpack` sees it: `some (prefix, payload)` when it returns
`base58_encode(payload, prefix)`, `none` when it raises ValueError (length) or KeyError (unknown tag) -/
def unforgeAddressPlan (d : List Nat) : Option (String × List Nat) :=
  let tz (t : Nat) : Option String :=
    match t with | 0 => some "tz1" | 1 => some "tz2" | 2 => some "tz3" | 3 => some "tz4" | _ => none
  let fits (pl : List Nat) (r : String) : Option (String × List Nat) := if pl.length = 20 then some (r, pl) else none
  if d.length = 21 then
    match d with
    | t :: pl => (tz t).bind (fits pl)
    | [] => none
  else
    match d with
    | 0 :: t :: pl =>
      match tz t with
      | some r => fits pl r                               -- the first matching two-byte prefix decides
      | none => none                                      -- `tz_prefixes[b'\x00\x00']` then a 20-byte check on `data[1:]`: not 21 long
    | 1 :: pl => if pl.getLast? = some 0 then fits pl.dropLast "KT1" else none
    | 2 :: pl => if pl.getLast? = some 0 then fits pl.dropLast "txr1" else none
    | 3 :: pl => if pl.getLast? = some 0 then fits pl.dropLast "sr1" else none
    | _ => none

/-- `unforge_public_key(data)`: tag byte, then a payload of the curve's length -/
def unforgeKeyPlan (d : List Nat) : Option (String × List Nat) :=
  match d with
  | 0 :: pl => if pl.length = 32 then some ("edpk", pl) else none
  | 1 :: pl => if pl.length = 33 then some ("sppk", pl) else none
  | 2 :: pl => if pl.length = 33 then some ("p2pk", pl) else none
  | 3 :: pl => if pl.length = 48 then some ("BLpk", pl) else none
  | _ => none

/-- `blind_unpack(data)` -/
def blindUnpack (c : Cfg) (d : List Nat) : PyObj :=
  if d.length = 4 then .str (c.b58 "Net" d)                                   -- unforge_chain_id
  else match unforgeAddressPlan d with
  | some (r, pl) => .str (c.b58 r pl)
  | none => match unforgeKeyPlan d with
  | some (r, pl) => .str (c.b58 r pl)
  | none =>
    if d.length = 96 then .str (c.b58 "BLsig" d)                              -- unforge_signature
    else if d.length = 64 then .str (c.b58 "sig" d)
    else
      let packed : Option PyObj := match d with
        | 5 :: body => c.unpackMich body
        | _ => none
      match packed with
      | some o => o
      | none => match utf8Decode d with
        | some cs => .str (String.ofList cs)
        | none => .bytes d

/-! ### `to_python_object` -/

/-- the classes whose `to_python_object` starts with `assert not comparable` -/
def Scalar.assertsNotComparable : Scalar → Bool
  | .blsFr | .blsG1 | .blsG2 => true
  | _ => false

/-- `to_python_object(try_unpack=c.tryUnpack, comparable=cmp)` of a leaf: the stored `value` (`Unit` for unit); only
`BytesType` itself looks at `try_unpack` (the bls12_381 points call `super().to_python_object()` without it) -/
def scalarToPy (c : Cfg) (cmp : Bool) : Scalar → Val → Except Err PyObj
  | .unit, .unit => .ok .unit
  | .bool, .bool b => .ok (.bool b)
  | .nat, .int n | .int, .int n | .mutez, .int n | .timestamp, .int n => .ok (.int n)
  | .string, .str s | .address, .str s | .keyHash, .str s | .key, .str s | .signature, .str s | .chainId, .str s =>
    .ok (.str s)
  | .bytes, .bytes b => .ok (if c.tryUnpack then blindUnpack c b else .bytes b)
  | .blsFr, .int n => if cmp then .error .assertion else .ok (.int n)
  | .blsG1, .bytes b | .blsG2, .bytes b => if cmp then .error .assertion else .ok (.bytes b)
  | _, _ => .error .assertion

def single (e : Except Err PyObj) : Except Err (List (Path × PyObj)) := e.map fun py => [([], py)]

/-- `{path_to_key[path]: py for path, py in flat_values}` -/
def recordOf (p2k : List (Path × String)) : List (Path × PyObj) → List (String × PyObj) → Except Err (List (String × PyObj))
  | [], acc => .ok acc
  | (path, py) :: rest, acc =>
    match dget p2k path with
    | some name => recordOf p2k rest (dset acc name py)
    | none => .error .key

/-- `{k.to_python_object(comparable=True): v.to_python_object() for k, v in items}` -/
def dictOf (c : Cfg) : List (PyObj × PyObj) → List (PyObj × PyObj) → Except Err (List (PyObj × PyObj))
  | [], acc => .ok acc
  | (k, v) :: rest, acc => if k.hashable c then dictOf c rest (pySet acc k v) else .error .type

mutual
  /-- `to_python_object(comparable=cmp, lazy_diff=None)` -/
  def toPy (c : Cfg) (cmp : Bool) : Ty → Val → Except Err PyObj
    | .scalar _ s, v => scalarToPy c cmp s v
    | .contract _ _, .str s => if cmp then .error .assertion else .ok (.str s)
    | .contract .., _ => .error .assertion
    -- `assert not comparable`; `(self.ticketer, self.item.to_python_object(try_unpack=…, comparable=True), self.amount)`
    | .ticket _ t, .ticket tk x n =>
      if cmp then .error .assertion
      else do
        let px ← toPy c true t x
        .ok (.tuple [.str tk, px, .int n])
    | .ticket .., _ => .error .assertion
    -- `assert not comparable`; `micheline_to_michelson(self.to_micheline_value())`
    | .lambda _ _ _, .lambda code => if cmp then .error .assertion else .ok (.str (c.codeText code))
    | .lambda .., _ => .error .assertion
    | .pair a l r, .pair x y => do
      let ls ← if l.isFlatPair then flatVals c cmp l x else single (toPy c cmp l x)
      let rs ← if r.isFlatPair then flatVals c cmp r y else single (toPy c cmp r y)
      let flat := ls.map (pre false) ++ rs.map (pre true)
      match (if cmp then none else (pairLayout (.pair a l r)).pathToKey) with    -- `force_tuple=comparable`
      | some p2k => (recordOf p2k flat []).map .record
      | none => .ok (.tuple (flat.map (·.2)))
    | .pair .., _ => .error .assertion
    | .or a l r, v => do
      let (path, py) ← match v with
        | .left x => (if l.isOr then orVal c cmp l x else (toPy c cmp l x).map fun py => ([], py)).map (pre false)
        | .right y => (if r.isOr then orVal c cmp r y else (toPy c cmp r y).map fun py => ([], py)).map (pre true)
        | _ => .error .assertion
      match (orLayout (.or a l r)).pathToKey with
      | none => .error .assertion
      | some p2k =>
        match dget p2k path with
        | none => .error .key
        | some entrypoint =>
          if (Ty.or a l r).isEnum then .ok (.str entrypoint)
          else if cmp then .ok (.tuple [.str entrypoint, py]) else .ok (.record [(entrypoint, py)])
    | .option _ _, .none => .ok .none
    | .option _ t, .some x => toPy c cmp t x
    | .option .., _ => .error .assertion
    | .list _ t, .list xs => if cmp then .error .assertion else (mapE (toPy c false t) xs).map .list
    | .list .., _ => .error .assertion
    | .set _ t, .set xs => if cmp then .error .assertion else (mapE (toPy c true t) xs).map .list
    | .set .., _ => .error .assertion
    | .map _ k v, .map kvs =>
      if cmp then .error .assertion
      else do
        let items ← mapE (fun (e : Val × Val) => do
          let pk ← toPy c true k e.1
          let pv ← toPy c false v e.2
          pure (pk, pv)) kvs
        (dictOf c items []).map .dict
    | .map .., _ => .error .assertion
    | .bigMap _ k v, .bigMap kvs =>
      if cmp then .error .assertion
      else do
        let items ← mapE (fun (e : Val × Val) => do
          let pk ← toPy c true k e.1
          let pv ← toPy c false v e.2
          pure (pk, pv)) kvs
        (dictOf c items []).map .dict
    | .bigMap _ _ _, .bigMapId n => .ok (.int n)
    | .bigMap .., _ => .error .assertion
  /-- `PairType.iter_values` of an unnamed inner pair, already converted -/
  def flatVals (c : Cfg) (cmp : Bool) : Ty → Val → Except Err (List (Path × PyObj))
    | .pair _ l r, .pair x y => do
      let ls ← if l.isFlatPair then flatVals c cmp l x else single (toPy c cmp l x)
      let rs ← if r.isFlatPair then flatVals c cmp r y else single (toPy c cmp r y)
      .ok (ls.map (pre false) ++ rs.map (pre true))
    | _, _ => .error .assertion
  /-- `OrType.iter_values` of an inner union: the path of the leaf the value lands on, converted -/
  def orVal (c : Cfg) (cmp : Bool) : Ty → Val → Except Err (Path × PyObj)
    | .or _ l _, .left x => (if l.isOr then orVal c cmp l x else (toPy c cmp l x).map fun py => ([], py)).map (pre false)
    | .or _ _ r, .right y => (if r.isOr then orVal c cmp r y else (toPy c cmp r y).map fun py => ([], py)).map (pre true)
    | _, _ => .error .assertion
end

/-! ### `from_python_object` -/

/-- the two assertions of `StringType.from_value`: `len(value) == len(value.encode())` (every character is ASCII) and
`all(c == '\n' or ' ' <= c <= '~' for c in value)` (a newline or a printable character; the second one came with
45078c3, before it a tab or 0x01 passed) -/
def isAscii (s : String) : Bool :=
  (s.toList.all fun ch => ch.toNat < 128) && (s.toList.all fun ch => ch == '\n' || (' ' ≤ ch && ch ≤ '~'))

/-! #### text / `Decimal` forms of numbers and bytes

Strings with `_` (Python accepts digit grouping) or non-ASCII characters (other decimal digits, other white space) are
`unmodelled`. -/

/-- ASCII white space in the sense of `str.isspace` (what `int(·)` and `Decimal(·)` strip) -/
def isWs (ch : Char) : Bool :=
  ch == ' ' || ch == '\t' || ch == '\n' || ch == '\r' || ch.toNat == 11 || ch.toNat == 12 || (28 ≤ ch.toNat && ch.toNat ≤ 31)

def stripWs (cs : List Char) : List Char := ((cs.dropWhile isWs).reverse.dropWhile isWs).reverse

def isDigit (ch : Char) : Bool := '0' ≤ ch && ch ≤ '9'

/-- value of a string of decimal digits -/
def digitsNat (ds : List Char) : Nat := ds.foldl (fun acc ch => acc * 10 + (ch.toNat - 48)) 0

def outsideModel (cs : List Char) : Bool := cs.any fun ch => ch == '_' || 128 ≤ ch.toNat

/-- `int(text)`: white space stripped, optional sign, at least one decimal digit (`ValueError` otherwise) -/
def pyIntText (s : String) : Except Err Int :=
  let cs := s.toList
  if outsideModel cs then .error .unmodelled
  else
    let body (neg : Bool) (ds : List Char) : Except Err Int :=
      if !ds.isEmpty && ds.all isDigit then .ok (if neg then -(digitsNat ds : Int) else (digitsNat ds : Int))
      else .error .assertion
    match stripWs cs with
    | '-' :: ds => body true ds
    | '+' :: ds => body false ds
    | ds => body false ds

/-- `optimize_timestamp`: RFC 3339 first (`strict_rfc3339.rfc3339_to_timestamp`, C11's `Civil.parseTimestamp`), then
`int(value)` -/
def optimizeTimestamp (s : String) : Except Err Int :=
  match Civil.parseTimestamp s.toList with
  | some t => .ok t
  | none => pyIntText s

/-- a `decimal.Decimal` -/
inductive Dec where
  | fin (neg : Bool) (coef : Nat) (exp : Int)
  | nan
  | inf
  deriving DecidableEq, Repr

def lowerAscii (ch : Char) : Char := if 'A' ≤ ch && ch ≤ 'Z' then Char.ofNat (ch.toNat + 32) else ch

/-- `Decimal(text)`: white space stripped, optional sign, then digits with an optional point and an optional exponent
(at least one digit before the exponent), or `Inf` / `Infinity`, or `NaN` / `sNaN` with optional digits; letters in
any case.  `error assertion` = `decimal.InvalidOperation`.  The construction is exact (no rounding).  Exponents of
more than 5 digits are `unmodelled` (the limits `Emax` / `Emin` of the context come into play) -/
def parseDecimal (s : String) : Except Err Dec :=
  let cs := s.toList
  if outsideModel cs then .error .unmodelled
  else
    let cs := (stripWs cs).map lowerAscii
    let (neg, cs) := match cs with
      | '-' :: r => (true, r)
      | '+' :: r => (false, r)
      | r => (false, r)
    if cs == "inf".toList || cs == "infinity".toList then .ok .inf
    else
      let diag := if cs.take 4 == "snan".toList then some (cs.drop 4)
        else if cs.take 3 == "nan".toList then some (cs.drop 3) else none
      match diag with
      | some d => if d.all isDigit then .ok .nan else .error .assertion
      | none =>
        let ip := cs.takeWhile isDigit
        let r := cs.dropWhile isDigit
        let (fp, r) := match r with
          | '.' :: r' => (r'.takeWhile isDigit, r'.dropWhile isDigit)
          | _ => ([], r)
        if ip.isEmpty && fp.isEmpty then .error .assertion
        else
          match r with
          | [] => .ok (.fin neg (digitsNat (ip ++ fp)) (-(fp.length : Int)))
          | 'e' :: er =>
            let (eneg, ed) := match er with
              | '-' :: x => (true, x)
              | '+' :: x => (false, x)
              | x => (false, x)
            if ed.isEmpty || !ed.all isDigit then .error .assertion
            else if 5 < ed.length then .error .unmodelled
            else
              let e : Int := digitsNat ed
              .ok (.fin neg (digitsNat (ip ++ fp)) ((if eneg then -e else e) - (fp.length : Int)))
          | _ => .error .assertion

/-- number of decimal digits (`1` for `0`) -/
def numDigits (n : Nat) : Nat := (Nat.toDigits 10 n).length

/-- the default context of `decimal` (`prec=28`, `ROUND_HALF_EVEN`) applied to an exact result -/
def ctxRound (coef : Nat) (exp : Int) : Nat × Int :=
  let nd := numDigits coef
  if nd ≤ 28 then (coef, exp)
  else
    let sh := nd - 28
    let q := coef / 10 ^ sh
    let r := coef % 10 ^ sh
    let half := 5 * 10 ^ (sh - 1)
    let q := if half < r || (r == half && q % 2 == 1) then q + 1 else q
    if q == 10 ^ 28 then (10 ^ 27, exp + sh + 1) else (q, exp + sh)

/-- `int(d)`: truncation toward zero -/
def decToInt (neg : Bool) (coef : Nat) (exp : Int) : Int :=
  let m : Nat := if 0 ≤ exp then coef * 10 ^ exp.toNat else coef / 10 ^ (-exp).toNat
  if neg then -(m : Int) else (m : Int)

/-- `int(d * (10**6))`: the product is rounded to 28 significant digits by the context, then truncated -/
def mutezOfDec : Dec → Except Err Int
  | .nan => .error .assertion         -- ValueError: cannot convert NaN to integer
  | .inf => .error .overflow          -- OverflowError: cannot convert Infinity to integer
  | .fin neg coef exp =>
    let (c', e') := ctxRound (coef * 1000000) exp
    .ok (decToInt neg c' e')

/-- `MutezType.from_value` -/
def mutezFromValue (n : Int) : Except Err Val :=
  if n < 0 then .error .assertion else if 9223372036854775808 ≤ n then .error .overflow else .ok (.int n)

def hexVal (ch : Char) : Option Nat :=
  if '0' ≤ ch && ch ≤ '9' then some (ch.toNat - 48)
  else if 'a' ≤ ch && ch ≤ 'f' then some (ch.toNat - 87)
  else if 'A' ≤ ch && ch ≤ 'F' then some (ch.toNat - 55)
  else none

/-- `bytes.fromhex`: two hexadecimal digits per byte, ASCII white space (`' \t\n\r\v\f'`) skipped between bytes -/
def fromHex : List Char → Option (List Nat)
  | [] => some []
  | ch :: tl =>
    if ch == ' ' || ch == '\t' || ch == '\n' || ch == '\r' || ch.toNat == 11 || ch.toNat == 12 then fromHex tl
    else
      match tl with
      | [] => none
      | d :: rest =>
        match hexVal ch, hexVal d with
        | some x, some y => (fromHex rest).map fun bs => (x * 16 + y) :: bs
        | _, _ => none

/-- `if py_obj.startswith('0x'): py_obj = py_obj[2:]`, then `bytes.fromhex(py_obj)` (`ValueError` = assertion) -/
def hexText (s : String) : Except Err (List Nat) :=
  let cs := match s.toList with
    | '0' :: 'x' :: r => r
    | r => r
  match fromHex cs with
  | some bs => .ok bs
  | none => .error .assertion

/-- `int.from_bytes(b, 'little')` -/
def leToNat : List Nat → Nat
  | [] => 0
  | b :: r => b + 256 * leToNat r

/-- `BLS12_381_FrType.bytes_to_int` -/
def frBytesToInt (b : List Nat) : Except Err Int :=
  if b.length ≤ 32 then .ok (leToNat b : Int) else .error .assertion

/-- `from_python_object` of the leaves -/
def scalarOfPy (c : Cfg) : Scalar → PyObj → Except Err Val
  | .unit, .none | .unit, .unit => .ok .unit
  | .unit, _ => .error .assertion
  | .bool, .bool b => .ok (.bool b)
  | .bool, _ => .error .assertion
  | .nat, .int n => if 0 ≤ n then .ok (.int n) else .error .assertion
  | .nat, .bool _ => .error .unmodelled
  | .nat, _ => .error .assertion
  | .int, .int n => .ok (.int n)
  | .int, .bool _ => .error .unmodelled
  | .int, _ => .error .assertion
  | .mutez, .int n => mutezFromValue n
  | .mutez, .decimal neg coef exp => (mutezOfDec (.fin neg coef exp)).bind mutezFromValue
  | .mutez, .decimalSpecial inf => (mutezOfDec (if inf then .inf else .nan)).bind mutezFromValue
  | .mutez, .str s => ((parseDecimal s).bind mutezOfDec).bind mutezFromValue
  | .mutez, .bool _ => .error .unmodelled
  | .mutez, _ => .error .assertion
  | .timestamp, .int n => .ok (.int n)
  | .timestamp, .str s => (optimizeTimestamp s).map .int
  | .timestamp, .bool _ => .error .unmodelled
  | .timestamp, _ => .error .assertion
  | .string, .str s => if isAscii s then .ok (.str s) else .error .assertion
  | .string, _ => .error .assertion
  | .bytes, .bytes b | .blsG1, .bytes b | .blsG2, .bytes b => .ok (.bytes b)     -- `cls(value)`: no `from_value`, no length check
  | .bytes, .str s | .blsG1, .str s | .blsG2, .str s => (hexText s).map .bytes
  | .bytes, _ | .blsG1, _ | .blsG2, _ => .error .assertion
  | .address, .str s => (addressFromValue c s).map .str
  | .address, .bytes _ => .error .type                       -- `bytes.partition('%')`
  | .address, _ => .error .assertion                        -- AttributeError: no `partition`
  | .keyHash, .str s => (plainFromValue c .keyHash s).map .str
  | .key, .str s => (plainFromValue c .key s).map .str
  | .signature, .str s => (plainFromValue c .signature s).map .str
  | .chainId, .str s => (plainFromValue c .chainId s).map .str
  | .keyHash, .bytes _ | .key, .bytes _ | .signature, .bytes _ | .chainId, .bytes _ => .error .unmodelled
  | .keyHash, _ | .key, _ | .signature, _ | .chainId, _ => .error .assertion
  | .blsFr, .int n => .ok (.int (n % (c.frModulus : Int)))
  | .blsFr, .bytes b => (frBytesToInt b).map fun n => .int (n % (c.frModulus : Int))
  | .blsFr, .str s => ((hexText s).bind frBytesToInt).map fun n => .int (n % (c.frModulus : Int))
  | .blsFr, .bool _ => .error .unmodelled
  | .blsFr, _ => .error .assertion
  | .never, _ => .error .assertion                          -- NotImplementedError

/-- keys of `obj` below branch `b`, made relative to it -/
def strip (b : Bool) : List (Path × PyObj) → List (Path × PyObj)
  | [] => []
  | (b' :: q, v) :: rest => if b' = b then (q, v) :: strip b rest else strip b rest
  | ([], _) :: rest => strip b rest

/-- `obj[subpath] if subpath in obj else wrap_pair(obj, subpath)`, then `args[i].from_python_object(...)` -/
def pick (obj : List (Path × PyObj)) (b : Bool) (leaf : PyObj → Except Err Val)
    (nested : List (Path × PyObj) → Except Err Val) : Except Err Val :=
  match dget obj [b] with
  | some py => leaf py
  | none => nested (strip b obj)

/-- `{idx_to_path[i]: value for i, value in enumerate(py_obj)}` -/
def objOfTuple : List Path → List PyObj → Except Err (List (Path × PyObj))
  | _, [] => .ok []
  | [], _ :: _ => .error .key
  | p :: ps, x :: xs => (objOfTuple ps xs).map fun rest => (p, x) :: rest

/-- `{key_to_path[key]: value for key, value in py_obj.items()}` -/
def objOfRecord (k2p : List (String × Path)) : List (String × PyObj) → List (Path × PyObj) → Except Err (List (Path × PyObj))
  | [], acc => .ok acc
  | (k, v) :: rest, acc =>
    match dget k2p k with
    | some path => objOfRecord k2p rest (dset acc path v)
    | none => .error .key

/-- a Python dict whose keys are all `str` read as a record (what the pair / union decoders index by name);
`none`: some key is not a string (the name lookup then raises KeyError) -/
def asRecord : List (PyObj × PyObj) → Option (List (String × PyObj))
  | [] => some []
  | (.str k, v) :: rest => (asRecord rest).map fun r => (k, v) :: r
  | _ :: _ => none

mutual
  def ofPy (c : Cfg) : Ty → PyObj → Except Err Val
    | .scalar _ s, py => scalarOfPy c s py
    | .contract _ _, py =>
      -- `if py_obj is None or py_obj is Undefined: py_obj = get_originated_address(0)`, then `AddressType`'s
      match py with
      | .none => (addressFromValue c c.originated0).map .str
      | .str s => (addressFromValue c s).map .str
      | .bytes _ => .error .type
      | _ => .error .assertion
    -- `TicketType.from_python_object` (repaired, fixes/C12-3): the three components are converted one by one, the way
    -- `to_python_object` shows them (the pinned body read the object as a value of `pair address (pair t nat)`, whose
    -- layout flattens an unnamed pair `t`: `ticket (pair nat nat)` did not convert back)
    | .ticket _ t, py =>
      match py with
      | .tuple [a, b, n] | .list [a, b, n] => do
        let tk ← match a with
          | .str s => addressFromValue c s
          | .bytes _ => .error .type
          | _ => .error .assertion
        let x ← ofPy c t b
        let amt ← match n with
          | .int k => if 0 ≤ k then .ok k else .error .assertion
          | .bool _ => .error .unmodelled
          | _ => .error .assertion
        .ok (.ticket tk x amt)
      | _ => .error .assertion
    -- `assert isinstance(py_obj, str)`; `michelson_to_micheline`; `from_micheline_value`: `assert isinstance(·, list)`,
    -- `cls(Micheline.match(val_expr))`
    | .lambda _ _ _, py =>
      match py with
      | .str s =>
        match c.codeOfText s with
        | some code => .ok (.lambda code)
        | none => .error .assertion
      | _ => .error .assertion
    | .pair a l r, py => do
      let lay := pairLayout (.pair a l r)
      let obj ← match py with
        | .tuple xs | .list xs => objOfTuple lay.idxToPath xs
        | .record kvs =>
          match lay.keyToPath with
          | some k2p => objOfRecord k2p kvs []
          | none => .error .assertion                       -- `assert key_to_path, 'expected named type'`
        | .dict items =>
          match lay.keyToPath, asRecord items with
          | some k2p, some kvs => objOfRecord k2p kvs []
          | some _, none => .error .key
          | none, _ => .error .assertion
        | _ => .error .assertion
      if obj.isEmpty then .error .key                        -- `wrap_pair`: no key starts with ''
      else do
        let x ← pick obj false (ofPy c l) (nestedPair c l)
        let y ← pick obj true (ofPy c r) (nestedPair c r)
        .ok (.pair x y)
    | .or a l r, py => do
      let lay := orLayout (.or a l r)
      let (entrypoint, value) ← match py with
        | .str s => if (Ty.or a l r).isEnum then .ok (s, PyObj.unit) else .error .assertion
        | .tuple [.str k, v] | .list [.str k, v] => .ok (k, v)
        | .tuple [_, _] | .list [_, _] => .error .key
        | .record [(k, v)] => .ok (k, v)
        | .dict [(.str k, v)] => .ok (k, v)
        | .dict [(_, _)] => .error .key
        | _ => .error .assertion
      match lay.keyToPath with
      | none => .error .assertion
      | some k2p =>
        match dget k2p entrypoint with
        | none => .error .key
        | some [] => .error .assertion
        | some (false :: rest) => (if rest.isEmpty then ofPy c l value else orNested c l rest value).map .left
        | some (true :: rest) => (if rest.isEmpty then ofPy c r value else orNested c r rest value).map .right
    | .option _ t, py =>
      match py with
      | .none => .ok .none
      | py => (ofPy c t py).map .some
    | .list _ t, py =>
      match py with
      | .list xs => (mapE (ofPy c t) xs).map .list
      | _ => .error .assertion
    | .set _ t, py =>
      match py with
      | .list xs =>
        if !(xs.all (PyObj.hashable c)) then .error .type
        else if !pyDistinct xs then .error .assertion
        else (mapE (ofPy c t) xs).map fun items => .set (sortBy (ltV c t) items)
      | _ => .error .assertion
    | .map _ k v, py =>
      match py with
      | .dict items => (mapE (fun (e : PyObj × PyObj) => do
          let kk ← ofPy c k e.1
          let vv ← ofPy c v e.2
          pure (kk, vv)) items).map fun kvs => .map (sortBy (fun a b => ltV c k a.1 b.1) kvs)
      | _ => .error .assertion
    | .bigMap _ k v, py =>
      match py with
      | .int n => .ok (.bigMapId n)
      | .bool _ => .error .unmodelled
      | .dict items => (mapE (fun (e : PyObj × PyObj) => do
          let kk ← ofPy c k e.1
          let vv ← ofPy c v e.2
          pure (kk, vv)) items).map fun kvs => .bigMap (sortBy (fun a b => ltV c k a.1 b.1) kvs)
      | _ => .error .assertion
  /-- `from_python_object(Nested(...))` of an unnamed inner pair over the keys below it -/
  def nestedPair (c : Cfg) : Ty → List (Path × PyObj) → Except Err Val
    | .pair _ l r, obj =>
      if obj.isEmpty then .error .key
      else do
        let x ← pick obj false (ofPy c l) (nestedPair c l)
        let y ← pick obj true (ofPy c r) (nestedPair c r)
        .ok (.pair x y)
    | _, obj => if obj.isEmpty then .error .key else .error .assertion
  /-- `from_python_object(wrap_or(value, path))` of an inner union -/
  def orNested (c : Cfg) : Ty → Path → PyObj → Except Err Val
    | .or _ l _, false :: rest, value => (if rest.isEmpty then ofPy c l value else orNested c l rest value).map .left
    | .or _ _ r, true :: rest, value => (if rest.isEmpty then ofPy c r value else orNested c r rest value).map .right
    | _, _, _ => .error .assertion
end

end Impl.PyConv

/-! ## which types convert back (decidable; as weak as the code allows) -/
namespace Spec.PyConv
open Impl.PyConv

/-- the Python object of a value of this (comparable) type contains the `Unit` sentinel -/
def pyHasUnit : Ty → Bool
  | .scalar _ .unit => true
  | .pair _ l r => pyHasUnit l || pyHasUnit r
  | .or a l r => !(Ty.or a l r).isEnum && (pyHasUnit l || pyHasUnit r)
  | .option _ t => pyHasUnit t
  | _ => false

def hasPair : Ty → Bool
  | .pair .. => true
  | .or _ l r => hasPair l || hasPair r
  | .option _ t => hasPair t
  | _ => false

mutual
  /-- `inv c cmp τ`: `from_python_object(to_python_object(v, comparable=cmp)) = v` holds for every `v : τ`.
  Excluded, and only these (field names play no role: `C12.field_names_unique` holds for every type):
  * `option (option _)` — `Some None` and `None` are both Python `None` (inherent to the documented mapping);
  * a list / set / map / big_map / contract / bls12_381 value in key position (not comparable: `to_python_object`
    asserts);
  * a set element / map key type whose object contains `Unit` while `class unit` has no `__hash__`;
  * a set of pairs while `PairType.__lt__` is not lexicographic (the order `sorted` restores depends on the
    iteration order of a Python `set`). -/
  def inv (c : Cfg) (cmp : Bool) : Ty → Bool
    | .scalar _ s => !(cmp && s.assertsNotComparable)
    | .contract _ _ => !cmp
    | .ticket _ t => !cmp && inv c true t
    | .lambda _ _ _ => !cmp
    | .pair _ l r =>
      (if l.isFlatPair then leavesInv c cmp l else inv c cmp l)
        && (if r.isFlatPair then leavesInv c cmp r else inv c cmp r)
    | .or _ l r =>
      (if l.isOr then orLeavesInv c cmp l else inv c cmp l)
        && (if r.isOr then orLeavesInv c cmp r else inv c cmp r)
    | .option _ t => !t.isOption && inv c cmp t
    | .list _ t => !cmp && inv c false t
    | .set _ t => !cmp && inv c true t && (c.unitHashable || !pyHasUnit t) && (c.pairLtLex || !hasPair t)
    | .map _ k v => !cmp && inv c true k && (c.unitHashable || !pyHasUnit k) && inv c false v
    | .bigMap _ k v => !cmp && inv c true k && (c.unitHashable || !pyHasUnit k) && inv c false v
  def leavesInv (c : Cfg) (cmp : Bool) : Ty → Bool
    | .pair _ l r =>
      (if l.isFlatPair then leavesInv c cmp l else inv c cmp l)
        && (if r.isFlatPair then leavesInv c cmp r else inv c cmp r)
    | _ => false
  def orLeavesInv (c : Cfg) (cmp : Bool) : Ty → Bool
    | .or _ l r =>
      (if l.isOr then orLeavesInv c cmp l else inv c cmp l)
        && (if r.isOr then orLeavesInv c cmp r else inv c cmp r)
    | _ => false
end

/-- typing of values (what `from_micheline_value` of the type produces): sets / maps hold pairwise different
elements / keys in the order `sorted` leaves unchanged (`check_constraints`) -/
def HasTy (c : Cfg) : Ty → Val → Prop
  | .scalar _ .unit, v => v = .unit
  | .scalar _ .bool, v => ∃ b, v = .bool b
  | .scalar _ .nat, v => ∃ n : Int, v = .int n ∧ 0 ≤ n
  | .scalar _ .int, v => ∃ n : Int, v = .int n
  | .scalar _ .mutez, v => ∃ n : Int, v = .int n ∧ 0 ≤ n ∧ n < 9223372036854775808
  | .scalar _ .timestamp, v => ∃ n : Int, v = .int n
  | .scalar _ .string, v => ∃ s, v = .str s ∧ isAscii s = true
  | .scalar _ .bytes, v => ∃ b, v = .bytes b
  -- the base58 leaves: the texts `from_value` keeps as they are (an address has lost a `%default`)
  | .scalar _ .address, v => ∃ s, v = .str s ∧ addressFromValue c s = .ok s
  | .scalar _ .keyHash, v => ∃ s, v = .str s ∧ plainFromValue c .keyHash s = .ok s
  | .scalar _ .key, v => ∃ s, v = .str s ∧ plainFromValue c .key s = .ok s
  | .scalar _ .signature, v => ∃ s, v = .str s ∧ plainFromValue c .signature s = .ok s
  | .scalar _ .chainId, v => ∃ s, v = .str s ∧ plainFromValue c .chainId s = .ok s
  | .scalar _ .blsFr, v => ∃ n : Int, v = .int n ∧ 0 ≤ n ∧ n < (c.frModulus : Int)      -- `value % modulus`
  | .scalar _ .blsG1, v => ∃ b, v = .bytes b       -- `from_micheline_value` is `BytesType`'s: no length check
  | .scalar _ .blsG2, v => ∃ b, v = .bytes b
  | .scalar _ .never, _ => False
  | .contract _ _, v => ∃ s, v = .str s ∧ addressFromValue c s = .ok s
  | .ticket _ t, v => ∃ tk x n, v = .ticket tk x n ∧ addressFromValue c tk = .ok tk ∧ HasTy c t x ∧ (0 : Int) ≤ n
  | .lambda _ _ _, v => ∃ code, v = .lambda code ∧ c.codeOk code = true
  | .pair _ l r, v => ∃ x y, v = .pair x y ∧ HasTy c l x ∧ HasTy c r y
  | .or _ l r, v => (∃ x, v = .left x ∧ HasTy c l x) ∨ (∃ y, v = .right y ∧ HasTy c r y)
  | .option _ t, v => v = .none ∨ ∃ x, v = .some x ∧ HasTy c t x
  | .list _ t, v => ∃ xs, v = .list xs ∧ ∀ x ∈ xs, HasTy c t x
  | .set _ t, v => ∃ xs, v = .set xs ∧ (∀ x ∈ xs, HasTy c t x) ∧ xs.Pairwise (· ≠ ·) ∧ sortBy (ltV c t) xs = xs
  | .map _ k t, v => ∃ kvs, v = .map kvs ∧ (∀ e ∈ kvs, HasTy c k e.1 ∧ HasTy c t e.2)
      ∧ (kvs.map (·.1)).Pairwise (· ≠ ·) ∧ sortBy (fun a b => ltV c k a.1 b.1) kvs = kvs
  | .bigMap _ k t, v => (∃ n, v = .bigMapId n) ∨ ∃ kvs, v = .bigMap kvs ∧ (∀ e ∈ kvs, HasTy c k e.1 ∧ HasTy c t e.2)
      ∧ (kvs.map (·.1)).Pairwise (· ≠ ·) ∧ sortBy (fun a b => ltV c k a.1 b.1) kvs = kvs

/-- the one law the round trip of `lambda` needs, a hypothesis of the theorems (formatting and parsing Michelson source
is C18's property): the text of a body reads back as that body -/
def CodeLaw (c : Cfg) : Prop := ∀ code, c.codeOk code = true → c.codeOfText (c.codeText code) = some code

/-- the decidable guard of the round-trip theorem -/
def PyInvertible (c : Cfg) (τ : Ty) : Prop := inv c false τ = true

instance (c : Cfg) (τ : Ty) : Decidable (PyInvertible c τ) := by unfold PyInvertible; infer_instance

end Spec.PyConv

/-! ## `ContractData.decode` / `encode` (contract/data.py) as compositions -/
namespace Impl.PyConv

/-- the Micheline coding of typed values (`from_micheline_value` / `to_micheline_value(lazy_diff=None)`), a parameter:
its own round trip is C11 -/
structure Codec (M : Type) where
  toMich : Ty → Val → M
  ofMich : Ty → M → Except Err Val

/-- `type(self.data).from_micheline_value(value).to_python_object(lazy_diff=None)` -/
def decode {M : Type} (k : Codec M) (c : Cfg) (τ : Ty) (m : M) : Except Err PyObj :=
  (k.ofMich τ m).bind (toPy c false τ)

/-- `type(self.data).from_python_object(py_obj).to_micheline_value(mode, lazy_diff=None)` -/
def encode {M : Type} (k : Codec M) (c : Cfg) (τ : Ty) (py : PyObj) : Except Err M :=
  (ofPy c τ py).map (k.toMich τ)

end Impl.PyConv
