import PytezosModel.Generated.C12
/-! C12 — Python-object conversion of contract data.

Mirror of `get_type_layout`, `wrap_pair`, `wrap_or` (types/adt.py), `PairType.iter_type_args / iter_values /
to_python_object / from_python_object` (types/pair.py), the same four of `OrType` (types/sum.py) and of
`to_python_object` / `from_python_object` of unit, bool, nat, int, mutez, timestamp, string, bytes, option, list, set,
map, big_map (core.py, domain.py, option.py, list.py, set.py, map.py, big_map.py).

Representation choices (observationally equal to the source, validated by the correspondence run):
* binary paths are relative to the node that computes its layout (`false` = '0'); the source threads an absolute
  prefix `path + str(i)` through the recursion and strips it again with `startswith` / dict lookups;
* `Nested` / `Undefined` are not materialised: `wrap_pair` / `wrap_or` followed by the `Nested` branch of
  `from_python_object` is the type-directed descent `nestedPair` / `orNested`;
* `to_python_object` is the `lazy_diff=None` call (what `ContractData.decode` uses): a big_map literal renders as a
  dict, a big_map id as an int; `try_unpack=False`;
* Python's `set(py_list)` iterates in an unspecified order; the mirror takes list order (the sorted result does not
  depend on it when `__lt__` is a strict total order — C03).
Unmodelled input shapes (`Decimal`, timestamp strings, hex strings for bytes, `Undefined`) are answered
`Err.unmodelled`; the harness never sends them. -/
namespace Impl.PyConv

abbrev Path := List Bool

structure Ann where
  field : Option String := none
  type : Option String := none
  deriving DecidableEq, Repr, Inhabited

inductive Scalar where
  | unit | bool | nat | int | mutez | timestamp | string | bytes
  deriving DecidableEq, Repr, Inhabited

inductive Ty where
  | scalar (a : Ann) (s : Scalar)
  | pair (a : Ann) (l r : Ty)
  | or (a : Ann) (l r : Ty)
  | option (a : Ann) (t : Ty)
  | list (a : Ann) (t : Ty)
  | set (a : Ann) (t : Ty)
  | map (a : Ann) (k v : Ty)
  | bigMap (a : Ann) (k v : Ty)
  deriving DecidableEq, Repr, Inhabited

inductive Val where
  | unit
  | bool (b : Bool)
  | int (n : Int)
  | str (s : String)
  | bytes (b : List Nat)
  | pair (a b : Val)
  | left (v : Val)
  | right (v : Val)
  | none
  | some (v : Val)
  | list (xs : List Val)
  | set (xs : List Val)
  | map (kvs : List (Val × Val))
  | bigMap (kvs : List (Val × Val))
  | bigMapId (id : Int)
  deriving Repr, Inhabited

/-- the documented Python shapes -/
inductive PyObj where
  | none
  | unit                                    -- the `Unit` sentinel (`pytezos.michelson.types.core.unit`)
  | bool (b : Bool)
  | int (n : Int)
  | str (s : String)
  | bytes (b : List Nat)
  | tuple (xs : List PyObj)
  | list (xs : List PyObj)
  | record (fields : List (String × PyObj))   -- dict with string keys (pairs, unions)
  | dict (items : List (PyObj × PyObj))       -- dict with arbitrary hashable keys (map, big_map)
  deriving Repr, Inhabited

inductive Err where
  | key          -- KeyError
  | type         -- TypeError (unhashable)
  | assertion    -- AssertionError / any other exception
  | overflow     -- OverflowError (mutez)
  | unmodelled
  | unrecognised
  deriving DecidableEq, Repr

structure Cfg where
  /-- `class unit` defines `__hash__` (pinned tree: no — a dict key / set element containing `Unit` raises TypeError) -/
  unitHashable : Bool
  /-- `PairType.__lt__` is lexicographic (pinned tree: no) — only used by `sorted` on non-canonical input -/
  pairLtLex : Bool
  deriving DecidableEq, Repr

/-- the mirror below follows the repaired name generator of `get_type_layout` (generated names made different from
every declared one): with the old shape (`generatedNamesFresh = some false`) or an unknown one there is no
configuration, the model refuses to run and `C12.source_shape` does not close -/
def cfg? : Option Cfg :=
  match Generated.C12.sourceRecognised, Generated.C12.generatedNamesFresh, Generated.C12.unitHashable,
    Generated.C12.pairLtLexicographic with
  | some (), some true, some u, some p => some ⟨u, p⟩
  | _, _, _, _ => none

/-! ### Python equality / hashability of objects (dict keys, `set(...)`) -/

mutual
  def PyObj.beq : PyObj → PyObj → Bool
    | .none, .none => true
    | .unit, .unit => true
    | .bool a, .bool b => a == b
    | .int a, .int b => a == b
    | .str a, .str b => a == b
    | .bytes a, .bytes b => a == b
    | .tuple a, .tuple b => beqList a b
    | .list a, .list b => beqList a b
    | .record a, .record b => beqFields a b
    | .dict a, .dict b => beqItems a b
    | _, _ => false
  def PyObj.beqList : List PyObj → List PyObj → Bool
    | [], [] => true
    | a :: as, b :: bs => PyObj.beq a b && beqList as bs
    | _, _ => false
  def PyObj.beqFields : List (String × PyObj) → List (String × PyObj) → Bool
    | [], [] => true
    | (k, a) :: as, (k', b) :: bs => k == k' && PyObj.beq a b && beqFields as bs
    | _, _ => false
  def PyObj.beqItems : List (PyObj × PyObj) → List (PyObj × PyObj) → Bool
    | [], [] => true
    | (k, a) :: as, (k', b) :: bs => PyObj.beq k k' && PyObj.beq a b && beqItems as bs
    | _, _ => false
end

mutual
  /-- structural equality of values (what `__eq__` computes on values of one type) -/
  def Val.beq : Val → Val → Bool
    | .unit, .unit => true
    | .bool a, .bool b => a == b
    | .int a, .int b => a == b
    | .str a, .str b => a == b
    | .bytes a, .bytes b => a == b
    | .pair a b, .pair a' b' => Val.beq a a' && Val.beq b b'
    | .left a, .left b => Val.beq a b
    | .right a, .right b => Val.beq a b
    | .none, .none => true
    | .some a, .some b => Val.beq a b
    | .list a, .list b => Val.beqList a b
    | .set a, .set b => Val.beqList a b
    | .map a, .map b => Val.beqItems a b
    | .bigMap a, .bigMap b => Val.beqItems a b
    | .bigMapId a, .bigMapId b => a == b
    | _, _ => false
  def Val.beqList : List Val → List Val → Bool
    | [], [] => true
    | a :: as, b :: bs => Val.beq a b && Val.beqList as bs
    | _, _ => false
  def Val.beqItems : List (Val × Val) → List (Val × Val) → Bool
    | [], [] => true
    | (k, a) :: as, (k', b) :: bs => Val.beq k k' && Val.beq a b && Val.beqItems as bs
    | _, _ => false
end

/-- `r` is `ok x` -/
def okPy (r : Except Err PyObj) (x : PyObj) : Bool :=
  match r with
  | .ok y => PyObj.beq y x
  | .error _ => false

def okVal (r : Except Err Val) (x : Val) : Bool :=
  match r with
  | .ok y => Val.beq y x
  | .error _ => false

def isErr {α : Type} (r : Except Err α) (e : Err) : Bool :=
  match r with
  | .ok _ => false
  | .error e' => e' == e

mutual
  def PyObj.hashable (c : Cfg) : PyObj → Bool
    | .unit => c.unitHashable
    | .tuple xs => hashableList c xs
    | .list _ => false
    | .record _ => false
    | .dict _ => false
    | _ => true
  def PyObj.hashableList (c : Cfg) : List PyObj → Bool
    | [] => true
    | x :: xs => PyObj.hashable c x && hashableList c xs
end

def pyMem (x : PyObj) : List PyObj → Bool
  | [] => false
  | y :: ys => PyObj.beq y x || pyMem x ys

/-- `len(set(xs)) == len(xs)` -/
def pyDistinct : List PyObj → Bool
  | [] => true
  | x :: xs => !pyMem x xs && pyDistinct xs

/-- `d[k] = v` on a dict with object keys -/
def pySet : List (PyObj × PyObj) → PyObj → PyObj → List (PyObj × PyObj)
  | [], k, v => [(k, v)]
  | (k', v') :: rest, k, v => if PyObj.beq k' k then (k', v) :: rest else (k', v') :: pySet rest k v

/-! ### string-keyed / path-keyed dicts -/

def dget {κ α} [DecidableEq κ] : List (κ × α) → κ → Option α
  | [], _ => none
  | (k, v) :: rest, x => if k = x then some v else dget rest x

def dset {κ α} [DecidableEq κ] : List (κ × α) → κ → α → List (κ × α)
  | [], k, v => [(k, v)]
  | (k', v') :: rest, k, v => if k' = k then (k', v) :: rest else (k', v') :: dset rest k v

/-! ### types -/

def Ty.ann : Ty → Ann
  | .scalar a _ | .pair a _ _ | .or a _ _ | .option a _ | .list a _ | .set a _ | .map a _ _ | .bigMap a _ _ => a

def Scalar.prim : Scalar → String
  | .unit => "unit" | .bool => "bool" | .nat => "nat" | .int => "int" | .mutez => "mutez"
  | .timestamp => "timestamp" | .string => "string" | .bytes => "bytes"

def Ty.prim : Ty → String
  | .scalar _ s => s.prim
  | .pair .. => "pair" | .or .. => "or" | .option .. => "option" | .list .. => "list"
  | .set .. => "set" | .map .. => "map" | .bigMap .. => "big_map"

/-- Python truthiness of an optional name -/
def truthy : Option String → Bool
  | some s => s ≠ ""
  | none => false

/-- `arg.field_name or arg.type_name` -/
def Ty.isNamed (t : Ty) : Bool := truthy t.ann.field || truthy t.ann.type

/-- an argument `iter_type_args` / `iter_values` of a pair descends into: a pair without names -/
def Ty.isFlatPair : Ty → Bool
  | .pair a _ _ => !(truthy a.field || truthy a.type)
  | _ => false

def Ty.isOr : Ty → Bool
  | .or .. => true
  | _ => false

def Ty.isOption : Ty → Bool
  | .option .. => true
  | _ => false

def pre (b : Bool) (e : Path × α) : Path × α := (b :: e.1, e.2)

/-- `PairType.iter_type_args` of a pair node (relative paths) -/
def pairArgs : Ty → List (Path × Ty)
  | .pair _ l r =>
    ((if l.isFlatPair then pairArgs l else [([], l)]).map (pre false))
      ++ ((if r.isFlatPair then pairArgs r else [([], r)]).map (pre true))
  | _ => []

/-- `OrType.iter_type_args(entrypoints=False)` of a union node: unions are always descended into -/
def orArgs : Ty → List (Path × Ty)
  | .or _ l r =>
    ((if l.isOr then orArgs l else [([], l)]).map (pre false))
      ++ ((if r.isOr then orArgs r else [([], r)]).map (pre true))
  | _ => []

/-- `OrType.create_type`: `is_enum` -/
def allUnits : Ty → Bool
  | .or _ l r => allUnits l && allUnits r
  | .scalar _ .unit => true
  | _ => false

def Ty.isEnum : Ty → Bool
  | .or _ l r => allUnits l && allUnits r
  | _ => false

/-! ### `get_type_layout(flat_args, infer_names, entrypoints=False)` (types/adt.py, repaired shape)

Two loops.  The first keeps every declared name (`%field`, else `:type`) at its first occurrence and gives the other
arguments the candidate `f'{arg.prim}_{i}'`, remembering which ones (`generated`).  The second makes every candidate
differ from all declared names — wherever they are declared, before or after it — and from the generated names chosen
before it: `while name in taken: name += '_'`.  (The pinned tree had only the first loop: `pair (nat %nat_1) nat` got
the names `nat_1`, `nat_1`.) -/

/-- `f'{arg.prim}_{i}'` -/
def genName (arg : Ty) (i : Nat) : String := arg.prim ++ "_" ++ toString i

/-- first loop: one entry `(path, name, generated?)` per argument, in order; `reserved` = declared names kept so far -/
def layoutGo : List (Path × Ty) → Nat → List String → List (Path × String × Bool)
  | [], _, _ => []
  | (path, arg) :: rest, i, reserved =>
    let key := match arg.ann.field with
      | some k => some k
      | none => arg.ann.type
    match key with
    | some k =>
      if k ∈ reserved then (path, genName arg i, true) :: layoutGo rest (i + 1) reserved
      else (path, k, false) :: layoutGo rest (i + 1) (k :: reserved)
    | none => (path, genName arg i, true) :: layoutGo rest (i + 1) reserved

/-- `reserved` when the first loop ends: the declared names that were kept -/
def declared : List (Path × String × Bool) → List String
  | [] => []
  | (_, k, false) :: rest => k :: declared rest
  | (_, _, true) :: rest => declared rest

/-- `while name in taken: name += '_'`, at most `fuel` iterations -/
def freshGo : Nat → List String → String → String
  | 0, _, name => name
  | fuel + 1, taken, name => if name ∈ taken then freshGo fuel taken (name ++ "_") else name

/-- the loop leaves after at most `len(taken)` iterations (every iteration uses up one element of `taken`: the
candidates get longer) — `fresh_not_mem` below shows that the fuel is never exhausted -/
def fresh (taken : List String) (name : String) : String := freshGo (taken.length + 1) taken name

/-- second loop: `taken` = declared names and the generated names fixed so far -/
def renameGo : List (Path × String × Bool) → List String → List (Path × String)
  | [], _ => []
  | (path, k, false) :: rest, taken => (path, k) :: renameGo rest taken
  | (path, k, true) :: rest, taken => (path, fresh taken k) :: renameGo rest (fresh taken k :: taken)

structure Layout where
  pathToKey : Option (List (Path × String))
  keyToPath : Option (List (String × Path))
  idxToPath : List Path
  deriving Repr

def getTypeLayout (flat : List (Path × Ty)) (inferNames : Bool) : Layout :=
  let first := layoutGo flat 0 []
  let reserved := declared first
  let p2k := renameGo first reserved
  let idx := p2k.map (·.1)
  if reserved.isEmpty && !inferNames then ⟨none, none, idx⟩
  else ⟨some p2k, some (p2k.foldl (fun d e => dset d e.2 e.1) []), idx⟩

def pairLayout (t : Ty) : Layout := getTypeLayout (pairArgs t) false
def orLayout (t : Ty) : Layout := getTypeLayout (orArgs t) true

/-! ### ordering used by `sorted` (only matters for non-canonical Python input) -/

def bytesLt : List Nat → List Nat → Bool
  | [], [] => false
  | [], _ :: _ => true
  | _ :: _, [] => false
  | a :: as, b :: bs => if a < b then true else if b < a then false else bytesLt as bs

mutual
  def eqV : Ty → Val → Val → Bool
    | .scalar _ _, .unit, .unit => true
    | .scalar _ _, .bool a, .bool b => a == b
    | .scalar _ _, .int a, .int b => a == b
    | .scalar _ _, .str a, .str b => a == b
    | .scalar _ _, .bytes a, .bytes b => a == b
    | .pair _ l r, .pair a b, .pair a' b' => eqV l a a' && eqV r b b'
    | .or _ l _, .left a, .left b => eqV l a b
    | .or _ _ r, .right a, .right b => eqV r a b
    | .option _ _, .none, .none => true
    | .option _ t, .some a, .some b => eqV t a b
    | _, _, _ => false
end

def ltV (c : Cfg) : Ty → Val → Val → Bool
  | .scalar _ _, .bool a, .bool b => !a && b
  | .scalar _ _, .int a, .int b => a < b
  | .scalar _ _, .str a, .str b => a < b
  | .scalar _ _, .bytes a, .bytes b => bytesLt a b
  | .pair _ l r, .pair a b, .pair a' b' =>
    if c.pairLtLex then (if !eqV l a a' then ltV c l a a' else if !eqV r b b' then ltV c r b b' else false)
    else !(ltV c l a' a) && !(ltV c r b' b)
  | .or _ l _, .left a, .left b => ltV c l a b
  | .or _ _ _, .left _, .right _ => true
  | .or _ _ r, .right a, .right b => ltV c r a b
  | .option _ _, .none, .some _ => true
  | .option _ t, .some a, .some b => ltV c t a b
  | _, _, _ => false

/-- insertion step of `sorted`: after every element that is not greater -/
def insertBy (lt : α → α → Bool) (x : α) : List α → List α
  | [] => [x]
  | y :: ys => if lt x y then x :: y :: ys else y :: insertBy lt x ys

def sortBy (lt : α → α → Bool) (xs : List α) : List α := xs.foldl (fun acc x => insertBy lt x acc) []

/-- `[f(x) for x in xs]` where `f` may raise -/
def mapE {α β : Type} (f : α → Except Err β) : List α → Except Err (List β)
  | [] => .ok []
  | x :: xs => do
    let y ← f x
    let ys ← mapE f xs
    .ok (y :: ys)

/-! ### `to_python_object` -/

def scalarToPy : Scalar → Val → Except Err PyObj
  | .unit, .unit => .ok .unit
  | .bool, .bool b => .ok (.bool b)
  | .nat, .int n | .int, .int n | .mutez, .int n | .timestamp, .int n => .ok (.int n)
  | .string, .str s => .ok (.str s)
  | .bytes, .bytes b => .ok (.bytes b)
  | _, _ => .error .assertion

def single (e : Except Err PyObj) : Except Err (List (Path × PyObj)) := e.map fun py => [([], py)]

/-- `{path_to_key[path]: py for path, py in flat_values}` -/
def recordOf (p2k : List (Path × String)) : List (Path × PyObj) → List (String × PyObj) → Except Err (List (String × PyObj))
  | [], acc => .ok acc
  | (path, py) :: rest, acc =>
    match dget p2k path with
    | some name => recordOf p2k rest (dset acc name py)
    | none => .error .key

/-- `{k.to_python_object(comparable=True): v.to_python_object() for k, v in items}` -/
def dictOf (c : Cfg) : List (PyObj × PyObj) → List (PyObj × PyObj) → Except Err (List (PyObj × PyObj))
  | [], acc => .ok acc
  | (k, v) :: rest, acc => if k.hashable c then dictOf c rest (pySet acc k v) else .error .type

mutual
  /-- `to_python_object(comparable=cmp, lazy_diff=None)` -/
  def toPy (c : Cfg) (cmp : Bool) : Ty → Val → Except Err PyObj
    | .scalar _ s, v => scalarToPy s v
    | .pair a l r, .pair x y => do
      let ls ← if l.isFlatPair then flatVals c cmp l x else single (toPy c cmp l x)
      let rs ← if r.isFlatPair then flatVals c cmp r y else single (toPy c cmp r y)
      let flat := ls.map (pre false) ++ rs.map (pre true)
      match (if cmp then none else (pairLayout (.pair a l r)).pathToKey) with    -- `force_tuple=comparable`
      | some p2k => (recordOf p2k flat []).map .record
      | none => .ok (.tuple (flat.map (·.2)))
    | .pair .., _ => .error .assertion
    | .or a l r, v => do
      let (path, py) ← match v with
        | .left x => (if l.isOr then orVal c cmp l x else (toPy c cmp l x).map fun py => ([], py)).map (pre false)
        | .right y => (if r.isOr then orVal c cmp r y else (toPy c cmp r y).map fun py => ([], py)).map (pre true)
        | _ => .error .assertion
      match (orLayout (.or a l r)).pathToKey with
      | none => .error .assertion
      | some p2k =>
        match dget p2k path with
        | none => .error .key
        | some entrypoint =>
          if (Ty.or a l r).isEnum then .ok (.str entrypoint)
          else if cmp then .ok (.tuple [.str entrypoint, py]) else .ok (.record [(entrypoint, py)])
    | .option _ _, .none => .ok .none
    | .option _ t, .some x => toPy c cmp t x
    | .option .., _ => .error .assertion
    | .list _ t, .list xs => if cmp then .error .assertion else (mapE (toPy c false t) xs).map .list
    | .list .., _ => .error .assertion
    | .set _ t, .set xs => if cmp then .error .assertion else (mapE (toPy c true t) xs).map .list
    | .set .., _ => .error .assertion
    | .map _ k v, .map kvs =>
      if cmp then .error .assertion
      else do
        let items ← mapE (fun (e : Val × Val) => do
          let pk ← toPy c true k e.1
          let pv ← toPy c false v e.2
          pure (pk, pv)) kvs
        (dictOf c items []).map .dict
    | .map .., _ => .error .assertion
    | .bigMap _ k v, .bigMap kvs =>
      if cmp then .error .assertion
      else do
        let items ← mapE (fun (e : Val × Val) => do
          let pk ← toPy c true k e.1
          let pv ← toPy c false v e.2
          pure (pk, pv)) kvs
        (dictOf c items []).map .dict
    | .bigMap _ _ _, .bigMapId n => .ok (.int n)
    | .bigMap .., _ => .error .assertion
  /-- `PairType.iter_values` of an unnamed inner pair, already converted -/
  def flatVals (c : Cfg) (cmp : Bool) : Ty → Val → Except Err (List (Path × PyObj))
    | .pair _ l r, .pair x y => do
      let ls ← if l.isFlatPair then flatVals c cmp l x else single (toPy c cmp l x)
      let rs ← if r.isFlatPair then flatVals c cmp r y else single (toPy c cmp r y)
      .ok (ls.map (pre false) ++ rs.map (pre true))
    | _, _ => .error .assertion
  /-- `OrType.iter_values` of an inner union: the path of the leaf the value lands on, converted -/
  def orVal (c : Cfg) (cmp : Bool) : Ty → Val → Except Err (Path × PyObj)
    | .or _ l _, .left x => (if l.isOr then orVal c cmp l x else (toPy c cmp l x).map fun py => ([], py)).map (pre false)
    | .or _ _ r, .right y => (if r.isOr then orVal c cmp r y else (toPy c cmp r y).map fun py => ([], py)).map (pre true)
    | _, _ => .error .assertion
end

/-! ### `from_python_object` -/

/-- the two assertions of `StringType.from_value`: `len(value) == len(value.encode())` (every character is ASCII) and
`all(c == '\n' or ' ' <= c <= '~' for c in value)` (a newline or a printable character; the second one came with
45078c3, before it a tab or 0x01 passed) -/
def isAscii (s : String) : Bool :=
  (s.toList.all fun ch => ch.toNat < 128) && (s.toList.all fun ch => ch == '\n' || (' ' ≤ ch && ch ≤ '~'))

def scalarOfPy : Scalar → PyObj → Except Err Val
  | .unit, .none | .unit, .unit => .ok .unit
  | .unit, _ => .error .assertion
  | .bool, .bool b => .ok (.bool b)
  | .bool, _ => .error .assertion
  | .nat, .int n => if 0 ≤ n then .ok (.int n) else .error .assertion
  | .nat, .bool _ => .error .unmodelled
  | .nat, _ => .error .assertion
  | .int, .int n => .ok (.int n)
  | .int, .bool _ => .error .unmodelled
  | .int, _ => .error .assertion
  | .mutez, .int n => if n < 0 then .error .assertion else if 9223372036854775808 ≤ n then .error .overflow else .ok (.int n)
  | .mutez, .bool _ | .mutez, .str _ => .error .unmodelled
  | .mutez, _ => .error .assertion
  | .timestamp, .int n => .ok (.int n)
  | .timestamp, .bool _ | .timestamp, .str _ => .error .unmodelled
  | .timestamp, _ => .error .assertion
  | .string, .str s => if isAscii s then .ok (.str s) else .error .assertion
  | .string, _ => .error .assertion
  | .bytes, .bytes b => .ok (.bytes b)
  | .bytes, .str _ => .error .unmodelled
  | .bytes, _ => .error .assertion

/-- keys of `obj` below branch `b`, made relative to it -/
def strip (b : Bool) : List (Path × PyObj) → List (Path × PyObj)
  | [] => []
  | (b' :: q, v) :: rest => if b' = b then (q, v) :: strip b rest else strip b rest
  | ([], _) :: rest => strip b rest

/-- `obj[subpath] if subpath in obj else wrap_pair(obj, subpath)`, then `args[i].from_python_object(...)` -/
def pick (obj : List (Path × PyObj)) (b : Bool) (leaf : PyObj → Except Err Val)
    (nested : List (Path × PyObj) → Except Err Val) : Except Err Val :=
  match dget obj [b] with
  | some py => leaf py
  | none => nested (strip b obj)

/-- `{idx_to_path[i]: value for i, value in enumerate(py_obj)}` -/
def objOfTuple : List Path → List PyObj → Except Err (List (Path × PyObj))
  | _, [] => .ok []
  | [], _ :: _ => .error .key
  | p :: ps, x :: xs => (objOfTuple ps xs).map fun rest => (p, x) :: rest

/-- `{key_to_path[key]: value for key, value in py_obj.items()}` -/
def objOfRecord (k2p : List (String × Path)) : List (String × PyObj) → List (Path × PyObj) → Except Err (List (Path × PyObj))
  | [], acc => .ok acc
  | (k, v) :: rest, acc =>
    match dget k2p k with
    | some path => objOfRecord k2p rest (dset acc path v)
    | none => .error .key

/-- a Python dict whose keys are all `str` read as a record (what the pair / union decoders index by name);
`none`: some key is not a string (the name lookup then raises KeyError) -/
def asRecord : List (PyObj × PyObj) → Option (List (String × PyObj))
  | [] => some []
  | (.str k, v) :: rest => (asRecord rest).map fun r => (k, v) :: r
  | _ :: _ => none

mutual
  def ofPy (c : Cfg) : Ty → PyObj → Except Err Val
    | .scalar _ s, py => scalarOfPy s py
    | .pair a l r, py => do
      let lay := pairLayout (.pair a l r)
      let obj ← match py with
        | .tuple xs | .list xs => objOfTuple lay.idxToPath xs
        | .record kvs =>
          match lay.keyToPath with
          | some k2p => objOfRecord k2p kvs []
          | none => .error .assertion                       -- `assert key_to_path, 'expected named type'`
        | .dict items =>
          match lay.keyToPath, asRecord items with
          | some k2p, some kvs => objOfRecord k2p kvs []
          | some _, none => .error .key
          | none, _ => .error .assertion
        | _ => .error .assertion
      if obj.isEmpty then .error .key                        -- `wrap_pair`: no key starts with ''
      else do
        let x ← pick obj false (ofPy c l) (nestedPair c l)
        let y ← pick obj true (ofPy c r) (nestedPair c r)
        .ok (.pair x y)
    | .or a l r, py => do
      let lay := orLayout (.or a l r)
      let (entrypoint, value) ← match py with
        | .str s => if (Ty.or a l r).isEnum then .ok (s, PyObj.unit) else .error .assertion
        | .tuple [.str k, v] | .list [.str k, v] => .ok (k, v)
        | .tuple [_, _] | .list [_, _] => .error .key
        | .record [(k, v)] => .ok (k, v)
        | .dict [(.str k, v)] => .ok (k, v)
        | .dict [(_, _)] => .error .key
        | _ => .error .assertion
      match lay.keyToPath with
      | none => .error .assertion
      | some k2p =>
        match dget k2p entrypoint with
        | none => .error .key
        | some [] => .error .assertion
        | some (false :: rest) => (if rest.isEmpty then ofPy c l value else orNested c l rest value).map .left
        | some (true :: rest) => (if rest.isEmpty then ofPy c r value else orNested c r rest value).map .right
    | .option _ t, py =>
      match py with
      | .none => .ok .none
      | py => (ofPy c t py).map .some
    | .list _ t, py =>
      match py with
      | .list xs => (mapE (ofPy c t) xs).map .list
      | _ => .error .assertion
    | .set _ t, py =>
      match py with
      | .list xs =>
        if !(xs.all (PyObj.hashable c)) then .error .type
        else if !pyDistinct xs then .error .assertion
        else (mapE (ofPy c t) xs).map fun items => .set (sortBy (ltV c t) items)
      | _ => .error .assertion
    | .map _ k v, py =>
      match py with
      | .dict items => (mapE (fun (e : PyObj × PyObj) => do
          let kk ← ofPy c k e.1
          let vv ← ofPy c v e.2
          pure (kk, vv)) items).map fun kvs => .map (sortBy (fun a b => ltV c k a.1 b.1) kvs)
      | _ => .error .assertion
    | .bigMap _ k v, py =>
      match py with
      | .int n => .ok (.bigMapId n)
      | .bool _ => .error .unmodelled
      | .dict items => (mapE (fun (e : PyObj × PyObj) => do
          let kk ← ofPy c k e.1
          let vv ← ofPy c v e.2
          pure (kk, vv)) items).map fun kvs => .bigMap (sortBy (fun a b => ltV c k a.1 b.1) kvs)
      | _ => .error .assertion
  /-- `from_python_object(Nested(...))` of an unnamed inner pair over the keys below it -/
  def nestedPair (c : Cfg) : Ty → List (Path × PyObj) → Except Err Val
    | .pair _ l r, obj =>
      if obj.isEmpty then .error .key
      else do
        let x ← pick obj false (ofPy c l) (nestedPair c l)
        let y ← pick obj true (ofPy c r) (nestedPair c r)
        .ok (.pair x y)
    | _, obj => if obj.isEmpty then .error .key else .error .assertion
  /-- `from_python_object(wrap_or(value, path))` of an inner union -/
  def orNested (c : Cfg) : Ty → Path → PyObj → Except Err Val
    | .or _ l _, false :: rest, value => (if rest.isEmpty then ofPy c l value else orNested c l rest value).map .left
    | .or _ _ r, true :: rest, value => (if rest.isEmpty then ofPy c r value else orNested c r rest value).map .right
    | _, _, _ => .error .assertion
end

end Impl.PyConv

/-! ## which types convert back (decidable; as weak as the code allows) -/
namespace Spec.PyConv
open Impl.PyConv

/-- the Python object of a value of this (comparable) type contains the `Unit` sentinel -/
def pyHasUnit : Ty → Bool
  | .scalar _ .unit => true
  | .pair _ l r => pyHasUnit l || pyHasUnit r
  | .or a l r => !(Ty.or a l r).isEnum && (pyHasUnit l || pyHasUnit r)
  | .option _ t => pyHasUnit t
  | _ => false

def hasPair : Ty → Bool
  | .pair .. => true
  | .or _ l r => hasPair l || hasPair r
  | .option _ t => hasPair t
  | _ => false

mutual
  /-- `inv c cmp τ`: `from_python_object(to_python_object(v, comparable=cmp)) = v` holds for every `v : τ`.
  Excluded, and only these (field names play no role: `C12.field_names_unique` holds for every type):
  * `option (option _)` — `Some None` and `None` are both Python `None` (inherent to the documented mapping);
  * a list / set / map / big_map in key position (not comparable: `to_python_object` asserts);
  * a set element / map key type whose object contains `Unit` while `class unit` has no `__hash__`;
  * a set of pairs while `PairType.__lt__` is not lexicographic (the order `sorted` restores depends on the
    iteration order of a Python `set`). -/
  def inv (c : Cfg) (cmp : Bool) : Ty → Bool
    | .scalar _ _ => true
    | .pair _ l r =>
      (if l.isFlatPair then leavesInv c cmp l else inv c cmp l)
        && (if r.isFlatPair then leavesInv c cmp r else inv c cmp r)
    | .or _ l r =>
      (if l.isOr then orLeavesInv c cmp l else inv c cmp l)
        && (if r.isOr then orLeavesInv c cmp r else inv c cmp r)
    | .option _ t => !t.isOption && inv c cmp t
    | .list _ t => !cmp && inv c false t
    | .set _ t => !cmp && inv c true t && (c.unitHashable || !pyHasUnit t) && (c.pairLtLex || !hasPair t)
    | .map _ k v => !cmp && inv c true k && (c.unitHashable || !pyHasUnit k) && inv c false v
    | .bigMap _ k v => !cmp && inv c true k && (c.unitHashable || !pyHasUnit k) && inv c false v
  def leavesInv (c : Cfg) (cmp : Bool) : Ty → Bool
    | .pair _ l r =>
      (if l.isFlatPair then leavesInv c cmp l else inv c cmp l)
        && (if r.isFlatPair then leavesInv c cmp r else inv c cmp r)
    | _ => false
  def orLeavesInv (c : Cfg) (cmp : Bool) : Ty → Bool
    | .or _ l r =>
      (if l.isOr then orLeavesInv c cmp l else inv c cmp l)
        && (if r.isOr then orLeavesInv c cmp r else inv c cmp r)
    | _ => false
end

/-- typing of values (what `from_micheline_value` of the type produces): sets / maps hold pairwise different
elements / keys in the order `sorted` leaves unchanged (`check_constraints`) -/
def HasTy (c : Cfg) : Ty → Val → Prop
  | .scalar _ .unit, v => v = .unit
  | .scalar _ .bool, v => ∃ b, v = .bool b
  | .scalar _ .nat, v => ∃ n : Int, v = .int n ∧ 0 ≤ n
  | .scalar _ .int, v => ∃ n : Int, v = .int n
  | .scalar _ .mutez, v => ∃ n : Int, v = .int n ∧ 0 ≤ n ∧ n < 9223372036854775808
  | .scalar _ .timestamp, v => ∃ n : Int, v = .int n
  | .scalar _ .string, v => ∃ s, v = .str s ∧ isAscii s = true
  | .scalar _ .bytes, v => ∃ b, v = .bytes b
  | .pair _ l r, v => ∃ x y, v = .pair x y ∧ HasTy c l x ∧ HasTy c r y
  | .or _ l r, v => (∃ x, v = .left x ∧ HasTy c l x) ∨ (∃ y, v = .right y ∧ HasTy c r y)
  | .option _ t, v => v = .none ∨ ∃ x, v = .some x ∧ HasTy c t x
  | .list _ t, v => ∃ xs, v = .list xs ∧ ∀ x ∈ xs, HasTy c t x
  | .set _ t, v => ∃ xs, v = .set xs ∧ (∀ x ∈ xs, HasTy c t x) ∧ xs.Pairwise (· ≠ ·) ∧ sortBy (ltV c t) xs = xs
  | .map _ k t, v => ∃ kvs, v = .map kvs ∧ (∀ e ∈ kvs, HasTy c k e.1 ∧ HasTy c t e.2)
      ∧ (kvs.map (·.1)).Pairwise (· ≠ ·) ∧ sortBy (fun a b => ltV c k a.1 b.1) kvs = kvs
  | .bigMap _ k t, v => (∃ n, v = .bigMapId n) ∨ ∃ kvs, v = .bigMap kvs ∧ (∀ e ∈ kvs, HasTy c k e.1 ∧ HasTy c t e.2)
      ∧ (kvs.map (·.1)).Pairwise (· ≠ ·) ∧ sortBy (fun a b => ltV c k a.1 b.1) kvs = kvs

/-- the decidable guard of the round-trip theorem -/
def PyInvertible (c : Cfg) (τ : Ty) : Prop := inv c false τ = true

instance (c : Cfg) (τ : Ty) : Decidable (PyInvertible c τ) := by unfold PyInvertible; infer_instance

end Spec.PyConv

/-! ## `ContractData.decode` / `encode` (contract/data.py) as compositions -/
namespace Impl.PyConv

/-- the Micheline coding of typed values (`from_micheline_value` / `to_micheline_value(lazy_diff=None)`), a parameter:
its own round trip is C11 -/
structure Codec (M : Type) where
  toMich : Ty → Val → M
  ofMich : Ty → M → Except Err Val

/-- `type(self.data).from_micheline_value(value).to_python_object(lazy_diff=None)` -/
def decode {M : Type} (k : Codec M) (c : Cfg) (τ : Ty) (m : M) : Except Err PyObj :=
  (k.ofMich τ m).bind (toPy c false τ)

/-- `type(self.data).from_python_object(py_obj).to_micheline_value(mode, lazy_diff=None)` -/
def encode {M : Type} (k : Codec M) (c : Cfg) (τ : Ty) (py : PyObj) : Except Err M :=
  (ofPy c τ py).map (k.toMich τ)

end Impl.PyConv
