import PytezosModel.Generated.C13
/-! C13 — entrypoints.  Mirror of `ParameterSection.create_type` (root name), `list_entrypoints`,
`from_parameters`, `to_parameters` (src/pytezos/michelson/sections/parameter.py), of
`OrType.iter_type_args(entrypoints=True)` (types/sum.py) and of `get_type_layout(entrypoints=True)`,
`wrap_parameters` (types/adt.py).

A parameter type is a tree of `or` nodes; every node (inner or leaf) may carry a `%field` annotation.  Leaves
carry an opaque type id; a value is a `Left`/`Right` path ending in an opaque leaf value tagged with the id of
the leaf type it inhabits (decoding a leaf against another id, a leaf against a union or a `Left`/`Right` against
a leaf is the `from_micheline_value` failure).

What the translator reads from the source (`Generated.C13`): the two reserved names, and the shape of
`to_parameters` (leaf lookup of the pinned tree / walk to the deepest annotated node / … that is not shadowed by
the root name).  Paths are Python strings of '0'/'1' (`false` = '0'). -/
namespace Impl.Entrypoints

abbrev Path := List Bool

inductive PTy where
  | leaf (ann : Option String) (ty : Nat)
  | or (ann : Option String) (l r : PTy)
  deriving DecidableEq, Repr, Inhabited

inductive PVal where
  | leaf (ty : Nat) (x : Nat)
  | left (v : PVal)
  | right (v : PVal)
  deriving DecidableEq, Repr, Inhabited

inductive Err where
  | duplicateKey        -- `assert entrypoints is False, f'duplicate key {key}'`
  | notUnion            -- `assert issubclass(root_type, OrType), f'expected `{root_name}`, got `{entrypoint}`'`
  | unknownEntrypoint   -- `assert entrypoint in key_to_path`
  | badValue            -- `from_micheline_value` rejects the expression
  | keyError            -- `path_to_key[path]` on a path that has no key
  | unrecognised        -- the translator did not recognise the source
  | typeError           -- `TypeError` of `ParameterSection.from_python_object` (not a call / not a sum type / no named branch)
  | pyAssert            -- `AssertionError` of `OrType.from_python_object` (a string for a non-enum, an object of no accepted shape)
  | rejectedType        -- `Micheline.match` refuses the type expression (`parse_name`: several `%` / several `:` annotations on one
                        -- node; `create_type`: a `%field` annotation on the argument of `option` / `list`)
  deriving DecidableEq, Repr

/-- configuration read from the source -/
structure Cfg where
  /-- `to_parameters` walks to the deepest annotated node (false: looks the *leaf* path up, pinned tree) -/
  deepest : Bool
  /-- … and ignores nodes whose name is the root name (those are shadowed in `from_parameters`) -/
  skipShadowed : Bool
  dflt : String
  root : String
  deriving DecidableEq, Repr

def cfg? : Option Cfg :=
  match Generated.C13.sourceRecognised, Generated.C13.toParametersDeepest, Generated.C13.toParametersSkipsRootName,
      Generated.C13.defaultName, Generated.C13.rootAlias with
  | some (), some d, some s, some dn, some rn => some ⟨d, s, dn, rn⟩
  | _, _, _, _, _ => none

def PTy.ann : PTy → Option String
  | .leaf a _ => a
  | .or a _ _ => a

def PTy.isOr : PTy → Bool
  | .or .. => true
  | .leaf .. => false

/-- Python truthiness of `field_name` (`None` and `''` are false) -/
def named (a : Option String) : Option String :=
  match a with
  | some s => if s = "" then none else some s
  | none => none

/-- `get_anon_type`: the same type without its own annotations (inner annotations stay) -/
def PTy.anon : PTy → PTy
  | .leaf _ t => .leaf none t
  | .or _ l r => .or none l r

/-! ### dict helpers (insertion-ordered association lists) -/

def dget {κ α} [DecidableEq κ] : List (κ × α) → κ → Option α
  | [], _ => none
  | (k, v) :: rest, x => if k = x then some v else dget rest x

/-- `d[k] = v`: replaces in place when the key exists, appends otherwise -/
def dset {κ α} [DecidableEq κ] : List (κ × α) → κ → α → List (κ × α)
  | [], k, v => [(k, v)]
  | (k', v') :: rest, k, v => if k' = k then (k, v) :: rest else (k', v') :: dset rest k v

/-! ### `OrType.iter_type_args(entrypoints=True)` -/

/-- one argument `arg` of an `or` at binary path `path` (= `path + str(i)` in the source): an annotated union is
yielded *and* descended into, an annotated leaf is yielded, unannotated leaves are skipped -/
def iterChild : PTy → Path → List (Path × PTy)
  | .leaf a t, path => if (named a).isSome then [(path, .leaf a t)] else []
  | .or a l r, path =>
    (if (named a).isSome then [(path, .or a l r)] else [])
      ++ (iterChild l (path ++ [false]) ++ iterChild r (path ++ [true]))

def iterTypeArgs : PTy → List (Path × PTy)
  | .or _ l r => iterChild l [false] ++ iterChild r [true]
  | .leaf .. => []

/-! ### `get_type_layout(flat_args, entrypoints=True)` -/

/-- the loop over `flat_args`: `reserved` is the set of keys seen, `acc` is `path_to_key` (the paths produced by
`iter_type_args` are distinct positions, so `path_to_key[bin_path] = key` always appends) -/
def layoutGo : List (Path × PTy) → List String → List (Path × String) → Except Err (List (Path × String))
  | [], _, acc => .ok acc
  | (path, arg) :: rest, reserved, acc =>
    match arg.ann with
    | some key =>
      if key ∈ reserved then .error .duplicateKey
      else layoutGo rest (key :: reserved) (acc ++ [(path, key)])
    | none => .error .duplicateKey

/-- `path_to_key` (never `None` when `entrypoints=True`) -/
def pathToKey (p : PTy) : Except Err (List (Path × String)) := layoutGo (iterTypeArgs p) [] []

/-- `key_to_path = {name: path for path, name in path_to_key.items()}` -/
def keyToPath (p : PTy) : Except Err (List (String × Path)) :=
  (pathToKey p).map fun p2k => p2k.foldl (fun d (e : Path × String) => dset d e.2 e.1) []

/-- `{path_to_key[path]: arg for path, arg in flat_args}` -/
def flatDict (p2k : List (Path × String)) : List (Path × PTy) → List (String × PTy) → Except Err (List (String × PTy))
  | [], acc => .ok acc
  | (path, arg) :: rest, acc =>
    match dget p2k path with
    | some key => flatDict p2k rest (dset acc key arg)
    | none => .error .keyError

/-- `get_flat_args(entrypoints=True)` -/
def getFlatArgs (p : PTy) : Except Err (List (String × PTy)) := do
  let p2k ← pathToKey p
  flatDict p2k (iterTypeArgs p) []

/-! ### `ParameterSection.create_type`: the root name -/

def rootName (c : Cfg) : PTy → Except Err String
  | .leaf a _ => .ok ((named a).getD c.dflt)            -- `root_type.field_name or 'default'`
  | .or a l r =>
    match named a with
    | some n => .ok n
    | none => do
      let flat ← getFlatArgs (.or a l r)
      .ok (if (dget flat c.dflt).isSome then c.root else c.dflt)

/-! ### `list_entrypoints` -/

def listEntrypoints (c : Cfg) (p : PTy) : Except Err (List (String × PTy)) := do
  let rn ← rootName c p
  let entrypoints ←
    if p.isOr then do
      let flat ← getFlatArgs p
      .ok (flat.foldl (fun d (e : String × PTy) => dset d e.1 e.2.anon) [])
    else .ok []
  .ok (dset entrypoints rn p)

/-! ### values -/

/-- `from_micheline_value` of the type against a value expression -/
def decode : PTy → PVal → Except Err PVal
  | .leaf _ t, .leaf t' x => if t = t' then .ok (.leaf t' x) else .error .badValue
  | .leaf _ _, _ => .error .badValue
  | .or _ l _, .left v => (decode l v).map .left
  | .or _ _ r, .right v => (decode r v).map .right
  | .or _ _ _, .leaf _ _ => .error .badValue

def wrapParameters (expr : PVal) : Path → PVal
  | [] => expr
  | false :: rest => .left (wrapParameters expr rest)
  | true :: rest => .right (wrapParameters expr rest)

/-! ### `from_parameters` -/

def fromParameters (c : Cfg) (p : PTy) (entrypoint : String) (value : PVal) : Except Err PVal := do
  let rn ← rootName c p
  if entrypoint = rn then decode p value
  else if !p.isOr then .error .notUnion
  else do
    let k2p ← keyToPath p
    match dget k2p entrypoint with
    | none => .error .unknownEntrypoint
    | some path => decode p (wrapParameters value path)

/-! ### `to_parameters` -/

/-- `OrType.iter_values`: path of the leaf the value lands on, and that leaf -/
def iterValues : PVal → Path → Path × PVal
  | .leaf t x, path => (path, .leaf t x)
  | .left v, path => iterValues v (path ++ [false])
  | .right v, path => iterValues v (path ++ [true])

/-- the `while isinstance(node, OrType)` loop of the repaired `to_parameters` -/
def resolveGo (p2k : List (Path × String)) (rn : String) (skip : Bool) :
    PVal → Path → String × PVal → String × PVal
  | .leaf _ _, _, cur => cur
  | .left v, path, cur =>
    let path' := path ++ [false]
    let cur' := match dget p2k path' with
      | some k => if skip && k == rn then cur else (k, v)
      | none => cur
    resolveGo p2k rn skip v path' cur'
  | .right v, path, cur =>
    let path' := path ++ [true]
    let cur' := match dget p2k path' with
      | some k => if skip && k == rn then cur else (k, v)
      | none => cur
    resolveGo p2k rn skip v path' cur'

def PVal.isOr : PVal → Bool
  | .leaf .. => false
  | _ => true

/-- `to_parameters` of the section holding `item` (a value of the parameter type) -/
def toParameters (c : Cfg) (p : PTy) (item : PVal) : Except Err (String × PVal) := do
  let rn ← rootName c p
  if item.isOr then do
    let p2k ← pathToKey p
    if c.deepest then .ok (resolveGo p2k rn c.skipShadowed item [] (rn, item))
    else
      -- pinned tree: `{path_to_key[path]: arg for path, arg in self.iter_values()}` (a single leaf)
      let (path, leaf) := iterValues item []
      match dget p2k path with
      | some k => .ok (k, leaf)
      | none => .error .keyError
  else .ok (rn, item)

/-- typing of values (annotations play no role) -/
def hasTy : PVal → PTy → Bool
  | .leaf t' _, .leaf _ t => t = t'
  | .left v, .or _ l _ => hasTy v l
  | .right v, .or _ _ r => hasTy v r
  | _, _ => false

end Impl.Entrypoints

/-! ## Specification: Tezos' entrypoints of a parameter type (structural, no paths) -/
namespace Spec.Entrypoints
open Impl.Entrypoints

/-- annotated nodes of a subtree (the node itself included), pre-order, with the argument type an entrypoint
call has to supply (the node's type without the node's own annotation) -/
def branches : PTy → List (String × PTy)
  | .leaf a t => match named a with
    | some n => [(n, .leaf none t)]
    | none => []
  | .or a l r => (match named a with
    | some n => [(n, .or none l r)]
    | none => []) ++ (branches l ++ branches r)

/-- annotated union branches strictly below the root -/
def properBranches : PTy → List (String × PTy)
  | .or _ l r => branches l ++ branches r
  | .leaf .. => []

/-- Tezos rejects a parameter type in which two branches carry the same entrypoint name -/
def WellFormed (p : PTy) : Prop := ((properBranches p).map (·.1)).Nodup

instance (p : PTy) : Decidable (WellFormed p) := by unfold WellFormed; infer_instance

/-- the name under which the *whole* parameter is callable: the root's own annotation; else `default`, unless a
branch is called `default` — then pytezos exposes the whole parameter as `root` -/
def rootName (dflt root : String) (p : PTy) : String :=
  match named p.ann with
  | some n => n
  | none => if dflt ∈ (properBranches p).map (·.1) then root else dflt

/-- the entrypoints: every annotated branch under its name (a branch whose name is the root name is shadowed by
the root entrypoint), plus the root entrypoint -/
def entrypoints (dflt root : String) (p : PTy) : Option (List (String × PTy)) :=
  if WellFormed p then
    some ((properBranches p).filter (fun e => e.1 ≠ rootName dflt root p) ++ [(rootName dflt root p, p)])
  else none

/-- the subtree at a path -/
def nodeAt : PTy → Path → Option PTy
  | t, [] => some t
  | .or _ l _, false :: q => nodeAt l q
  | .or _ _ r, true :: q => nodeAt r q
  | .leaf .., _ :: _ => none

/-- the full value denoted by calling the node at `path` with `arg` -/
def inject (arg : PVal) : Path → PVal
  | [] => arg
  | false :: q => .left (inject arg q)
  | true :: q => .right (inject arg q)

end Spec.Entrypoints
