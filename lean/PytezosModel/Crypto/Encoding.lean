import PytezosModel.Core.Base58
import PytezosModel.Generated.C09
/-! Mirror of `src/pytezos/crypto/encoding.py`: the `base58_encodings` table (regenerated from the source),
`base58_encode`, `base58_decode`, `_validate` and the `is_*` predicates.

Strings and bytes are `List Nat`.  The checksum (first four bytes of double SHA-256) is the parameter `cks`.
The control flow follows the Python literally: rows are searched in table order and the first match wins;
which validations `base58_decode` / `_validate` perform is read from the source by the translator. -/
namespace Impl.Encoding
open Base58

structure Row where
  human : List Nat      -- human-readable prefix (ASCII)
  encLen : Nat          -- length of the encoded string
  bin : List Nat        -- binary prefix
  dataLen : Nat         -- payload length
deriving DecidableEq, Repr

def Row.ofTuple (t : List Nat × Nat × List Nat × Nat) : Row := ⟨t.1, t.2.1, t.2.2.1, t.2.2.2⟩

/-- the table of the tree under test -/
def table : List Row := Generated.C09.table.map Row.ofTuple

inductive Err where
  | unrecognisedSource   -- the translator could not read the function: nothing is modelled
  | noRow                -- ValueError('Invalid encoding, prefix or length mismatch.')
  | invalidChar          -- ValueError('Invalid character …')   (base58)
  | invalidChecksum      -- ValueError('Invalid checksum')       (base58)
  | rowMismatch          -- ValueError: decoded bytes do not fit the selected row
  | unknownPrefix        -- ValueError('Unknown prefix.')        (_validate)
deriving DecidableEq, Repr

/-- `next(encoding for encoding in base58_encodings if len(v) == encoding[3] and prefix == encoding[0])` -/
def findEncodeRow (tbl : List Row) (n : Nat) (pfx : List Nat) : Option Row :=
  tbl.find? fun r => n == r.dataLen && pfx == r.human

/-- `next(… for encoding in base58_encodings if len(v) == encoding[1] and v.startswith(encoding[0]))` -/
def findDecodeRow (tbl : List Row) (s : List Nat) : Option Row :=
  tbl.find? fun r => s.length == r.encLen && r.human.isPrefixOf s

/-- `base58_encode(v, prefix)` over an explicit table -/
def encodeWith (tbl : List Row) (cks : List Nat → List Nat) (v pfx : List Nat) : Except Err (List Nat) :=
  match findEncodeRow tbl v.length pfx with
  | none => .error .noRow
  | some r => .ok (b58encCheck cks (r.bin ++ v))

/-- `base58_decode(v)` over an explicit table; `chkBin` / `chkLen`: which validations the source performs -/
def decodeWith (tbl : List Row) (chkBin chkLen : Bool) (cks : List Nat → List Nat) (s : List Nat) :
    Except Err (List Nat) :=
  match findDecodeRow tbl s with
  | none => .error .noRow
  | some r =>
    match b58decCheck cks s with
    | .error .invalidChar => .error .invalidChar
    | .error .invalidChecksum => .error .invalidChecksum
    | .ok data =>
      if (chkBin && !(r.bin.isPrefixOf data)) || (chkLen && !(data.length == r.bin.length + r.dataLen)) then
        .error .rowMismatch
      else .ok (data.drop r.bin.length)

/-- `_validate(v, prefixes)` for `bytes` input: `ok ()` when it returns, the error otherwise -/
def validateWith (tbl : List Row) (chkBin chkLen chkKind : Bool) (cks : List Nat → List Nat)
    (prefixes : List (List Nat)) (s : List Nat) : Except Err Unit :=
  let hit :=
    if chkKind then
      tbl.any fun r => prefixes.contains r.human && (s.length == r.encLen && r.human.isPrefixOf s)
    else prefixes.any fun p => p.isPrefixOf s
  if hit then
    match decodeWith tbl chkBin chkLen cks s with
    | .ok _ => .ok ()
    | .error e => .error e
  else .error .unknownPrefix

/-! the functions of the tree under test -/

def base58Encode (cks : List Nat → List Nat) (v pfx : List Nat) : Except Err (List Nat) :=
  if Generated.C09.tableRecognised && Generated.C09.encodeRecognised then encodeWith table cks v pfx
  else .error .unrecognisedSource

def base58Decode (cks : List Nat → List Nat) (s : List Nat) : Except Err (List Nat) :=
  if Generated.C09.tableRecognised && Generated.C09.decodeRecognised then
    decodeWith table Generated.C09.decodeChecksBinPrefix Generated.C09.decodeChecksPayloadLen cks s
  else .error .unrecognisedSource

def validate (cks : List Nat → List Nat) (prefixes : List (List Nat)) (s : List Nat) : Except Err Unit :=
  if Generated.C09.tableRecognised && Generated.C09.decodeRecognised && Generated.C09.validateRecognised then
    validateWith table Generated.C09.decodeChecksBinPrefix Generated.C09.decodeChecksPayloadLen
      Generated.C09.validateChecksKind cks prefixes s
  else .error .unrecognisedSource

/-- prefix list of a validator function (`is_pkh`, `is_bh`, …) as found in the source -/
def validatorPrefixes (name : String) : Option (List (List Nat)) :=
  (Generated.C09.validators.find? fun p => p.1 == name).map (·.2)

/-- `is_xxx(v)`: `_validate` does not raise (`none`: no such function in the source) -/
def isKind (cks : List Nat → List Nat) (name : String) (s : List Nat) : Option Bool :=
  (validatorPrefixes name).map fun ps =>
    match validate cks ps s with
    | .ok _ => true
    | .error _ => false

/-! per-row obligation (a closed boolean, evaluated by the kernel for every row of the regenerated table) -/

/-- the numeral interval of "binary prefix followed by `dataLen + 4` arbitrary bytes" lies inside the
interval of "human prefix followed by `encLen - |human|` arbitrary base-58 digits" -/
def rowOk (r : Row) : Bool :=
  match charsDigits r.human with
  | none => false
  | some hd =>
    let h := ofDigits 58 hd
    let k := r.encLen - r.human.length
    let t := r.dataLen + 4
    let p := ofDigits 256 r.bin
    decide (r.human.length ≤ r.encLen) &&
    (match hd with | [] => false | d :: _ => decide (d ≠ 0)) &&
    (match r.bin with | [] => false | b :: _ => decide (b ≠ 0)) &&
    r.bin.all (fun b => decide (b < 256)) &&
    decide (h * 58 ^ k ≤ p * 256 ^ t) && decide ((p + 1) * 256 ^ t ≤ (h + 1) * 58 ^ k)

/-- two rows never accept the same string: equal encoded length and comparable human prefixes only for
the same row -/
def rowsDisjoint (r r' : Row) : Bool :=
  !(r.encLen == r'.encLen && (r.human.isPrefixOf r'.human || r'.human.isPrefixOf r.human)) || r == r'

/-- two rows are never selected by the same `base58_encode` call unless equal -/
def rowsEncodeDistinct (r r' : Row) : Bool :=
  !(r.dataLen == r'.dataLen && r.human == r'.human) || r == r'

end Impl.Encoding
