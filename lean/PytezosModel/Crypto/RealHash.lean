import PytezosModel.Core.HashSha2
import PytezosModel.Core.HashBlake2b
/-! The concrete hash functions of pytezos, built from the executable `Core.Hash` implementations:

* `RealHash.cks v` — the Base58Check checksum, first four bytes of `SHA-256 (SHA-256 v)` (`base58.b58encode_check`);
* `RealHash.blake v` — `blake2b(v, digest_size=32).digest()` (`_hash_tuple`, `blake2b_32`, `get_key_hash`, …).

The property theorems stay stated for an ARBITRARY checksum / hash function; these instances are what the drivers run
(so that the model itself produces the `tz1…` / `expr…` / `Lo…` / `vh…` text the real code returns) and what the
`…_concrete` corollaries and the kernel-evaluated known-answer examples in the Props files are about.  Only the shape
facts the abstract theorems ask for are proved here (digest length, byte range); that the functions ARE SHA-256 /
BLAKE2b is tied to `hashlib` by the correspondence runs and to published vectors by the known-answer examples. -/
namespace RealHash
open Core.Hash

/-- first four bytes of double SHA-256 -/
def cks (v : List Nat) : List Nat := (sha256 (sha256 v)).take 4

/-- BLAKE2b with a 32-byte digest -/
def blake (v : List Nat) : List Nat := blake2b32 v

/-! ### shape of the digests -/

theorem beBytes_length (w n : Nat) : (beBytes w n).length = w := by simp [beBytes]

theorem beBytes_lt (w n : Nat) : ∀ b ∈ beBytes w n, b < 256 := by
  intro b hb
  simp only [beBytes, List.mem_map, List.mem_range] at hb
  obtain ⟨i, _, rfl⟩ := hb
  omega

theorem leBytes_length (w n : Nat) : (leBytes w n).length = w := by simp [leBytes]

theorem leBytes_lt (w n : Nat) : ∀ b ∈ leBytes w n, b < 256 := by
  intro b hb
  simp only [leBytes, List.mem_map, List.mem_range] at hb
  obtain ⟨i, _, rfl⟩ := hb
  omega

theorem flatMap_const_length {α} (f : α → List Nat) (w : Nat) (hf : ∀ x, (f x).length = w) (l : List α) :
    (l.flatMap f).length = w * l.length := by
  induction l with
  | nil => simp
  | cons a l ih => simp only [List.flatMap_cons, List.length_append, hf, ih, List.length_cons]; rw [Nat.mul_succ]; omega

theorem sha256Block_size (h : Array UInt32) (b : ByteArray) (off : Nat) : (sha256Block h b off).size = 8 := by
  unfold sha256Block
  simp only [Id.run, bind, pure, forIn]
  rfl

theorem sha256_foldl_size (b : ByteArray) (l : List Nat) (h : Array UInt32) (hh : h.size = 8) :
    (l.foldl (fun acc i => sha256Block acc b (64 * i)) h).size = 8 := by
  induction l generalizing h with
  | nil => exact hh
  | cons a l ih => exact ih _ (sha256Block_size _ _ _)

/-- `sha256` is the big-endian rendering of eight 32-bit words -/
theorem sha256_words (msg : List Nat) :
    ∃ h : Array UInt32, h.size = 8 ∧ sha256 msg = h.toList.flatMap fun x => beBytes 4 x.toNat := by
  unfold sha256
  simp only [Id.run, Std.Legacy.Range.forIn_eq_forIn_range', Std.Legacy.Range.size, Nat.sub_zero,
    Nat.add_one_sub_one, Nat.div_one, List.forIn_pure_yield_eq_foldl, bind_pure_comp, map_pure]
  exact ⟨_, sha256_foldl_size _ _ _ rfl, rfl⟩

theorem sha256_length (msg : List Nat) : (sha256 msg).length = 32 := by
  obtain ⟨h, hs, e⟩ := sha256_words msg
  rw [e, flatMap_const_length _ 4 (fun x => beBytes_length 4 _), Array.length_toList, hs]

theorem sha256_bytes (msg : List Nat) : ∀ b ∈ sha256 msg, b < 256 := by
  obtain ⟨h, _, e⟩ := sha256_words msg
  rw [e]
  intro b hb
  obtain ⟨x, _, hx⟩ := List.mem_flatMap.mp hb
  exact beBytes_lt 4 _ b hx

theorem cks_length (v : List Nat) : (cks v).length = 4 := by
  simp [cks, List.length_take, sha256_length]

theorem cks_bytes (v : List Nat) : ∀ b ∈ cks v, b < 256 :=
  fun b hb => sha256_bytes _ b (List.mem_of_mem_take hb)

theorem blake2bCompress_size (h : Array UInt64) (blk : ByteArray) (off t : Nat) (last : Bool) :
    (blake2bCompress h blk off t last).size = 8 := by
  unfold blake2bCompress
  cases last <;> simp [Id.run] <;> rfl

theorem blake_foldl_size (b : ByteArray) (o t : Nat → Nat) (l : Nat → Bool) (xs : List Nat) (h : Array UInt64)
    (hh : h.size = 8) : (xs.foldl (fun acc i => blake2bCompress acc b (o i) (t i) (l i)) h).size = 8 := by
  induction xs generalizing h with
  | nil => exact hh
  | cons a xs ih => exact ih _ (blake2bCompress_size _ _ _ _ _)

/-- `blake` is the first 32 bytes of the little-endian rendering of eight 64-bit words -/
theorem blake_words (msg : List Nat) :
    ∃ h : Array UInt64, h.size = 8 ∧ blake msg = (h.toList.flatMap fun x => leBytes 8 x.toNat).take 32 := by
  unfold blake blake2b32 blake2b
  simp only [Id.run, Std.Legacy.Range.forIn_eq_forIn_range', Std.Legacy.Range.size, Nat.sub_zero,
    Nat.add_one_sub_one, Nat.div_one, List.forIn_pure_yield_eq_foldl, bind_pure_comp, map_pure]
  refine ⟨_, blake_foldl_size _ _ _ _ _ _ ?_, rfl⟩
  simp [blake2bIV]

theorem blake_length (msg : List Nat) : (blake msg).length = 32 := by
  obtain ⟨h, hs, e⟩ := blake_words msg
  rw [e, List.length_take, flatMap_const_length _ 8 (fun x => leBytes_length 8 _), Array.length_toList, hs]
  rfl

theorem blake_bytes (msg : List Nat) : ∀ b ∈ blake msg, b < 256 := by
  obtain ⟨h, _, e⟩ := blake_words msg
  rw [e]
  intro b hb
  obtain ⟨x, _, hx⟩ := List.mem_flatMap.mp (List.mem_of_mem_take hb)
  exact leBytes_lt 8 _ b hx

end RealHash
