import PytezosModel.Core.Base58
import PytezosModel.Generated.C07
import PytezosModel.Generated.C08
/-! Mirror of the *wrapper logic* of `src/pytezos/crypto/key.py` (`Key.sign`, `Key.verify`,
`from_secret_exponent`, `from_encoded_key`, `public_key`, `secret_key`, `public_key_hash`,
`validate_mnemonic`, `from_mnemonic`), of `scrub_input` (`crypto/encoding.py`) and of CHECK_SIGNATURE / HASH_KEY
(`michelson/instructions/crypto.py`).

Cryptographic primitives are **not** modelled: they are the fields of `Prims` (pysodium, coincurve, fastecdsa,
py_ecc, hashlib, mnemonic) and of `Codec` (`base58_encode` / `base58_decode`, property C09).  What the
theorems assume about them is spelled out in `Laws` / `CodecLaws` below; nothing else is assumed.
Every constant, table and dispatch the mirror uses is read from `Generated.C07` / `Generated.C08`, which the
translator rewrites from the source on every run; an unrecognised source yields `Err.unrecognisedSource`.

Bytes and ASCII strings are `List Nat`; a Python `str` is the list of its code points. -/
namespace Impl.Key

abbrev Bytes := List Nat
abbrev Str := List Nat

def IsBytes (b : Bytes) : Prop := ∀ x ∈ b, x < 256

inductive Curve where
  | ed | sp | p2 | bl
deriving DecidableEq, Repr

/-- the two-character tag used by key.py (`b'ed'`, `b'sp'`, `b'p2'`, `b'BL'`) -/
def Curve.tag : Curve → Bytes
  | .ed => [101, 100]
  | .sp => [115, 112]
  | .p2 => [112, 50]
  | .bl => [66, 76]

def Curve.all : List Curve := [.ed, .sp, .p2, .bl]

def Curve.ofTag (t : Bytes) : Option Curve := Curve.all.find? fun c => c.tag == t

/-- where an exception is raised (small enum, compared with the real run) -/
inductive Site where
  | scrubAscii       -- UnicodeEncodeError: `v.encode('ascii')` on a non-ASCII, non-hex str
  | noSecret         -- 'Cannot sign without a secret key.' / 'Secret key is undefined'
  | noPublic         -- 'Cannot verify without a public key.'
  | curveMismatch    -- 'Signature and public key curves mismatch.'
  | codec            -- base58_encode / base58_decode raised ValueError
  | invalidSig       -- 'Signature is invalid.'
  | primValue        -- a ValueError raised inside the verification primitive (bad key / unparsable signature)
  | rangeError       -- fastecdsa EcdsaError (r or s outside [1, q-1])
  | keyError         -- fastecdsa InvalidSEC1PublicKey
  | prim             -- a key-derivation / signing primitive refused its input
  | keyPrefix        -- 'Invalid prefix for a key encoding.'
  | keyLength        -- 'Invalid length for a key encoding.'
  | passphrase       -- encrypted key without a passphrase (the real code would prompt)
  | unseal           -- crypto_secretbox_open failed
  | notImplemented   -- encrypted export of a 64-byte ed25519 key
  | mnemonicLength | mnemonicWord | mnemonicChecksum
  | lookup           -- dict / list lookup failed (KeyError / IndexError)
  | mixedPasses | chainUndefined | notSigned
deriving DecidableEq, Repr

inductive Err where
  | unrecognisedSource        -- the translator could not read the function: nothing is modelled
  | valueError (s : Site)     -- ValueError or a subclass
  | other (s : Site)          -- any other exception class
deriving DecidableEq, Repr

def orErr {α : Type} (o : Option α) (e : Err) : Except Err α :=
  match o with
  | some a => .ok a
  | none => .error e

@[simp] theorem orErr_some {α : Type} (a : α) (e : Err) : orErr (some a) e = .ok a := rfl
@[simp] theorem orErr_none {α : Type} (e : Err) : orErr (none : Option α) e = .error e := rfl

/-! ## primitives (parameters) -/

/-- outcome of a verification primitive as the wrapper sees it -/
inductive Verdict where
  | accept
  | reject        -- returned False / pysodium raised its ValueError
  | valueError    -- some other ValueError (coincurve: unparsable key or signature; fastecdsa: point not on curve)
  | rangeError    -- fastecdsa.ecdsa.EcdsaError
  | keyError      -- fastecdsa.encoding.sec1.InvalidSEC1PublicKey
deriving DecidableEq, Repr

structure Prims where
  /-- `hashlib.blake2b(m, digest_size=n).digest()`; `pysodium.crypto_generichash(m)` is the case `n = 32` -/
  blake2b : Nat → Bytes → Bytes
  /-- `hashlib.sha256(m).digest()` -/
  sha256 : Bytes → Bytes
  /-- `pysodium.crypto_sign_seed_keypair(seed)` = (public key, 64-byte secret key) -/
  edSeedKeypair : Bytes → Option (Bytes × Bytes)
  /-- `pysodium.crypto_sign_sk_to_pk(sk)` -/
  edSkToPk : Bytes → Option Bytes
  /-- `pysodium.crypto_sign_sk_to_seed(sk)` -/
  edSkToSeed : Bytes → Option Bytes
  /-- public point of a secret exponent: coincurve / fastecdsa+SEC1 / `G2.SkToPk` (little-endian exponent) -/
  pub : Curve → Bytes → Option Bytes
  /-- raw signature of a *payload* (digest or message) under a stored secret -/
  sign : Curve → Bytes → Bytes → Option Bytes
  /-- verification of a raw signature over a payload under a public point: `verify c pk payload sig` -/
  verify : Curve → Bytes → Bytes → Bytes → Verdict
  /-- `hashlib.pbkdf2_hmac('sha512', password, salt, iterations, dklen)`: `pbkdf2 iterations dklen password salt` -/
  pbkdf2 : Nat → Nat → Bytes → Bytes → Bytes
  /-- `pysodium.crypto_secretbox(msg, nonce, k)`: `boxSeal k nonce msg` -/
  boxSeal : Bytes → Bytes → Bytes → Bytes
  /-- `pysodium.crypto_secretbox_open(c, nonce, k)`: `boxOpen k nonce c`; `none` = ValueError -/
  boxOpen : Bytes → Bytes → Bytes → Option Bytes
  /-- `Mnemonic.to_seed(mnemonic, passphrase)` on code-point strings -/
  toSeed : Str → Str → Bytes

/-- `base58_encode(v, prefix)` / `base58_decode(s)` of crypto/encoding.py; `none` = ValueError -/
structure Codec where
  encode : Bytes → Bytes → Option Str
  decode : Str → Option Bytes

structure Row where
  human : Bytes
  encLen : Nat
  bin : Bytes
  dataLen : Nat
deriving DecidableEq, Repr

def Row.ofTuple (t : List Nat × Nat × List Nat × Nat) : Row := ⟨t.1, t.2.1, t.2.2.1, t.2.2.2⟩

def sigRows : List Row := Generated.C07.sigRows.map Row.ofTuple
def keyRows : List Row := Generated.C08.keyRows.map Row.ofTuple
def pkhRows : List Row := Generated.C08.pkhRows.map Row.ofTuple

/-! ## contracts of the primitives (hypotheses of the theorems, nothing else is assumed) -/

/-- Base58Check codec, for the kinds in `rows`: encoding a payload of the kind's length succeeds, decodes back,
has the kind's length and human-readable prefix, and is ASCII (this is what C09 proves about the mirror of
`base58_encode` / `base58_decode`). -/
structure CodecLaws (C : Codec) (rows : List Row) : Prop where
  enc_dec : ∀ r ∈ rows, ∀ v : Bytes, v.length = r.dataLen → IsBytes v →
    ∃ s, C.encode v r.human = some s ∧ C.decode s = some v ∧ s.length = r.encLen ∧ r.human <+: s ∧
      ∀ ch ∈ s, ch < 128

/-- `(pk, sk)` is what key derivation produces for curve `c` -/
def KeyPair (P : Prims) (c : Curve) (pk sk : Bytes) : Prop :=
  match c with
  | .ed => ∃ seed, P.edSeedKeypair seed = some (pk, sk)
  | c => P.pub c sk = some pk

/-- length of a raw signature -/
def sigLen : Curve → Nat
  | .bl => 96
  | _ => 64

/-- length of a public point -/
def pkLen : Curve → Nat
  | .ed => 32
  | .sp => 33
  | .p2 => 33
  | .bl => 48

structure Laws (P : Prims) : Prop where
  /-- correctness of each signature scheme: a signature made with the secret verifies under the public point -/
  sign_verify : ∀ c pk sk, KeyPair P c pk sk → ∀ m, ∃ s, P.sign c sk m = some s ∧ P.verify c pk m s = .accept
  /-- raw signatures are 64 bytes (96 for BLS) -/
  sign_len : ∀ c sk m s, P.sign c sk m = some s → s.length = sigLen c ∧ IsBytes s
  /-- a derived public point has the curve's length -/
  pk_len : ∀ c pk sk, KeyPair P c pk sk → pk.length = pkLen c ∧ IsBytes pk
  /-- ed25519 key material: 32-byte seed, 64-byte secret key from which public key and seed are recovered -/
  ed_keypair : ∀ seed pk sk, P.edSeedKeypair seed = some (pk, sk) →
    seed.length = 32 ∧ IsBytes seed ∧ sk.length = 64 ∧ IsBytes sk ∧ P.edSkToPk sk = some pk ∧ P.edSkToSeed sk = some seed
  blake_len : ∀ n m, (P.blake2b n m).length = n ∧ IsBytes (P.blake2b n m)
  sha_len : ∀ m, (P.sha256 m).length = 32 ∧ IsBytes (P.sha256 m)
  /-- secretbox: opening a box with the key and nonce it was sealed with returns the message; a box is the
  message plus a 16-byte authenticator -/
  seal_open : ∀ k n m, P.boxOpen k n (P.boxSeal k n m) = some m
  seal_len : ∀ k n m, IsBytes m → (P.boxSeal k n m).length = m.length + 16 ∧ IsBytes (P.boxSeal k n m)

/-! ## scrub_input -/

/-- a `bytes` object or a `str` (code points) -/
inductive PyIn where
  | bytes (b : Bytes)
  | str (s : List Nat)
deriving DecidableEq, Repr

/-- `Py_ISSPACE`: space, \t \n \v \f \r -/
def isSpace (c : Nat) : Bool := c == 32 || (9 ≤ c && c ≤ 13)

def hexVal (c : Nat) : Option Nat :=
  if 48 ≤ c ∧ c ≤ 57 then some (c - 48)
  else if 97 ≤ c ∧ c ≤ 102 then some (c - 87)
  else if 65 ≤ c ∧ c ≤ 70 then some (c - 55)
  else none

/-- `bytes.fromhex` (CPython 3.12 `_PyBytes_FromHex`): whitespace is skipped between bytes only; any other
character (non-ASCII included) or a dangling nibble is an error (`none` = ValueError) -/
def fromHex : List Nat → Option Bytes
  | [] => some []
  | c :: cs =>
    if isSpace c then fromHex cs
    else
      match hexVal c, cs with
      | some t, d :: rest =>
        match hexVal d with
        | some b => (fromHex rest).map (fun bs => (t * 16 + b) :: bs)
        | none => none
      | _, _ => none

/-- `str.removeprefix('0x')` -/
def removePrefix0x : List Nat → List Nat
  | 48 :: 120 :: rest => rest
  | s => s

/-- `scrub_input`: bytes pass; a str is read as hex (optional `0x`), else as ASCII -/
def scrub (v : PyIn) : Except Err Bytes :=
  if !Generated.C07.scrubRecognised then .error .unrecognisedSource
  else
    match v with
    | .bytes b => .ok b
    | .str s =>
      match fromHex (removePrefix0x s) with
      | some b => .ok b
      | none => if s.all (· < 128) then .ok s else .error (.valueError .scrubAscii)

/-! ## keys -/

structure Key where
  pub : Bytes
  sec : Option Bytes
  curve : Curve
deriving DecidableEq, Repr

/-- a key object as the API builds it from a secret: it holds a non-empty secret and the matching public point -/
def ValidKey (P : Prims) (k : Key) : Prop :=
  ∃ sk, k.sec = some sk ∧ sk ≠ [] ∧ KeyPair P k.curve k.pub sk

/-- `Key.from_secret_exponent` -/
def fromSecretExponent (P : Prims) (c : Curve) (se : Bytes) : Except Err Key :=
  if !Generated.C08.fromSecretExponentRecognised then .error .unrecognisedSource
  else
    match c with
    | .ed =>
      if se.length = 64 then
        match P.edSkToPk se with
        | some pk => .ok ⟨pk, some se, .ed⟩
        | none => .error (.other .prim)
      else
        match P.edSeedKeypair se with
        | some (pk, sk) => .ok ⟨pk, some sk, .ed⟩
        | none => .error (.other .prim)
    | c =>
      match P.pub c se with
      | some pk => .ok ⟨pk, some se, c⟩
      | none => .error (.other .prim)

/-- lookup in a `(curve tag, flag)` table of the translator -/
def lookupFlag (tbl : Option (List (List Nat × Bool))) (c : Curve) : Option Bool :=
  tbl.bind fun t => (t.find? fun r => r.1 == c.tag).map (·.2)

/-- what the primitive is given: `blake2b_32(message)` or the message -/
def payload (P : Prims) (digest : Bool) (m : Bytes) : Bytes := if digest then P.blake2b 32 m else m

def signPayloadKind (c : Curve) : Option Bool :=
  if Generated.C07.blake2b32Recognised then lookupFlag Generated.C07.signPayload c else none

def verifyPayloadKind (c : Curve) : Option Bool :=
  if Generated.C07.blake2b32Recognised then lookupFlag Generated.C07.verifyPayload c else none

/-- human prefix `Key.sign` puts on the signature -/
def signPrefix (c : Curve) (generic : Bool) : Option Bytes :=
  Generated.C07.signPrefix.bind fun t => (t.find? fun r => r.1 == c.tag && r.2.1 == generic).map (·.2.2)

/-- `Key.sign(message, generic)` -/
def sign (P : Prims) (C : Codec) (k : Key) (msg : PyIn) (generic : Bool) : Except Err Str :=
  match scrub msg with
  | .error e => .error e
  | .ok m =>
    match k.sec with
    | none => .error (.valueError .noSecret)
    | some sk =>
      if sk.isEmpty then .error (.valueError .noSecret)
      else
        match signPayloadKind k.curve, signPrefix k.curve generic with
        | some dg, some pfx =>
          match P.sign k.curve sk (payload P dg m) with
          | none => .error (.other .prim)
          | some raw => orErr (C.encode raw pfx) (.valueError .codec)
        | _, _ => .error .unrecognisedSource

/-- `b'sig'` -/
def sigTag : Bytes := [115, 105, 103]

/-- `Key.verify(signature, message)`; `.ok true` = returned True, `.error` = raised -/
def verify (P : Prims) (C : Codec) (k : Key) (sig msg : PyIn) : Except Err Bool :=
  match scrub sig with
  | .error e => .error e
  | .ok es =>
    match scrub msg with
    | .error e => .error e
    | .ok em =>
      if k.pub.isEmpty then .error (.valueError .noPublic)
      else if es.take 3 != sigTag && k.curve.tag != es.take 2 then .error (.valueError .curveMismatch)
      else
        match C.decode es with
        | none => .error (.valueError .codec)
        | some raw =>
          match verifyPayloadKind k.curve, Generated.C07.verifyP256CatchesRangeError with
          | some dg, some catches =>
            match P.verify k.curve k.pub (payload P dg em) raw with
            | .accept => .ok true
            | .reject => .error (.valueError .invalidSig)
            | .valueError => .error (.valueError .primValue)
            | .rangeError => if catches then .error (.valueError .invalidSig) else .error (.other .rangeError)
            | .keyError => .error (.other .keyError)
          | _, _ => .error .unrecognisedSource

/-- constants of the encrypted key format -/
structure Kdf where
  iterations : Nat
  dklen : Nat
  nonceLen : Nat
  saltLen : Nat
deriving DecidableEq, Repr

def Kdf.ofTuple (t : Nat × Nat × Nat × Nat) : Kdf := ⟨t.1, t.2.1, t.2.2.1, t.2.2.2⟩

def importKdf : Option Kdf := Generated.C08.importKdf.map Kdf.ofTuple
def exportKdf : Option Kdf := Generated.C08.exportKdf.map Kdf.ofTuple

def tagPk : Bytes := [112, 107]
def tagSk : Bytes := [115, 107]
def tagEsk : Bytes := [101, 115, 107]

/-- the classification `from_encoded_key` derives from the text of the key: (curve tag, encrypted, `pk`/`sk`) -/
def classify (ek : Str) : Except Err (Curve × Bool × Bool) :=
  match Generated.C08.importCurves, Generated.C08.importLengths with
  | some curves, some lens =>
    let ct := ek.take 2
    if !curves.contains ct then .error (.valueError .keyPrefix)
    else if !lens.contains ek.length then .error (.valueError .keyLength)
    else
      let encrypted := (ek.drop 2).take 1 == [101]
      let pos := if encrypted then (ek.drop 3).take 2 else (ek.drop 2).take 2
      if pos != tagPk && pos != tagSk then .error (.other .keyPrefix)
      else
        match Curve.ofTag ct with
        | none => .error .unrecognisedSource
        | some c => .ok (c, encrypted, pos == tagSk)
  | _, _ => .error .unrecognisedSource

/-- the `if encrypted:` block of `from_encoded_key`: split the salt off, derive the box key with PBKDF2, open the
secretbox with the all-zero nonce.  The passphrase is already bytes (`get_passphrase` encodes a str; without one
the real code reads the environment or prompts: outside the model). -/
def decryptSecret (P : Prims) (kdf : Kdf) (pass : Option Bytes) (dec : Bytes) : Except Err Bytes :=
  match pass with
  | none => .error (.other .passphrase)
  | some pw =>
    orErr (P.boxOpen (P.pbkdf2 kdf.iterations kdf.dklen pw (dec.take kdf.saltLen))
      (List.replicate kdf.nonceLen 0) (dec.drop kdf.saltLen)) (.valueError .unseal)

/-- `Key.from_encoded_key(key, passphrase)` -/
def fromEncodedKey (P : Prims) (C : Codec) (key : PyIn) (pass : Option Bytes) : Except Err Key :=
  match scrub key with
  | .error e => .error e
  | .ok ek =>
    match classify ek with
    | .error e => .error e
    | .ok (c, encrypted, isSecret) =>
      match C.decode ek with
      | none => .error (.valueError .codec)
      | some dec =>
        if !isSecret then .ok ⟨dec, none, c⟩
        else if encrypted then
          match importKdf with
          | none => .error .unrecognisedSource
          | some kdf => (decryptSecret P kdf pass dec).bind (fromSecretExponent P c)
        else fromSecretExponent P c dec

/-- `Key.public_key()` -/
def publicKey (C : Codec) (k : Key) : Except Err Str :=
  if !Generated.C08.publicKeyRecognised then .error .unrecognisedSource
  else orErr (C.encode k.pub (k.curve.tag ++ tagPk)) (.valueError .codec)

/-- `Key.secret_key(passphrase, ed25519_seed)`; `salt` is what `pysodium.randombytes` returns -/
def secretKey (P : Prims) (C : Codec) (k : Key) (pass : Option Bytes) (edSeed : Bool) (salt : Bytes) : Except Err Str :=
  match exportKdf with
  | none => .error .unrecognisedSource
  | some kdf =>
    match k.sec with
    | none => .error (.valueError .noSecret)
    | some sk =>
      if sk.isEmpty then .error (.valueError .noSecret)
      else
        match (if k.curve = .ed && edSeed then P.edSkToSeed sk else some sk) with
        | none => .error (.other .prim)
        | some key =>
          if (pass.getD []).isEmpty then orErr (C.encode key (k.curve.tag ++ tagSk)) (.valueError .codec)
          else if !edSeed then .error (.other .notImplemented)
          else
            let ek := P.pbkdf2 kdf.iterations kdf.dklen (pass.getD []) salt
            let box := P.boxSeal ek (List.replicate kdf.nonceLen 0) key
            orErr (C.encode (salt ++ box) (k.curve.tag ++ tagEsk)) (.valueError .codec)

/-- human prefix of the key hash of a curve (the dict in `public_key_hash`) -/
def pkhPrefix (c : Curve) : Option Bytes :=
  Generated.C08.pkhPrefix.bind fun t => (t.find? fun r => r.1 == c.tag).map (·.2)

/-- `Key.public_key_hash()` -/
def publicKeyHash (P : Prims) (C : Codec) (k : Key) : Except Err Str :=
  match Generated.C08.pkhDigestSize, Generated.C08.pkhPrefix with
  | some n, some _ =>
    match pkhPrefix k.curve with
    | none => .error (.other .lookup)
    | some pfx => orErr (C.encode (P.blake2b n k.pub) pfx) (.valueError .codec)
  | _, _ => .error .unrecognisedSource

/-- CHECK_SIGNATURE on (key, signature, bytes): `.ok b` = pushes `b`, `.error` = the instruction fails -/
def checkSignature (P : Prims) (C : Codec) (pk sig : Str) (msg : Bytes) : Except Err Bool :=
  if !Generated.C07.checkSignatureRecognised then .error .unrecognisedSource
  else
    match fromEncodedKey P C (.str pk) none with
    | .error e => .error e
    | .ok k =>
      match verify P C k (.str sig) (.bytes msg) with
      | .ok _ => .ok true
      | .error (.valueError _) => .ok false
      | .error e => .error e

/-- HASH_KEY -/
def hashKey (P : Prims) (C : Codec) (a : Str) : Except Err Str :=
  if !Generated.C08.hashKeyRecognised then .error .unrecognisedSource
  else
    match fromEncodedKey P C (.str a) none with
    | .error e => .error e
    | .ok k => publicKeyHash P C k

/-! ## mnemonics -/

/-- `bin(n)[2:]` / `hex(n)[2:]` as digit values: minimal big-endian digits, `[0]` for zero -/
def pyDigits (b : Nat) (n : Nat) : List Nat := if n = 0 then [0] else Base58.toDigits b n

/-- `s.zfill(w)` on digit strings without sign -/
def zfill (w : Nat) (ds : List Nat) : List Nat := List.replicate (w - ds.length) 0 ++ ds

/-- `int(ds, b)` (Horner) -/
abbrev ofDigits (b : Nat) (ds : List Nat) : Nat := Base58.ofDigits b ds

/-- `binascii.unhexlify` on digit values: pairs of nibbles (`none`: odd length) -/
def unhexlify : List Nat → Option Bytes
  | [] => some []
  | [_] => none
  | a :: b :: rest => (unhexlify rest).map (fun bs => (a * 16 + b) :: bs)

/-- the lengths `from_mnemonic` accepts -/
def mnemonicLengths : Option (List Nat) :=
  if Generated.C08.validateMnemonicRecognised then Generated.C08.mnemonicLengths else none

/-- `validate_mnemonic` on the word-list indices of the words (`none`: word not in the list);
`.ok ()` = returns, `.error` = raises.  NFKD normalisation and `split(' ')` are outside the model. -/
def validateMnemonic (P : Prims) (ws : List (Option Nat)) : Except Err Unit :=
  match mnemonicLengths with
  | none => .error .unrecognisedSource
  | some lens =>
    if !lens.contains ws.length then .error (.valueError .mnemonicLength)
    else
      match ws.mapM id with
      | none => .error (.valueError .mnemonicWord)
      | some idx =>
        let b := idx.flatMap fun i => zfill 11 (pyDigits 2 i)
        let l := b.length
        let d := b.take (l / 33 * 32)
        let h := b.drop (l - (l + 32) / 33)          -- b[-l // 33:] : the last ceil(l / 33) characters
        match unhexlify (zfill (l / 33 * 8) (pyDigits 16 (ofDigits 2 d))) with
        | none => .error (.other .prim)             -- binascii.Error (odd length): unreachable for l = 33k
        | some nd =>
          let nh := (zfill 256 (pyDigits 2 (ofDigits 256 (P.sha256 nd)))).take (l / 33)
          if h != nh then .error (.valueError .mnemonicChecksum) else .ok ()

/-- `Key.from_mnemonic(words, passphrase, email, validate, curve)`: `text` is the space-joined mnemonic -/
def fromMnemonic (P : Prims) (ws : List (Option Nat)) (text pass email : Str) (validate : Bool) (c : Curve) :
    Except Err Key :=
  if !Generated.C08.fromMnemonicRecognised then .error .unrecognisedSource
  else
    match (if validate then validateMnemonic P ws else .ok ()) with
    | .error e => .error e
    | .ok _ =>
      let seed : Bytes := P.toSeed text (email ++ pass)
      match c with
      | .ed =>
        match P.edSeedKeypair (seed.take 32) with
        | none => .error (.other .prim)
        | some (_, sk) => fromSecretExponent P .ed sk
      | c => fromSecretExponent P c (seed.take 32)

end Impl.Key
