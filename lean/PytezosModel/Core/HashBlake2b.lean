import PytezosModel.Core.HashSha2
/-! BLAKE2b (RFC 7693) with a 32-byte digest and no key — `blake2b(v, digest_size=32)` of `pytezos.crypto.key.blake2b_32`.
Executable only (see `HashSha2.lean`). -/
namespace Core.Hash

def blake2bIV : Array UInt64 := #[0x6a09e667f3bcc908, 0xbb67ae8584caa73b, 0x3c6ef372fe94f82b, 0xa54ff53a5f1d36f1,
  0x510e527fade682d1, 0x9b05688c2b3e6c1f, 0x1f83d9abfb41bd6b, 0x5be0cd19137e2179]

def blake2bSigma : Array (Array Nat) := #[
  #[0, 1, 2, 3, 4, 5, 6, 7, 8, 9, 10, 11, 12, 13, 14, 15], #[14, 10, 4, 8, 9, 15, 13, 6, 1, 12, 0, 2, 11, 7, 5, 3],
  #[11, 8, 12, 0, 5, 2, 15, 13, 10, 14, 3, 6, 7, 1, 9, 4], #[7, 9, 3, 1, 13, 12, 11, 14, 2, 6, 5, 10, 4, 0, 15, 8],
  #[9, 0, 5, 7, 2, 4, 10, 15, 14, 1, 11, 12, 6, 8, 3, 13], #[2, 12, 6, 10, 0, 11, 8, 3, 4, 13, 7, 5, 15, 14, 1, 9],
  #[12, 5, 1, 15, 14, 13, 4, 10, 0, 7, 6, 3, 9, 2, 8, 11], #[13, 11, 7, 14, 12, 1, 3, 9, 5, 0, 15, 4, 8, 6, 2, 10],
  #[6, 15, 14, 9, 11, 3, 0, 8, 12, 2, 13, 7, 1, 4, 10, 5], #[10, 2, 8, 4, 7, 6, 1, 5, 15, 11, 9, 14, 3, 12, 13, 0],
  #[0, 1, 2, 3, 4, 5, 6, 7, 8, 9, 10, 11, 12, 13, 14, 15], #[14, 10, 4, 8, 9, 15, 13, 6, 1, 12, 0, 2, 11, 7, 5, 3]]

def le64At (b : ByteArray) (i : Nat) : UInt64 := Id.run do
  let mut x : UInt64 := 0
  for j in [0:8] do
    x := x ||| ((b.get! (i + j)).toUInt64 <<< (8 * j).toUInt64)
  return x

def leBytes (w : Nat) (n : Nat) : List Nat := (List.range w).map fun i => (n >>> (8 * i)) % 256

@[inline] def blakeG (v : Array UInt64) (a b c d : Nat) (x y : UInt64) : Array UInt64 := Id.run do
  let mut v := v
  v := v.set! a (v[a]! + v[b]! + x)
  v := v.set! d (rotr64 (v[d]! ^^^ v[a]!) 32)
  v := v.set! c (v[c]! + v[d]!)
  v := v.set! b (rotr64 (v[b]! ^^^ v[c]!) 24)
  v := v.set! a (v[a]! + v[b]! + y)
  v := v.set! d (rotr64 (v[d]! ^^^ v[a]!) 16)
  v := v.set! c (v[c]! + v[d]!)
  v := v.set! b (rotr64 (v[b]! ^^^ v[c]!) 63)
  return v

/-- compression of one 128-byte block at `off`; `t` = bytes hashed so far (including this block), `last` = final block -/
def blake2bCompress (h : Array UInt64) (blk : ByteArray) (off : Nat) (t : Nat) (last : Bool) : Array UInt64 := Id.run do
  let mut m : Array UInt64 := Array.mkEmpty 16
  for i in [0:16] do
    m := m.push (le64At blk (off + 8 * i))
  let mut v : Array UInt64 := h ++ blake2bIV
  v := v.set! 12 (v[12]! ^^^ (t % 2 ^ 64).toUInt64)
  v := v.set! 13 (v[13]! ^^^ (t / 2 ^ 64).toUInt64)
  if last then v := v.set! 14 (~~~ v[14]!)
  for r in [0:12] do
    let s := blake2bSigma[r]!
    v := blakeG v 0 4 8 12 m[s[0]!]! m[s[1]!]!
    v := blakeG v 1 5 9 13 m[s[2]!]! m[s[3]!]!
    v := blakeG v 2 6 10 14 m[s[4]!]! m[s[5]!]!
    v := blakeG v 3 7 11 15 m[s[6]!]! m[s[7]!]!
    v := blakeG v 0 5 10 15 m[s[8]!]! m[s[9]!]!
    v := blakeG v 1 6 11 12 m[s[10]!]! m[s[11]!]!
    v := blakeG v 2 7 8 13 m[s[12]!]! m[s[13]!]!
    v := blakeG v 3 4 9 14 m[s[14]!]! m[s[15]!]!
  let mut out : Array UInt64 := Array.mkEmpty 8
  for i in [0:8] do
    out := out.push (h[i]! ^^^ v[i]! ^^^ v[i + 8]!)
  return out

/-- BLAKE2b, unkeyed, `outlen`-byte digest (1 ≤ outlen ≤ 64) -/
def blake2b (outlen : Nat) (msg : List Nat) : List Nat := Id.run do
  let l := msg.length
  let nblocks := if l = 0 then 1 else (l + 127) / 128
  let b := toBytes (msg ++ List.replicate (128 * nblocks - l) 0)
  let mut h := blake2bIV
  h := h.set! 0 (h[0]! ^^^ (0x01010000 ^^^ outlen).toUInt64)
  for i in [0:nblocks] do
    let last := i + 1 == nblocks
    h := blake2bCompress h b (128 * i) (if last then l else 128 * (i + 1)) last
  return (h.toList.flatMap fun x => leBytes 8 x.toNat).take outlen

def blake2b32 (msg : List Nat) : List Nat := blake2b 32 msg

end Core.Hash
