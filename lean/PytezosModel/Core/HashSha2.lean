/-! SHA-256 and SHA-512 (FIPS 180-4), executable only: used by the C01 / C02 driver to instantiate the abstract hash
functions of the interpreter model (`Interp.Hashes`); cross-checked against `hashlib` by the correspondence run.
Nothing is proved about them.  Bytes are `List Nat` (values < 256; larger values are reduced mod 256). -/
namespace Core.Hash

def toBytes (l : List Nat) : ByteArray := ByteArray.mk (l.toArray.map fun n => n.toUInt8)
def ofBytes (b : ByteArray) : List Nat := b.data.toList.map fun x => x.toNat

/-- big-endian bytes of a `w`-byte unsigned number -/
def beBytes (w : Nat) (n : Nat) : List Nat := (List.range w).map fun i => (n >>> (8 * (w - 1 - i))) % 256

/-- Merkle–Damgård padding: `0x80`, zeros, then the bit length on `lenBytes` bytes, to a multiple of `block` -/
def mdPad (block lenBytes : Nat) (msg : List Nat) : List Nat :=
  let l := msg.length
  let k := (block - ((l + 1 + lenBytes) % block)) % block
  msg ++ [0x80] ++ List.replicate k 0 ++ beBytes lenBytes (8 * l)

-- SHA-256 ------------------------------------------------------------------------------------------------
def sha256K : Array UInt32 := #[
  0x428a2f98, 0x71374491, 0xb5c0fbcf, 0xe9b5dba5, 0x3956c25b, 0x59f111f1, 0x923f82a4, 0xab1c5ed5,
  0xd807aa98, 0x12835b01, 0x243185be, 0x550c7dc3, 0x72be5d74, 0x80deb1fe, 0x9bdc06a7, 0xc19bf174,
  0xe49b69c1, 0xefbe4786, 0x0fc19dc6, 0x240ca1cc, 0x2de92c6f, 0x4a7484aa, 0x5cb0a9dc, 0x76f988da,
  0x983e5152, 0xa831c66d, 0xb00327c8, 0xbf597fc7, 0xc6e00bf3, 0xd5a79147, 0x06ca6351, 0x14292967,
  0x27b70a85, 0x2e1b2138, 0x4d2c6dfc, 0x53380d13, 0x650a7354, 0x766a0abb, 0x81c2c92e, 0x92722c85,
  0xa2bfe8a1, 0xa81a664b, 0xc24b8b70, 0xc76c51a3, 0xd192e819, 0xd6990624, 0xf40e3585, 0x106aa070,
  0x19a4c116, 0x1e376c08, 0x2748774c, 0x34b0bcb5, 0x391c0cb3, 0x4ed8aa4a, 0x5b9cca4f, 0x682e6ff3,
  0x748f82ee, 0x78a5636f, 0x84c87814, 0x8cc70208, 0x90befffa, 0xa4506ceb, 0xbef9a3f7, 0xc67178f2]

def sha256H0 : Array UInt32 := #[0x6a09e667, 0xbb67ae85, 0x3c6ef372, 0xa54ff53a, 0x510e527f, 0x9b05688c, 0x1f83d9ab, 0x5be0cd19]

@[inline] def rotr32 (x : UInt32) (n : UInt32) : UInt32 := (x >>> n) ||| (x <<< (32 - n))

def sha256Block (h : Array UInt32) (b : ByteArray) (off : Nat) : Array UInt32 := Id.run do
  let mut w : Array UInt32 := Array.mkEmpty 64
  for t in [0:16] do
    let i := off + 4 * t
    w := w.push ((b.get! i).toUInt32 <<< 24 ||| (b.get! (i + 1)).toUInt32 <<< 16 ||| (b.get! (i + 2)).toUInt32 <<< 8 ||| (b.get! (i + 3)).toUInt32)
  for t in [16:64] do
    let w15 := w[t - 15]!
    let w2 := w[t - 2]!
    let s0 := rotr32 w15 7 ^^^ rotr32 w15 18 ^^^ (w15 >>> 3)
    let s1 := rotr32 w2 17 ^^^ rotr32 w2 19 ^^^ (w2 >>> 10)
    w := w.push (s1 + w[t - 7]! + s0 + w[t - 16]!)
  let mut a := h[0]!
  let mut bb := h[1]!
  let mut c := h[2]!
  let mut d := h[3]!
  let mut e := h[4]!
  let mut f := h[5]!
  let mut g := h[6]!
  let mut hh := h[7]!
  for t in [0:64] do
    let S1 := rotr32 e 6 ^^^ rotr32 e 11 ^^^ rotr32 e 25
    let ch := (e &&& f) ^^^ ((~~~ e) &&& g)
    let t1 := hh + S1 + ch + sha256K[t]! + w[t]!
    let S0 := rotr32 a 2 ^^^ rotr32 a 13 ^^^ rotr32 a 22
    let maj := (a &&& bb) ^^^ (a &&& c) ^^^ (bb &&& c)
    let t2 := S0 + maj
    hh := g; g := f; f := e; e := d + t1; d := c; c := bb; bb := a; a := t1 + t2
  return #[h[0]! + a, h[1]! + bb, h[2]! + c, h[3]! + d, h[4]! + e, h[5]! + f, h[6]! + g, h[7]! + hh]

def sha256 (msg : List Nat) : List Nat := Id.run do
  let b := toBytes (mdPad 64 8 msg)
  let mut h := sha256H0
  for i in [0:b.size / 64] do
    h := sha256Block h b (64 * i)
  return h.toList.flatMap fun x => beBytes 4 x.toNat

-- SHA-512 ------------------------------------------------------------------------------------------------
def sha512K : Array UInt64 := #[
  0x428a2f98d728ae22, 0x7137449123ef65cd, 0xb5c0fbcfec4d3b2f, 0xe9b5dba58189dbbc, 0x3956c25bf348b538, 0x59f111f1b605d019,
  0x923f82a4af194f9b, 0xab1c5ed5da6d8118, 0xd807aa98a3030242, 0x12835b0145706fbe, 0x243185be4ee4b28c, 0x550c7dc3d5ffb4e2,
  0x72be5d74f27b896f, 0x80deb1fe3b1696b1, 0x9bdc06a725c71235, 0xc19bf174cf692694, 0xe49b69c19ef14ad2, 0xefbe4786384f25e3,
  0x0fc19dc68b8cd5b5, 0x240ca1cc77ac9c65, 0x2de92c6f592b0275, 0x4a7484aa6ea6e483, 0x5cb0a9dcbd41fbd4, 0x76f988da831153b5,
  0x983e5152ee66dfab, 0xa831c66d2db43210, 0xb00327c898fb213f, 0xbf597fc7beef0ee4, 0xc6e00bf33da88fc2, 0xd5a79147930aa725,
  0x06ca6351e003826f, 0x142929670a0e6e70, 0x27b70a8546d22ffc, 0x2e1b21385c26c926, 0x4d2c6dfc5ac42aed, 0x53380d139d95b3df,
  0x650a73548baf63de, 0x766a0abb3c77b2a8, 0x81c2c92e47edaee6, 0x92722c851482353b, 0xa2bfe8a14cf10364, 0xa81a664bbc423001,
  0xc24b8b70d0f89791, 0xc76c51a30654be30, 0xd192e819d6ef5218, 0xd69906245565a910, 0xf40e35855771202a, 0x106aa07032bbd1b8,
  0x19a4c116b8d2d0c8, 0x1e376c085141ab53, 0x2748774cdf8eeb99, 0x34b0bcb5e19b48a8, 0x391c0cb3c5c95a63, 0x4ed8aa4ae3418acb,
  0x5b9cca4f7763e373, 0x682e6ff3d6b2b8a3, 0x748f82ee5defb2fc, 0x78a5636f43172f60, 0x84c87814a1f0ab72, 0x8cc702081a6439ec,
  0x90befffa23631e28, 0xa4506cebde82bde9, 0xbef9a3f7b2c67915, 0xc67178f2e372532b, 0xca273eceea26619c, 0xd186b8c721c0c207,
  0xeada7dd6cde0eb1e, 0xf57d4f7fee6ed178, 0x06f067aa72176fba, 0x0a637dc5a2c898a6, 0x113f9804bef90dae, 0x1b710b35131c471b,
  0x28db77f523047d84, 0x32caab7b40c72493, 0x3c9ebe0a15c9bebc, 0x431d67c49c100d4c, 0x4cc5d4becb3e42b6, 0x597f299cfc657e2a,
  0x5fcb6fab3ad6faec, 0x6c44198c4a475817]

def sha512H0 : Array UInt64 := #[0x6a09e667f3bcc908, 0xbb67ae8584caa73b, 0x3c6ef372fe94f82b, 0xa54ff53a5f1d36f1,
  0x510e527fade682d1, 0x9b05688c2b3e6c1f, 0x1f83d9abfb41bd6b, 0x5be0cd19137e2179]

@[inline] def rotr64 (x : UInt64) (n : UInt64) : UInt64 := (x >>> n) ||| (x <<< (64 - n))

def be64At (b : ByteArray) (i : Nat) : UInt64 := Id.run do
  let mut x : UInt64 := 0
  for j in [0:8] do
    x := (x <<< 8) ||| (b.get! (i + j)).toUInt64
  return x

def sha512Block (h : Array UInt64) (b : ByteArray) (off : Nat) : Array UInt64 := Id.run do
  let mut w : Array UInt64 := Array.mkEmpty 80
  for t in [0:16] do
    w := w.push (be64At b (off + 8 * t))
  for t in [16:80] do
    let w15 := w[t - 15]!
    let w2 := w[t - 2]!
    let s0 := rotr64 w15 1 ^^^ rotr64 w15 8 ^^^ (w15 >>> 7)
    let s1 := rotr64 w2 19 ^^^ rotr64 w2 61 ^^^ (w2 >>> 6)
    w := w.push (s1 + w[t - 7]! + s0 + w[t - 16]!)
  let mut a := h[0]!
  let mut bb := h[1]!
  let mut c := h[2]!
  let mut d := h[3]!
  let mut e := h[4]!
  let mut f := h[5]!
  let mut g := h[6]!
  let mut hh := h[7]!
  for t in [0:80] do
    let S1 := rotr64 e 14 ^^^ rotr64 e 18 ^^^ rotr64 e 41
    let ch := (e &&& f) ^^^ ((~~~ e) &&& g)
    let t1 := hh + S1 + ch + sha512K[t]! + w[t]!
    let S0 := rotr64 a 28 ^^^ rotr64 a 34 ^^^ rotr64 a 39
    let maj := (a &&& bb) ^^^ (a &&& c) ^^^ (bb &&& c)
    let t2 := S0 + maj
    hh := g; g := f; f := e; e := d + t1; d := c; c := bb; bb := a; a := t1 + t2
  return #[h[0]! + a, h[1]! + bb, h[2]! + c, h[3]! + d, h[4]! + e, h[5]! + f, h[6]! + g, h[7]! + hh]

def sha512 (msg : List Nat) : List Nat := Id.run do
  let b := toBytes (mdPad 128 16 msg)
  let mut h := sha512H0
  for i in [0:b.size / 128] do
    h := sha512Block h b (128 * i)
  return h.toList.flatMap fun x => beBytes 8 x.toNat

end Core.Hash
