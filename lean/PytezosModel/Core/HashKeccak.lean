import PytezosModel.Core.HashBlake2b
/-! Keccak-f[1600] sponge with rate 136: Keccak-256 (pytezos' `Keccak256`, padding `0x01`) and SHA3-256 (FIPS 202,
padding `0x06`).  Executable only (see `HashSha2.lean`). -/
namespace Core.Hash

def keccakRC : Array UInt64 := #[
  0x0000000000000001, 0x0000000000008082, 0x800000000000808A, 0x8000000080008000, 0x000000000000808B, 0x0000000080000001,
  0x8000000080008081, 0x8000000000008009, 0x000000000000008A, 0x0000000000000088, 0x0000000080008009, 0x000000008000000A,
  0x000000008000808B, 0x800000000000008B, 0x8000000000008089, 0x8000000000008003, 0x8000000000008002, 0x8000000000000080,
  0x000000000000800A, 0x800000008000000A, 0x8000000080008081, 0x8000000000008080, 0x0000000080000001, 0x8000000080008008]

/-- rotation offsets `r[x][y]`, indexed `x + 5 * y` -/
def keccakRot : Array Nat := #[0, 1, 62, 28, 27, 36, 44, 6, 55, 20, 3, 10, 43, 25, 39, 41, 45, 15, 21, 8, 18, 2, 61, 56, 14]

@[inline] def rotl64 (x : UInt64) (n : Nat) : UInt64 := if n % 64 = 0 then x else (x <<< (n % 64).toUInt64) ||| (x >>> (64 - n % 64).toUInt64)

/-- one round on the 25 lanes `a[x + 5 * y]` -/
def keccakRound (a : Array UInt64) (rc : UInt64) : Array UInt64 := Id.run do
  -- θ
  let mut c : Array UInt64 := Array.mkEmpty 5
  for x in [0:5] do
    c := c.push (a[x]! ^^^ a[x + 5]! ^^^ a[x + 10]! ^^^ a[x + 15]! ^^^ a[x + 20]!)
  let mut a := a
  for x in [0:5] do
    let d := c[(x + 4) % 5]! ^^^ rotl64 c[(x + 1) % 5]! 1
    for y in [0:5] do
      a := a.set! (x + 5 * y) (a[x + 5 * y]! ^^^ d)
  -- ρ and π: B[y, 2x + 3y] = rot(A[x, y], r[x, y])
  let mut b : Array UInt64 := Array.replicate 25 0
  for x in [0:5] do
    for y in [0:5] do
      b := b.set! (y + 5 * ((2 * x + 3 * y) % 5)) (rotl64 a[x + 5 * y]! keccakRot[x + 5 * y]!)
  -- χ
  for x in [0:5] do
    for y in [0:5] do
      a := a.set! (x + 5 * y) (b[x + 5 * y]! ^^^ ((~~~ b[(x + 1) % 5 + 5 * y]!) &&& b[(x + 2) % 5 + 5 * y]!))
  -- ι
  a := a.set! 0 (a[0]! ^^^ rc)
  return a

def keccakF (a : Array UInt64) : Array UInt64 := Id.run do
  let mut a := a
  for i in [0:24] do
    a := keccakRound a keccakRC[i]!
  return a

/-- sponge with rate 136 bytes (capacity 512), domain-separation suffix `suffix`, 32-byte output -/
def keccakSponge (suffix : Nat) (msg : List Nat) : List Nat := Id.run do
  let rate := 136
  let l := msg.length
  let padLen := rate - l % rate
  let pad : List Nat :=
    if padLen = 1 then [suffix ||| 0x80] else [suffix] ++ List.replicate (padLen - 2) 0 ++ [0x80]
  let b := toBytes (msg ++ pad)
  let mut a : Array UInt64 := Array.replicate 25 0
  for i in [0:b.size / rate] do
    for j in [0:rate / 8] do
      a := a.set! j (a[j]! ^^^ le64At b (rate * i + 8 * j))
    a := keccakF a
  return ((a.toList.take 4).flatMap fun x => leBytes 8 x.toNat)

def keccak256 (msg : List Nat) : List Nat := keccakSponge 0x01 msg
def sha3_256 (msg : List Nat) : List Nat := keccakSponge 0x06 msg

end Core.Hash
