/-! Positional numerals, Base58 (Bitcoin alphabet) and Base58Check.

Bytes and ASCII strings are `List Nat` (bytes `< 256`; characters are their code points).  Everything
is total, computable and Mathlib-free.  The double-SHA-256 checksum of Base58Check is *not* modelled:
every function that needs it takes `cks : List Nat → List Nat` as a parameter (the theorems assume only
that it returns 4 bytes).

Mirrors the `base58` 2.1.1 library as used by pytezos:
`b58encode(v) = '1' * (number of leading zero bytes) + digits58(int.from_bytes(v))`,
`b58decode(v) = b'\0' * (number of leading '1') + bytes256(int58(v))` (after `v.rstrip()`),
`b58encode_check(v) = b58encode(v + sha256d(v)[:4])`,
`b58decode_check(v)`: split the last four bytes off, compare with the checksum. -/
namespace Base58

/-! ## positional numerals (big-endian digit lists) -/

/-- Horner evaluation with an accumulator: `int.from_bytes(ds, 'big')` for `b = 256` -/
def ofDigitsAcc (b : Nat) (acc : Nat) : List Nat → Nat
  | [] => acc
  | d :: ds => ofDigitsAcc b (acc * b + d) ds

/-- value of a big-endian digit string in base `b` -/
def ofDigits (b : Nat) (ds : List Nat) : Nat := ofDigitsAcc b 0 ds

/-- the loop `while i: i, d = divmod(i, b); out = [d] + out` -/
def toDigitsAcc (b : Nat) (n : Nat) (acc : List Nat) : List Nat :=
  if _h : b < 2 ∨ n = 0 then acc else toDigitsAcc b (n / b) (n % b :: acc)
termination_by n
decreasing_by exact Nat.div_lt_self (by omega) (by omega)

/-- minimal big-endian digit string of `n` in base `b` (empty for `0`) -/
def toDigits (b : Nat) (n : Nat) : List Nat := toDigitsAcc b n []

/-- number of leading elements equal to `z` (`len(v) - len(v.lstrip(z))`) -/
def leading (z : Nat) : List Nat → Nat
  | [] => 0
  | a :: as => if a = z then leading z as + 1 else 0

/-- `v.lstrip(z)` -/
def dropLeading (z : Nat) : List Nat → List Nat
  | [] => []
  | a :: as => if a = z then dropLeading z as else a :: as

/-! ## the alphabet -/

/-- `123456789ABCDEFGHJKLMNPQRSTUVWXYZabcdefghijkmnopqrstuvwxyz` as code points -/
def alphabet : List Nat :=
  [49, 50, 51, 52, 53, 54, 55, 56, 57,
   65, 66, 67, 68, 69, 70, 71, 72, 74, 75, 76, 77, 78, 80, 81, 82, 83, 84, 85, 86, 87, 88, 89, 90,
   97, 98, 99, 100, 101, 102, 103, 104, 105, 106, 107, 109, 110, 111, 112, 113, 114, 115, 116, 117, 118,
   119, 120, 121, 122]

/-- character of a digit (`alphabet[idx]`); digits are always `< 58` where this is used -/
def digitChar (d : Nat) : Nat := alphabet.getD d 0

def idxOfAux (c : Nat) : List Nat → Nat → Option Nat
  | [], _ => none
  | a :: as, i => if a = c then some i else idxOfAux c as (i + 1)

/-- digit of a character; `none` for a character outside the alphabet (`KeyError` → `ValueError`) -/
def charDigit (c : Nat) : Option Nat := idxOfAux c alphabet 0

/-- digits of a string; `none` if any character is outside the alphabet -/
def charsDigits : List Nat → Option (List Nat)
  | [] => some []
  | c :: cs =>
    match charDigit c, charsDigits cs with
    | some d, some ds => some (d :: ds)
    | _, _ => none

/-! ## Base58 -/

/-- `base58.b58encode` -/
def b58enc (bs : List Nat) : List Nat :=
  List.replicate (leading 0 bs) 49 ++ (toDigits 58 (ofDigits 256 (dropLeading 0 bs))).map digitChar

/-- `base58.b58decode` without the initial `rstrip` (see `rstrip`) -/
def b58dec (s : List Nat) : Option (List Nat) :=
  match charsDigits (dropLeading 49 s) with
  | none => none
  | some ds => some (List.replicate (leading 49 s) 0 ++ toDigits 256 (ofDigits 58 ds))

/-- ASCII whitespace as stripped by `bytes.rstrip()` -/
def isSpace (c : Nat) : Bool := c == 32 || c == 9 || c == 10 || c == 13 || c == 11 || c == 12

/-- `bytes.rstrip()` -/
def rstrip : List Nat → List Nat
  | [] => []
  | c :: cs =>
    match rstrip cs with
    | [] => if isSpace c then [] else [c]
    | r => c :: r

/-! ## Base58Check with an abstract checksum -/

/-- `base58.b58encode_check` -/
def b58encCheck (cks : List Nat → List Nat) (v : List Nat) : List Nat := b58enc (v ++ cks v)

inductive CheckErr where
  | invalidChar      -- ValueError('Invalid character …')
  | invalidChecksum  -- ValueError('Invalid checksum')
deriving DecidableEq, Repr

/-- `base58.b58decode_check` (including the `rstrip` done by `b58decode`) -/
def b58decCheck (cks : List Nat → List Nat) (s : List Nat) : Except CheckErr (List Nat) :=
  match b58dec (rstrip s) with
  | none => .error .invalidChar
  | some r =>
    let body := r.take (r.length - 4)
    let check := r.drop (r.length - 4)
    if check = cks body then .ok body else .error .invalidChecksum

end Base58
