import PytezosModel.Core.Bytes
/-! Mirrors of `forge_nat`, `forge_int`, `unforge_int` (src/pytezos/michelson/forge.py) — Zarith /
LEB128-style variable-length integers. -/
namespace Core

/-- `forge_nat` : 7 bits per byte, little-endian groups, high bit = "more" -/
def forgeNat (n : Nat) : Bytes :=
  if n < 128 then [n] else (n % 128 + 128) :: forgeNat (n / 128)
termination_by n
decreasing_by omega

/-- reader for `forge_nat` output at the head of a buffer: value and the remaining bytes -/
def unforgeNat : Bytes → Option (Nat × Bytes)
  | [] => none
  | b :: rest =>
    if b < 128 then some (b, rest)
    else (unforgeNat rest).map fun (v, r) => (b - 128 + 128 * v, r)

/-- `forge_int` : first byte holds 6 value bits, bit 6 = sign, bit 7 = "more"; then 7-bit groups -/
def forgeInt (z : Int) : Bytes :=
  let i := z.natAbs
  let sign := if z < 0 then 64 else 0
  if i < 64 then [i + sign] else (i % 64 + sign + 128) :: forgeNat (i / 64)

/-- Mirror of `unforge_int` applied to the head of a buffer: `(value, rest)`.
`strict = true` mirrors the repaired code, which rejects a multi-byte encoding whose last byte is zero
(non-minimal; Tezos' data-encoding rejects it); `strict = false` is the pinned behaviour.
`none` mirrors the IndexError of running off the buffer / the rejection. -/
def unforgeInt (strict : Bool) : Bytes → Option (Int × Bytes)
  | [] => none
  | b0 :: rest =>
    let mag0 := b0 % 64
    let neg := (b0 / 64) % 2 = 1
    if b0 < 128 then some (if neg then -(mag0 : Int) else (mag0 : Int), rest)
    else
      match unforgeNatStrict strict rest with
      | none => none
      | some (v, r) =>
        let m : Nat := mag0 + 64 * v
        some (if neg then -(m : Int) else (m : Int), r)
where
  /-- continuation groups; in strict mode the final group must be non-zero -/
  unforgeNatStrict (strict : Bool) : Bytes → Option (Nat × Bytes)
    | [] => none
    | b :: rest =>
      if b < 128 then (if strict && b = 0 then none else some (b, rest))
      else (unforgeNatStrict strict rest).map fun (v, r) => (b - 128 + 128 * v, r)

end Core
