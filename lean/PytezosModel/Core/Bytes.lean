/-! Byte strings are `List Nat` with every element `< 256` (explicit hypothesis `Bytes.WF` where needed).
Mirrors of `int.to_bytes(n, 'big')` / `int.from_bytes(…, 'big')` and of `forge_array` / `unforge_array`
(src/pytezos/michelson/forge.py). -/
namespace Core

abbrev Bytes := List Nat

def Bytes.WF (bs : Bytes) : Prop := ∀ b ∈ bs, b < 256

instance (bs : Bytes) : Decidable (Bytes.WF bs) := by unfold Bytes.WF; infer_instance

/-- `int.from_bytes(bs, 'big')` -/
def beToNat : Bytes → Nat := fun bs => bs.foldl (fun acc b => acc * 256 + b) 0

/-- `v.to_bytes(n, 'big')` for `v < 256^n` (Python raises OverflowError otherwise: `none`) -/
def natToBE : (n : Nat) → (v : Nat) → Option Bytes
  | 0, v => if v = 0 then some [] else none
  | n + 1, v => (natToBE n (v / 256)).map (· ++ [v % 256])

/-- `forge_array(data, len_bytes)` -/
def forgeArray (lenBytes : Nat) (data : Bytes) : Option Bytes :=
  (natToBE lenBytes data.length).map (· ++ data)

/-- `unforge_array(data, len_bytes)`: the array and what follows it (`none` = AssertionError) -/
def unforgeArray (lenBytes : Nat) (data : Bytes) : Option (Bytes × Bytes) :=
  if data.length < lenBytes then none
  else
    let len := beToNat (data.take lenBytes)
    let rest := data.drop lenBytes
    if rest.length < len then none else some (rest.take len, rest.drop len)

end Core
