import PytezosModel.Props.C05
#print axioms C05.source_is_strict
#print axioms C05.unforge_forge
#print axioms C05.forge_injective
#print axioms C05.unforge_strict
#print axioms C05.int_roundtrip
#print axioms C05.int_canonical
#print axioms C05.prim_tables_inverse
#print axioms C05.known_tags
#print axioms C05.annots_roundtrip
