import PytezosModel.Props.C22
#print axioms C22.config_eq
#print axioms C22.init_wf
#print axioms C22.cell_wf
#print axioms C22.execute_atomic
#print axioms C22.cell_eq_alias_free
#print axioms C22.cell_protected_zero
#print axioms C22.session_eq_filtered_from
#print axioms C22.session_eq_filtered
#print axioms C22.session_trace_eq_filtered_from
#print axioms C22.session_trace_eq_filtered
#print axioms C22.session_wf
#print axioms C22.pinned_shape_counterexample
#print axioms C22.items_only_counterexample
