import PytezosModel.Props.C30
