import PytezosModel.Props.C30
#print axioms C30.config_eq
#print axioms C30.apply_render
#print axioms C30.roundtrip
#print axioms C30.script_exists
#print axioms C30.no_hunks_empty_patch
#print axioms C30.apply_rejects_non_header
#print axioms C30.apply_rejects_bad_line
#print axioms C30.protocol_roundtrip
