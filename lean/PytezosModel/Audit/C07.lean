import PytezosModel.Props.C07
#print axioms C07.sign_verify
#print axioms C07.sign_payload
#print axioms C07.verify_true_iff
#print axioms C07.verify_ok_is_true
#print axioms C07.verify_rejects
#print axioms C07.curve_mismatch_rejected
#print axioms C07.check_signature_eq_verify
#print axioms C07.hypotheses_satisfiable
