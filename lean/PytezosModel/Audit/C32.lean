import PytezosModel.Props.C32
#print axioms C32.source_shape
#print axioms C32.name_iff
#print axioms C32.code_iff
#print axioms C32.args_iff
#print axioms C32.view_accept_iff
#print axioms C32.view_reject_iff
