import PytezosModel.Props.C27
#print axioms C27.ids_are_component_lists
#print axioms C27.components_unique
#print axioms C27.variants_spec
#print axioms C27.variants_spec_string
#print axioms C27.variants_ranks
#print axioms C27.classify_defined
#print axioms C27.empty_unspecified
#print axioms C27.fromErrors_spec
#print axioms C27.raised_is_most_specific
#print axioms C27.generic_when_none
#print axioms C27.raised_from_last
