import PytezosModel.Props.C19
#print axioms C19.placeholder
