import PytezosModel.Props.C12
#print axioms C12.option_option_counterexample
#print axioms C12.name_collision_counterexample
