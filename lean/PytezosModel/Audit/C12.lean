import PytezosModel.Props.C12
#print axioms C12.source_shape
#print axioms C12.cfg_unit
#print axioms C12.ofPy_toPy_partial
#print axioms C12.ofPy_toPy_key_partial
#print axioms C12.toPy_injective_partial
#print axioms C12.field_names_unique
#print axioms C12.layout_names_unique
#print axioms C12.field_names_unchanged_without_collision
#print axioms C12.layout_stable
#print axioms C12.encode_decode_inverse
#print axioms C12.option_option_counterexample
#print axioms C12.name_collision_repaired
#print axioms C12.name_collision_later_repaired
#print axioms C12.name_collision_or_repaired
#print axioms C12.unhashable_unit_counterexample
