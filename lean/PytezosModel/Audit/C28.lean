import PytezosModel.Props.C28
#print axioms C28.run_true
#print axioms C28.rotation
#print axioms C28.rotation_ith
