import PytezosModel.Props.C11
#print axioms C11.source_repaired
#print axioms C11.ofMich_toMich
#print axioms C11.ofMich_toMich_plain
#print axioms C11.comb_layout
#print axioms C11.fromComb_toComb
#print axioms C11.comb_forms_accepted
#print axioms C11.timestamp_roundtrip
#print axioms C11.timestamp_int_outside
#print axioms C11.timestamp_string_inside
#print axioms C11.signature_optimized
#print axioms C11.bigmap_literal_default_raises
#print axioms C11.toyEnv_lawful
