import PytezosModel.Props.C04
#print axioms C04.source_shape
#print axioms C04.pack_eq_spec
#print axioms C04.pack_micheline
#print axioms C04.unpack_pack
#print axioms C04.unpack_pack_plain
#print axioms C04.unpack_none_of_invalid
#print axioms C04.unpack_none_of_bad_prefix
#print axioms C04.unpack_total
#print axioms C04.unpack_value_strict
#print axioms C04.pack_none_of_unpackable
