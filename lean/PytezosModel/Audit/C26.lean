import PytezosModel.Props.C26
#print axioms C26.request_defined
#print axioms C26.attempts_closed_form
#print axioms C26.retry_iff_transient
#print axioms C26.attempts_le_six
#print axioms C26.delays_schedule
#print axioms C26.delays_monotone_capped
#print axioms C26.result_spec
#print axioms C26.first_success_returned
#print axioms C26.never_exhausted
