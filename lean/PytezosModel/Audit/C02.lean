import PytezosModel.Props.C02
#print axioms C02.hasTy_is_checkVal
#print axioms C02.preservation
#print axioms C02.preservation_runtime_types
#print axioms C02.run_preserves_types
#print axioms C02.type_soundness
#print axioms C02.welltyped_run_preserves_types
#print axioms C02.strict_run_preserves_types
#print axioms C02.failing_type_never_returns
#print axioms C02.storage_has_declared_type
#print axioms C02.map_keeps_key_type
#print axioms C02.map_empty_type_counterexample
