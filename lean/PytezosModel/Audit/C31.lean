import PytezosModel.Props.C31
#print axioms C31.source_shape
#print axioms C31.reduce_eq_tree
#print axioms C31.reduce_nil
#print axioms C31.reduce_eq_merkle
#print axioms C31.reduce_defined
#print axioms C31.operation_list_hash
#print axioms C31.operation_list_list_hash
#print axioms C31.round_bytes
#print axioms C31.block_payload_hash
