import PytezosModel.Props.C20
#print axioms C20.source_shape
#print axioms C20.cfg_ok
#print axioms C20.run_good
#print axioms C20.conservation_partial
#print axioms C20.minted_grows
#print axioms C20.no_zero_ticket
#print axioms C20.consistency_preserved
#print axioms C20.typed_stores_monotone
#print axioms C20.ticket_zero_none
#print axioms C20.ticket_positive
#print axioms C20.split_spec
#print axioms C20.join_spec
#print axioms C20.join_tickets_total
#print axioms C20.dup_refuses_tickets
#print axioms C20.dupN_refuses_tickets
#print axioms C20.get_refuses_tickets
#print axioms C20.conservation_needs_typed_stores
