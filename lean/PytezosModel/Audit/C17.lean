import PytezosModel.Props.C17
#print axioms C17.source_is_annotation_blind
#print axioms C17.hI
#print axioms C17.hU
#print axioms C17.iterComb_annot_free
#print axioms C17.iterComb_eq_flatten
#print axioms C17.accessComb_eq_getn
#print axioms C17.accessComb_annot_free
#print axioms C17.updateComb_eq_updaten
#print axioms C17.updateComb_annot_free
#print axioms C17.unpairn_eq_spec
#print axioms C17.unpairn_annot_free
#print axioms C17.pairn_eq_spec
#print axioms C17.step_refines_spec
#print axioms C17.exec_annot_free
#print axioms C17.pack_layout_annot_free
#print axioms C17.pack_reannotation
#print axioms C17.toMich_uses_iterComb
