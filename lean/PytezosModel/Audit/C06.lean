import PytezosModel.Props.C06
#print axioms C06.source_recognised
#print axioms C06.layouts_eq_spec
#print axioms C06.reserved_entrypoints_eq_spec
#print axioms C06.validation_passes_eq_spec
#print axioms C06.address_tables_eq_spec
#print axioms C06.layout_roundtrip
#print axioms C06.group_roundtrip
#print axioms C06.forgeGroup_eq_canonical
#print axioms C06.forgeGroup_injective
#print axioms C06.entrypoint_roundtrip
#print axioms C06.entrypoint_reserved_canonical
#print axioms C06.default_unit_elided
