import PytezosModel.Props.C18
