import PytezosModel.Props.C18
#print axioms C18.wfText_iff
#print axioms C18.lex_format
#print axioms C18.layout_irrelevant
#print axioms C18.parse_toks
#print axioms C18.roundtrip
#print axioms C18.prim_tags_lex
