import PytezosModel.Props.C01
#print axioms C01.exec_refines_spec
#print axioms C01.run_eq_guarded
#print axioms C01.run_ok
#print axioms C01.run_failwith
#print axioms C01.run_rtfail
#print axioms C01.guarded_is_reference
#print axioms C01.run_eq_reference
#print axioms C01.progress
#print axioms C01.welltyped_outcomes
#print axioms C01.welltyped_run_eq_reference
#print axioms C01.welltyped_terminating_run
#print axioms C01.welltyped_program_run
#print axioms C01.dip_n_spec
#print axioms C01.map_empty_counterexample
