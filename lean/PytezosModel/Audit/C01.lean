import PytezosModel.Props.C01
