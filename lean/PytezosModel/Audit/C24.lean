import PytezosModel.Props.C24
#print axioms C24.cfg_sound
#print axioms C24.autofill_fee_ok
#print axioms C24.fill_fee_ok
#print axioms C24.fill_length
#print axioms C24.pinned_fill_batch_underpays
#print axioms C24.pinned_fill_tz4_underpays
#print axioms C24.pinned_autofill_tz4_underpays
#print axioms C24.repaired_witnesses_accepted
