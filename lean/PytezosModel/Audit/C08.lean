import PytezosModel.Props.C08
#print axioms C08.pkh_formula
#print axioms C08.pkh_wellformed
#print axioms C08.hash_key_eq_pkh
#print axioms C08.hash_key_of_public_key
#print axioms C08.export_import_plain
#print axioms C08.export_import_encrypted
#print axioms C08.export_import_raw
#print axioms C08.public_key_roundtrip
#print axioms C08.from_secret_exponent_wf
#print axioms C08.prefix_dispatch_total
#print axioms C08.mnemonic_accept_iff
#print axioms C08.from_mnemonic_accepts_partial
#print axioms C08.from_mnemonic_rejects_invalid
#print axioms C08.from_mnemonic_counterexample
#print axioms C08.derivation_deterministic
#print axioms C08.hypotheses_satisfiable
