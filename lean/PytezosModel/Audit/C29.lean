import PytezosModel.Props.C29
#print axioms C29.config_eq
#print axioms C29.bisect_spec
#print axioms C29.bisect_finds_change
#print axioms C29.bisect_degenerate_range
#print axioms C29.walk_spec
#print axioms C29.changes_spec
#print axioms C29.changes_exact
#print axioms C29.changes_default_spec
#print axioms C29.changes_step_zero
#print axioms C29.noReturn_div10
