import PytezosModel.Props.C03
#print axioms C03.compare_eq_spec
#print axioms C03.compare_refl
#print axioms C03.compare_antisymm
#print axioms C03.compare_swap
#print axioms C03.compare_trans
#print axioms C03.compare_total
#print axioms C03.lt_defined
#print axioms C03.tval_lt_iff
#print axioms C03.tval_eq_iff
#print axioms C03.tval_strictTotal
#print axioms C03.sorted_unique
#print axioms C03.checkConstraints_iff_strictSorted
#print axioms C03.checkConstraints_duplicate_iff
#print axioms C03.hashable_all
#print axioms C03.cty_is_comparable
#print axioms C03.text_bridge
#print axioms C03.text_bridge_one_kind
