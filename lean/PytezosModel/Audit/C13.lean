import PytezosModel.Props.C13
#print axioms C13.source_shape
#print axioms C13.cfg_deepest
#print axioms C13.listEntrypoints_eq_spec
#print axioms C13.listEntrypoints_eq_spec_exact
#print axioms C13.ill_formed_rejected
#print axioms C13.toParams_fromParams
#print axioms C13.fromParams_toParams_value
#print axioms C13.fromParams_toParams_leaf_exact
