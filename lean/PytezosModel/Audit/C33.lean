import PytezosModel.Props.C33
#print axioms C33.source_shape
#print axioms C33.resolve_spec
#print axioms C33.resolve_no_constant
#print axioms C33.resolve_fixpoint
#print axioms C33.resolve_no_refs
#print axioms C33.resolve_unknown
#print axioms C33.reference_leniency
#print axioms C33.expr_row_ok
#print axioms C33.key_source
#print axioms C33.register_key_text
#print axioms C33.register_key_forge_error
#print axioms C33.register_then_lookup
#print axioms C33.register_key_concrete
#print axioms C33.register_key_steps
