import PytezosModel.Props.C33
#print axioms C33.source_shape
#print axioms C33.resolve_spec
#print axioms C33.resolve_no_constant
#print axioms C33.resolve_fixpoint
#print axioms C33.resolve_no_refs
#print axioms C33.resolve_unknown
#print axioms C33.reference_leniency
