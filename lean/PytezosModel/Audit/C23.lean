import PytezosModel.Props.C23
#print axioms C23.pass_table
#print axioms C23.anyOtherPass_same
#print axioms C23.anyOtherPass_mixed
#print axioms C23.watermark_spec
#print axioms C23.watermark_consensus
#print axioms C23.watermark_other
#print axioms C23.watermark_mixed
#print axioms C23.group_sign_verifies
#print axioms C23.hash_formula
#print axioms C23.hash_is_operation_hash
