import PytezosModel.Props.C25
