import PytezosModel.Props.C25
#print axioms C25.observe_ok
#print axioms C25.inv_init
#print axioms C25.inject_counters_partial
#print axioms C25.clean_of_noDirectFill
#print axioms C25.inject_counters_autofill_only
#print axioms C25.inject_counters_of_repaired_fill
#print axioms C25.inject_counters_fails_fill_twice
#print axioms C25.inject_counters_fails_fill_with_pending
#print axioms C25.counter_histories_not_clean
