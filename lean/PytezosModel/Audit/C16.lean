import PytezosModel.Props.C16
