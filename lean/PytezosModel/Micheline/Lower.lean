import PytezosModel.Micheline.Basic
import PytezosModel.Micheline.Binary
import PytezosModel.Generated.C05
/-! `Mich` (primitive names, strings, annotation lists) ↔ `BMich` (tag bytes, UTF-8 bytes, joined annotation
string) through the tables regenerated from `prim_tags` / `prim_int`.  The UTF-8 step uses Lean's `String`
library and is exercised by the correspondence only (no theorem is stated about it). -/
namespace Impl.Lower
open Core

def tagTable : List (String × Nat) := Generated.C05.primTags.getD []

/-- `prim_tags[name]` -/
def primTag (p : String) : Option Nat := (tagTable.find? (·.1 == p)).map (·.2)

/-- `prim_int` as built by the dict comprehension: later entries override earlier ones, filtered tags are absent -/
def primOfTag (t : Nat) : Option String :=
  match Generated.C05.primIntExcluded with
  | none => none
  | some excl => if excl.contains t then none else (tagTable.reverse.find? (·.2 == t)).map (·.1)

def known (t : Nat) : Bool := (primOfTag t).isSome

def strict : Bool := Generated.C05.unforgeIntStrict.getD false

def utf8 (s : String) : Bytes := s.toUTF8.data.toList.map UInt8.toNat

def ofUtf8 (b : Bytes) : Option String := String.fromUTF8? (ByteArray.mk (b.map UInt8.ofNat).toArray)

/-- `' '.join(annots)` on the UTF-8 bytes (a 0x20 byte can only come from a space character) -/
def joinSp : List Bytes → Bytes
  | [] => []
  | [a] => a
  | a :: b :: rest => a ++ 32 :: joinSp (b :: rest)

/-- `value.split(' ')` on the UTF-8 bytes; `''.split(' ') == ['']` -/
def splitSp : Bytes → List Bytes
  | [] => [[]]
  | b :: rest =>
    if b = 32 then [] :: splitSp rest
    else match splitSp rest with
      | [] => [[b]]
      | w :: ws => (b :: w) :: ws

mutual
  def lower : Mich → Option BMich
    | .int v => some (.int v)
    | .str s => some (.str (utf8 s))
    | .bytes b => some (.bytes b)
    | .seq xs => (lowerList xs).map .seq
    | .prim p args annots =>
      if p = "" then none
      else do
        let t ← primTag p
        let as ← lowerList args
        pure (.prim t as (if annots.isEmpty then none else some (joinSp (annots.map utf8))))
  def lowerList : List Mich → Option (List BMich)
    | [] => some []
    | x :: xs => do
      let a ← lower x
      let b ← lowerList xs
      pure (a :: b)
end

mutual
  def raise : BMich → Option Mich
    | .int v => some (.int v)
    | .str s => (ofUtf8 s).map .str
    | .bytes b => some (.bytes b)
    | .seq xs => (raiseList xs).map .seq
    | .prim t args annot => do
      let p ← primOfTag t
      let as ← raiseList args
      let an ← (match annot with
        | none => some []
        | some a => (splitSp a).mapM ofUtf8)
      pure (.prim p as an)
  def raiseList : List BMich → Option (List Mich)
    | [] => some []
    | x :: xs => do
      let a ← raise x
      let b ← raiseList xs
      pure (a :: b)
end

/-- `forge_micheline` on JSON-shaped Micheline -/
def forgeMich (m : Mich) : Option Bytes := (lower m).bind Impl.Forge.forge

/-- `unforge_micheline` -/
def unforgeMich (bs : Bytes) : Option Mich :=
  if Generated.C05.primTags.isNone || Generated.C05.unforgeIntStrict.isNone then none
  else (Impl.Forge.unforge known strict bs).bind raise

def specDecodeMich (bs : Bytes) : Option Mich := (Spec.Micheline.decode known bs).bind raise

end Impl.Lower
