import PytezosModel.Core.Zarith
/-! Binary Micheline — mirror of `forge_micheline` / `unforge_micheline` (src/pytezos/michelson/forge.py)
at the byte level.  `BMich` is Micheline with primitives as tag bytes, strings as their UTF-8 bytes and the
annotation list as the single space-joined byte string that is actually written (`none` = no annotations) (`Lower.lean` relates it to
`Mich`).  `Spec.decode` is an independently written strict decoder in the style of Tezos' data-encoding
(length-delimited sub-buffers). -/

inductive BMich where
  | int (v : Int)
  | str (s : Core.Bytes)
  | bytes (b : Core.Bytes)
  | prim (tag : Nat) (args : List BMich) (annot : Option Core.Bytes)
  | seq (xs : List BMich)
  deriving Repr, Inhabited

namespace BMich
mutual
  def size : BMich → Nat
    | .int _ | .str _ | .bytes _ => 1
    | .prim _ as _ => 1 + sizeList as
    | .seq xs => 1 + sizeList xs
  def sizeList : List BMich → Nat
    | [] => 0
    | x :: xs => size x + sizeList xs
end
mutual
  /-- every primitive tag is in the decoding table and no annotation string is present-but-empty -/
  def WF (known : Nat → Bool) : BMich → Bool
    | .int _ | .str _ | .bytes _ => true
    | .prim t as an => known t && an != some [] && WFList known as
    | .seq xs => WFList known xs
  def WFList (known : Nat → Bool) : List BMich → Bool
    | [] => true
    | x :: xs => WF known x && WFList known xs
end
end BMich

namespace Impl.Forge
open Core

/-- `get_tag` -/
def getTag (argsLen : Nat) (hasAnnots : Bool) : Nat :=
  min (argsLen * 2 + 3 + (if hasAnnots then 1 else 0)) 9

mutual
  /-- `forge_micheline`; `none` = Python raises (array longer than 2^32-1) -/
  def forge : BMich → Option Bytes
    | .seq xs => do
      let body ← forgeList xs
      let arr ← forgeArray 4 body
      pure (2 :: arr)
    | .prim t args annot => do
      let a ← forgeList args
      let argBytes ← (if args.length = 0 then some [] else if args.length < 3 then some a else forgeArray 4 a)
      let annBytes ← (match annot with
                      | some a => forgeArray 4 a
                      | none => if args.length ≥ 3 then some [0, 0, 0, 0] else some [])
      pure (getTag args.length annot.isSome :: t :: (argBytes ++ annBytes))
    | .bytes b => (forgeArray 4 b).map (10 :: ·)
    | .int v => some (0 :: forgeInt v)
    | .str s => (forgeArray 4 s).map (1 :: ·)
  def forgeList : List BMich → Option Bytes
    | [] => some []
    | x :: xs => do
      let a ← forge x
      let b ← forgeList xs
      pure (a ++ b)
end

/-! The closures of `unforge_micheline`, in buffer-passing style: `d` is `data[ptr:]`, results carry the
remaining buffer.  `known t` = `t in prim_int`; `strict` = the integer reader rejects trailing zeros.
`fuel` only bounds the recursion (one unit per nesting level and per sequence element). -/
/-- `if len(value) > 0: expr['annots'] = …` -/
def optAnnot (v : Bytes) : Option Bytes := if v.length > 0 then some v else none

mutual
  def unforgeNode (known : Nat → Bool) (strict : Bool) : (fuel : Nat) → Bytes → Option (BMich × Bytes)
    | 0, _ => none
    | fuel + 1, d =>
      match d with
      | [] => none
      | tag :: d1 =>
        if tag = 0 then (unforgeInt strict d1).map fun (v, r) => (.int v, r)
        else if tag = 1 then (unforgeArray 4 d1).map fun (v, r) => (.str v, r)
        else if tag = 2 then (unforgeSeq known strict fuel d1).map fun (xs, r) => (.seq xs, r)
        else if tag < 10 then
          let argsLen := (tag - 3) / 2
          let annots := (tag - 3) % 2 = 1
          match d1 with
          | [] => none
          | pt :: d2 =>
            if !known pt then none
            else
              let argsR : Option (List BMich × Bytes) :=
                if argsLen = 0 then some ([], d2)
                else if argsLen = 1 then
                  (unforgeNode known strict fuel d2).map fun (a, r) => ([a], r)
                else if argsLen = 2 then
                  match unforgeNode known strict fuel d2 with
                  | none => none
                  | some (a, r) => (unforgeNode known strict fuel r).map fun (b, r') => ([a, b], r')
                else unforgeSeq known strict fuel d2
              match argsR with
              | none => none
              | some (args, r) =>
                if annots || argsLen = 3 then
                  (unforgeArray 4 r).map fun (v, r') => (.prim pt args (optAnnot v), r')
                else some (.prim pt args none, r)
        else if tag = 10 then (unforgeArray 4 d1).map fun (v, r) => (.bytes v, r)
        else none
  /-- `unforge_sequence`: the array header must fit (`unforge_array` asserts), then nodes are read from the
  *whole* remaining buffer while `ptr < end`, and `ptr == end` is asserted. -/
  def unforgeSeq (known : Nat → Bool) (strict : Bool) : (fuel : Nat) → Bytes → Option (List BMich × Bytes)
    | fuel, d =>
      match unforgeArray 4 d with
      | none => none
      | some (body, _) => seqLoop known strict fuel body.length (d.drop 4)
  def seqLoop (known : Nat → Bool) (strict : Bool) : (fuel : Nat) → (remaining : Nat) → Bytes → Option (List BMich × Bytes)
    | fuel, remaining, cur =>
      if remaining = 0 then some ([], cur)
      else
        match fuel with
        | 0 => none
        | fuel' + 1 =>
          match unforgeNode known strict fuel' cur with
          | none => none
          | some (x, rest) =>
            let used := cur.length - rest.length
            if used > remaining then none
            else (seqLoop known strict fuel' (remaining - used) rest).map fun (xs, r) => (x :: xs, r)
end

/-- `unforge_micheline(data)`: one node, then `assert ptr == len(data)` -/
def unforge (known : Nat → Bool) (strict : Bool) (data : Bytes) : Option BMich :=
  match unforgeNode known strict (2 * data.length + 2) data with
  | some (e, []) => some e
  | _ => none

end Impl.Forge

namespace Spec.Micheline
open Core

/-! Strict decoder written in the style of Tezos' data-encoding: a sequence is decoded from exactly the
`len` bytes its header announces; integers must be minimal (`unforgeInt true`); node tags 0–10 only;
primitive tags must be known; the whole input must be consumed. -/
mutual
  def decodeNode (known : Nat → Bool) : (fuel : Nat) → Bytes → Option (BMich × Bytes)
    | 0, _ => none
    | fuel + 1, d =>
      match d with
      | [] => none
      | tag :: d1 =>
        let primHead (k : Nat → Bytes → Option (BMich × Bytes)) : Option (BMich × Bytes) :=
          match d1 with
          | [] => none
          | pt :: d2 => if known pt then k pt d2 else none
        let annot (r : Bytes) (mk : Option Bytes → BMich) : Option (BMich × Bytes) :=
          (unforgeArray 4 r).map fun (v, r') => (mk (Impl.Forge.optAnnot v), r')
        match tag with
        | 0 => (unforgeInt true d1).map fun (v, r) => (.int v, r)
        | 1 => (unforgeArray 4 d1).map fun (v, r) => (.str v, r)
        | 2 =>
          match unforgeArray 4 d1 with
          | none => none
          | some (body, rest) => (decodeAll known fuel body).map fun xs => (.seq xs, rest)
        | 3 => primHead fun pt r => some (.prim pt [] none, r)
        | 4 => primHead fun pt r => annot r fun v => .prim pt [] v
        | 5 => primHead fun pt r => (decodeNode known fuel r).map fun (a, r') => (.prim pt [a] none, r')
        | 6 => primHead fun pt r =>
            match decodeNode known fuel r with
            | none => none
            | some (a, r') => annot r' fun v => .prim pt [a] v
        | 7 => primHead fun pt r =>
            match decodeNode known fuel r with
            | none => none
            | some (a, r') => (decodeNode known fuel r').map fun (b, r'') => (.prim pt [a, b] none, r'')
        | 8 => primHead fun pt r =>
            match decodeNode known fuel r with
            | none => none
            | some (a, r') =>
              match decodeNode known fuel r' with
              | none => none
              | some (b, r'') => annot r'' fun v => .prim pt [a, b] v
        | 9 => primHead fun pt r =>
            match unforgeArray 4 r with
            | none => none
            | some (body, rest) =>
              match decodeAll known fuel body with
              | none => none
              | some args => annot rest fun v => .prim pt args v
        | 10 => (unforgeArray 4 d1).map fun (v, r) => (.bytes v, r)
        | _ => none
  /-- decode a concatenation of nodes that fills the buffer exactly -/
  def decodeAll (known : Nat → Bool) : (fuel : Nat) → Bytes → Option (List BMich)
    | fuel, d =>
      if d.length = 0 then some []
      else
        match fuel with
        | 0 => none
        | fuel' + 1 =>
          match decodeNode known fuel' d with
          | none => none
          | some (x, rest) => (decodeAll known fuel' rest).map (x :: ·)
end

def decode (known : Nat → Bool) (data : Bytes) : Option BMich :=
  match decodeNode known (2 * data.length + 2) data with
  | some (e, []) => some e
  | _ => none

end Spec.Micheline
