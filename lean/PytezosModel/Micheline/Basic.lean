/-! Micheline AST shared by the models (mirror of the JSON shapes pytezos uses:
`{"int": "…"}`, `{"string": …}`, `{"bytes": hex}`, `{"prim", "args", "annots"}`, `[…]`). -/

inductive Mich where
  | int (v : Int)
  | str (s : String)
  | bytes (b : List Nat)
  | prim (p : String) (args : List Mich) (annots : List String)
  | seq (xs : List Mich)
  deriving Repr, Inhabited

namespace Mich

mutual
  def beq : Mich → Mich → Bool
    | .int a, .int b => a == b
    | .str a, .str b => a == b
    | .bytes a, .bytes b => a == b
    | .prim p as an, .prim q bs bn => p == q && beqList as bs && an == bn
    | .seq as, .seq bs => beqList as bs
    | _, _ => false
  def beqList : List Mich → List Mich → Bool
    | [], [] => true
    | a :: as, b :: bs => beq a b && beqList as bs
    | _, _ => false
end

instance : BEq Mich := ⟨beq⟩

mutual
  /-- number of nodes (used as fuel bound and size measure) -/
  def size : Mich → Nat
    | .int _ | .str _ | .bytes _ => 1
    | .prim _ as _ => 1 + sizeList as
    | .seq xs => 1 + sizeList xs
  def sizeList : List Mich → Nat
    | [] => 0
    | x :: xs => size x + sizeList xs
end

end Mich
