import PytezosModel.Micheline.Basic
import PytezosModel.Generated.C18
/-! Michelson text: mirror of `pytezos/michelson/format.py` (`micheline_to_michelson`, `format_node`) and of
`pytezos/michelson/parse.py` (PLY lexer rules, grammar productions and their actions).

* `Impl.Text.format inline e` — the formatter, literally: framing rule, inline / multi-line layout, the
  `line_size` tests on accumulated lengths, `json.dumps` for strings.  All constants (`line_size`, the
  `is_framed` rule, `is_complex`, `is_inline`, `is_script`) come from `Generated.C18`.
* `Impl.Text.lex` — PLY's master regular expression: ignored characters are skipped, then the rules are tried in
  PLY's order (`Generated.C18.lexOrder`), first match wins, each rule a greedy scanner over the character classes
  the translator read out of the regex (`Generated.C18.annotHead`, …).  A character no rule matches becomes PLY's
  error token, on which the parser always raises: modelled as `none`.
* `Impl.Text.parse` — recursive-descent transcription of the grammar productions and actions (`Sequence` versus
  plain `list` flattening included).  It is a hand model of the grammar; PLY's LALR tables are tied to it only by
  the correspondence run.  A primitive outside `prim_tags` in `expr` position is a macro: outside the model (`none`).
-/
namespace Impl.Text
open Generated

abbrev Ranges := List (Nat × Nat)

/-- membership in a regex character class `[a-bc-d…]` given as code-point ranges -/
def inR (rs : Ranges) (c : Char) : Bool := rs.any fun r => decide (r.1 ≤ c.toNat) && decide (c.toNat ≤ r.2)

/-! ## numerals, hex, JSON strings -/

def digitChar (d : Nat) : Char := Char.ofNat (48 + d)

/-- decimal spelling of a natural number (Python `str(int)`) -/
def natRepr (n : Nat) : List Char :=
  if n < 10 then [digitChar n] else natRepr (n / 10) ++ [digitChar (n % 10)]
termination_by n
decreasing_by omega

def intRepr : Int → List Char
  | .ofNat n => natRepr n
  | .negSucc n => '-' :: natRepr (n + 1)

def digitVal? (c : Char) : Option Nat :=
  if 48 ≤ c.toNat ∧ c.toNat ≤ 57 then some (c.toNat - 48) else none

def decodeNatAux : Nat → List Char → Option Nat
  | acc, [] => some acc
  | acc, c :: cs => (digitVal? c).bind fun d => decodeNatAux (acc * 10 + d) cs

def decodeNat (cs : List Char) : Option Nat := if cs.isEmpty then none else decodeNatAux 0 cs

/-- value of an `INT` token (`-?[0-9]+`) -/
def decodeInt : List Char → Option Int
  | '-' :: ds => (decodeNat ds).map fun n => -(n : Int)
  | ds => (decodeNat ds).map fun n => (n : Int)

def hexChar (d : Nat) : Char := if d < 10 then Char.ofNat (48 + d) else Char.ofNat (87 + d)

def hexOf : List Nat → List Char
  | [] => []
  | b :: bs => hexChar (b / 16) :: hexChar (b % 16) :: hexOf bs

def hexVal? (c : Char) : Option Nat :=
  let n := c.toNat
  if 48 ≤ n ∧ n ≤ 57 then some (n - 48)
  else if 97 ≤ n ∧ n ≤ 102 then some (n - 87)
  else if 65 ≤ n ∧ n ≤ 70 then some (n - 55)
  else none

def decodeHex : List Char → Option (List Nat)
  | [] => some []
  | [_] => none
  | a :: b :: rest => do
    let x ← hexVal? a
    let y ← hexVal? b
    let r ← decodeHex rest
    pure ((x * 16 + y) :: r)

/-- `\uXXXX` (lower-case hex, as `'\\u{0:04x}'.format`) -/
def u4 (n : Nat) : List Char :=
  ['\\', 'u', hexChar (n / 4096 % 16), hexChar (n / 256 % 16), hexChar (n / 16 % 16), hexChar (n % 16)]

/-- `json.encoder.py_encode_basestring_ascii`: replacement of one character -/
def escapeChar (c : Char) : List Char :=
  let n := c.toNat
  if c = '"' then ['\\', '"']
  else if c = '\\' then ['\\', '\\']
  else if n = 10 then ['\\', 'n']
  else if n = 13 then ['\\', 'r']
  else if n = 9 then ['\\', 't']
  else if n = 8 then ['\\', 'b']
  else if n = 12 then ['\\', 'f']
  else if 32 ≤ n ∧ n ≤ 126 then [c]
  else if n < 65536 then u4 n
  else u4 (55296 + (n - 65536) / 1024) ++ u4 (56320 + (n - 65536) % 1024)

/-- `json.dumps(s)` (ensure_ascii) -/
def jsonDumps (s : List Char) : List Char := '"' :: (s.flatMap escapeChar ++ ['"'])

/-- first pass of `json.loads` on the text after the opening quote: UTF-16 units up to the closing quote, and
what follows it.  (`scanstring`, strict: raw control characters, unknown escapes, bad `\u` are errors.) -/
def loadsUnits : List Char → Option (List Nat × List Char)
  | [] => none
  | c :: cs =>
    if c = '"' then some ([], cs)
    else if c = '\\' then
      match cs with
      | [] => none
      | e :: cs' =>
        if e = 'u' then
          match cs' with
          | a :: b :: c' :: d :: cs'' => do
            let a ← hexVal? a
            let b ← hexVal? b
            let c' ← hexVal? c'
            let d ← hexVal? d
            let (us, r) ← loadsUnits cs''
            pure ((((a * 16 + b) * 16 + c') * 16 + d) :: us, r)
          | _ => none
        else
          let one (u : Nat) : Option (List Nat × List Char) := (loadsUnits cs').map fun (us, r) => (u :: us, r)
          if e = '"' then one 34 else if e = '\\' then one 92 else if e = '/' then one 47
          else if e = 'b' then one 8 else if e = 'f' then one 12 else if e = 'n' then one 10
          else if e = 'r' then one 13 else if e = 't' then one 9 else none
    else if c.toNat < 32 then none
    else (loadsUnits cs).map fun (us, r) => (c.toNat :: us, r)

/-- second pass: surrogate pairs are joined.  A lone surrogate (which Python keeps as a lone surrogate code point)
has no counterpart in `Char`: `none`. -/
def unitsToChars : List Nat → Option (List Char)
  | [] => some []
  | u :: rest =>
    if 55296 ≤ u ∧ u ≤ 56319 then
      match rest with
      | v :: rest' =>
        if 56320 ≤ v ∧ v ≤ 57343 then
          (unitsToChars rest').map fun cs => Char.ofNat (65536 + (u - 55296) * 1024 + (v - 56320)) :: cs
        else none
      | [] => none
    else if 56320 ≤ u ∧ u ≤ 57343 then none
    else (unitsToChars rest).map fun cs => Char.ofNat u :: cs

/-- `json.loads(tok)` for a `STR` token (which starts with `"`): the decoded string; extra data after the closing
quote is an error -/
def jsonLoads : List Char → Option (List Char)
  | '"' :: cs =>
    match loadsUnits cs with
    | some (us, []) => unitsToChars us
    | _ => none
  | _ => none

/-! ## formatter (format.py) -/

structure FmtCfg where
  lineSize : Nat
  /-- `none`: applied-or-annotated; `some (always, ifAnnots)`: by primitive name -/
  framed : Option (List String × List String)
  complexEq : List String
  complexPrefix : List String
  inlinePrims : List String
  sections : List String

def fmtCfg : Option FmtCfg := do
  let ls ← C18.lineSize
  let fr ← C18.framedRule
  let cx ← C18.complexRule
  let il ← C18.inlinePrims
  let sc ← C18.scriptSections
  pure ⟨ls, fr, cx.1, cx.2, il, sc⟩

/-- `is_framed(node)` -/
def isFramed (cfg : FmtCfg) (p : String) (args : List Mich) (annots : List String) : Bool :=
  match cfg.framed with
  | none => !args.isEmpty || !annots.isEmpty
  | some (always, ifAnnots) =>
    if always.contains p then true else if ifAnnots.contains p then !annots.isEmpty else false

/-- `is_complex(node)` -/
def isComplex (cfg : FmtCfg) (p : String) : Bool :=
  cfg.complexEq.contains p || cfg.complexPrefix.any fun pre => pre.toList.isPrefixOf p.toList

/-- `is_inline(node)` -/
def isInline (cfg : FmtCfg) (p : String) : Bool := cfg.inlinePrims.contains p

def isSection (cfg : FmtCfg) : Mich → Bool
  | .prim p _ _ => cfg.sections.contains p
  | _ => false

/-- `is_script(node)` (true for the empty list, as `all([])`) -/
def isScript (cfg : FmtCfg) (xs : List Mich) : Bool := xs.all (isSection cfg)

def spaces (n : Nat) : List Char := List.replicate n ' '

/-- `sep.join(items)` -/
def joinSep (sep : List Char) : List (List Char) → List Char
  | [] => []
  | [x] => x
  | x :: y :: rest => x ++ sep ++ joinSep sep (y :: rest)

/-- `sum(map(len, items))` -/
def sumLen : List (List Char) → Nat
  | [] => 0
  | x :: xs => x.length + sumLen xs

mutual
  /-- `format_node(node, indent, inline, is_root, wrapped)`; `indent` is always a run of spaces: its length -/
  def fmtNode (cfg : FmtCfg) (inline : Bool) (indent : Nat) (isRoot wrapped : Bool) : Mich → List Char
    | .int v => intRepr v
    | .str s => jsonDumps s.toList
    | .bytes b => '0' :: 'x' :: hexOf b
    | .seq xs =>
      let isScriptRoot := isRoot && isScript cfg xs
      let seqIndent := if isScriptRoot then indent else indent + 2
      let items := fmtItems cfg inline seqIndent xs
      if items.isEmpty then ['{', '}']
      else
        let length := indent + sumLen items + 4
        let space : List Char := if isScriptRoot then [] else [' ']
        let seq :=
          if inline || length < cfg.lineSize then joinSep (space ++ [';', ' ']) items
          else joinSep (space ++ [';', '\n'] ++ spaces seqIndent) items
        if isScriptRoot then seq else ['{', ' '] ++ seq ++ [' ', '}']
    | .prim p args annots =>
      let expr0 := joinSep [' '] (p.toList :: annots.map String.toList)
      let expr :=
        if isComplex cfg p then
          let argIndent := indent + 2
          let items := fmtArgs cfg inline argIndent args
          let length := indent + expr0.length + sumLen items + items.length + 1
          if inline || length < cfg.lineSize then expr0 ++ [' '] ++ joinSep [' '] items
          else joinSep ('\n' :: spaces argIndent) (expr0 :: items)
        else
          match args with
          | [] => expr0
          | [a] => expr0 ++ [' '] ++ fmtNode cfg inline (indent + (expr0.length + 1)) false false a
          | a :: b :: rest =>
            fmtLoop cfg inline indent (isInline cfg p) (indent + (expr0.length + 2)) (indent + 2) expr0 (a :: b :: rest)
      if isFramed cfg p args annots && !isRoot && !wrapped then ['('] ++ expr ++ [')'] else expr
  /-- `map(lambda x: format_node(x, seq_indent, inline, wrapped=True), node)` -/
  def fmtItems (cfg : FmtCfg) (inline : Bool) (indent : Nat) : List Mich → List (List Char)
    | [] => []
    | x :: xs => fmtNode cfg inline indent false true x :: fmtItems cfg inline indent xs
  /-- `map(lambda x: format_node(x, arg_indent, inline), args)` -/
  def fmtArgs (cfg : FmtCfg) (inline : Bool) (indent : Nat) : List Mich → List (List Char)
    | [] => []
    | x :: xs => fmtNode cfg inline indent false false x :: fmtArgs cfg inline indent xs
  /-- the `for arg in args` loop of the several-arguments case (state: `arg_indent`, `expr`) -/
  def fmtLoop (cfg : FmtCfg) (inline : Bool) (indent : Nat) (isInl : Bool) (altIndent : Nat) :
      Nat → List Char → List Mich → List Char
    | _, expr, [] => expr
    | argIndent, expr, a :: rest =>
      let item := fmtNode cfg inline argIndent false false a
      let length := indent + expr.length + item.length + 1
      if inline || isInl || length < cfg.lineSize then
        fmtLoop cfg inline indent isInl altIndent altIndent (expr ++ [' '] ++ item) rest
      else
        fmtLoop cfg inline indent isInl altIndent argIndent (expr ++ ['\n'] ++ spaces argIndent ++ item) rest
end

mutual
  /-- `node.get('prim')` is falsy for an empty name: `format_node` then raises AssertionError -/
  def primsNonEmpty : Mich → Bool
    | .prim p args _ => !p.toList.isEmpty && primsNonEmptyL args
    | .seq xs => primsNonEmptyL xs
    | _ => true
  def primsNonEmptyL : List Mich → Bool
    | [] => true
    | x :: xs => primsNonEmpty x && primsNonEmptyL xs
end

/-- `micheline_to_michelson(data, inline)` (with `wrap=False`) -/
def format (inline : Bool) (e : Mich) : Option (List Char) :=
  fmtCfg.bind fun cfg => if primsNonEmpty e then some (fmtNode cfg inline 0 true false e) else none

/-! ## lexer (parse.py, `SimpleMichelsonLexer`) -/

inductive Tok where
  | int (s : List Char)      -- the matched text
  | byte (s : List Char)     -- the matched text, `0x…`
  | str (s : List Char)      -- the matched text, quotes included
  | annot (s : List Char)
  | prim (s : List Char)
  | lcurly | rcurly | lparen | rparen | semi
  deriving DecidableEq, Repr

inductive Rule where
  | annot | prim | str | byte | mcomment | int | comment | lcurly | lparen | rcurly | rparen | semi
  deriving DecidableEq, Repr

def Rule.ofName (s : String) : Option Rule :=
  if s = "ANNOT" then some .annot else if s = "PRIM" then some .prim else if s = "STR" then some .str
  else if s = "BYTE" then some .byte else if s = "ignore_MULTI_COMMENT" then some .mcomment
  else if s = "INT" then some .int else if s = "ignore_COMMENT" then some .comment
  else if s = "LEFT_CURLY" then some .lcurly else if s = "LEFT_PAREN" then some .lparen
  else if s = "RIGHT_CURLY" then some .rcurly else if s = "RIGHT_PAREN" then some .rparen
  else if s = "SEMI" then some .semi else none

structure LexSpec where
  order : List Rule
  ignore : List Nat
  intDigits : Ranges
  byteDigits : Ranges
  annotHead : Ranges
  annotFirst : Ranges
  annotRest : Ranges
  primHead : Ranges
  primTail : Ranges

def lexSpec : Option LexSpec := do
  let names ← C18.lexOrder
  let order ← names.mapM Rule.ofName
  let ig ← C18.lexIgnore
  let _ ← C18.strShape
  pure ⟨order, ig, ← C18.intDigits, ← C18.byteDigits, ← C18.annotHead, ← C18.annotFirst, ← C18.annotRest,
    ← C18.primHead, ← C18.primTail⟩

/-- `[:@%]+([first][rest]*)?` -/
def scanAnnot (sp : LexSpec) (cs : List Char) : Option (Option Tok × List Char) :=
  let h := cs.takeWhile (inR sp.annotHead)
  if h.isEmpty then none
  else
    match cs.dropWhile (inR sp.annotHead) with
    | [] => some (some (.annot h), [])
    | c :: r =>
      if inR sp.annotFirst c then
        some (some (.annot (h ++ c :: r.takeWhile (inR sp.annotRest))), r.dropWhile (inR sp.annotRest))
      else some (some (.annot h), c :: r)

/-- `[A-Za-z][A-Za-z0-9_]+` -/
def scanPrim (sp : LexSpec) : List Char → Option (Option Tok × List Char)
  | [] => none
  | c :: cs =>
    if inR sp.primHead c then
      let t := cs.takeWhile (inR sp.primTail)
      if t.isEmpty then none else some (some (.prim (c :: t)), cs.dropWhile (inR sp.primTail))
    else none

/-- `(\\.|[^\"])*\"` after the opening quote, greedy path: the consumed text (closing quote included) and the rest.
(When the greedy path finds no closing quote the regex engine backtracks to a shorter token ending in `\"`; such a
token is always rejected by `json.loads` — unterminated string — so that case is an error here as well.) -/
def strBody : List Char → Option (List Char × List Char)
  | [] => none
  | c :: cs =>
    if c = '"' then some (['"'], cs)
    else if c = '\\' then
      match cs with
      | [] => none
      | d :: cs' =>
        -- `\\.` when `d` is not a newline; otherwise `\` by `[^"]` and then the newline by `[^"]`: two characters either way
        (strBody cs').map fun (b, r) => (c :: d :: b, r)
    else (strBody cs).map fun (b, r) => (c :: b, r)

def scanStr : List Char → Option (Option Tok × List Char)
  | '"' :: cs => (strBody cs).map fun (b, r) => (some (.str ('"' :: b)), r)
  | _ => none

/-- `0x[A-Fa-f0-9]*` -/
def scanByte (sp : LexSpec) : List Char → Option (Option Tok × List Char)
  | '0' :: 'x' :: cs =>
    some (some (.byte ('0' :: 'x' :: cs.takeWhile (inR sp.byteDigits))), cs.dropWhile (inR sp.byteDigits))
  | _ => none

/-- `-?[0-9]+` -/
def scanInt (sp : LexSpec) : List Char → Option (Option Tok × List Char)
  | '-' :: cs =>
    let d := cs.takeWhile (inR sp.intDigits)
    if d.isEmpty then none else some (some (.int ('-' :: d)), cs.dropWhile (inR sp.intDigits))
  | cs =>
    let d := cs.takeWhile (inR sp.intDigits)
    if d.isEmpty then none else some (some (.int d), cs.dropWhile (inR sp.intDigits))

/-- `/\*[^*]*\*/` (ignored) -/
def scanMComment : List Char → Option (Option Tok × List Char)
  | '/' :: '*' :: cs =>
    match cs.dropWhile (· ≠ '*') with
    | '*' :: '/' :: r => some (none, r)
    | _ => none
  | _ => none

/-- `#[^\n]*` (ignored) -/
def scanComment : List Char → Option (Option Tok × List Char)
  | '#' :: cs => some (none, cs.dropWhile (· ≠ '\n'))
  | _ => none

def scanChar (ch : Char) (t : Tok) : List Char → Option (Option Tok × List Char)
  | c :: cs => if c = ch then some (some t, cs) else none
  | [] => none

def scanRule (sp : LexSpec) : Rule → List Char → Option (Option Tok × List Char)
  | .annot => scanAnnot sp
  | .prim => scanPrim sp
  | .str => scanStr
  | .byte => scanByte sp
  | .mcomment => scanMComment
  | .int => scanInt sp
  | .comment => scanComment
  | .lcurly => scanChar '{' .lcurly
  | .lparen => scanChar '(' .lparen
  | .rcurly => scanChar '}' .rcurly
  | .rparen => scanChar ')' .rparen
  | .semi => scanChar ';' .semi

/-- the master regex: alternatives in order, first match wins -/
def firstMatch (sp : LexSpec) : List Rule → List Char → Option (Option Tok × List Char)
  | [], _ => none
  | r :: rs, cs =>
    match scanRule sp r cs with
    | some x => some x
    | none => firstMatch sp rs cs


/-! every scanner consumes at least one character (termination of `lexWith`) -/

theorem length_dropWhile_le {α} (p : α → Bool) (l : List α) : (l.dropWhile p).length ≤ l.length := by
  induction l with
  | nil => simp
  | cons a l ih => simp only [List.dropWhile_cons]; split <;> simp <;> omega

theorem strBody_length : ∀ (cs : List Char) {b r}, strBody cs = some (b, r) → r.length < cs.length
  | [], _, _, h => by simp [strBody] at h
  | [c], b, r, h => by
    simp only [strBody] at h
    split at h
    · simp at h; simp [← h.2]
    · split at h
      · simp at h
      · simp at h
  | c :: d :: cs', b, r, h => by
    simp only [strBody] at h
    split at h
    · simp at h; simp [← h.2]
    · split at h
      · simp only [Option.map_eq_some_iff] at h
        obtain ⟨⟨b', r'⟩, h1, h2⟩ := h
        have := strBody_length cs' h1
        simp at h2; simp [← h2.2]; omega
      · simp only [Option.map_eq_some_iff] at h
        obtain ⟨⟨b', r'⟩, h1, h2⟩ := h
        have := strBody_length (d :: cs') h1
        simp at h2; simp [← h2.2] at *; omega

theorem scanRule_length (sp : LexSpec) (r : Rule) (cs : List Char) {t rest}
    (h : scanRule sp r cs = some (t, rest)) : rest.length < cs.length := by
  cases r <;> simp only [scanRule] at h
  · -- annot
    simp only [scanAnnot] at h
    split at h
    · simp at h
    · rename_i hne
      have hd := length_dropWhile_le (inR sp.annotHead) cs
      have ht : 0 < (cs.takeWhile (inR sp.annotHead)).length := by
        cases hh : cs.takeWhile (inR sp.annotHead) with
        | nil => simp [hh] at hne
        | cons _ _ => simp
      have hsum : (cs.takeWhile (inR sp.annotHead)).length + (cs.dropWhile (inR sp.annotHead)).length = cs.length := by
        rw [← List.length_append, List.takeWhile_append_dropWhile]
      split at h
      · simp at h; rw [h.2]; simp; omega
      · rename_i c r' hdw
        rw [hdw] at hsum
        split at h
        · simp at h
          have := length_dropWhile_le (inR sp.annotRest) r'
          rw [← h.2]; simp at hsum; omega
        · simp at h; rw [← h.2]; simp at hsum ⊢; omega
  · -- prim
    cases cs with
    | nil => simp [scanPrim] at h
    | cons c cs =>
      simp only [scanPrim] at h
      split at h
      · split at h
        · simp at h
        · simp at h
          have := length_dropWhile_le (inR sp.primTail) cs
          rw [← h.2]; simp; omega
      · simp at h
  · -- str
    unfold scanStr at h
    split at h
    · simp only [Option.map_eq_some_iff] at h
      obtain ⟨⟨b', r'⟩, h1, h2⟩ := h
      have := strBody_length _ h1
      simp at h2; simp [← h2.2]; omega
    · simp at h
  · -- byte
    unfold scanByte at h
    split at h
    · rename_i cs'
      simp at h
      have := length_dropWhile_le (inR sp.byteDigits) cs'
      rw [← h.2]; simp; omega
    · simp at h
  · -- mcomment
    unfold scanMComment at h
    split at h
    · rename_i cs'
      split at h
      · rename_i r' hdw
        simp at h
        have := length_dropWhile_le (fun x => x ≠ '*') cs'
        rw [hdw] at this
        rw [← h.2]; simp at this ⊢; omega
      · simp at h
    · simp at h
  · -- int
    unfold scanInt at h
    split at h
    · rename_i cs'
      simp only at h
      split at h
      · simp at h
      · simp at h
        have := length_dropWhile_le (inR sp.intDigits) cs'
        rw [← h.2]; simp; omega
    · simp only at h
      split at h
      · simp at h
      · rename_i hne
        simp at h
        have ht : 0 < (cs.takeWhile (inR sp.intDigits)).length := by
          cases hh : cs.takeWhile (inR sp.intDigits) with
          | nil => simp [hh] at hne
          | cons _ _ => simp
        have hsum : (cs.takeWhile (inR sp.intDigits)).length + (cs.dropWhile (inR sp.intDigits)).length = cs.length := by
          rw [← List.length_append, List.takeWhile_append_dropWhile]
        rw [← h.2]; omega
  · -- comment
    unfold scanComment at h
    split at h
    · rename_i cs'
      simp at h
      have := length_dropWhile_le (fun x => !decide (x = '\n')) cs'
      rw [← h.2]; simp; omega
    · simp at h
  all_goals
    cases cs with
    | nil => simp [scanChar] at h
    | cons c cs =>
      simp only [scanChar] at h
      split at h
      · simp at h; rw [← h.2]; simp
      · simp at h

theorem firstMatch_length (sp : LexSpec) (rs : List Rule) (cs : List Char) {t rest}
    (h : firstMatch sp rs cs = some (t, rest)) : rest.length < cs.length := by
  induction rs with
  | nil => simp [firstMatch] at h
  | cons r rs ih =>
    simp only [firstMatch] at h
    split at h
    · rename_i x hx
      cases h
      exact scanRule_length sp r cs hx
    · exact ih h

/-- token stream of a text: `t_ignore` characters are skipped, then the first matching rule decides; ignored
rules (comments) produce no token; no rule matches ⇒ PLY's error token ⇒ the parser raises ⇒ `none` -/
def lexWith (sp : LexSpec) (cs : List Char) : Option (List Tok) :=
  match cs with
  | [] => some []
  | c :: cs' =>
    if sp.ignore.contains c.toNat then lexWith sp cs'
    else
      match h : firstMatch sp sp.order (c :: cs') with
      | none => none
      | some (some t, rest) => (lexWith sp rest).map (t :: ·)
      | some (none, rest) => lexWith sp rest
termination_by cs.length
decreasing_by
  · simp
  · have := firstMatch_length sp sp.order (c :: cs') h; simpa using this
  · have := firstMatch_length sp sp.order (c :: cs') h; simpa using this

def lex (cs : List Char) : Option (List Tok) := lexSpec.bind fun sp => lexWith sp cs

/-! ## parser (parse.py, `MichelsonParser`) -/

/-- value of the non-terminal `instr`: Python `None`, a single node (a dict, or a `Sequence` — represented as
`.seq`), or a plain `list` (the only value `p_instr_list` flattens) -/
inductive IRes where
  | none
  | one (m : Mich)
  | many (ms : List Mich)
  deriving Inhabited

/-- `if type(x) is list: extend(x) elif x is not None: append(x)` -/
def IRes.flat : IRes → List Mich
  | .none => []
  | .one m => [m]
  | .many ms => ms

def Tok.isAnnot : Tok → Bool
  | .annot _ => true
  | _ => false

def Tok.annotText : Tok → String
  | .annot s => String.ofList s
  | _ => ""

/-- tokens that can begin an `arg` -/
def Tok.startsArg : Tok → Bool
  | .prim _ | .int _ | .byte _ | .str _ | .lcurly | .lparen => true
  | _ => false

def litInt (s : List Char) : Option Mich := (decodeInt s).map Mich.int
/-- `{'bytes': p[1][2:]}`; an odd number of hex digits is accepted by the real parser but is not a byte string: `none` -/
def litBytes (s : List Char) : Option Mich := (decodeHex (s.drop 2)).map Mich.bytes
def litStr (s : List Char) : Option Mich := (jsonLoads s).map fun cs => Mich.str (String.ofList cs)

mutual
  /-- `instr : instr SEMI instr | <item>` — items separated by `;` -/
  def parseInstr (tags : List String) : Nat → List Tok → Option (IRes × List Tok)
    | 0, _ => none
    | n + 1, ts => do
      let (item, rest) ← parseItem tags n ts
      match rest with
      | .semi :: rest' => do
        let (r, rest'') ← parseInstr tags n rest'
        pure (.many (item.flat ++ r.flat), rest'')
      | _ => pure (item, rest)
  /-- `instr : expr | empty | INT | BYTE | STR | LEFT_CURLY instr RIGHT_CURLY` -/
  def parseItem (tags : List String) : Nat → List Tok → Option (IRes × List Tok)
    | 0, _ => none
    | _ + 1, .int s :: rest => (litInt s).map fun m => (.one m, rest)
    | _ + 1, .byte s :: rest => (litBytes s).map fun m => (.one m, rest)
    | _ + 1, .str s :: rest => (litStr s).map fun m => (.one m, rest)
    | n + 1, .lcurly :: rest => do
      let (r, rest') ← parseInstr tags n rest
      match rest' with
      | .rcurly :: rest'' => pure (.one (.seq r.flat), rest'')
      | _ => none
    | n + 1, .prim p :: rest => do
      let (e, rest') ← parseExpr tags n p rest
      pure (.one e, rest')
    | _ + 1, ts => pure (.none, ts)
  /-- `expr : PRIM annots args` after the `PRIM` token; a name outside `prim_tags` is a macro (not modelled) -/
  def parseExpr (tags : List String) : Nat → List Char → List Tok → Option (Mich × List Tok)
    | 0, _, _ => none
    | n + 1, p, ts => do
      let annots := (ts.takeWhile Tok.isAnnot).map Tok.annotText
      let (args, rest) ← parseArgs tags n (ts.dropWhile Tok.isAnnot)
      if tags.contains (String.ofList p) then pure (.prim (String.ofList p) args annots, rest) else none
  /-- `args : args arg | arg | empty` -/
  def parseArgs (tags : List String) : Nat → List Tok → Option (List Mich × List Tok)
    | 0, _ => none
    | _ + 1, [] => pure ([], [])
    | n + 1, t :: ts =>
      if t.startsArg then do
        let (a, rest) ← parseArg tags n (t :: ts)
        let (as, rest') ← parseArgs tags n rest
        pure (a :: as, rest')
      else pure ([], t :: ts)
  /-- `arg : PRIM | INT | BYTE | STR | LEFT_CURLY instr RIGHT_CURLY | LEFT_PAREN expr RIGHT_PAREN` -/
  def parseArg (tags : List String) : Nat → List Tok → Option (Mich × List Tok)
    | 0, _ => none
    | _ + 1, .prim p :: rest => pure (.prim (String.ofList p) [] [], rest)
    | _ + 1, .int s :: rest => (litInt s).map fun m => (m, rest)
    | _ + 1, .byte s :: rest => (litBytes s).map fun m => (m, rest)
    | _ + 1, .str s :: rest => (litStr s).map fun m => (m, rest)
    | n + 1, .lcurly :: rest => do
      let (r, rest') ← parseInstr tags n rest
      match rest' with
      | .rcurly :: rest'' => pure (.seq r.flat, rest'')
      | _ => none
    | n + 1, .lparen :: .prim p :: rest => do
      let (e, rest') ← parseExpr tags n p rest
      match rest' with
      | .rparen :: rest'' => pure (e, rest'')
      | _ => none
    | _ + 1, _ => none
end

/-- recursion depth is bounded by two levels per token -/
def parseFuel (ts : List Tok) : Nat := 2 * ts.length + 4

/-- the start symbol `instr` over the whole token stream -/
def parseTop (ts : List Tok) : Option IRes :=
  C18.primTags.bind fun tags =>
    if C18.grammarRecognised then
      match parseInstr tags (parseFuel ts) ts with
      | some (r, []) => some r
      | _ => none
    else none

/-- the Micheline expression a token stream denotes (`None`, i.e. the empty program, is not an expression) -/
def parse (ts : List Tok) : Option Mich :=
  match parseTop ts with
  | some (.one m) => some m
  | some (.many ms) => some (.seq ms)
  | _ => none

/-- `MichelsonParser.parse`: one pair of enclosing parentheses is removed first -/
def stripParens (cs : List Char) : List Char :=
  match cs with
  | '(' :: rest => if cs.getLast? = some ')' then rest.dropLast else cs
  | _ => cs

/-- `michelson_to_micheline(text)` -/
def parseText (cs : List Char) : Option Mich := (lex (stripParens cs)).bind parse

/-! ## the token stream of an expression, and the domain of the round trip -/

def annotToks (annots : List String) : List Tok := annots.map fun a => Tok.annot a.toList

mutual
  /-- tokens of `format_node(e, _, _, is_root, wrapped)` -/
  def toksNode (cfg : FmtCfg) (isRoot wrapped : Bool) : Mich → List Tok
    | .int v => [.int (intRepr v)]
    | .str s => [.str (jsonDumps s.toList)]
    | .bytes b => [.byte ('0' :: 'x' :: hexOf b)]
    | .seq xs =>
      match xs with
      | [] => [.lcurly, .rcurly]
      | _ :: _ =>
        if isRoot && isScript cfg xs then toksItems cfg xs else [.lcurly] ++ toksItems cfg xs ++ [.rcurly]
    | .prim p args annots =>
      let body := [Tok.prim p.toList] ++ annotToks annots ++ toksArgs cfg args
      if isFramed cfg p args annots && !isRoot && !wrapped then [.lparen] ++ body ++ [.rparen] else body
  /-- items of a sequence, separated by `;` -/
  def toksItems (cfg : FmtCfg) : List Mich → List Tok
    | [] => []
    | [x] => toksNode cfg false true x
    | x :: y :: rest => toksNode cfg false true x ++ [.semi] ++ toksItems cfg (y :: rest)
  def toksArgs (cfg : FmtCfg) : List Mich → List Tok
    | [] => []
    | x :: xs => toksNode cfg false false x ++ toksArgs cfg xs
end

/-- token stream of the text of a root expression -/
def toks (e : Mich) : Option (List Tok) := fmtCfg.map fun cfg => toksNode cfg true false e

/-- the name is matched as one `PRIM` token by the lexer -/
def primLexes (sp : LexSpec) (p : List Char) : Bool :=
  match p with
  | c :: d :: rest => inR sp.primHead c && (d :: rest).all (inR sp.primTail)
  | _ => false

/-- the annotation is matched as one `ANNOT` token by the lexer: `[head]+` then nothing or `[first][rest]*` -/
def annotLexes (sp : LexSpec) (a : List Char) : Bool :=
  let h := a.takeWhile (inR sp.annotHead)
  !h.isEmpty &&
    match a.dropWhile (inR sp.annotHead) with
    | [] => true
    | c :: r => inR sp.annotFirst c && r.all (inR sp.annotRest)

mutual
  /-- every node can be written and read back token by token: primitives are `prim_tags` names that lex as `PRIM`,
  annotations lex as one `ANNOT`, bytes are bytes.  (No condition on strings or integers.) -/
  def wfNode (sp : LexSpec) (tags : List String) : Mich → Bool
    | .int _ => true
    | .str _ => true
    | .bytes b => b.all (· < 256)
    | .seq xs => wfList sp tags xs
    | .prim p args annots =>
      tags.contains p && primLexes sp p.toList && annots.all (fun a => annotLexes sp a.toList) && wfList sp tags args
  def wfList (sp : LexSpec) (tags : List String) : List Mich → Bool
    | [] => true
    | x :: xs => wfNode sp tags x && wfList sp tags xs
end

/-- a root list consisting of exactly one `parameter`/`storage`/`code` section is printed as that section alone
(`is_script`), so it reads back as the section, not as a list: not an expression denoting code, a type or data -/
def rootOK (cfg : FmtCfg) : Mich → Bool
  | .seq [x] => !isSection cfg x
  | _ => true

/-- the domain of the round-trip theorems -/
def WFText (e : Mich) : Prop :=
  ∃ sp tags cfg, lexSpec = some sp ∧ C18.primTags = some tags ∧ fmtCfg = some cfg ∧
    wfNode sp tags e = true ∧ rootOK cfg e = true

def wfText (e : Mich) : Bool :=
  match lexSpec, C18.primTags, fmtCfg with
  | some sp, some tags, some cfg => wfNode sp tags e && rootOK cfg e
  | _, _, _ => false

end Impl.Text
