import PytezosModel.Proofs.C03Impl
import PytezosModel.Michelson.BigMap
/-! C15 — big map keys of every comparable Michelson type.

`Impl.BigMap.*` is generic in the key type: it uses `==` / `!=` / `∈` (Python `__eq__`, and `__hash__` + `__eq__` for the
`set` of removed keys) through a `DecidableEq K` instance and `<` (`__lt__`, the only thing `sorted` calls) through the
parameter `lt`.  For the runtime values of a comparable Michelson type `τ` (`Order.TVal τ`, C03) this file provides

* `tvalDecEq τ` — the `DecidableEq (TVal τ)` instance whose decision procedure IS the mirror of the pytezos `__eq__`
  methods (`Impl.Order.eq`, shapes read from the source by the C03 translator): `a == b` on keys evaluates
  `Impl.Order.eq a b`; that this decides equality is C03's `eq_spec` + lawfulness of the Tezos order;
  (this file is imported by the driver, so the correspondence run executes that mirror on every key comparison).

That `__lt__` (`Impl.Order.lt`) is a strict total order on `TVal τ` is `C03.tval_strictTotal`; Props/C15.lean brings it into
the form the big map theorems take as hypothesis (`C15.key_order_strictTotal`).  Nothing is assumed. -/
namespace Proofs.C15Keys
open Order Impl.Order Spec.Order

variable {τ : CTy}

/-- `__eq__` on two values of one comparable type decides equality -/
theorem tval_eq_iff (a b : TVal τ) : TVal.eq a b = true ↔ a = b := by
  unfold TVal.eq
  rw [eq_spec a.2 b.2]
  constructor
  · intro h
    exact Subtype.ext ((spec_lawful τ).eq_imp _ _ a.2 b.2 (by simpa using h))
  · intro h; subst h; simp [(spec_lawful τ).refl _ a.2]

/-- `==` on keys of type `τ`: decided by running the mirror of `__eq__` -/
instance tvalDecEq (τ : CTy) : DecidableEq (TVal τ) := fun a b =>
  decidable_of_iff (TVal.eq a b = true) (tval_eq_iff a b)

/-- `a == b` of the model is `a.__eq__(b)` of the code -/
theorem tval_beq (a b : TVal τ) : (a == b) = TVal.eq a b := by
  cases h : TVal.eq a b with
  | true => exact beq_iff_eq.2 ((tval_eq_iff a b).1 h)
  | false =>
    cases h' : (a == b) with
    | false => rfl
    | true => rw [(tval_eq_iff a b).2 (beq_iff_eq.1 h')] at h; cases h

/-- `a != b` of the model is `not a.__eq__(b)` (none of the comparable classes defines `__ne__`) -/
theorem tval_bne (a b : TVal τ) : (a != b) = !TVal.eq a b := by
  simp only [bne, tval_beq]

/-- a typed key from a structured value that passes the executable typing check -/
def key (τ : CTy) (v : CVal) (h : check τ v = true := by decide) : TVal τ := ⟨v, check_sound τ v h⟩

end Proofs.C15Keys
