import PytezosModel.Michelson.Pack
import PytezosModel.Proofs.MichelineRT
import PytezosModel.Proofs.MichelineStrict
import PytezosModel.Proofs.Annots
import PytezosModel.Proofs.C11RoundTrip
/-! C04 helpers: `unforge_micheline (forge_micheline m) = m` on JSON-shaped Micheline whose primitives are in the
tables and whose annotations are space-free (C05's `unforge_forge` lifted through `Impl.Lower.lower` / `raise`), and the
fact that everything `to_micheline_value` renders is of that kind. -/
namespace Impl.Pack
open VC Core Impl.Value Impl.Lower

theorem ofUtf8_utf8 (s : String) : ofUtf8 (utf8 s) = some s := by
  unfold ofUtf8 utf8
  have h : (List.map UInt8.ofNat (List.map UInt8.toNat s.toUTF8.data.toList)) = s.toUTF8.data.toList := by
    rw [List.map_map]
    conv => rhs; rw [← List.map_id s.toUTF8.data.toList]
    apply List.map_congr_left
    intro a _
    simp
  rw [h]
  simp [String.fromUTF8?, s.isValidUTF8, String.fromUTF8]

theorem mapM_ofUtf8 (as : List String) : (as.map utf8).mapM ofUtf8 = some as := by
  induction as with
  | nil => rfl
  | cons a as ih => simp [List.mapM_cons, ofUtf8_utf8, ih]

theorem annots_back (annots : List String) (h : annotsOk annots = true) (he : annots ≠ []) :
    (splitSp (joinSp (annots.map utf8))).mapM ofUtf8 = some annots ∧ joinSp (annots.map utf8) ≠ [] := by
  have hne : annots.isEmpty = false := by cases annots <;> simp_all
  simp only [annotsOk, hne, Bool.false_or, Bool.and_eq_true, List.all_eq_true, Bool.not_eq_true', bne_iff_ne, ne_eq] at h
  have hsplit := splitSp_joinSp (annots.map utf8) (by simpa using he) (by
    intro a ha
    obtain ⟨s, hs, rfl⟩ := List.mem_map.mp ha
    have := h.1 s hs
    simpa using this)
  exact ⟨by simp only [hsplit]; exact mapM_ofUtf8 annots, h.2⟩

mutual
  /-- lowering to tag bytes succeeds, gives a well-formed binary expression, and raising it gives the input back -/
  theorem lower_raise : ∀ (m : Mich), forgeable m = true →
      ∃ e, lower m = some e ∧ BMich.WF known e = true ∧ raise e = some m
    | .int v, _ => ⟨.int v, by simp [lower], by simp [BMich.WF], by simp [raise]⟩
    | .str s, _ => ⟨.str (utf8 s), by simp [lower], by simp [BMich.WF], by simp [raise, ofUtf8_utf8]⟩
    | .bytes b, _ => ⟨.bytes b, by simp [lower], by simp [BMich.WF], by simp [raise]⟩
    | .seq xs, h => by
      simp only [forgeable] at h
      obtain ⟨es, h1, h2, h3⟩ := lower_raiseL xs h
      exact ⟨.seq es, by simp [lower, h1], by simp [BMich.WF, h2], by simp [raise, h3]⟩
    | .prim p args annots, h => by
      simp only [forgeable, Bool.and_eq_true] at h
      obtain ⟨⟨hp, ha⟩, hargs⟩ := h
      obtain ⟨es, h1, h2, h3⟩ := lower_raiseL args hargs
      simp only [primOk, Bool.and_eq_true, bne_iff_ne, ne_eq] at hp
      obtain ⟨hne, hp⟩ := hp
      cases ht : primTag p with
      | none => simp [ht] at hp
      | some t =>
        simp only [ht, beq_iff_eq] at hp
        by_cases he : annots = []
        · subst he
          refine ⟨.prim t es none, ?_, ?_, ?_⟩
          · simp [lower, hne, ht, h1]
          · simp only [BMich.WF, Bool.and_eq_true]
            exact ⟨⟨by simp [known, hp], by simp⟩, h2⟩
          · simp [raise, hp, h3]
        · obtain ⟨hb1, hb2⟩ := annots_back annots ha he
          have hemp : annots.isEmpty = false := by cases annots <;> simp_all
          refine ⟨.prim t es (some (joinSp (annots.map utf8))), ?_, ?_, ?_⟩
          · simp [lower, hne, ht, h1, hemp]
          · simp only [BMich.WF, Bool.and_eq_true]
            exact ⟨⟨by simp [known, hp], by simpa using hb2⟩, h2⟩
          · simp [raise, hp, h3, hb1]
  theorem lower_raiseL : ∀ (ms : List Mich), forgeableL ms = true →
      ∃ es, lowerList ms = some es ∧ BMich.WFList known es = true ∧ raiseList es = some ms
    | [], _ => ⟨[], by simp [lowerList], by simp [BMich.WFList], by simp [raiseList]⟩
    | m :: ms, h => by
      simp only [forgeableL, Bool.and_eq_true] at h
      obtain ⟨e, h1, h2, h3⟩ := lower_raise m h.1
      obtain ⟨es, g1, g2, g3⟩ := lower_raiseL ms h.2
      exact ⟨e :: es, by simp [lowerList, h1, g1], by simp [BMich.WFList, h2, g2], by simp [raiseList, h3, g3]⟩
end

theorem tables_present : Generated.C05.primTags.isNone = false ∧ Generated.C05.unforgeIntStrict.isNone = false := by
  decide

/-- `unforge_micheline(forge_micheline(m)) = m` -/
theorem unforgeMich_forgeMich (m : Mich) (h : forgeable m = true) (bs : Bytes) (hb : forgeMich m = some bs) :
    unforgeMich bs = some m := by
  obtain ⟨e, h1, h2, h3⟩ := lower_raise m h
  simp only [forgeMich, h1, Option.bind_some] at hb
  have := Impl.Forge.unforge_forge known strict e h2 bs hb
  simp [unforgeMich, tables_present.1, tables_present.2, this, h3]

end Impl.Pack

namespace Impl.Pack
open VC Core Impl.Value Impl.Lower

theorem primOk_values : primOk "Unit" = true ∧ primOk "True" = true ∧ primOk "False" = true ∧ primOk "None" = true ∧
    primOk "Some" = true ∧ primOk "Left" = true ∧ primOk "Right" = true ∧ primOk "Pair" = true ∧ primOk "Elt" = true := by
  decide +kernel

theorem fg_prim0 (p : String) (h : primOk p = true) : forgeable (prim0 p) = true := by
  simp [prim0, forgeable, forgeableL, h, annotsOk]

theorem fg_prim1 (p : String) (h : primOk p = true) (m : Mich) (hm : forgeable m = true) :
    forgeable (.prim p [m] []) = true := by
  simp [forgeable, forgeableL, h, annotsOk, hm]

theorem fg_pairOf (ms : List Mich) (h : forgeableL ms = true) : forgeable (pairOf ms) = true := by
  simp [pairOf, forgeable, primOk_values.2.2.2.2.2.2.2.1, annotsOk, h]

theorem fgL_map {α : Type} (f : α → Mich) (xs : List α) (h : ∀ x ∈ xs, forgeable (f x) = true) :
    forgeableL (xs.map f) = true := by
  induction xs with
  | nil => simp [forgeableL]
  | cons x xs ih => simp [forgeableL, h x (by simp), ih (fun y hy => h y (by simp [hy]))]

theorem fg_pairNode (mode : Mode) (ma mb : Mich) (items : List Mich) (ha : forgeable ma = true) (hb : forgeable mb = true)
    (hi : forgeableL items = true) : forgeable (pairNode mode ma mb items) = true := by
  cases mode with
  | readable => exact fg_pairOf items hi
  | legacyOptimized => exact fg_pairOf _ (by simp [forgeableL, ha, hb])
  | optimized =>
    simp only [pairNode]
    split
    · exact fg_pairOf _ hi
    · rename_i x y z
      simp only [forgeableL, Bool.and_eq_true, Bool.and_true] at hi
      exact fg_pairOf _ (by simp [forgeableL, hi.1, fg_pairOf [y, z] (by simp [forgeableL, hi.2.1, hi.2.2])])
    · simpa [forgeable] using hi

theorem renderE_eq_map (env : Env) (mode : Mode) (lz : Option Bool) (kvs : List (Val × Val)) :
    renderE env mode lz kvs =
      kvs.map (fun kv => .prim "Elt" [(render env mode lz kv.1).1, (render env mode lz kv.2).1] []) := by
  induction kvs with
  | nil => simp [renderE]
  | cons kv kvs ih => obtain ⟨k, v⟩ := kv; simp [renderE, ih]

/-- everything `to_micheline_value` renders survives the binary codec, provided the lambda bodies do -/
theorem render_forgeable (env : Env) (mode : Mode)
    (hcode : ∀ code, env.lambdaOk code = true → forgeableL code = true) :
    ∀ (τ : Ty) (lz : Option Bool) (v : Val), hasTy env τ v = true →
      forgeable (render env mode lz v).1 = true ∧ forgeableL (render env mode lz v).2 = true := by
  have P := primOk_values
  intro τ
  induction τ with
  | leaf l a =>
    intro lz v hty
    cases l <;> cases v <;> simp [hasTy] at hty <;>
      simp [render, forgeable, forgeableL, fg_prim0, P, tsToMich, domToMich]
    · rename_i b; cases b <;> simp [fg_prim0, P]
    · split <;> try split
      all_goals simp [forgeable]
    · split <;> simp [forgeable]
    · split <;> simp [forgeable]
  | option t a ih =>
    intro lz v hty
    cases v <;> simp [hasTy] at hty <;> simp [render, forgeableL, fg_prim0, P]
    exact fg_prim1 _ P.2.2.2.2.1 _ (ih lz _ hty).1
  | or l r a ihl ihr =>
    intro lz v hty
    cases v <;> simp [hasTy] at hty <;> simp [render, forgeableL]
    · exact fg_prim1 _ P.2.2.2.2.2.1 _ (ihl lz _ hty).1
    · exact fg_prim1 _ P.2.2.2.2.2.2.1 _ (ihr lz _ hty).1
  | pair l r a ihl ihr =>
    intro lz v hty
    cases v <;> simp [hasTy] at hty
    rename_i n x y
    rw [render_pair]
    have hx := ihl lz x hty.1.2
    have hy := ihr lz y hty.2
    have hitems : forgeableL ((render env mode lz x).1 ::
        (if flattens y then (render env mode lz y).2 else [(render env mode lz y).1])) = true := by
      split <;> simp [forgeableL, hx.1, hy.1, hy.2]
    exact ⟨fg_pairNode mode _ _ _ hx.1 hy.1 hitems, hitems⟩
  | list t a ih =>
    intro lz v hty
    cases v <;> simp only [hasTy, Bool.false_eq_true] at hty
    simp only [render, forgeable, forgeableL, and_true, renderL_eq_map]
    exact fgL_map _ _ (fun x hx => (ih lz x (List.all_eq_true.mp hty x hx)).1)
  | set t a ih =>
    intro lz v hty
    cases v <;> simp only [hasTy, Bool.false_eq_true, Bool.and_eq_true] at hty
    simp only [render, forgeable, forgeableL, and_true, renderL_eq_map]
    exact fgL_map _ _ (fun x hx => (ih lz x (List.all_eq_true.mp hty.1 x hx)).1)
  | map k v a ihk ihv =>
    intro lz w hty
    cases w <;> simp only [hasTy, Bool.false_eq_true, Bool.and_eq_true] at hty
    simp only [render, forgeable, forgeableL, and_true, renderE_eq_map]
    apply fgL_map
    intro kv hkv
    have t := all_and _ _ _ hty.1 kv hkv
    simp [forgeable, forgeableL, P, annotsOk, (ihk lz _ t.1).1, (ihv lz _ t.2).1]
  | bigMap k v a ihk ihv =>
    intro lz w hty
    cases w <;> simp only [hasTy, Bool.false_eq_true, Bool.and_eq_true] at hty
    simp only [render, forgeableL, and_true]
    split
    · simp only [forgeable, renderE_eq_map]
      apply fgL_map
      intro kv hkv
      have t := all_and _ _ _ hty.1 kv hkv
      simp [forgeable, forgeableL, P, annotsOk, (ihk _ _ t.1).1, (ihv _ _ t.2).1]
    · simp [forgeable]
  | lambda x y a _ _ =>
    intro lz w hty
    cases w <;> simp only [hasTy, Bool.false_eq_true] at hty
    simp [render, forgeable, forgeableL, hcode _ hty]
  | contract p a _ =>
    intro lz w hty
    cases w <;> simp only [hasTy, Bool.false_eq_true] at hty
    simp only [render, domToMich, forgeableL, and_true]
    split <;> simp [forgeable]
  | ticket t a ih =>
    intro lz w hty
    cases w <;> simp only [hasTy, Bool.false_eq_true, Bool.and_eq_true] at hty
    have hi := (ih (some false) _ hty.1.2).1
    have hd : ∀ d, forgeable (domToMich env mode .address d) = true := by
      intro d; simp only [domToMich]; split <;> simp [forgeable]
    simp only [render, forgeableL, and_true]
    cases mode <;> simp [pairOf, forgeable, forgeableL, P, annotsOk, hd, hi]
  | saplingState m a =>
    intro lz w hty
    cases w <;> simp only [hasTy, Bool.false_eq_true] at hty
    simp only [render, forgeableL, and_true]
    split <;> simp [forgeable, forgeableL]

end Impl.Pack
