import PytezosModel.Michelson.Constants
/-! Helper lemmas for C33: the mirror `expandWith` against the reference `substWith`, level by level. -/
namespace Proofs.C33
open Impl.Constants Spec.Constants Generated.C33

/-- the shape the proofs are written for (what the pinned source contains) -/
def S0 : ResolveShape := { constPrim := "constant", hashArg := 0, hashField := "string" }

/-- expansion to depth `k`: references are followed `k` times -/
def expandK (reg : Registry) : Nat → Mich → Mich
  | 0, e => e
  | k + 1, e => substWith (fun h => (reg.lookup h).map (expandK reg k)) e

theorem refOf_some {m : Mich} {h : String} (hm : refOf m = some h) : m = .prim "constant" [.str h] [] := by
  unfold refOf at hm
  split at hm
  · next p h' =>
    split at hm
    · next hp => cases hm; rw [hp]
    · cases hm
  · cases hm

/-! ### the reference substitution -/

mutual
  theorem substWith_none : (e : Mich) → substWith (fun _ => none) e = e
    | .prim p args an => by
      simp only [substWith]
      split
      · cases refOf (.prim p args an) <;> rfl
      · rw [substWithList_none args]
    | .seq xs => by simp only [substWith, substWithList_none xs]
    | .int _ => rfl
    | .str _ => rfl
    | .bytes _ => rfl
  theorem substWithList_none : (es : List Mich) → substWithList (fun _ => none) es = es
    | [] => rfl
    | e :: es => by simp only [substWithList, substWith_none e, substWithList_none es]
end

mutual
  /-- two rounds fuse: substituting `G` after `L` = substituting `L` with `G` applied to the inserted expressions -/
  theorem substWith_comp (L G : String → Option Mich) (hLG : ∀ h, L h = none → G h = none) :
      (e : Mich) → substWith G (substWith L e) = substWith (fun h => (L h).map (substWith G)) e
    | .prim p args an => by
      by_cases hp : p = "constant"
      · simp only [substWith, hp, if_true]
        cases hr : refOf (.prim "constant" args an) with
        | none => simp [substWith, hr]
        | some h =>
          simp only [Option.bind_some]
          cases hl : L h with
          | none => simp [substWith, hr, hLG h hl]
          | some v => simp
      · simp only [substWith, hp, if_false]
        rw [substWithList_comp L G hLG args]
    | .seq xs => by simp only [substWith, substWithList_comp L G hLG xs]
    | .int _ => rfl
    | .str _ => rfl
    | .bytes _ => rfl
  theorem substWithList_comp (L G : String → Option Mich) (hLG : ∀ h, L h = none → G h = none) :
      (es : List Mich) → substWithList G (substWithList L es) = substWithList (fun h => (L h).map (substWith G)) es
    | [] => rfl
    | e :: es => by simp only [substWithList, substWith_comp L G hLG e, substWithList_comp L G hLG es]
end

theorem expandK_subst1 (reg : Registry) (k : Nat) (e : Mich) : expandK reg k (subst1 reg e) = expandK reg (k + 1) e := by
  cases k with
  | zero =>
    simp only [expandK, subst1]
    congr 1
    funext h
    cases reg.lookup h <;> rfl
  | succ k =>
    simp only [subst1]
    rw [expandK]
    rw [substWith_comp (fun h => reg.lookup h) (fun h => (reg.lookup h).map (expandK reg k))
      (by intro h hl; simp [hl]) e]
    rfl

/-- `k` rounds of one-step substitution = expansion to depth `k` -/
theorem iter_eq_expandK (reg : Registry) : ∀ k e, iter (subst1 reg) k e = expandK reg k e := by
  intro k
  induction k with
  | zero => intro e; rfl
  | succ k ih => intro e; rw [iter, ih, expandK_subst1]

/-! ### the mirror against the reference, one level -/

mutual
  /-- all references resolve: the mirror returns the substituted tree, and no `constant` node is left -/
  theorem expand_ok (kf : String → Except Err Mich) (g : String → Option Mich) : (e : Mich) → wf e = true →
      (∀ h ∈ refs e, ∃ r, kf h = .ok r ∧ g h = some r ∧ noConstant r = true) →
      expandWith S0 kf e = .ok (substWith g e) ∧ noConstant (substWith g e) = true
    | .prim p args an => by
      intro hwf href
      by_cases hp : p = "constant"
      · subst hp
        simp only [wf, if_true] at hwf
        obtain ⟨h, hr⟩ := Option.isSome_iff_exists.mp hwf
        have hshape := refOf_some hr
        injection hshape with _ ha hn
        subst ha; subst hn
        obtain ⟨r, h1, h2, h3⟩ := href h (by simp [refs, hr])
        have he : expandWith S0 kf (.prim "constant" [.str h] []) = kf h := by simp [expandWith, S0, hashOf]
        rw [he]
        simp [substWith, hr, h1, h2, h3]
      · have hp' : (p == S0.constPrim) = false := by show (p == "constant") = false; simpa using hp
        have hne : (p != "constant") = true := by simpa using hp
        simp only [wf, hp, if_false] at hwf
        simp only [refs, hp, if_false] at href
        have ih := expandList_ok kf g args hwf href
        cases args with
        | nil => simp [expandWith, hp', substWith, hp, substWithList, noConstant, noConstantList, hne]
        | cons a as =>
          simp only [expandWith, hp', Bool.false_eq_true, if_false, List.isEmpty_cons, substWith, hp, noConstant, hne,
            Bool.true_and, ih.1]
          exact ⟨trivial, ih.2⟩
    | .seq xs => by
      intro hwf href
      simp only [wf] at hwf
      simp only [refs] at href
      have ih := expandList_ok kf g xs hwf href
      simp only [expandWith, substWith, noConstant, ih.1]
      exact ⟨trivial, ih.2⟩
    | .int _ => by intro _ _; simp [expandWith, substWith, noConstant]
    | .str _ => by intro _ _; simp [expandWith, substWith, noConstant]
    | .bytes _ => by intro _ _; simp [expandWith, substWith, noConstant]
  theorem expandList_ok (kf : String → Except Err Mich) (g : String → Option Mich) : (es : List Mich) → wfList es = true →
      (∀ h ∈ refsList es, ∃ r, kf h = .ok r ∧ g h = some r ∧ noConstant r = true) →
      expandList S0 kf es = .ok (substWithList g es) ∧ noConstantList (substWithList g es) = true
    | [] => by intro _ _; simp [expandList, substWithList, noConstantList]
    | e :: es => by
      intro hwf href
      simp only [wfList, Bool.and_eq_true] at hwf
      simp only [refsList, List.mem_append] at href
      have h1 := expand_ok kf g e hwf.1 (fun h hh => href h (Or.inl hh))
      have h2 := expandList_ok kf g es hwf.2 (fun h hh => href h (Or.inr hh))
      simp [expandList, substWithList, noConstantList, h1.1, h1.2, h2.1, h2.2]
end

/-- the result is the error "unknown hash `h'`" for an `h'` satisfying `Q` -/
def Fails {α : Type} (Q : String → Prop) (x : Except Err α) : Prop := ∃ h', x = .error (.unknown h') ∧ Q h'

def OkOrFails {α : Type} (Q : String → Prop) (x : Except Err α) : Prop := (∃ r, x = .ok r) ∨ Fails Q x

mutual
  /-- if every reference either resolves or fails with an unknown hash, so does the whole expansion, and it fails as
  soon as one reference does -/
  theorem expand_fail (kf : String → Except Err Mich) (Q : String → Prop) : (e : Mich) → wf e = true →
      (∀ h ∈ refs e, OkOrFails Q (kf h)) →
      OkOrFails Q (expandWith S0 kf e) ∧ ((∃ h ∈ refs e, Fails Q (kf h)) → Fails Q (expandWith S0 kf e))
    | .prim p args an => by
      intro hwf href
      by_cases hp : p = "constant"
      · subst hp
        simp only [wf, if_true] at hwf
        obtain ⟨h, hr⟩ := Option.isSome_iff_exists.mp hwf
        have hshape := refOf_some hr
        injection hshape with _ ha hn
        subst ha; subst hn
        have hrefs : refs (.prim "constant" [.str h] []) = [h] := by simp [refs, hr]
        have he : expandWith S0 kf (.prim "constant" [.str h] []) = kf h := by simp [expandWith, S0, hashOf]
        rw [he, hrefs]
        refine ⟨href h (by simp [hrefs]), ?_⟩
        rintro ⟨h', hh', hf⟩
        simp only [List.mem_singleton] at hh'
        subst hh'; exact hf
      · have hp' : (p == S0.constPrim) = false := by show (p == "constant") = false; simpa using hp
        simp only [wf, hp, if_false] at hwf
        simp only [refs, hp, if_false] at href ⊢
        have ih := expandList_fail kf Q args hwf href
        cases args with
        | nil =>
          simp only [expandWith, hp', Bool.false_eq_true, if_false, List.isEmpty_nil, if_true, refsList]
          exact ⟨Or.inl ⟨_, rfl⟩, by rintro ⟨h, hh, _⟩; cases hh⟩
        | cons a as =>
          simp only [expandWith, hp', Bool.false_eq_true, if_false, List.isEmpty_cons]
          cases hl : expandList S0 kf (a :: as) with
          | ok r => exact ⟨Or.inl ⟨_, rfl⟩, fun hf => by
              obtain ⟨h', he, _⟩ := ih.2 hf
              rw [hl] at he; cases he⟩
          | error err =>
            rw [hl] at ih
            have hfail : Fails Q (Except.error err : Except Err (List Mich)) := by
              rcases ih.1 with ⟨r, hr⟩ | hf
              · cases hr
              · exact hf
            obtain ⟨h', he, hq⟩ := hfail
            cases he
            exact ⟨Or.inr ⟨h', rfl, hq⟩, fun _ => ⟨h', rfl, hq⟩⟩
    | .seq xs => by
      intro hwf href
      simp only [wf] at hwf
      simp only [refs] at href ⊢
      have ih := expandList_fail kf Q xs hwf href
      simp only [expandWith]
      cases hl : expandList S0 kf xs with
      | ok r => exact ⟨Or.inl ⟨_, rfl⟩, fun hf => by
          obtain ⟨h', he, _⟩ := ih.2 hf
          rw [hl] at he; cases he⟩
      | error err =>
        rw [hl] at ih
        have hfail : Fails Q (Except.error err : Except Err (List Mich)) := by
          rcases ih.1 with ⟨r, hr⟩ | hf
          · cases hr
          · exact hf
        obtain ⟨h', he, hq⟩ := hfail
        cases he
        exact ⟨Or.inr ⟨h', rfl, hq⟩, fun _ => ⟨h', rfl, hq⟩⟩
    | .int _ => by intro _ _; exact ⟨Or.inl ⟨_, rfl⟩, by rintro ⟨h, hh, _⟩; simp [refs] at hh⟩
    | .str _ => by intro _ _; exact ⟨Or.inl ⟨_, rfl⟩, by rintro ⟨h, hh, _⟩; simp [refs] at hh⟩
    | .bytes _ => by intro _ _; exact ⟨Or.inl ⟨_, rfl⟩, by rintro ⟨h, hh, _⟩; simp [refs] at hh⟩
  theorem expandList_fail (kf : String → Except Err Mich) (Q : String → Prop) : (es : List Mich) → wfList es = true →
      (∀ h ∈ refsList es, OkOrFails Q (kf h)) →
      OkOrFails Q (expandList S0 kf es) ∧ ((∃ h ∈ refsList es, Fails Q (kf h)) → Fails Q (expandList S0 kf es))
    | [] => by
      intro _ _
      exact ⟨Or.inl ⟨_, rfl⟩, by rintro ⟨h, hh, _⟩; simp [refsList] at hh⟩
    | e :: es => by
      intro hwf href
      simp only [wfList, Bool.and_eq_true] at hwf
      simp only [refsList, List.mem_append] at href ⊢
      have h1 := expand_fail kf Q e hwf.1 (fun h hh => href h (Or.inl hh))
      have h2 := expandList_fail kf Q es hwf.2 (fun h hh => href h (Or.inr hh))
      simp only [expandList]
      cases he : expandWith S0 kf e with
      | error err =>
        rw [he] at h1
        have hfail : Fails Q (Except.error err : Except Err Mich) := by
          rcases h1.1 with ⟨r, hr⟩ | hf
          · cases hr
          · exact hf
        obtain ⟨h', hh, hq⟩ := hfail
        cases hh
        exact ⟨Or.inr ⟨h', rfl, hq⟩, fun _ => ⟨h', rfl, hq⟩⟩
      | ok e' =>
        rw [he] at h1
        simp only
        cases hl : expandList S0 kf es with
        | error err =>
          rw [hl] at h2
          have hfail : Fails Q (Except.error err : Except Err (List Mich)) := by
            rcases h2.1 with ⟨r, hr⟩ | hf
            · cases hr
            · exact hf
          obtain ⟨h', hh, hq⟩ := hfail
          cases hh
          exact ⟨Or.inr ⟨h', rfl, hq⟩, fun _ => ⟨h', rfl, hq⟩⟩
        | ok es' =>
          rw [hl] at h2
          refine ⟨Or.inl ⟨_, rfl⟩, ?_⟩
          rintro ⟨h, hh | hh, hf⟩
          · obtain ⟨h', hx, _⟩ := h1.2 ⟨h, hh, hf⟩; cases hx
          · obtain ⟨h', hx, _⟩ := h2.2 ⟨h, hh, hf⟩; cases hx
end

/-! ### reachability -/

theorem reach_mono (reg : Registry) {e v : Mich} {h h' : String} (hh : h ∈ refs e) (hl : reg.lookup h = some v)
    (hr : Reach reg v h') : Reach reg e h' := by
  induction hr with
  | direct hm => exact .step (.direct hh) hl hm
  | step _ hl2 hm ih => exact .step ih hl2 hm

theorem reach_first (reg : Registry) {e : Mich} {h : String} (hr : Reach reg e h) :
    h ∈ refs e ∨ ∃ h1 ∈ refs e, ∃ v1, reg.lookup h1 = some v1 ∧ Reach reg v1 h := by
  induction hr with
  | direct hm => exact Or.inl hm
  | step _ hl hm ih =>
    rcases ih with h0 | ⟨h1, hh1, v1, hl1, hr1⟩
    · exact Or.inr ⟨_, h0, _, hl, .direct hm⟩
    · exact Or.inr ⟨h1, hh1, v1, hl1, .step hr1 hl hm⟩

/-! ### all levels -/

theorem level (reg : Registry) (rank : String → Nat)
    (hrank : ∀ h v, reg.lookup h = some v → ∀ h' ∈ refs v, reg.lookup h' ≠ none → rank h' < rank h) :
    ∀ k e, wf e = true → (∀ h v, Reach reg e h → reg.lookup h = some v → wf v = true) →
      (∀ h ∈ refs e, reg.lookup h ≠ none → rank h < k) →
      (AllRegistered reg e → resolveFuel S0 reg k e = .ok (expandK reg k e) ∧ noConstant (expandK reg k e) = true) ∧
      (¬ AllRegistered reg e → Fails (fun h' => Reach reg e h' ∧ reg.lookup h' = none) (resolveFuel S0 reg k e)) := by
  intro k
  induction k with
  | zero =>
    intro e hwf _ hk
    have hnoreg : ∀ h ∈ refs e, reg.lookup h = none := by
      intro h hh
      cases hl : reg.lookup h with
      | none => rfl
      | some v => have := hk h hh (by simp [hl]); omega
    constructor
    · intro hall
      have hno : ∀ h, h ∉ refs e := fun h hh => hall h (.direct hh) (hnoreg h hh)
      have := expand_ok (fun h => match reg.lookup h with
          | none => Except.error (Err.unknown h)
          | some _ => Except.error Err.recursion) (fun _ => none) e hwf (fun h hh => absurd hh (hno h))
      rw [substWith_none] at this
      exact this
    · intro hnall
      have hex : ∃ h, Reach reg e h ∧ reg.lookup h = none := by
        apply Classical.byContradiction
        intro hc
        apply hnall
        intro h hr hl
        exact hc ⟨h, hr, hl⟩
      obtain ⟨h, hr, hl⟩ := hex
      have hfirst : h ∈ refs e := by
        rcases reach_first reg hr with h0 | ⟨h1, hh1, v1, hl1, _⟩
        · exact h0
        · have := hnoreg h1 hh1; rw [this] at hl1; cases hl1
      have hf := expand_fail (fun h => match reg.lookup h with
          | none => Except.error (Err.unknown h)
          | some _ => Except.error Err.recursion) (fun h' => Reach reg e h' ∧ reg.lookup h' = none) e hwf
        (by
          intro h2 hh2
          right
          exact ⟨h2, by simp [hnoreg h2 hh2], .direct hh2, hnoreg h2 hh2⟩)
      exact hf.2 ⟨h, hfirst, h, by simp [hl], hr, hl⟩
  | succ k ih =>
    intro e hwf hwfr hk
    -- what the continuation does on each direct reference
    have hkf : ∀ h ∈ refs e,
        (reg.lookup h = none) ∨
        (∃ v, reg.lookup h = some v ∧
          ((AllRegistered reg v → resolveFuel S0 reg k v = .ok (expandK reg k v) ∧ noConstant (expandK reg k v) = true) ∧
           (¬ AllRegistered reg v → Fails (fun h' => Reach reg v h' ∧ reg.lookup h' = none) (resolveFuel S0 reg k v)))) := by
      intro h hh
      cases hl : reg.lookup h with
      | none => exact Or.inl rfl
      | some v =>
        right
        refine ⟨v, rfl, ?_⟩
        apply ih v (hwfr h v (.direct hh) hl)
        · intro h2 v2 hr2 hl2
          exact hwfr h2 v2 (reach_mono reg hh hl hr2) hl2
        · intro h2 hh2 hl2
          have h1 := hrank h v hl h2 hh2 hl2
          have h3 := hk h hh (by simp [hl])
          omega
    constructor
    · intro hall
      have := expand_ok (fun h => match reg.lookup h with
          | none => Except.error (Err.unknown h)
          | some v => resolveFuel S0 reg k v) (fun h => (reg.lookup h).map (expandK reg k)) e hwf (by
        intro h hh
        rcases hkf h hh with hl | ⟨v, hl, hv, _⟩
        · exact absurd hl (hall h (.direct hh))
        · have hallv : AllRegistered reg v := fun h2 hr2 => hall h2 (reach_mono reg hh hl hr2)
          obtain ⟨h1, h2⟩ := hv hallv
          exact ⟨expandK reg k v, by simp [hl, h1], by simp [hl], h2⟩)
      exact this
    · intro hnall
      have hex : ∃ h, Reach reg e h ∧ reg.lookup h = none := by
        apply Classical.byContradiction
        intro hc
        apply hnall
        intro h hr hl
        exact hc ⟨h, hr, hl⟩
      obtain ⟨h, hr, hl⟩ := hex
      have hf := expand_fail (fun h => match reg.lookup h with
          | none => Except.error (Err.unknown h)
          | some v => resolveFuel S0 reg k v) (fun h' => Reach reg e h' ∧ reg.lookup h' = none) e hwf (by
        intro h2 hh2
        rcases hkf h2 hh2 with hl2 | ⟨v, hl2, hv1, hv2⟩
        · right; exact ⟨h2, by simp [hl2], .direct hh2, hl2⟩
        · by_cases hallv : AllRegistered reg v
          · left; exact ⟨expandK reg k v, by simp [hl2, (hv1 hallv).1]⟩
          · right
            obtain ⟨h', he, hr', hl'⟩ := hv2 hallv
            exact ⟨h', by simp [hl2, he], reach_mono reg hh2 hl2 hr', hl'⟩)
      apply hf.2
      rcases reach_first reg hr with h0 | ⟨h1, hh1, v1, hl1, hr1⟩
      · exact ⟨h, h0, h, by simp [hl], hr, hl⟩
      · rcases hkf h1 hh1 with hl2 | ⟨v, hl2, _, hv2⟩
        · rw [hl2] at hl1; cases hl1
        · have hvv : v = v1 := by rw [hl2] at hl1; exact Option.some.inj hl1
          subst hvv
          have hnallv : ¬ AllRegistered reg v := fun ha => ha h hr1 hl
          obtain ⟨h', he, hr', hl'⟩ := hv2 hnallv
          exact ⟨h1, hh1, h', by simp [hl2, he], reach_mono reg hh1 hl2 hr', hl'⟩

/-! ### no reference left: substitution is the identity -/

mutual
  theorem substWith_noConstant (g : String → Option Mich) : (e : Mich) → noConstant e = true → substWith g e = e
    | .prim p args an => by
      intro h
      simp only [noConstant, Bool.and_eq_true, bne_iff_ne, ne_eq] at h
      simp only [substWith, h.1, if_false, substWithList_noConstant g args h.2]
    | .seq xs => by intro h; simp only [noConstant] at h; simp only [substWith, substWithList_noConstant g xs h]
    | .int _ => fun _ => rfl
    | .str _ => fun _ => rfl
    | .bytes _ => fun _ => rfl
  theorem substWithList_noConstant (g : String → Option Mich) : (es : List Mich) → noConstantList es = true → substWithList g es = es
    | [] => fun _ => rfl
    | e :: es => by
      intro h
      simp only [noConstantList, Bool.and_eq_true] at h
      simp only [substWithList, substWith_noConstant g e h.1, substWithList_noConstant g es h.2]
end

/-! ### the example registry used for the non-vacuity instances in `Props/C33.lean` -/

def regEx : Registry :=
  [("hB", .prim "pair" [.prim "constant" [.str "hA"] [], .prim "nat" [] ["%n"]] ["%p"]), ("hA", .prim "int" [] [])]

def scriptEx : Mich :=
  .seq [.prim "storage" [.prim "or" [.prim "constant" [.str "hB"] [], .prim "constant" [.str "hA"] []] [":t"]] []]

theorem regEx_lookup (h : String) (v : Mich) (hl : regEx.lookup h = some v) :
    (h = "hB" ∧ v = .prim "pair" [.prim "constant" [.str "hA"] [], .prim "nat" [] ["%n"]] ["%p"]) ∨ (h = "hA" ∧ v = .prim "int" [] []) := by
  simp only [regEx, List.lookup] at hl
  split at hl
  · next heq => left; exact ⟨by simpa using heq, by cases hl; rfl⟩
  · split at hl
    · next heq => right; exact ⟨by simpa using heq, by cases hl; rfl⟩
    · cases hl

end Proofs.C33
