import PytezosModel.Proofs.C19Dispatch
/-! C19 helper lemmas: one step of `expand`, and the evaluation of the building blocks of expansions. -/
set_option linter.unusedSimpArgs false
namespace C19.Expand
open Impl.Macros Generated.C19 Spec Sem C19.Dispatch

def tags : List (List Char) := primTags.getD []
theorem primTags_eq : primTags = some tags := rfl

set_option maxRecDepth 100000 in
/-- no key of `prim_tags` is matched by a regex of the macro table -/
theorem tags_not_dispatched :
    tags.all (fun s => match dispatch handlers s with | .ok none => true | _ => false) = true := by decide +kernel

theorem not_tag_of_dispatch {s : List Char} {h : Handler} {g : List Char}
    (hd : dispatch handlers s = .ok (some (h, g))) : tags.contains s = false := by
  cases hc : tags.contains s with
  | false => rfl
  | true =>
    have hm : s ∈ tags := by simpa using hc
    have := List.all_eq_true.mp tags_not_dispatched s hm
    rw [hd] at this
    exact absurd this (by simp)

theorem expand_step (fuel : Nat) (s : List Char) (an : List String) (args : List Mich) (internal : Bool)
    (h : Handler) (g : List Char) (hd : dispatch handlers s = .ok (some (h, g))) (hs : h.shape = some 0) :
    expand (fuel + 1) s an args internal =
      (runHandler (fun p a r => expand fuel p a r true) h.func g an args).map
        (fun res => if internal then res else seqM res) := by
  have hc : coreOk = true := rfl
  rw [expand, primTags_eq]
  simp only [hc, not_tag_of_dispatch hd, hd, hs, Bool.not_true, Bool.false_eq_true, if_false, bne_self_eq_false,
    bind, Except.bind, pure, Except.pure]
  cases runHandler (fun p a r => expand fuel p a r true) h.func g an args <;> rfl

theorem expand_tag (fuel : Nat) (s : List Char) (an : List String) (args : List Mich) (internal : Bool)
    (ht : tags.contains s = true) :
    expand (fuel + 1) s an args internal = .ok (.prim (String.ofList s) args an) := by
  have hc : coreOk = true := rfl
  rw [expand, primTags_eq]
  simp only [hc, ht, Bool.not_true, Bool.false_eq_true, if_false, if_true]
  rfl

end C19.Expand

namespace C19.Expand
open Impl.Macros Generated.C19 Spec Sem C19.Dispatch

/-! ### C[AD]+R -/

abbrev Recur := List Char → List String → List Mich → M Mich

theorem runHandler_caxr (recur : Recur) (g : List Char) (an : List String) :
    runHandler recur "expand_caxr" g an [] =
      (recur ('C' :: g ++ ['R']) an []).bind fun r => .ok (.seq (.prim "CAR" [] [] :: seqList r)) := rfl

theorem runHandler_cdxr (recur : Recur) (g : List Char) (an : List String) :
    runHandler recur "expand_cdxr" g an [] =
      (recur ('C' :: g ++ ['R']) an []).bind fun r => .ok (.seq (.prim "CDR" [] [] :: seqList r)) := rfl

theorem eval_CAR (ext : Ext) (an : List String) : eval ext (.prim "CAR" [] an) = carStep := by
  funext S; simp [eval, op0]
theorem eval_CDR (ext : Ext) (an : List String) : eval ext (.prim "CDR" [] an) = cdrStep := by
  funext S; simp [eval, op0]

theorem cxr_internal (ext : Ext) (an : List String) (p : Path) (hp : 1 ≤ p.length) (fuel : Nat) (hf : p.length ≤ fuel) :
    ∃ m, expand fuel (cadrName p) an [] true = .ok m ∧ evalSeq ext (seqList m) = Spec.cxr p := by
  induction p generalizing fuel with
  | nil => simp at hp
  | cons d q ih =>
    obtain ⟨fuel, rfl⟩ : ∃ k, fuel = k + 1 := ⟨fuel - 1, by simp at hf; omega⟩
    cases q with
    | nil =>
      cases d
      · refine ⟨.prim "CAR" [] an, expand_tag _ _ _ _ _ (by decide), ?_⟩
        simp only [seqList, evalSeq_cons', evalSeq_nil', eval_CAR, Spec.cxr]
      · refine ⟨.prim "CDR" [] an, expand_tag _ _ _ _ _ (by decide), ?_⟩
        simp only [seqList, evalSeq_cons', evalSeq_nil', eval_CDR, Spec.cxr]
    | cons e q =>
      obtain ⟨r, hr, hev⟩ := ih (by simp) fuel (by simpa using hf)
      have hr' : expand fuel ('C' :: pathChars (e :: q) ++ ['R']) an [] true = .ok r := hr
      cases d
      · refine ⟨.seq (.prim "CAR" [] [] :: seqList r), ?_, ?_⟩
        · rw [expand_step _ _ _ _ _ _ _ (dispatch_cadr_A (e :: q) (by simp)) H15.2, H15.1, runHandler_caxr, hr']
          rfl
        · show evalSeq ext (_ :: seqList r) = _
          rw [evalSeq_cons', eval_CAR, hev]; rfl
      · refine ⟨.seq (.prim "CDR" [] [] :: seqList r), ?_, ?_⟩
        · rw [expand_step _ _ _ _ _ _ _ (dispatch_cadr_D (e :: q) (by simp)) H16.2, H16.1, runHandler_cdxr, hr']
          rfl
        · show evalSeq ext (_ :: seqList r) = _
          rw [evalSeq_cons', eval_CDR, hev]; rfl

end C19.Expand

namespace C19.Expand
open Impl.Macros Generated.C19 Spec Sem C19.Dispatch

/-! ### evaluation of the instructions expansions are made of (annotations never matter) -/

theorem eval_DUP (ext : Ext) (an : List String) : eval ext (.prim "DUP" [] an) = dupStep := by
  funext S; simp [eval, op0]
theorem eval_SWAP (ext : Ext) (an : List String) : eval ext (.prim "SWAP" [] an) = swapStep := by
  funext S; simp [eval, op0]
theorem eval_PAIR (ext : Ext) (an : List String) : eval ext (.prim "PAIR" [] an) = pairStep := by
  funext S; simp [eval, op0]
theorem eval_UNPAIR (ext : Ext) (an : List String) : eval ext (.prim "UNPAIR" [] an) = unpairStep := by
  funext S; simp [eval, op0]
theorem eval_DIP1 (ext : Ext) (c : Mich) (an : List String) : eval ext (.prim "DIP" [c] an) = under 1 (eval ext c) := by
  funext S; simp [eval]
theorem eval_DIPn (ext : Ext) (n : Nat) (c : Mich) (an : List String) :
    eval ext (.prim "DIP" [.int n, c] an) = under n (eval ext c) := by
  have h : ¬ ((n : Int) < 0) := by omega
  funext S; simp [eval, h]
theorem eval_UPDATE (ext : Ext) (n : Nat) (an : List String) : eval ext (.prim "UPDATE" [.int n] an) = updateN n := by
  have h : ¬ ((n : Int) < 0) := by omega
  funext S; simp [eval, op1, h]
theorem eval_UPDATE1 (ext : Ext) (an : List String) : eval ext (.prim "UPDATE" [.int 1] an) = updateN 1 :=
  eval_UPDATE ext 1 an
theorem eval_UPDATE2 (ext : Ext) (an : List String) : eval ext (.prim "UPDATE" [.int 2] an) = updateN 2 :=
  eval_UPDATE ext 2 an
theorem eval_DUPn (ext : Ext) (n : Nat) (an : List String) : eval ext (.prim "DUP" [.int n] an) = dupN n := by
  have h : ¬ ((n : Int) < 0) := by omega
  funext S; simp [eval, op1, h]

theorem evalSeq_one (ext : Ext) (x : Mich) : evalSeq ext [x] = eval ext x := by
  rw [evalSeq_cons', evalSeq_nil', seqF_ok_right]

theorem eval_seqM (ext : Ext) (m : Mich) : eval ext (seqM m) = eval ext m := by
  cases m <;> simp only [seqM, eval_seq, evalSeq_one]

theorem eval_dipN (ext : Ext) (m : Mich) (d : Nat) : eval ext (dipN m d) = under d (eval ext m) := by
  unfold dipN
  by_cases h0 : d = 0
  · subst h0; simp [under_zero]
  · by_cases h1 : d = 1
    · subst h1; simp only [h0, if_false, if_true, expr, eval_DIP1, eval_seqM]
    · simp only [h0, h1, if_false, expr, eval_DIPn, eval_seqM]

/-! ### SET_C[AD]+R -/

theorem runHandler_set_car (recur : Recur) (g : List Char) (an : List String) :
    runHandler recur "expand_set_car" g an [] =
      .ok (.seq [.prim "SWAP" [] [], .prim "UPDATE" [.int 1] an]) := rfl
theorem runHandler_set_cdr (recur : Recur) (g : List Char) (an : List String) :
    runHandler recur "expand_set_cdr" g an [] =
      .ok (.seq [.prim "SWAP" [] [], .prim "UPDATE" [.int 2] an]) := rfl

theorem runHandler_set_caxr (recur : Recur) (g : List Char) (an : List String) :
    runHandler recur "expand_set_caxr" g an [] =
      (recur ('S' :: 'E' :: 'T' :: '_' :: 'C' :: g ++ ['R']) (fieldAnnots an) []).bind fun r =>
        .ok (.seq [.prim "DUP" [] [], .prim "DIP" [.seq [.prim "CAR" [] ["@%%"], r]] [], .prim "CDR" [] ["@%%"],
          .prim "SWAP" [] [], .prim "PAIR" [] (["%@", "%@"] ++ varAnnots an)]) := rfl
theorem runHandler_set_cdxr (recur : Recur) (g : List Char) (an : List String) :
    runHandler recur "expand_set_cdxr" g an [] =
      (recur ('S' :: 'E' :: 'T' :: '_' :: 'C' :: g ++ ['R']) (fieldAnnots an) []).bind fun r =>
        .ok (.seq [.prim "DUP" [] [], .prim "DIP" [.seq [.prim "CDR" [] ["@%%"], r]] [], .prim "CAR" [] ["@%%"],
          .prim "PAIR" [] (["%@", "%@"] ++ varAnnots an)]) := rfl

/-- pytezos writes `SET_CAR` as `SWAP ; UPDATE 1`; the reference says `CDR ; SWAP ; PAIR` -/
theorem swap_update1 : swapStep ⨾ updateN 1 = cdrStep ⨾ swapStep ⨾ pairStep := by
  funext S
  match S with
  | [] => rfl
  | [_] => simp [seqF, swapStep, cdrStep]; rename_i a; cases a <;> rfl
  | .pair a b :: x :: S => rfl
  | .atom _ :: x :: S => rfl
  | .int _ :: x :: S => rfl
  | .bool _ :: x :: S => rfl
  | .unit :: x :: S => rfl
  | .none :: x :: S => rfl
  | .some _ :: x :: S => rfl
  | .left _ :: x :: S => rfl
  | .right _ :: x :: S => rfl

theorem swap_update2 : swapStep ⨾ updateN 2 = carStep ⨾ pairStep := by
  funext S
  match S with
  | [] => rfl
  | [_] => simp [seqF, swapStep, carStep]; rename_i a; cases a <;> rfl
  | .pair a b :: x :: S => rfl
  | .atom _ :: x :: S => rfl
  | .int _ :: x :: S => rfl
  | .bool _ :: x :: S => rfl
  | .unit :: x :: S => rfl
  | .none :: x :: S => rfl
  | .some _ :: x :: S => rfl
  | .left _ :: x :: S => rfl
  | .right _ :: x :: S => rfl

theorem set_internal (ext : Ext) (p : Path) (hp : 1 ≤ p.length) (an : List String) (fuel : Nat) (hf : p.length ≤ fuel) :
    ∃ m, expand fuel (setName p) an [] true = .ok m ∧ eval ext m = Spec.setCxr p := by
  induction p generalizing fuel an with
  | nil => simp at hp
  | cons d q ih =>
    obtain ⟨fuel, rfl⟩ : ∃ k, fuel = k + 1 := ⟨fuel - 1, by simp at hf; omega⟩
    cases q with
    | nil =>
      cases d
      · refine ⟨.seq [.prim "SWAP" [] [], .prim "UPDATE" [.int 1] an], ?_, ?_⟩
        · rw [expand_step _ _ _ _ _ _ _ dispatch_SET_CAR H19.2, H19.1, runHandler_set_car]; rfl
        · simp only [if_true, eval_seq, evalSeq_cons', evalSeq_nil', seqF_ok_right, eval_SWAP, eval_UPDATE1,
            swap_update1, Spec.setCxr]
      · refine ⟨.seq [.prim "SWAP" [] [], .prim "UPDATE" [.int 2] an], ?_, ?_⟩
        · rw [expand_step _ _ _ _ _ _ _ dispatch_SET_CDR H20.2, H20.1, runHandler_set_cdr]; rfl
        · simp only [if_true, eval_seq, evalSeq_cons', evalSeq_nil', seqF_ok_right, eval_SWAP, eval_UPDATE2,
            swap_update2, Spec.setCxr]
    | cons e q =>
      obtain ⟨r, hr, hev⟩ := ih (by simp) (fieldAnnots an) fuel (by simpa using hf)
      have hr' : expand fuel ('S' :: 'E' :: 'T' :: '_' :: 'C' :: pathChars (e :: q) ++ ['R']) (fieldAnnots an) [] true
          = .ok r := hr
      cases d
      · refine ⟨.seq [.prim "DUP" [] [], .prim "DIP" [.seq [.prim "CAR" [] ["@%%"], r]] [], .prim "CDR" [] ["@%%"],
          .prim "SWAP" [] [], .prim "PAIR" [] (["%@", "%@"] ++ varAnnots an)], ?_, ?_⟩
        · rw [expand_step _ _ _ _ _ _ _ (dispatch_set_A (e :: q) (by simp)) H21.2, H21.1, runHandler_set_caxr, hr']
          rfl
        · simp only [if_true, eval_seq, evalSeq_cons', evalSeq_nil', seqF_ok_right, eval_DUP, eval_DIP1, eval_CAR,
            eval_CDR, eval_SWAP, eval_PAIR, hev, Spec.setCxr, seqF_assoc]
      · refine ⟨.seq [.prim "DUP" [] [], .prim "DIP" [.seq [.prim "CDR" [] ["@%%"], r]] [], .prim "CAR" [] ["@%%"],
          .prim "PAIR" [] (["%@", "%@"] ++ varAnnots an)], ?_, ?_⟩
        · rw [expand_step _ _ _ _ _ _ _ (dispatch_set_D (e :: q) (by simp)) H22.2, H22.1, runHandler_set_cdxr, hr']
          rfl
        · simp only [if_true, eval_seq, evalSeq_cons', evalSeq_nil', seqF_ok_right, eval_DUP, eval_DIP1, eval_CAR,
            eval_CDR, eval_SWAP, eval_PAIR, hev, Spec.setCxr, seqF_assoc]

end C19.Expand

namespace C19.Expand
open Impl.Macros Generated.C19 Spec Sem C19.Dispatch

/-! ### MAP_C[AD]+R -/

theorem runHandler_map_car (recur : Recur) (g : List Char) (an : List String) (args : List Mich) :
    runHandler recur "expand_map_car" g an args =
      (mapCxrAnnots an).bind fun x =>
        .ok (.seq [.prim "DUP" [] [], .prim "CDR" [] ["@%%"], .prim "DIP" [.seq (.prim "CAR" [] x.2 :: args)] [],
          .prim "SWAP" [] [], .prim "PAIR" [] [x.1, "%@"]]) := rfl

theorem runHandler_map_cdr (recur : Recur) (g : List Char) (an : List String) (args : List Mich) :
    runHandler recur "expand_map_cdr" g an args =
      (mapCxrAnnots an).bind fun x =>
        .ok (.seq ([.prim "DUP" [] [], .prim "CDR" [] x.2] ++ args ++
          [.prim "SWAP" [] [], .prim "CAR" [] ["@%%"], .prim "PAIR" [] ["%@", x.1]])) := rfl

theorem runHandler_map_caxr (recur : Recur) (g : List Char) (an : List String) (args : List Mich) :
    runHandler recur "expand_map_caxr" g an args =
      (recur ('M' :: 'A' :: 'P' :: '_' :: 'C' :: g ++ ['R']) (fieldAnnots an) args).bind fun r =>
        .ok (.seq [.prim "DUP" [] [], .prim "DIP" [.seq [.prim "CAR" [] ["@%%"], r]] [], .prim "CDR" [] ["@%%"],
          .prim "SWAP" [] [], .prim "PAIR" [] (["%@", "%@"] ++ varAnnots an)]) := rfl

theorem runHandler_map_cdxr (recur : Recur) (g : List Char) (an : List String) (args : List Mich) :
    runHandler recur "expand_map_cdxr" g an args =
      (recur ('M' :: 'A' :: 'P' :: '_' :: 'C' :: g ++ ['R']) (fieldAnnots an) args).bind fun r =>
        .ok (.seq [.prim "DUP" [] [], .prim "DIP" [.seq [.prim "CDR" [] ["@%%"], r]] [], .prim "CAR" [] ["@%%"],
          .prim "PAIR" [] (["%@", "%@"] ++ varAnnots an)]) := rfl

theorem mapCxrAnnots_ok (an : List String) (hA : (fieldAnnots an).length ≤ 1) :
    ∃ x, mapCxrAnnots an = .ok x := by
  unfold mapCxrAnnots
  match h : fieldAnnots an with
  | [] => exact ⟨_, rfl⟩
  | [f] => exact ⟨_, rfl⟩
  | _ :: _ :: _ => rw [h] at hA; simp at hA

theorem mapCxrAnnots_err (an : List String) (hA : 2 ≤ (fieldAnnots an).length) :
    mapCxrAnnots an = .error .assertion := by
  unfold mapCxrAnnots
  match h : fieldAnnots an with
  | [] => rw [h] at hA; simp at hA
  | [f] => rw [h] at hA; simp at hA
  | _ :: _ :: _ => rfl

theorem fieldAnnots_idem (an : List String) : fieldAnnots (fieldAnnots an) = fieldAnnots an := by
  simp [fieldAnnots, List.filter_filter]

theorem map_internal (ext : Ext) (code : Mich) (p : Path) (hp : 1 ≤ p.length) (an : List String)
    (hA : (fieldAnnots an).length ≤ 1) (fuel : Nat) (hf : p.length ≤ fuel) :
    ∃ m, expand fuel (mapName p) an [code] true = .ok m ∧ eval ext m = Spec.mapCxr p (eval ext code) := by
  induction p generalizing fuel an with
  | nil => simp at hp
  | cons d q ih =>
    obtain ⟨fuel, rfl⟩ : ∃ k, fuel = k + 1 := ⟨fuel - 1, by simp at hf; omega⟩
    cases q with
    | nil =>
      obtain ⟨x, hx⟩ := mapCxrAnnots_ok an hA
      cases d
      · refine ⟨.seq [.prim "DUP" [] [], .prim "CDR" [] ["@%%"], .prim "DIP" [.seq [.prim "CAR" [] x.2, code]] [],
          .prim "SWAP" [] [], .prim "PAIR" [] [x.1, "%@"]], ?_, ?_⟩
        · rw [expand_step _ _ _ _ _ _ _ dispatch_MAP_CAR H23.2, H23.1, runHandler_map_car, hx]; rfl
        · simp only [eval_seq, evalSeq_cons', evalSeq_nil', seqF_ok_right, eval_DUP, eval_DIP1, eval_CAR,
            eval_CDR, eval_SWAP, eval_PAIR, Spec.mapCxr, seqF_assoc]
      · refine ⟨.seq [.prim "DUP" [] [], .prim "CDR" [] x.2, code, .prim "SWAP" [] [], .prim "CAR" [] ["@%%"],
          .prim "PAIR" [] ["%@", x.1]], ?_, ?_⟩
        · rw [expand_step _ _ _ _ _ _ _ dispatch_MAP_CDR H24.2, H24.1, runHandler_map_cdr, hx]; rfl
        · simp only [eval_seq, evalSeq_cons', evalSeq_nil', seqF_ok_right, eval_DUP, eval_CAR,
            eval_CDR, eval_SWAP, eval_PAIR, Spec.mapCxr, seqF_assoc]
    | cons e q =>
      obtain ⟨r, hr, hev⟩ := ih (by simp) (fieldAnnots an) (by rw [fieldAnnots_idem]; exact hA) fuel (by simpa using hf)
      have hr' : expand fuel ('M' :: 'A' :: 'P' :: '_' :: 'C' :: pathChars (e :: q) ++ ['R']) (fieldAnnots an) [code] true
          = .ok r := hr
      cases d
      · refine ⟨.seq [.prim "DUP" [] [], .prim "DIP" [.seq [.prim "CAR" [] ["@%%"], r]] [], .prim "CDR" [] ["@%%"],
          .prim "SWAP" [] [], .prim "PAIR" [] (["%@", "%@"] ++ varAnnots an)], ?_, ?_⟩
        · rw [expand_step _ _ _ _ _ _ _ (dispatch_map_A (e :: q) (by simp)) H25.2, H25.1, runHandler_map_caxr, hr']
          rfl
        · simp only [eval_seq, evalSeq_cons', evalSeq_nil', seqF_ok_right, eval_DUP, eval_DIP1, eval_CAR,
            eval_CDR, eval_SWAP, eval_PAIR, hev, Spec.mapCxr, seqF_assoc]
      · refine ⟨.seq [.prim "DUP" [] [], .prim "DIP" [.seq [.prim "CDR" [] ["@%%"], r]] [], .prim "CAR" [] ["@%%"],
          .prim "PAIR" [] (["%@", "%@"] ++ varAnnots an)], ?_, ?_⟩
        · rw [expand_step _ _ _ _ _ _ _ (dispatch_map_D (e :: q) (by simp)) H26.2, H26.1, runHandler_map_cdxr, hr']
          rfl
        · simp only [eval_seq, evalSeq_cons', evalSeq_nil', seqF_ok_right, eval_DUP, eval_DIP1, eval_CAR,
            eval_CDR, eval_PAIR, hev, Spec.mapCxr, seqF_assoc]

end C19.Expand
