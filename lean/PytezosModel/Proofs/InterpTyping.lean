import PytezosModel.Michelson.Interp.Typing
import PytezosModel.Michelson.Interp.Spec
set_option linter.unusedSectionVars false   -- `[Mode]` is a section variable of every lemma here; some do not use it
/-! Well-typed values and stacks for the modelled core: inversion lemmas for `Typing.checkVal`. -/
namespace Interp

/-- **mode** of the whole soundness / progress development.

* `strict = false`: the judgements are those of `Typing.typeInstr false` (the Michelson typing rules);
  `strict = true`: those of `Typing.typeInstr true`, which additionally require every MAP body — in the program, in
  PUSHed lambdas and in the lambda values on the stack — to keep the element type.
* `guard`: which reference evaluator the progress theorem talks about (`Spec.eval guard`); the guarded one
  (`offguard` on MAP over an empty collection with a type-changing body) only together with strict typing.

Every lemma of Proofs/InterpTyping … InterpProgress holds in every mode (the typing rules differ in the MAP case only);
Props/C01.lean and Props/C02.lean instantiate them with `⟨false, false, _⟩` (Michelson typing, plain reference
semantics) and `⟨true, true, _⟩` (strict typing, guarded reference semantics: the guard never fires). -/
class Mode where
  strict : Bool
  guard : Bool
  guard_strict : guard = true → strict = true

/-- the Michelson typing rules and the plain reference semantics -/
@[reducible] def Mode.lax : Mode := ⟨false, false, fun h => by cases h⟩

/-- strict typing (MAP bodies keep the element type) and the *guarded* reference semantics -/
@[reducible] def Mode.strictGuarded : Mode := ⟨true, true, fun _ => rfl⟩

variable [Mode]
open Typing

/-- `v` is a well-formed value of type `t` (deep) -/
def HasTy (v : Val) (t : Ty) : Prop := checkVal Mode.strict v t = true

/-- every element is a well-formed value of type `t` -/
def AllTy (xs : List Val) (t : Ty) : Prop := checkVals Mode.strict xs t = true

/-- pointwise typing of a stack -/
inductive StackTy : List Val → List Ty → Prop where
  | nil : StackTy [] []
  | cons {v t st ts} : HasTy v t → StackTy st ts → StackTy (v :: st) (t :: ts)

theorem allTy_nil (t : Ty) : AllTy [] t := by simp [AllTy, checkVals]
theorem allTy_cons {x : Val} {xs : List Val} {t : Ty} : AllTy (x :: xs) t ↔ HasTy x t ∧ AllTy xs t := by
  simp [AllTy, HasTy, checkVals]

mutual
  theorem hasTy_typeOf : ∀ (v : Val) (t : Ty), checkVal Mode.strict v t = true → typeOf v = t
    | .unit, t, h => by cases t <;> simp [checkVal] at h <;> rfl
    | .bool _, t, h => by cases t <;> simp [checkVal] at h <;> rfl
    | .num tt _, t, h => by cases tt <;> cases t <;> simp [checkVal] at h <;> rfl
    | .str _, t, h => by cases t <;> simp [checkVal] at h <;> rfl
    | .bytes _, t, h => by cases t <;> simp [checkVal] at h <;> rfl
    | .atom tt _, t, h => by cases tt <;> cases t <;> simp [checkVal] at h <;> rfl
    | .pair a b, t, h => by
      cases t <;> simp [checkVal] at h
      rename_i ta tb
      simp [typeOf, hasTy_typeOf a ta h.1, hasTy_typeOf b tb h.2]
    | .some v, t, h => by
      cases t <;> simp [checkVal] at h
      rename_i ta
      simp [typeOf, hasTy_typeOf v ta h]
    | .none _, t, h => by cases t <;> simp [checkVal] at h; simp [typeOf, h]
    | .left v tr, t, h => by
      cases t <;> simp [checkVal] at h
      rename_i l r
      simp [typeOf, hasTy_typeOf v l h.2, h.1]
    | .right tl v, t, h => by
      cases t <;> simp [checkVal] at h
      rename_i l r
      simp [typeOf, hasTy_typeOf v r h.2, h.1]
    | .list _ _, t, h => by cases t <;> simp [checkVal] at h; simp [typeOf, h.1]
    | .map _ _ _, t, h => by cases t <;> simp [checkVal] at h; simp [typeOf, h.1.1, h.1.2]
    | .bigMap _ _ _, t, h => by cases t <;> simp [checkVal] at h; simp [typeOf, h.1.1, h.1.2]
    | .set _ _, t, h => by cases t <;> simp [checkVal] at h; simp [typeOf, h.1]
    | .lam _ _ _, t, h => by cases t <;> simp [checkVal] at h; simp [typeOf, h.1.1, h.1.2]
    | .contract _ _, t, h => by cases t <;> simp [checkVal] at h; simp [typeOf, h]
    | .opTransfer .., t, h => by cases t <;> simp [checkVal] at h <;> rfl
    | .opDelegate .., t, h => by cases t <;> simp [checkVal] at h <;> rfl
    | .opEmit .., t, h => by cases t <;> simp [checkVal] at h <;> rfl
end

theorem HasTy.typeOf_eq {v : Val} {t : Ty} (h : HasTy v t) : typeOf v = t := hasTy_typeOf v t h

theorem StackTy.map_typeOf {st : List Val} {ts : List Ty} (h : StackTy st ts) : st.map typeOf = ts := by
  induction h with
  | nil => rfl
  | cons hv _ ih => simp [hv.typeOf_eq, ih]

theorem StackTy.length_eq {st : List Val} {ts : List Ty} (h : StackTy st ts) : st.length = ts.length := by
  induction h with
  | nil => rfl
  | cons _ _ ih => simp [ih]

theorem StackTy.append {a b : List Val} {ta tb : List Ty} (h1 : StackTy a ta) (h2 : StackTy b tb) :
    StackTy (a ++ b) (ta ++ tb) := by
  induction h1 with
  | nil => exact h2
  | cons hv _ ih => exact .cons hv ih

theorem StackTy.drop {st : List Val} {ts : List Ty} (h : StackTy st ts) (n : Nat) : StackTy (st.drop n) (ts.drop n) := by
  induction h generalizing n with
  | nil => simp; exact .nil
  | cons hv hs ih =>
    cases n with
    | zero => exact .cons hv hs
    | succ n => simpa using ih n

theorem StackTy.take {st : List Val} {ts : List Ty} (h : StackTy st ts) (n : Nat) : StackTy (st.take n) (ts.take n) := by
  induction h generalizing n with
  | nil => simp; exact .nil
  | cons hv hs ih =>
    cases n with
    | zero => exact .nil
    | succ n => simpa using .cons hv (ih n)

theorem StackTy.get {st : List Val} {ts : List Ty} (h : StackTy st ts) (n : Nat) (v : Val) (t : Ty)
    (hv : st[n]? = some v) (ht : ts[n]? = some t) : HasTy v t := by
  induction h generalizing n with
  | nil => simp at hv
  | cons hx _ ih =>
    cases n with
    | zero => simp at hv ht; subst hv ht; exact hx
    | succ n => simp at hv ht; exact ih n hv ht

-- inversion lemmas ---------------------------------------------------------------------------------

/-- discard the value shapes that cannot have the type in `h` -/
syntax "val_shapes" : tactic
set_option hygiene false in
macro_rules
  | `(tactic| val_shapes) => `(tactic| (
      cases v <;> first
        | (simp [HasTy, checkVal] at h; done)
        | (rename_i t _; cases t <;> simp [HasTy, checkVal] at h; done)
        | skip))

theorem hasTy_pair {v : Val} {a b : Ty} (h : HasTy v (.pair a b)) : ∃ x y, v = .pair x y ∧ HasTy x a ∧ HasTy y b := by
  val_shapes
  simp [HasTy, checkVal] at h
  exact ⟨_, _, rfl, h.1, h.2⟩

theorem hasTy_option {v : Val} {a : Ty} (h : HasTy v (.option a)) : v = .none a ∨ ∃ x, v = .some x ∧ HasTy x a := by
  val_shapes
  · simp [HasTy, checkVal] at h; exact Or.inr ⟨_, rfl, h⟩
  · simp [HasTy, checkVal] at h; exact Or.inl (by rw [h])

theorem hasTy_or {v : Val} {l r : Ty} (h : HasTy v (.or l r)) :
    (∃ x, v = .left x r ∧ HasTy x l) ∨ (∃ x, v = .right l x ∧ HasTy x r) := by
  val_shapes
  · simp [HasTy, checkVal] at h; exact Or.inl ⟨_, by rw [h.1], h.2⟩
  · simp [HasTy, checkVal] at h; exact Or.inr ⟨_, by rw [h.1], h.2⟩

theorem hasTy_list {v : Val} {t : Ty} (h : HasTy v (.list t)) : ∃ xs, v = .list t xs ∧ AllTy xs t := by
  val_shapes
  simp [HasTy, checkVal] at h
  exact ⟨_, by rw [h.1], h.2⟩

theorem hasTy_map {v : Val} {k w : Ty} (h : HasTy v (.map k w)) : ∃ xs, v = .map k w xs ∧ AllTy xs (.pair k w) := by
  val_shapes
  simp [HasTy, checkVal] at h
  exact ⟨_, by rw [h.1.1, h.1.2], h.2⟩

theorem hasTy_set {v : Val} {t : Ty} (h : HasTy v (.set t)) : ∃ xs, v = .set t xs ∧ AllTy xs t := by
  val_shapes
  simp [HasTy, checkVal] at h
  exact ⟨_, by rw [h.1], h.2⟩

theorem hasTy_bool {v : Val} (h : HasTy v .bool) : ∃ b, v = .bool b := by
  val_shapes
  exact ⟨_, rfl⟩

/-- body typing carried by a lambda value -/
def BodyTy (body : Instr) (a b : Ty) : Prop :=
  typeInstr Mode.strict body [a] = some (.ok [b]) ∨ typeInstr Mode.strict body [a] = some .failed

theorem hasTy_lambda {v : Val} {a b : Ty} (h : HasTy v (.lambda a b)) : ∃ body, v = .lam a b body ∧ BodyTy body a b := by
  val_shapes
  rename_i a' b' body
  simp only [HasTy, checkVal, Bool.and_eq_true, decide_eq_true_eq] at h
  obtain ⟨⟨ha, hb⟩, hbody⟩ := h
  subst ha hb
  refine ⟨body, rfl, ?_⟩
  unfold BodyTy
  split at hbody
  · rename_i b'' heq; simp at hbody; subst hbody; exact Or.inl heq
  · rename_i heq; exact Or.inr heq
  · simp at hbody

end Interp

namespace Interp
variable [Mode]
open Typing

/-- deep well-formedness: a value is a well-formed value of its own runtime type -/
def WF (v : Val) : Prop := HasTy v (typeOf v)

def StackWF (st : List Val) : Prop := ∀ v ∈ st, WF v

theorem hasTy_iff {v : Val} {t : Ty} : HasTy v t ↔ WF v ∧ typeOf v = t := by
  constructor
  · intro h; have := h.typeOf_eq; subst this; exact ⟨h, rfl⟩
  · rintro ⟨h, rfl⟩; exact h

theorem stackTy_iff {st : List Val} {ts : List Ty} : StackTy st ts ↔ StackWF st ∧ st.map typeOf = ts := by
  constructor
  · intro h
    refine ⟨?_, h.map_typeOf⟩
    induction h with
    | nil => intro v hv; simp at hv
    | cons hx _ ih =>
      intro v hv
      simp only [List.mem_cons] at hv
      rcases hv with rfl | hv
      · exact (hasTy_iff.mp hx).1
      · exact ih v hv
  · rintro ⟨hw, rfl⟩
    induction st with
    | nil => exact .nil
    | cons x xs ih =>
      exact .cons (hasTy_iff.mpr ⟨hw x (by simp), rfl⟩) (ih fun v hv => hw v (by simp [hv]))

theorem stackWF_cons {v : Val} {st : List Val} : StackWF (v :: st) ↔ WF v ∧ StackWF st := by
  simp [StackWF]

theorem stackWF_nil : StackWF [] := by simp [StackWF]

theorem stackWF_append {a b : List Val} : StackWF (a ++ b) ↔ StackWF a ∧ StackWF b := by
  simp only [StackWF, List.mem_append]
  constructor
  · intro h; exact ⟨fun v hv => h v (Or.inl hv), fun v hv => h v (Or.inr hv)⟩
  · rintro ⟨h1, h2⟩ v (hv | hv); exact h1 v hv; exact h2 v hv

theorem stackWF_take {st : List Val} (h : StackWF st) (n : Nat) : StackWF (st.take n) :=
  fun v hv => h v (List.mem_of_mem_take hv)

theorem stackWF_drop {st : List Val} (h : StackWF st) (n : Nat) : StackWF (st.drop n) :=
  fun v hv => h v (List.mem_of_mem_drop hv)

theorem stackWF_get {st : List Val} (h : StackWF st) (n : Nat) (v : Val) (hv : st[n]? = some v) : WF v :=
  h v (List.mem_of_getElem? hv)

-- WF of constructors
@[simp] theorem wf_unit : WF .unit := by simp [WF, HasTy, checkVal, typeOf]
@[simp] theorem wf_bool (b : Bool) : WF (.bool b) := by simp [WF, HasTy, checkVal, typeOf]
@[simp] theorem wf_str (s : List Nat) : WF (.str s) := by simp [WF, HasTy, checkVal, typeOf]
@[simp] theorem wf_bytes (s : List Nat) : WF (.bytes s) := by simp [WF, HasTy, checkVal, typeOf]
@[simp] theorem wf_int (v : Int) : WF (.num .int v) := by simp [WF, HasTy, checkVal, typeOf]
@[simp] theorem wf_timestamp (v : Int) : WF (.num .timestamp v) := by simp [WF, HasTy, checkVal, typeOf]
theorem wf_nat (v : Int) : WF (.num .nat v) ↔ 0 ≤ v := by simp [WF, HasTy, checkVal, typeOf]
theorem wf_mutez (v : Int) : WF (.num .mutez v) ↔ 0 ≤ v ∧ v < 2 ^ 63 := by simp [WF, HasTy, checkVal, typeOf]
@[simp] theorem wf_address (s : List Nat) : WF (.atom .address s) := by simp [WF, HasTy, checkVal, typeOf]
@[simp] theorem wf_chainId (s : List Nat) : WF (.atom .chainId s) := by simp [WF, HasTy, checkVal, typeOf]
@[simp] theorem wf_pair (a b : Val) : WF (.pair a b) ↔ WF a ∧ WF b := by simp [WF, HasTy, checkVal, typeOf]
@[simp] theorem wf_some (a : Val) : WF (.some a) ↔ WF a := by simp [WF, HasTy, checkVal, typeOf]
@[simp] theorem wf_none (t : Ty) : WF (.none t) := by simp [WF, HasTy, checkVal, typeOf]
@[simp] theorem wf_left (a : Val) (t : Ty) : WF (.left a t) ↔ WF a := by simp [WF, HasTy, checkVal, typeOf]
@[simp] theorem wf_right (a : Val) (t : Ty) : WF (.right t a) ↔ WF a := by simp [WF, HasTy, checkVal, typeOf]
theorem wf_list (t : Ty) (xs : List Val) : WF (.list t xs) ↔ AllTy xs t := by simp [WF, HasTy, AllTy, checkVal, typeOf]
theorem wf_map (k v : Ty) (xs : List Val) : WF (.map k v xs) ↔ AllTy xs (.pair k v) := by
  simp [WF, HasTy, AllTy, checkVal, typeOf]
theorem wf_set (t : Ty) (xs : List Val) : WF (.set t xs) ↔ AllTy xs t := by simp [WF, HasTy, AllTy, checkVal, typeOf]
theorem wf_lam (a b : Ty) (body : Instr) : WF (.lam a b body) ↔ BodyTy body a b := by
  constructor
  · intro h
    obtain ⟨body', he, hb⟩ := hasTy_lambda (v := .lam a b body) (a := a) (b := b) (by simpa [WF, typeOf] using h)
    cases he; exact hb
  · intro h
    simp only [WF, HasTy, typeOf, checkVal, decide_true, Bool.true_and]
    rcases h with h | h <;> simp [h]

theorem wf_num_ty {t : Ty} {v : Int} (h : WF (.num t v)) : t = .int ∨ t = .nat ∨ t = .mutez ∨ t = .timestamp := by
  cases t <;> simp [WF, HasTy, checkVal, typeOf] at h <;> simp

theorem allTy_iff {xs : List Val} {t : Ty} : AllTy xs t ↔ ∀ x ∈ xs, WF x ∧ typeOf x = t := by
  induction xs with
  | nil => simp [allTy_nil]
  | cons x xs ih => simp [allTy_cons, ih, hasTy_iff]

end Interp

namespace Interp
open Typing

/-- **strict typing refines typing**: whatever `typeInstr true` (MAP bodies keep the element type) accepts, the Michelson
typing rules `typeInstr false` accept with the same result; likewise for sequences and for values (lambda bodies).  By
the functional induction principle of the four mutually recursive checkers. -/
theorem strict_imp_lax :
    (∀ i s, ∀ r, typeInstr true i s = some r → typeInstr false i s = some r) ∧
    (∀ v t, checkVal true v t = true → checkVal false v t = true) ∧
    (∀ vs t, checkVals true vs t = true → checkVals false vs t = true) ∧
    (∀ is s, ∀ r, typeSeq true is s = some r → typeSeq false is s = some r) := by
  apply typeInstr.mutual_induct true
    (motive_1 := fun i s => ∀ r, typeInstr true i s = some r → typeInstr false i s = some r)
    (motive_2 := fun v t => checkVal true v t = true → checkVal false v t = true)
    (motive_3 := fun vs t => checkVals true vs t = true → checkVals false vs t = true)
    (motive_4 := fun is s => ∀ r, typeSeq true is s = some r → typeSeq false is s = some r)
  all_goals (intros; try (simp_all [typeInstr, checkVal, checkVals, typeSeq]; done))
  case case27 a' b' body a b ih h =>
    cases hb : typeInstr true body [a] with
    | none => simp [checkVal, hb] at h
    | some rb => have := ih rb hb; simp only [checkVal, hb, this] at h ⊢; exact h
  case case40 n body s hn r h => simp [typeInstr, hn] at h
  case case57 body t s' x ih r h => have := ih _ x; simp only [typeInstr, x, this] at h ⊢; exact h
  case case61 body t s' x ih r h => have := ih _ x; simp only [typeInstr, x, this] at h ⊢; exact h
  case case65 body k v s' x ih r h => have := ih _ x; simp only [typeInstr, x, this] at h ⊢; exact h

/-- in either mode, a judgement of the development is in particular a judgement of the Michelson typing rules -/
theorem typeInstr_lax [Mode] {i : Instr} {s : List Ty} {r : TRes} (h : typeInstr Mode.strict i s = some r) :
    typeInstr false i s = some r := by
  cases hm : Mode.strict with
  | false => rw [hm] at h; exact h
  | true => rw [hm] at h; exact strict_imp_lax.1 i s r h

theorem typeSeq_lax [Mode] {is : List Instr} {s : List Ty} {r : TRes} (h : typeSeq Mode.strict is s = some r) :
    typeSeq false is s = some r := by
  cases hm : Mode.strict with
  | false => rw [hm] at h; exact h
  | true => rw [hm] at h; exact strict_imp_lax.2.2.2 is s r h

end Interp
