import PytezosModel.Proofs.C11CivilYear
/-! C11 — the civil-date round trips and `parseTimestamp (fmtTimestamp t) = some t` (core tactics only). -/
namespace Civil

/-! ### the month of the year -/

theorem mp_range (doy : Int) (h0 : 0 ≤ doy) (h1 : doy ≤ 365) : 0 ≤ mpOfDoy doy ∧ mpOfDoy doy ≤ 11 := by
  unfold mpOfDoy; omega

/-- length of the month `mp` counted from March; February (11) has 28 days here, the 29th is `doy = 365` -/
def mpLen (mp : Int) : Int :=
  if mp = 11 then 28 else if mp = 1 ∨ mp = 3 ∨ mp = 6 ∨ mp = 8 then 30 else 31

theorem day_range (doy : Int) (h0 : 0 ≤ doy) (h1 : doy ≤ 365) :
    1 ≤ doy - monthStart (mpOfDoy doy) + 1 ∧
      (doy - monthStart (mpOfDoy doy) + 1 ≤ mpLen (mpOfDoy doy) ∨ (doy = 365 ∧ mpOfDoy doy = 11 ∧ monthStart 11 = 337)) := by
  unfold mpLen monthStart mpOfDoy
  omega

/-- the month and the day determine the day of the year -/
theorem mp_of_monthStart (mp d : Int) (h0 : 0 ≤ mp) (h1 : mp ≤ 11) (hd : 1 ≤ d) (hd2 : d ≤ mpLen mp + (if mp = 11 then 1 else 0)) :
    mpOfDoy (monthStart mp + d - 1) = mp := by
  obtain ⟨k, rfl⟩ : ∃ k : Nat, mp = k := ⟨mp.toNat, by omega⟩
  unfold mpLen at hd2
  unfold monthStart mpOfDoy
  iterate 12 (rcases k with _ | k; · omega)
  omega


/-! ### days → civil → days -/

/-- the era and the day of the era of a day number -/
theorem doe_range (z : Int) : 0 ≤ z - z / 146097 * 146097 ∧ z - z / 146097 * 146097 ≤ 146096 := by omega

/-- `daysFromCivil` on a date given by its era, year of the era, March-based month and day -/
theorem daysFromCivil_era (era yoe mp d : Int) (hy0 : 0 ≤ yoe) (hy1 : yoe ≤ 399) (hm0 : 0 ≤ mp) (hm1 : mp ≤ 11) :
    daysFromCivil (if (if mp < 10 then mp + 3 else mp - 9) ≤ 2 then yoe + era * 400 + 1 else yoe + era * 400)
        (if mp < 10 then mp + 3 else mp - 9) d
      = era * 146097 + (yearStart yoe + (monthStart mp + d - 1)) - 719468 := by
  unfold daysFromCivil
  have e1 : (yoe + era * 400) / 400 = era := by omega
  have e3 : yoe + era * 400 - era * 400 = yoe := by omega
  by_cases hmp : mp < 10
  · have h1 : ¬ (mp + 3 ≤ 2) := by omega
    have h2 : mp + 3 > 2 := by omega
    have e2 : mp + 3 - 3 = mp := by omega
    simp only [hmp, if_true, h1, if_false, h2, e1, e2, e3]
  · have h1 : mp - 9 ≤ 2 := by omega
    have h2 : ¬ (mp - 9 > 2) := by omega
    have e0 : yoe + era * 400 + 1 - 1 = yoe + era * 400 := by omega
    have e2 : mp - 9 + 9 = mp := by omega
    simp only [hmp, if_false, h1, if_true, h2, e0, e1, e2, e3]

/-- **`daysFromCivil (civilFromDays z) = z`** for every integer -/
theorem daysFromCivil_civilFromDays (z : Int) :
    daysFromCivil (civilFromDays z).1 (civilFromDays z).2.1 (civilFromDays z).2.2 = z := by
  obtain ⟨hd0, hd1⟩ := doe_range (z + 719468)
  obtain ⟨hy0, hy1⟩ := yoe_range _ hd0 hd1
  obtain ⟨hs0, hs1, _⟩ := doy_spec _ hd0 hd1
  obtain ⟨hm0, hm1⟩ := mp_range _ hs0 hs1
  simp only [civilFromDays]
  rw [daysFromCivil_era _ _ _ _ hy0 hy1 hm0 hm1]
  omega


theorem isLeap_iff (y : Int) : isLeap y = true ↔ (y % 4 = 0 ∧ y % 100 ≠ 0) ∨ y % 400 = 0 := by
  simp [isLeap]

/-- `monthLen` without the Boolean -/
theorem monthLen_eq (y m : Int) :
    monthLen y m = if m = 2 then (if (y % 4 = 0 ∧ y % 100 ≠ 0) ∨ y % 400 = 0 then 29 else 28)
      else if m = 4 ∨ m = 6 ∨ m = 9 ∨ m = 11 then 30 else 31 := by
  unfold monthLen
  by_cases h : (y % 4 = 0 ∧ y % 100 ≠ 0) ∨ y % 400 = 0
  · simp only [(isLeap_iff y).2 h, if_true, h]
  · have : isLeap y = false := by
      cases hh : isLeap y
      · rfl
      · exact absurd ((isLeap_iff y).1 hh) h
    simp only [this, h, if_false, Bool.false_eq_true]

/-- a long year of the era ends in the February of a civil leap year -/
theorem leap_of_long (era yoe : Int) (hy0 : 0 ≤ yoe) (hy1 : yoe ≤ 399) (h : longYoe yoe) :
    ((yoe + era * 400 + 1) % 4 = 0 ∧ (yoe + era * 400 + 1) % 100 ≠ 0) ∨ (yoe + era * 400 + 1) % 400 = 0 := by
  unfold longYoe at h
  by_cases h399 : yoe = 399
  · right; subst h399; omega
  · left; omega

theorem valid_era (era yoe mp d y : Int) (hm0 : 0 ≤ mp) (hm1 : mp ≤ 11) (hd0 : 1 ≤ d)
    (hd1 : d ≤ mpLen mp ∨ (d = 29 ∧ mp = 11 ∧ ((y % 4 = 0 ∧ y % 100 ≠ 0) ∨ y % 400 = 0)))
    (hy : y = if (if mp < 10 then mp + 3 else mp - 9) ≤ 2 then yoe + era * 400 + 1 else yoe + era * 400) :
    validDate y (if mp < 10 then mp + 3 else mp - 9) d := by
  simp only [validDate, monthLen_eq]
  unfold mpLen at hd1
  omega

/-- **the date computed by `civilFromDays` exists in the calendar** -/
theorem civilFromDays_valid (z : Int) :
    validDate (civilFromDays z).1 (civilFromDays z).2.1 (civilFromDays z).2.2 := by
  obtain ⟨hd0, hd1⟩ := doe_range (z + 719468)
  obtain ⟨hy0, hy1⟩ := yoe_range _ hd0 hd1
  obtain ⟨hs0, hs1, hl⟩ := doy_spec _ hd0 hd1
  obtain ⟨hm0, hm1⟩ := mp_range _ hs0 hs1
  obtain ⟨hday0, hday1⟩ := day_range _ hs0 hs1
  simp only [civilFromDays]
  refine valid_era _ _ _ _ _ hm0 hm1 hday0 ?_ rfl
  rcases hday1 with h | ⟨h365, h11, h337⟩
  · exact Or.inl h
  · refine Or.inr ⟨by rw [h11, h337]; omega, h11, ?_⟩
    have hmp : ¬ (mpOfDoy (z + 719468 - (z + 719468) / 146097 * 146097 -
        yearStart (yoeOfDoe (z + 719468 - (z + 719468) / 146097 * 146097))) < 10) := by omega
    have h2 : mpOfDoy (z + 719468 - (z + 719468) / 146097 * 146097 -
        yearStart (yoeOfDoe (z + 719468 - (z + 719468) / 146097 * 146097))) - 9 ≤ 2 := by omega
    simp only [hmp, if_false, h2, if_true]
    exact leap_of_long _ _ hy0 hy1 (hl h365)


/-- 0001-01-01 and 9999-12-31 as day numbers -/
def dayMin : Int := -719162
def dayMax : Int := 2932896

/-- **years 1…9999**: exactly the days on which `datetime` works -/
theorem civilFromDays_year_range (z : Int) (h0 : dayMin ≤ z) (h1 : z ≤ dayMax) :
    1 ≤ (civilFromDays z).1 ∧ (civilFromDays z).1 ≤ 9999 := by
  obtain ⟨hd0, hd1⟩ := doe_range (z + 719468)
  obtain ⟨hy0, hy1⟩ := yoe_range _ hd0 hd1
  obtain ⟨hs0, hs1, _⟩ := doy_spec _ hd0 hd1
  obtain ⟨hm0, hm1⟩ := mp_range _ hs0 hs1
  simp only [civilFromDays]
  unfold dayMin at h0
  unfold dayMax at h1
  unfold mpOfDoy yearStart at *
  omega


/-! ### civil → days → civil -/

theorem yearStart_succ (a : Int) :
    yearStart (a + 1) = yearStart a + 365 + (if a % 4 = 3 then 1 else 0) - (if a % 100 = 99 then 1 else 0) := by
  unfold yearStart; omega

theorem yearStart_mono (a b : Int) (h : a + 1 ≤ b) : yearStart (a + 1) ≤ yearStart b := by
  unfold yearStart
  by_cases hb : b = a + 1
  · subst hb; omega
  · omega

theorem yearStart_range (y : Int) (h0 : 0 ≤ y) (h1 : y ≤ 399) : 0 ≤ yearStart y ∧ yearStart y ≤ 145731 := by
  unfold yearStart; omega

/-- **the year is recovered**: a day inside year-of-era `y` has Hinnant quotient `y` -/
theorem yoeOfDoe_yearStart (y doy : Int) (h0 : 0 ≤ y) (h1 : y ≤ 399) (hd0 : 0 ≤ doy)
    (hd1 : doy ≤ 364 ∨ (doy = 365 ∧ longYoe y)) : yoeOfDoe (yearStart y + doy) = y := by
  have hs := yearStart_range y h0 h1
  have hlong : longYoe y → y % 4 = 3 ∧ (y % 100 ≠ 99 ∨ y = 399) := fun h => h
  have hr0 : 0 ≤ yearStart y + doy := by omega
  have hr1 : yearStart y + doy ≤ 146096 := by
    rcases hd1 with h | ⟨h, _⟩ <;> omega
  obtain ⟨hy0, hy1⟩ := yoe_range _ hr0 hr1
  obtain ⟨hs0, hs1, hl⟩ := doy_spec _ hr0 hr1
  unfold longYoe at hl hd1
  generalize yoeOfDoe (yearStart y + doy) = y' at *
  by_cases hlt : y + 1 ≤ y'
  · exfalso
    have := yearStart_mono y y' hlt
    have := yearStart_succ y
    omega
  by_cases hgt : y' + 1 ≤ y
  · exfalso
    have := yearStart_mono y' y hgt
    have := yearStart_succ y'
    omega
  omega

theorem civil_era (era yoe mp d : Int) (hy0 : 0 ≤ yoe) (hy1 : yoe ≤ 399) (hm0 : 0 ≤ mp) (hm1 : mp ≤ 11) (hd0 : 1 ≤ d)
    (hd1 : d ≤ mpLen mp ∨ (d = 29 ∧ mp = 11 ∧ longYoe yoe)) :
    civilFromDays (era * 146097 + (yearStart yoe + (monthStart mp + d - 1)) - 719468) =
      (if (if mp < 10 then mp + 3 else mp - 9) ≤ 2 then yoe + era * 400 + 1 else yoe + era * 400,
        if mp < 10 then mp + 3 else mp - 9, d) := by
  have hms : 0 ≤ monthStart mp ∧ monthStart mp ≤ 337 ∧ (mp = 11 → monthStart mp = 337) ∧
      monthStart mp + mpLen mp ≤ 365 := by
    unfold monthStart mpLen; omega
  have hdoy0 : 0 ≤ monthStart mp + d - 1 := by omega
  have hdoy1 : monthStart mp + d - 1 ≤ 364 ∨ (monthStart mp + d - 1 = 365 ∧ longYoe yoe) := by
    rcases hd1 with h | ⟨h1, h2, h3⟩
    · left; omega
    · right; exact ⟨by omega, h3⟩
  have hyoe := yoeOfDoe_yearStart yoe _ hy0 hy1 hdoy0 hdoy1
  have hs := yearStart_range yoe hy0 hy1
  have hmp := mp_of_monthStart mp d hm0 hm1 hd0 (by
    rcases hd1 with h | ⟨h1, h2, _⟩
    · split <;> omega
    · subst h2; unfold mpLen; simp only [if_true]; omega)
  have hera : (era * 146097 + (yearStart yoe + (monthStart mp + d - 1)) - 719468 + 719468) / 146097 = era := by
    rcases hdoy1 with h | ⟨h, _⟩ <;> omega
  unfold civilFromDays
  simp only [hera]
  have hdoe : era * 146097 + (yearStart yoe + (monthStart mp + d - 1)) - 719468 + 719468 - era * 146097
      = yearStart yoe + (monthStart mp + d - 1) := by omega
  simp only [hdoe, hyoe]
  have hdoy : yearStart yoe + (monthStart mp + d - 1) - yearStart yoe = monthStart mp + d - 1 := by omega
  simp only [hdoy, hmp]
  have hd : monthStart mp + d - 1 - monthStart mp + 1 = d := by omega
  simp only [hd]

/-- **`civilFromDays (daysFromCivil y m d) = (y, m, d)`** for every date of the calendar (any year) -/
theorem civilFromDays_daysFromCivil (y m d : Int) (h : validDate y m d) :
    civilFromDays (daysFromCivil y m d) = (y, m, d) := by
  obtain ⟨hm1, hm12, hd1, hdl⟩ := h
  rw [monthLen_eq] at hdl
  -- the era form of the date
  have key : ∃ era yoe mp, 0 ≤ yoe ∧ yoe ≤ 399 ∧ 0 ≤ mp ∧ mp ≤ 11 ∧
      m = (if mp < 10 then mp + 3 else mp - 9) ∧
      y = (if (if mp < 10 then mp + 3 else mp - 9) ≤ 2 then yoe + era * 400 + 1 else yoe + era * 400) ∧
      (d ≤ mpLen mp ∨ (d = 29 ∧ mp = 11 ∧ longYoe yoe)) := by
    by_cases hm : m ≤ 2
    · refine ⟨(y - 1) / 400, (y - 1) - (y - 1) / 400 * 400, m + 9, by omega, by omega, by omega, by omega, ?_, ?_, ?_⟩
      · have : ¬ (m + 9 < 10) := by omega
        simp only [this, if_false]; omega
      · have h1 : ¬ (m + 9 < 10) := by omega
        have h2 : m + 9 - 9 ≤ 2 := by omega
        simp only [h1, if_false, h2, if_true]; omega
      · unfold mpLen longYoe
        omega
    · refine ⟨y / 400, y - y / 400 * 400, m - 3, by omega, by omega, by omega, by omega, ?_, ?_, ?_⟩
      · have : m - 3 < 10 := by omega
        simp only [this, if_true]; omega
      · have h1 : m - 3 < 10 := by omega
        have h2 : ¬ (m - 3 + 3 ≤ 2) := by omega
        simp only [h1, if_true, h2, if_false]; omega
      · left; unfold mpLen; omega
  obtain ⟨era, yoe, mp, hy0, hy1, hp0, hp1, hm, hy, hd⟩ := key
  rw [hy, hm, daysFromCivil_era era yoe mp d hy0 hy1 hp0 hp1]
  exact civil_era era yoe mp d hy0 hy1 hp0 hp1 hd1 hd

/-! ### digits -/

theorem digitVal_digitChar (k : Nat) (h : k < 10) : digitVal (digitChar k) = some k := by
  iterate 10 (rcases k with _ | k; · decide)
  omega

theorem num2_dec2 (n : Int) (h0 : 0 ≤ n) (h1 : n ≤ 99) :
    num2 (digitChar (n / 10 % 10).toNat) (digitChar (n % 10).toNat) = some n := by
  unfold num2
  rw [digitVal_digitChar _ (by omega), digitVal_digitChar _ (by omega)]
  simp only [Option.some.injEq]
  omega

theorem num4_dec4 (n : Int) (h0 : 0 ≤ n) (h1 : n ≤ 9999) :
    num4 (digitChar (n / 1000 % 10).toNat) (digitChar (n / 100 % 10).toNat) (digitChar (n / 10 % 10).toNat)
      (digitChar (n % 10).toNat) = some n := by
  unfold num4
  rw [digitVal_digitChar _ (by omega), digitVal_digitChar _ (by omega), digitVal_digitChar _ (by omega),
    digitVal_digitChar _ (by omega)]
  simp only [Option.some.injEq]
  omega

/-! ### `parseTimestamp (fmtTimestamp t) = t` -/

theorem monthLen_le (y m : Int) : monthLen y m ≤ 31 := by
  unfold monthLen; split <;> split <;> omega

/-- the canonical text, character by character -/
theorem fmtTimestamp_eq (t : Int) (h0 : tsMin ≤ t) (h1 : t ≤ tsMax) :
    fmtTimestamp true t = some (
      let c := civilFromDays (t / 86400)
      let s := t % 86400
      [digitChar (c.1 / 1000 % 10).toNat, digitChar (c.1 / 100 % 10).toNat, digitChar (c.1 / 10 % 10).toNat,
        digitChar (c.1 % 10).toNat, '-', digitChar (c.2.1 / 10 % 10).toNat, digitChar (c.2.1 % 10).toNat, '-',
        digitChar (c.2.2 / 10 % 10).toNat, digitChar (c.2.2 % 10).toNat, 'T',
        digitChar (s / 3600 / 10 % 10).toNat, digitChar (s / 3600 % 10).toNat, ':',
        digitChar (s % 3600 / 60 / 10 % 10).toNat, digitChar (s % 3600 / 60 % 10).toNat, ':',
        digitChar (s % 60 / 10 % 10).toNat, digitChar (s % 60 % 10).toNat, 'Z']) := by
  simp only [fmtTimestamp, h0, h1, and_self, if_true, yearText, dec4, dec2, List.cons_append, List.nil_append]

theorem parse_fmt (t : Int) (h0 : tsMin ≤ t) (h1 : t ≤ tsMax) :
    ∃ s, fmtTimestamp true t = some s ∧ parseTimestamp s = some t := by
  refine ⟨_, fmtTimestamp_eq t h0 h1, ?_⟩
  have hz0 : dayMin ≤ t / 86400 := by unfold dayMin; unfold tsMin at h0; omega
  have hz1 : t / 86400 ≤ dayMax := by unfold dayMax; unfold tsMax at h1; omega
  obtain ⟨hy0, hy1⟩ := civilFromDays_year_range _ hz0 hz1
  obtain ⟨hm0, hm1, hd0, hd1⟩ := civilFromDays_valid (t / 86400)
  have hrt := daysFromCivil_civilFromDays (t / 86400)
  have hd31 := monthLen_le (civilFromDays (t / 86400)).1 (civilFromDays (t / 86400)).2.1
  generalize civilFromDays (t / 86400) = c at *
  obtain ⟨y, m, d⟩ := c
  simp only at hy0 hy1 hm0 hm1 hd0 hd1 hrt hd31
  simp only [parseTimestamp, and_self, if_true]
  rw [num4_dec4 y (by omega) hy1, num2_dec2 m (by omega) (by omega), num2_dec2 d (by omega) (by omega),
    num2_dec2 (t % 86400 / 3600) (by omega) (by omega), num2_dec2 (t % 86400 % 3600 / 60) (by omega) (by omega),
    num2_dec2 (t % 86400 % 60) (by omega) (by omega)]
  have hf : takeFraction ['Z'] = some ([], ['Z']) := by decide
  have hzone : parseZone ['Z'] = some none := by decide
  simp only [hf, hzone, assemble]
  have hc : 1 ≤ y ∧ y ≤ 9999 ∧ 1 ≤ m ∧ m ≤ 12 ∧ 1 ≤ d ∧ d ≤ monthLen y m ∧ t % 86400 / 3600 ≤ 23 ∧
      t % 86400 % 3600 / 60 ≤ 59 ∧ t % 86400 % 60 ≤ 59 := by
    refine ⟨hy0, hy1, hm0, hm1, hd0, hd1, ?_, ?_, ?_⟩ <;> omega
  simp only [hc, and_self, if_true, List.isEmpty_nil, Option.getD_none, Option.some.injEq, hrt]
  omega

/-- `format_timestamp` raises (`datetime.fromtimestamp`: year out of range) exactly outside 0001…9999 -/
theorem fmtTimestamp_eq_none_iff (padded : Bool) (t : Int) : fmtTimestamp padded t = none ↔ t < tsMin ∨ tsMax < t := by
  unfold fmtTimestamp
  by_cases h : tsMin ≤ t ∧ t ≤ tsMax
  · simp only [h, and_self, if_true, reduceCtorEq, false_iff]; omega
  · simp only [h, if_false, true_iff]; omega

/-- the canonical text has exactly 20 characters -/
theorem fmtTimestamp_length (t : Int) (s : List Char) (h : fmtTimestamp true t = some s) : s.length = 20 := by
  by_cases hr : tsMin ≤ t ∧ t ≤ tsMax
  · rw [fmtTimestamp_eq t hr.1 hr.2] at h
    cases h; rfl
  · have : fmtTimestamp true t = none := (fmtTimestamp_eq_none_iff true t).2 (by omega)
    rw [this] at h; cases h

/-- different instants have different texts -/
theorem fmtTimestamp_injective (t t' : Int) (s : List Char) (h : fmtTimestamp true t = some s)
    (h' : fmtTimestamp true t' = some s) : t = t' := by
  have r : ∀ u, fmtTimestamp true u = some s → parseTimestamp s = some u := by
    intro u hu
    have hr : tsMin ≤ u ∧ u ≤ tsMax := by
      by_cases hr : tsMin ≤ u ∧ u ≤ tsMax
      · exact hr
      · have : fmtTimestamp true u = none := (fmtTimestamp_eq_none_iff true u).2 (by omega)
        rw [this] at hu; cases hu
    obtain ⟨s', hs', hp⟩ := parse_fmt u hr.1 hr.2
    rw [hu] at hs'; cases hs'; exact hp
  have := r t h
  rw [r t' h'] at this
  exact (Option.some.inj this).symm

end Civil
