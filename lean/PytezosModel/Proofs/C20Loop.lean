import PytezosModel.Proofs.C20Exec
/-! C20: loops, DUP, and the induction over the evaluation (fuel) -/
namespace Impl.Tickets

/-- the state with some values "in hand" (popped from a container, not yet pushed) counted as part of the stack -/
def State.withExtra (s : State) (xs : List Val) : State := { s with items := xs ++ s.items }

theorem Good.perm {s t : State} (hi : s.items.Perm t.items) (hs : t.self = s.self) (ht : t.typedStores = s.typedStores)
    (hm : t.minted = s.minted) : Good s t :=
  Good.frame [] [] t.items [] true hi (List.Perm.refl _) hs (by simp [ht]) (by simp [hm])
    (fun _ _ => ⟨LC_nil, fun _ => Nat.le_refl _, fun _ => LN_nil⟩)

theorem Good.lift {a b : State} (xs : List Val) (g : Good a b) : Good (a.withExtra xs) (b.withExtra xs) := by
  refine ⟨g.self_eq, g.typed_mono, g.minted_ext, fun ht hc => ?_⟩
  have hc' := LC_append.mp hc
  obtain ⟨c1, m1, z1⟩ := g.inv ht hc'.2
  refine ⟨LC_append.mpr ⟨hc'.1, c1⟩, fun k => ?_, fun hz => ?_⟩
  · have e1 : (a.withExtra xs).sum k = LS k xs + a.sum k := LS_append k xs a.items
    have e2 : (b.withExtra xs).sum k = LS k xs + b.sum k := LS_append k xs b.items
    have := m1 k
    show (b.withExtra xs).sum k + mintedSum k a.minted ≤ (a.withExtra xs).sum k + mintedSum k b.minted
    rw [e1, e2]; omega
  · have hz' := LN_append.mp hz
    exact LN_append.mpr ⟨hz'.1, z1 hz'.2⟩

theorem zip_pairs_vals (k : TKey) : ∀ (keys : List Atom) (vals : List Val),
    LS k ((keys.zip vals).map fun (a, v) => Val.pair (.atom a) v) ≤ LS k vals
      ∧ (LC vals → LC ((keys.zip vals).map fun (a, v) => Val.pair (.atom a) v))
      ∧ (LN vals → LN ((keys.zip vals).map fun (a, v) => Val.pair (.atom a) v))
  | [], _ => by simp [LS, ticketSumList, LC_nil, LN_nil]
  | _ :: _, [] => by simp [LS, ticketSumList, LC_nil, LN_nil]
  | a :: as, v :: vs => by
    obtain ⟨h1, h2, h3⟩ := zip_pairs_vals k as vs
    simp only [List.zip_cons_cons, List.map_cons, LS_cons, ticketSum]
    refine ⟨by simp only [LS] at h1 ⊢; omega, fun hc => ?_, fun hz => ?_⟩
    · exact LC_cons.mpr ⟨by simp [Val.consistent, (LC_cons.mp hc).1], h2 (LC_cons.mp hc).2⟩
    · exact LN_cons.mpr ⟨by simp [noZero, (LN_cons.mp hz).1], h3 (LN_cons.mp hz).2⟩

/-- what ITER / MAP take out of a container is what the container held -/
theorem elements_vals {src : Val} {els : List Val} (h : elements src = .ok els) (hc : src.consistent = true) :
    LC els ∧ (∀ k, LS k els ≤ ticketSum k src) ∧ (noZero src = true → LN els) := by
  cases src with
  | list t xs =>
    simp only [elements, Except.ok.injEq] at h; subst h
    simp only [Val.consistent] at hc
    refine ⟨((consistentList_iff t _).mp hc).2, fun k => by simp [ticketSum, LS], fun hz => ?_⟩
    simp only [noZero] at hz; exact (noZeroList_iff _).mp hz
  | pair l r =>
    simp only [elements, Except.ok.injEq] at h; subst h
    simp only [Val.consistent, Bool.and_eq_true] at hc
    refine ⟨LC_cons.mpr ⟨hc.1, LC_cons.mpr ⟨hc.2, LC_nil⟩⟩, fun k => by simp [ticketSum, LS_cons, LS_nil], fun hz => ?_⟩
    simp only [noZero, Bool.and_eq_true] at hz
    exact LN_cons.mpr ⟨hz.1, LN_cons.mpr ⟨hz.2, LN_nil⟩⟩
  | map big kt vt keys vals removed =>
    simp only [elements] at h
    split at h
    · cases h
    · simp only [Except.ok.injEq] at h; subst h
      have wf := mapWF_of_consistent hc
      refine ⟨(zip_pairs_vals ("", .atom .unit) keys vals).2.1 wf.cons, fun k => ?_, fun hz => ?_⟩
      · have := (zip_pairs_vals k keys vals).1
        simp only [ticketSum, LS] at this ⊢; exact this
      · simp only [noZero] at hz
        exact (zip_pairs_vals ("", .atom .unit) keys vals).2.2 ((noZeroList_iff _).mp hz)
  | set t xs =>
    simp only [elements, Except.ok.injEq] at h; subst h
    refine ⟨fun v hv => ?_, fun k => ?_, fun _ v hv => ?_⟩
    · obtain ⟨a, _, rfl⟩ := List.mem_map.mp hv; rfl
    · have : ∀ ys : List Atom, LS k (ys.map Val.atom) = 0 := by
        intro ys; induction ys with
        | nil => rfl
        | cons y ys ih => simp only [List.map_cons, LS_cons, ticketSum, ih]
      simp [this, ticketSum]
    · obtain ⟨a, _, rfl⟩ := List.mem_map.mp hv; rfl
  | atom _ => simp [elements] at h
  | ticket _ _ _ _ => simp [elements] at h
  | none _ => simp [elements] at h
  | some _ => simp [elements] at h
  | left _ _ => simp [elements] at h
  | right _ _ => simp [elements] at h
  | lam _ _ _ => simp [elements] at h

theorem duplicate_spec {c : Cfg} (ok : CfgOk c) {v r : Val} (h : duplicate c v = .ok r) :
    r = v ∧ (v.consistent = true → ∀ k, ticketSum k v = 0) := by
  have key : v.typeOf.all c.nonDup = true → r = v → r = v ∧ (v.consistent = true → ∀ k, ticketSum k v = 0) :=
    fun ha hr => ⟨hr, fun hc => all_free _ ok.dup_ticket v hc ha⟩
  unfold duplicate at h
  split at h
  · rename_i k vt _ _ _
    split at h
    · cases h
    · rename_i hcond
      simp only [Except.ok.injEq] at h
      simp only [ok.dup_big, Bool.true_and, Bool.not_eq_true', Bool.not_eq_false] at hcond
      exact key (by simpa [Val.typeOf] using hcond) h.symm
  · split at h
    · cases h
    · rename_i hcond
      simp only [Except.ok.injEq] at h
      exact key (by simpa using hcond) h.symm

theorem good_dupLike {c : Cfg} (ok : CfgOk c) {s sp s' : State} {top r : Val} (hcore : SameCore s sp)
    (hpeek : sp.peek = .ok top) (hd : duplicate c top = .ok r) (hi : s'.items.Perm (r :: s.items))
    (hs : s'.self = s.self) (ht : s'.typedStores = s.typedStores) (hm : s'.minted = s.minted) : Good s s' := by
  obtain ⟨rfl, hfree⟩ := duplicate_spec ok hd
  obtain ⟨rest, hrest⟩ := peek_perm hpeek
  rw [hcore.1] at hrest
  refine Good.frame [r] [r, r] rest [] true hrest (hi.trans (List.Perm.cons _ hrest)) hs (by simp [ht]) (by simp [hm]) ?_
  intro _ hc
  have hcr := (LC_cons.mp hc).1
  refine ⟨LC_cons.mpr ⟨hcr, hc⟩, fun k => ?_, fun hz => LN_cons.mpr ⟨(LN_cons.mp hz).1, hz⟩⟩
  simp only [LS_cons, LS_nil, hfree hcr k, mintedSum]; omega

theorem sameTypes_iff (t : Ty) (ys : List Val) : sameTypes t ys = true ↔ ∀ v ∈ ys, v.typeOf = t := by
  simp [sameTypes]

theorem mapLoop_length {c : Cfg} : ∀ (f : Nat) (body : List Instr) (xs acc : List Val) (s : State) (ys : List Val) (s' : State),
    mapLoop c f body xs acc s = .ok (ys, s') → ys.length = acc.length + xs.length
  | 0, _, _, _, _, _, _, h => by simp [mapLoop] at h
  | f + 1, _, [], acc, s, ys, s', h => by
    simp only [mapLoop, Except.ok.injEq, Prod.mk.injEq] at h
    rw [← h.1]; simp
  | f + 1, body, x :: xs, acc, s, ys, s', h => by
    simp only [mapLoop, bind, Except.bind] at h
    cases hb : execSeq c f body (s.push x) with
    | error e => simp [hb] at h
    | ok sb =>
      simp only [hb] at h
      cases hp : sb.pop1 with
      | error e => simp [hp] at h
      | ok ys' =>
        obtain ⟨y, sc⟩ := ys'
        simp only [hp] at h
        have := mapLoop_length f body xs (y :: acc) sc ys s' h
        simp only [List.length_cons] at this ⊢; omega

end Impl.Tickets
