import PytezosModel.Proofs.InterpProgressStep
set_option linter.unusedSectionVars false   -- `[Mode]` is a section variable of every lemma here; some do not use it
/-! Progress for the right-comb instructions (`PAIR n`, `UNPAIR n`, `GET n`, `UPDATE n`), and the collection of all the
rules without sub-programs: `step_safe`. -/
namespace Interp
variable [Mode]
open Typing

theorem pairN_safe : ∀ (n : Nat) (st : List Val) (p : Ty × List Ty), GoodStack st → pairNTy n (st.map typeOf) = some p →
    ∃ r st', Spec.pairN n st = some (r, st') ∧ litOk r = true ∧ GoodStack st'
  | 0, st, p, _, h => by simp [pairNTy] at h
  | 1, st, p, _, h => by simp [pairNTy] at h
  | 2, st, p, hg, h => by
    rcases st with _ | ⟨a, _ | ⟨b, st⟩⟩ <;> simp [pairNTy] at h
    rw [goodStack_cons, goodStack_cons] at hg
    exact ⟨_, _, rfl, by simp [hg.1, hg.2.1], hg.2.2⟩
  | n + 3, st, p, hg, h => by
    rcases st with _ | ⟨a, st⟩
    · simp [pairNTy] at h
    rw [goodStack_cons] at hg
    simp only [List.map_cons, pairNTy] at h
    cases hq : pairNTy (n + 2) (st.map typeOf) with
    | none => simp [hq] at h
    | some q =>
      obtain ⟨r, st', h1, h2, h3⟩ := pairN_safe (n + 2) st q hg.2 hq
      exact ⟨.pair a r, st', by simp [Spec.pairN, h1], by simp [hg.1, h2], h3⟩

theorem unpairN_safe : ∀ (n : Nat) (v : Val) (ts : List Ty), WF v → litOk v = true → unpairNTy n (typeOf v) = some ts →
    ∃ xs, Spec.unpairN n v = some xs ∧ GoodStack xs
  | 0, v, ts, _, _, h => by cases hv : typeOf v <;> simp [hv, unpairNTy] at h
  | 1, v, ts, _, _, h => by cases hv : typeOf v <;> simp [hv, unpairNTy] at h
  | 2, v, ts, hw, hg, h => by
    generalize hv : typeOf v = tv at h
    cases tv <;> simp [unpairNTy] at h
    obtain ⟨x, y, rfl, _, _⟩ := canon_pair hw hv
    rw [litOk_pair] at hg
    exact ⟨[x, y], rfl, by simp [goodStack_cons, hg.1, hg.2, goodStack_nil]⟩
  | n + 3, v, ts, hw, hg, h => by
    generalize hv : typeOf v = tv at h
    cases tv <;> simp only [unpairNTy] at h <;> first | (simp at h; done) | skip
    rename_i l r
    obtain ⟨x, y, rfl, _, hy⟩ := canon_pair hw hv
    rw [litOk_pair] at hg
    cases hq : unpairNTy (n + 2) r with
    | none => simp [hq] at h
    | some q =>
      obtain ⟨xs, h1, h2⟩ := unpairN_safe (n + 2) y q hy.1 hg.2 (by rw [hy.2]; exact hq)
      exact ⟨x :: xs, by simp [Spec.unpairN, h1], by simp [goodStack_cons, hg.1, h2]⟩

theorem getN_safe : ∀ (n : Nat) (v : Val) (t : Ty), WF v → litOk v = true → getNTy n (typeOf v) = some t →
    ∃ r, Spec.getN n v = some r ∧ litOk r = true
  | 0, v, t, _, hg, _ => ⟨v, rfl, hg⟩
  | 1, v, t, hw, hg, h => by
    generalize hv : typeOf v = tv at h
    cases tv <;> simp [getNTy] at h
    obtain ⟨x, y, rfl, _, _⟩ := canon_pair hw hv
    rw [litOk_pair] at hg
    exact ⟨x, rfl, hg.1⟩
  | n + 2, v, t, hw, hg, h => by
    generalize hv : typeOf v = tv at h
    cases tv <;> simp only [getNTy] at h <;> first | (simp at h; done) | skip
    obtain ⟨x, y, rfl, _, hy⟩ := canon_pair hw hv
    rw [litOk_pair] at hg
    obtain ⟨r, h1, h2⟩ := getN_safe n y t hy.1 hg.2 (by rw [hy.2]; exact h)
    exact ⟨r, by simp [Spec.getN, h1], h2⟩

theorem updateN_safe : ∀ (n : Nat) (e v : Val) (t : Ty), WF v → litOk e = true → litOk v = true →
    updateNTy n (typeOf e) (typeOf v) = some t → ∃ r, Spec.updateN n e v = some r ∧ litOk r = true
  | 0, e, v, t, _, hge, _, _ => ⟨e, rfl, hge⟩
  | 1, e, v, t, hw, hge, hg, h => by
    generalize hv : typeOf v = tv at h
    cases tv <;> simp [updateNTy] at h
    obtain ⟨x, y, rfl, _, _⟩ := canon_pair hw hv
    rw [litOk_pair] at hg
    exact ⟨.pair e y, rfl, by simp [hge, hg.2]⟩
  | n + 2, e, v, t, hw, hge, hg, h => by
    generalize hv : typeOf v = tv at h
    cases tv <;> simp only [updateNTy] at h <;> first | (simp at h; done) | skip
    rename_i l r
    obtain ⟨x, y, rfl, _, hy⟩ := canon_pair hw hv
    rw [litOk_pair] at hg
    cases hq : updateNTy n (typeOf e) r with
    | none => simp [hq] at h
    | some q =>
      obtain ⟨r', h1, h2⟩ := updateN_safe n e y q hy.1 hge hg.2 (by rw [hy.2]; exact hq)
      exact ⟨.pair x r', by simp [Spec.updateN, h1], by simp [hg.1, h2]⟩

section
variable (env : Env) (st : List Val) (tr : TRes) (hw : StackWF st) (hg : GoodStack st)
include hw hg

theorem safe_PAIRN (n : Nat) (hty : Typing.step (.PAIRN n) (st.map typeOf) = some tr) :
    (Spec.step env (.PAIRN n) st).Safe GoodStack := by
  simp only [Typing.step] at hty
  cases hq : pairNTy n (st.map typeOf) with
  | none => simp [hq] at hty
  | some p =>
    obtain ⟨r, st', h1, h2, h3⟩ := pairN_safe n st p hg hq
    simp [Spec.step, h1, goodStack_cons, h2, h3]

theorem safe_UNPAIRN (n : Nat) (hty : Typing.step (.UNPAIRN n) (st.map typeOf) = some tr) :
    (Spec.step env (.UNPAIRN n) st).Safe GoodStack := by
  rcases st with _ | ⟨v, st⟩
  · simp [Typing.step, Typing.stepMore] at hty
  rw [stackWF_cons] at hw
  rw [goodStack_cons] at hg
  simp only [List.map_cons, Typing.step] at hty
  cases hq : unpairNTy n (typeOf v) with
  | none => simp [hq] at hty
  | some ts =>
    obtain ⟨xs, h1, h2⟩ := unpairN_safe n v ts hw.1 hg.1 hq
    simp [Spec.step, h1, goodStack_append, h2, hg.2]

theorem safe_GETN (n : Nat) (hty : Typing.step (.GETN n) (st.map typeOf) = some tr) :
    (Spec.step env (.GETN n) st).Safe GoodStack := by
  rcases st with _ | ⟨v, st⟩
  · simp [Typing.step, Typing.stepMore] at hty
  rw [stackWF_cons] at hw
  rw [goodStack_cons] at hg
  simp only [List.map_cons, Typing.step] at hty
  cases hq : getNTy n (typeOf v) with
  | none => simp [hq] at hty
  | some t =>
    obtain ⟨r, h1, h2⟩ := getN_safe n v t hw.1 hg.1 hq
    simp [Spec.step, h1, goodStack_cons, h2, hg.2]

theorem safe_UPDATEN (n : Nat) (hty : Typing.step (.UPDATEN n) (st.map typeOf) = some tr) :
    (Spec.step env (.UPDATEN n) st).Safe GoodStack := by
  rcases st with _ | ⟨e, _ | ⟨v, st⟩⟩
  · simp [Typing.step, Typing.stepMore] at hty
  · simp [Typing.step, Typing.stepMore] at hty
  rw [stackWF_cons, stackWF_cons] at hw
  rw [goodStack_cons, goodStack_cons] at hg
  simp only [List.map_cons, Typing.step] at hty
  cases hq : updateNTy n (typeOf e) (typeOf v) with
  | none => simp [hq] at hty
  | some t =>
    obtain ⟨r, h1, h2⟩ := updateN_safe n e v t hw.2.1 hg.1 hg.2.1 hq
    simp [Spec.step, h1, goodStack_cons, h2, hg.2.2]

end

/-! ### extension 2 -/
theorem canon_keyHash {a : Val} (hw : WF a) (ht : typeOf a = .keyHash) : ∃ s, a = .atom .keyHash s := by
  cases a <;> simp [typeOf] at ht <;> first | (subst ht; exact ⟨_, rfl⟩) | canon_rest
theorem canon_key {a : Val} (hw : WF a) (ht : typeOf a = .key) : ∃ s, a = .atom .key s := by
  cases a <;> simp [typeOf] at ht <;> first | (subst ht; exact ⟨_, rfl⟩) | canon_rest
theorem canon_signature {a : Val} (hw : WF a) (ht : typeOf a = .signature) : ∃ s, a = .atom .signature s := by
  cases a <;> simp [typeOf] at ht <;> first | (subst ht; exact ⟨_, rfl⟩) | canon_rest
theorem canon_contract {a : Val} {t : Ty} (hw : WF a) (ht : typeOf a = .contract t) : ∃ s, a = .contract t s := by
  cases a <;> simp [typeOf] at ht <;> first | (subst ht; exact ⟨_, rfl⟩) | canon_rest
theorem canon_address {a : Val} (hw : WF a) (ht : typeOf a = .address) : ∃ s, a = .atom .address s := by
  cases a <;> simp [typeOf] at ht <;> first | (subst ht; exact ⟨_, rfl⟩) | canon_rest
/-- there is no well-formed value of type `never` -/
theorem no_never {a : Val} (hw : WF a) (ht : typeOf a = .never) : False := by
  cases a <;> simp [typeOf] at ht <;> canon_rest

/-- the unary rules of extension 2 apply to every well-formed value of an operand type of their typing rule -/
theorem unV_safe (env : Env) (i : Instr) (a : Val) (t : Ty) (hwa : WF a) (_ : litOk a = true)
    (h : unTy i (typeOf a) = some t) : (Spec.unV env i a).Safe (fun r => litOk r = true) := by
  generalize hta : typeOf a = ta at h
  cases i <;> first | (simp [unTy] at h; done) | skip
  · -- NAT
    cases ta <;> first | (simp [unTy, natTy] at h; done) | skip
    obtain ⟨s, rfl⟩ := canon_bytes hwa hta
    simp [Spec.unV, Spec.natV]
  · -- BYTES
    cases ta <;> first | (simp [unTy, bytesTy] at h; done) | skip
    · obtain ⟨n, rfl⟩ := canon_int hwa hta
      simp [Spec.unV, Spec.bytesV]
    · obtain ⟨n, rfl, hn⟩ := canon_nat hwa hta
      simp [Spec.unV, Spec.bytesV, hn]
  · -- VOTING_POWER
    cases ta <;> first | (simp [unTy, votingPowerTy] at h; done) | skip
    obtain ⟨s, rfl⟩ := canon_keyHash hwa hta
    simp only [Spec.unV, Spec.votingPowerV]
    exact numOk_safe .nat _ (Or.inr (Or.inl rfl))
  · -- HASH_KEY
    cases ta <;> first | (simp [unTy, hashKeyTy] at h; done) | skip
    obtain ⟨s, rfl⟩ := canon_key hwa hta
    simp [Spec.unV, Spec.hashKeyV]
  · -- ADDRESS
    cases ta <;> first | (simp [unTy, addressTy] at h; done) | skip
    obtain ⟨s, rfl⟩ := canon_contract hwa hta
    simp [Spec.unV, Spec.addressV]
  · -- IMPLICIT_ACCOUNT
    cases ta <;> first | (simp [unTy, implicitAccountTy] at h; done) | skip
    obtain ⟨s, rfl⟩ := canon_keyHash hwa hta
    simp [Spec.unV, Spec.implicitAccountV, litOk]
  · -- CONTRACT
    cases ta <;> first | (simp [unTy, contractTy] at h; done) | skip
    obtain ⟨s, rfl⟩ := canon_address hwa hta
    simp only [Spec.unV, Spec.contractV]
    split
    · simp
    · split
      · split <;> simp [litOk]
      · simp [litOk]
  · -- SET_DELEGATE
    cases ta <;> first | (simp [unTy, setDelegateTy] at h; done) | skip
    rename_i tk
    cases tk <;> first | (simp [unTy, setDelegateTy] at h; done) | skip
    rcases canon_option hwa hta with rfl | ⟨x, rfl, hx, hxt⟩
    · simp [Spec.unV, Spec.setDelegateV, litOk]
    · obtain ⟨s, rfl⟩ := canon_keyHash hx hxt
      simp [Spec.unV, Spec.setDelegateV, litOk]
  · -- EMIT
    rename_i tag t'
    simp only [unTy, emitTy] at h
    split at h
    · rename_i he
      subst he
      simp [Spec.unV, Spec.emitV, hta, litOk]
    · simp at h
  · -- PACK
    simp only [unTy, packTy] at h
    split at h
    · rename_i hp
      have hs := optBoth_some Mode.strict a ta (by rw [← hta]; exact hwa) hp
      simp only [Spec.unV, Spec.packV, hta, hp, Bool.not_true, Bool.false_eq_true, if_false, Spec.optimized]
      cases hb : Spec.optBoth a with
      | none => simp [hb] at hs
      | some y =>
        simp only [Option.map_some]
        cases Spec.encodeM y.1 <;> simp
    · simp at h
  · -- UNPACK
    rename_i t'
    simp only [unTy, unpackTy] at h
    split at h
    · rename_i hb
      obtain ⟨hbt, hu⟩ := hb
      obtain ⟨b, rfl⟩ := canon_bytes hwa (hta.trans hbt)
      simp only [Spec.unV, Spec.unpackV, hu, Bool.not_true, Bool.false_eq_true, if_false]
      split
      · split
        · rename_i v hv
          obtain ⟨d, _, hd⟩ := Option.bind_eq_some_iff.mp hv
          have := (readVal_wf env.readTimestamp Mode.strict t' hu d v hd).2
          simpa [Res.Safe, litOk] using this
        · simp [Res.Safe, litOk]
      · simp [Res.Safe, litOk]
    · simp at h

section
variable (env : Env) (st : List Val) (tr : TRes) (hw : StackWF st) (hg : GoodStack st)
include hw hg

/-- instructions of the form `f a : S → r : S` with a type function `tf` -/
theorem safe_unop (i : Instr) (f : Val → Res Val) (tf : Ty → Option Ty)
    (hs : ∀ a st, Spec.step env i (a :: st) = (f a).bind fun r => .ok (r :: st))
    (ht0 : Typing.step i [] = none)
    (ht : ∀ a s, Typing.step i (a :: s) = (tf a).map fun t => .ok (t :: s))
    (hf : ∀ a t, WF a → litOk a = true → tf (typeOf a) = some t → (f a).Safe (fun r => litOk r = true))
    (hty : Typing.step i (st.map typeOf) = some tr) : (Spec.step env i st).Safe GoodStack := by
  rcases st with _ | ⟨a, st⟩
  · simp [ht0] at hty
  rw [stackWF_cons] at hw
  rw [goodStack_cons] at hg
  simp only [List.map_cons, ht] at hty
  cases htf : tf (typeOf a) with
  | none => simp [htf] at hty
  | some t =>
    rw [hs]
    exact (hf a t hw.1 hg.1 htf).bind fun r _ hr => by simp [goodStack_cons, hr, hg.2]

theorem safe_TRANSFER_TOKENS (hty : Typing.step .TRANSFER_TOKENS (st.map typeOf) = some tr) :
    (Spec.step env .TRANSFER_TOKENS st).Safe GoodStack := by
  rcases st with _ | ⟨a, _ | ⟨b, _ | ⟨c, st⟩⟩⟩
  · simp [Typing.step] at hty
  · simp [Typing.step] at hty
  · simp [Typing.step] at hty
  rw [stackWF_cons, stackWF_cons, stackWF_cons] at hw
  rw [goodStack_cons, goodStack_cons, goodStack_cons] at hg
  have ht : Typing.step .TRANSFER_TOKENS ((a :: b :: c :: st).map typeOf)
      = (transferTokensTy (typeOf a) (typeOf b) (typeOf c)).map fun t => .ok (t :: st.map typeOf) := rfl
  rw [ht] at hty
  generalize htb : typeOf b = tb at hty
  generalize htc : typeOf c = tc at hty
  cases tb <;> first | (simp [transferTokensTy] at hty; done) | skip
  cases tc <;> first | (simp [transferTokensTy] at hty; done) | skip
  rename_i t
  simp only [transferTokensTy] at hty
  split at hty
  · rename_i hpt
    obtain ⟨m, rfl, _⟩ := canon_mutez hw.2.1 htb
    obtain ⟨s, rfl⟩ := canon_contract hw.2.2.1 htc
    have hs : Spec.step env .TRANSFER_TOKENS (a :: Val.num .mutez m :: Val.contract t s :: st)
        = (Spec.transferTokensV env a (.num .mutez m) (.contract t s)).bind fun r => .ok (r :: st) := rfl
    rw [hs]
    simp [Spec.transferTokensV, hpt, goodStack_cons, litOk, hg.2.2.2]
  · simp at hty

theorem safe_CHECK_SIGNATURE (hty : Typing.step .CHECK_SIGNATURE (st.map typeOf) = some tr) :
    (Spec.step env .CHECK_SIGNATURE st).Safe GoodStack := by
  rcases st with _ | ⟨a, _ | ⟨b, _ | ⟨c, st⟩⟩⟩
  · simp [Typing.step] at hty
  · simp [Typing.step] at hty
  · simp [Typing.step] at hty
  rw [stackWF_cons, stackWF_cons, stackWF_cons] at hw
  rw [goodStack_cons, goodStack_cons, goodStack_cons] at hg
  have ht : Typing.step .CHECK_SIGNATURE ((a :: b :: c :: st).map typeOf)
      = (checkSignatureTy (typeOf a) (typeOf b) (typeOf c)).map fun t => .ok (t :: st.map typeOf) := rfl
  rw [ht] at hty
  generalize hta : typeOf a = ta at hty
  generalize htb : typeOf b = tb at hty
  generalize htc : typeOf c = tc at hty
  cases ta <;> first | (simp [checkSignatureTy] at hty; done) | skip
  cases tb <;> first | (simp [checkSignatureTy] at hty; done) | skip
  cases tc <;> first | (simp [checkSignatureTy] at hty; done) | skip
  obtain ⟨k, rfl⟩ := canon_key hw.1 hta
  obtain ⟨s, rfl⟩ := canon_signature hw.2.1 htb
  obtain ⟨m, rfl⟩ := canon_bytes hw.2.2.1 htc
  have hs : Spec.step env .CHECK_SIGNATURE (Val.atom .key k :: Val.atom .signature s :: Val.bytes m :: st)
      = (Spec.checkSignatureV env (.atom .key k) (.atom .signature s) (.bytes m)).bind fun r => .ok (r :: st) := rfl
  rw [hs]
  simp [Spec.checkSignatureV, goodStack_cons, litOk, hg.2.2.2]

/-- NEVER is typed on a stack whose top has type `never`: there is no such stack of well-formed values -/
theorem safe_NEVER (hty : Typing.step .NEVER (st.map typeOf) = some tr) : (Spec.step env .NEVER st).Safe GoodStack := by
  rcases st with _ | ⟨a, st⟩
  · simp [Typing.step] at hty
  · rw [stackWF_cons] at hw
    simp only [List.map_cons] at hty
    generalize hta : typeOf a = ta at hty
    cases ta <;> first | (simp [Typing.step] at hty; done) | skip
    exact (no_never hw.1 hta).elim

end

/-- **progress, rules without sub-programs**: on a well-formed stack on which the typing rule of `i` applies, the
reference rule of `i` is not stuck, and every set / map in its result stack is well-formed again.  (`PUSH` and `LAMBDA`,
whose typing rule looks into the literal, are treated with the control instructions.) -/
theorem step_safe (env : Env) (i : Instr) (st : List Val) (tr : TRes) (hw : StackWF st) (hg : GoodStack st)
    (hty : Typing.step i (st.map typeOf) = some tr) : (Spec.step env i st).Safe GoodStack := by
  cases i
  case seq | DIP | DIPN | IF | IF_NONE | IF_LEFT | IF_CONS | LOOP | LOOP_LEFT | ITER | MAP | EXEC | PUSH | LAMBDA =>
    all_goals (exfalso; revert hty; cases st <;> simp [Typing.step, Typing.stepMore])
  case DROP => exact safe_DROP env st tr hw hg hty
  case DROPN n => exact safe_DROPN env st tr hw hg n hty
  case DUP => exact safe_DUP env st tr hw hg hty
  case DUPN n => exact safe_DUPN env st tr hw hg n hty
  case SWAP => exact safe_SWAP env st tr hw hg hty
  case DIG n => exact safe_DIG env st tr hw hg n hty
  case DUG n => exact safe_DUG env st tr hw hg n hty
  case APPLY => exact safe_APPLY env st tr hw hg hty
  case FAILWITH => exact safe_FAILWITH env st tr hw hg hty
  case UNIT => exact safe_UNIT env st hw hg
  case PAIR => exact safe_PAIR env st tr hw hg hty
  case UNPAIR => exact safe_UNPAIR env st tr hw hg hty
  case CAR => exact safe_CAR env st tr hw hg hty
  case CDR => exact safe_CDR env st tr hw hg hty
  case SOME => exact safe_SOME env st tr hw hg hty
  case NONE t => exact safe_NONE env st hw hg t
  case LEFT t => exact safe_LEFT env st tr hw hg t hty
  case RIGHT t => exact safe_RIGHT env st tr hw hg t hty
  case NIL t => exact safe_NIL env st hw hg t
  case CONS => exact safe_CONS env st tr hw hg hty
  case SIZE => exact safe_SIZE env st tr hw hg hty
  case EMPTY_MAP k v => exact safe_EMPTY_MAP env st hw hg k v
  case ADD => exact safe_ADD env st tr hw hg hty
  case SUB => exact safe_SUB env st tr hw hg hty
  case MUL => exact safe_MUL env st tr hw hg hty
  case NEG => exact safe_NEG env st tr hw hg hty
  case ABS => exact safe_ABS env st tr hw hg hty
  case ISNAT => exact safe_ISNAT env st tr hw hg hty
  case INT => exact safe_INT env st tr hw hg hty
  case COMPARE => exact safe_COMPARE env st tr hw hg hty
  case EQ => exact safe_EQ env st tr hw hg hty
  case NEQ => exact safe_NEQ env st tr hw hg hty
  case LT => exact safe_LT env st tr hw hg hty
  case GT => exact safe_GT env st tr hw hg hty
  case LE => exact safe_LE env st tr hw hg hty
  case GE => exact safe_GE env st tr hw hg hty
  case NOT => exact safe_NOT env st tr hw hg hty
  case AND => exact safe_AND env st tr hw hg hty
  case OR => exact safe_OR env st tr hw hg hty
  case XOR => exact safe_XOR env st tr hw hg hty
  case EDIV => exact safe_EDIV env st tr hw hg hty
  case LSL => exact safe_LSL env st tr hw hg hty
  case LSR => exact safe_LSR env st tr hw hg hty
  case SUB_MUTEZ => exact safe_SUB_MUTEZ env st tr hw hg hty
  case EMPTY_SET t => exact safe_EMPTY_SET env st tr hw hg t hty
  case MEM => exact safe_MEM env st tr hw hg hty
  case GET => exact safe_GET env st tr hw hg hty
  case UPDATE => exact safe_UPDATE env st tr hw hg hty
  case GET_AND_UPDATE => exact safe_GET_AND_UPDATE env st tr hw hg hty
  case CONCAT => exact safe_CONCAT env st tr hw hg hty
  case SLICE => exact safe_SLICE env st tr hw hg hty
  case AMOUNT => exact safe_AMOUNT env st hw hg
  case BALANCE => exact safe_BALANCE env st hw hg
  case SENDER => exact safe_SENDER env st hw hg
  case SOURCE => exact safe_SOURCE env st hw hg
  case NOW => exact safe_NOW env st hw hg
  case LEVEL => exact safe_LEVEL env st hw hg
  case CHAIN_ID => exact safe_CHAIN_ID env st hw hg
  case SELF_ADDRESS => exact safe_SELF_ADDRESS env st hw hg
  case TOTAL_VOTING_POWER => exact safe_TOTAL_VOTING_POWER env st hw hg
  case MIN_BLOCK_TIME => exact safe_MIN_BLOCK_TIME env st hw hg
  case BLAKE2B => exact safe_BLAKE2B env st tr hw hg hty
  case SHA256 => exact safe_SHA256 env st tr hw hg hty
  case SHA512 => exact safe_SHA512 env st tr hw hg hty
  case KECCAK => exact safe_KECCAK env st tr hw hg hty
  case SHA3 => exact safe_SHA3 env st tr hw hg hty
  case RENAME => exact safe_RENAME env st tr hw hg hty
  case CAST t => exact safe_CAST env st tr hw hg t hty
  case PAIRN n => exact safe_PAIRN env st tr hw hg n hty
  case UNPAIRN n => exact safe_UNPAIRN env st tr hw hg n hty
  case GETN n => exact safe_GETN env st tr hw hg n hty
  case UPDATEN n => exact safe_UPDATEN env st tr hw hg n hty
  case NEVER => exact safe_NEVER env st tr hw hg hty
  case NAT =>
    exact safe_unop env st tr hw hg .NAT (Spec.unV env .NAT) (unTy .NAT) (fun _ _ => rfl) rfl (fun _ _ => rfl)
      (unV_safe env .NAT) hty
  case BYTES =>
    exact safe_unop env st tr hw hg .BYTES (Spec.unV env .BYTES) (unTy .BYTES) (fun _ _ => rfl) rfl (fun _ _ => rfl)
      (unV_safe env .BYTES) hty
  case VOTING_POWER =>
    exact safe_unop env st tr hw hg .VOTING_POWER (Spec.unV env .VOTING_POWER) (unTy .VOTING_POWER) (fun _ _ => rfl) rfl
      (fun _ _ => rfl) (unV_safe env .VOTING_POWER) hty
  case HASH_KEY =>
    exact safe_unop env st tr hw hg .HASH_KEY (Spec.unV env .HASH_KEY) (unTy .HASH_KEY) (fun _ _ => rfl) rfl
      (fun _ _ => rfl) (unV_safe env .HASH_KEY) hty
  case ADDRESS =>
    exact safe_unop env st tr hw hg .ADDRESS (Spec.unV env .ADDRESS) (unTy .ADDRESS) (fun _ _ => rfl) rfl
      (fun _ _ => rfl) (unV_safe env .ADDRESS) hty
  case IMPLICIT_ACCOUNT =>
    exact safe_unop env st tr hw hg .IMPLICIT_ACCOUNT (Spec.unV env .IMPLICIT_ACCOUNT) (unTy .IMPLICIT_ACCOUNT) (fun _ _ => rfl) rfl
      (fun _ _ => rfl) (unV_safe env .IMPLICIT_ACCOUNT) hty
  case CONTRACT t ep =>
    exact safe_unop env st tr hw hg (.CONTRACT t ep) (Spec.unV env (.CONTRACT t ep)) (unTy (.CONTRACT t ep)) (fun _ _ => rfl) rfl
      (fun _ _ => rfl) (unV_safe env (.CONTRACT t ep)) hty
  case SET_DELEGATE =>
    exact safe_unop env st tr hw hg .SET_DELEGATE (Spec.unV env .SET_DELEGATE) (unTy .SET_DELEGATE) (fun _ _ => rfl) rfl
      (fun _ _ => rfl) (unV_safe env .SET_DELEGATE) hty
  case EMIT tag t =>
    exact safe_unop env st tr hw hg (.EMIT tag t) (Spec.unV env (.EMIT tag t)) (unTy (.EMIT tag t)) (fun _ _ => rfl) rfl
      (fun _ _ => rfl) (unV_safe env (.EMIT tag t)) hty
  case SELF ep t => simp [Spec.step, goodStack_cons, litOk, hg]
  case TRANSFER_TOKENS => exact safe_TRANSFER_TOKENS env st tr hw hg hty
  case CHECK_SIGNATURE => exact safe_CHECK_SIGNATURE env st tr hw hg hty
  case EMPTY_BIG_MAP k v =>
    simp only [Typing.step, Typing.stepMore, Typing.stepExt] at hty
    split at hty
    · rename_i hc
      simp [Spec.step, Spec.stepMore, Spec.stepExt, hc, goodStack_cons, litOk, goodMap, litOks, strictSorted, hg]
    · simp at hty
  case PACK =>
    exact safe_unop env st tr hw hg .PACK (Spec.unV env .PACK) (unTy .PACK) (fun _ _ => rfl) rfl
      (fun _ _ => rfl) (unV_safe env .PACK) hty
  case UNPACK t =>
    exact safe_unop env st tr hw hg (.UNPACK t) (Spec.unV env (.UNPACK t)) (unTy (.UNPACK t)) (fun _ _ => rfl) rfl
      (fun _ _ => rfl) (unV_safe env (.UNPACK t)) hty

end Interp
