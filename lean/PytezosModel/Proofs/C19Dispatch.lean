import PytezosModel.Michelson.Macros
import PytezosModel.Michelson.MacroSem
/-! C19 helper lemmas: the regex matcher of the mirror, and where `dispatch` sends the names of each family. -/
set_option linter.unusedSimpArgs false
namespace C19.Dispatch
open Impl.Macros Generated.C19 Spec

/-! ### the `many` atom on `p ++ y :: ys` -/

theorem takeWhile_app {α} (f : α → Bool) (xs : List α) (y : α) (ys : List α) (h : ∀ x ∈ xs, f x = true)
    (hy : f y = false) :
    (xs ++ y :: ys).takeWhile f = xs ∧ (xs ++ y :: ys).dropWhile f = y :: ys := by
  induction xs with
  | nil => simp [hy]
  | cons x xs ih =>
    have hx := h x (by simp)
    have := ih (fun z hz => h z (by simp [hz]))
    simp [hx, this]

theorem matchAtoms_many (cs : List Char) (mn : Nat) (as : List Atom) (p : List Char) (y : Char) (ys : List Char)
    (hp : ∀ c ∈ p, cs.contains c = true) (hy : cs.contains y = false) (hl : mn ≤ p.length) :
    matchAtoms (.many cs mn :: as) (p ++ y :: ys) = (matchAtoms as (y :: ys)).map (p :: ·) := by
  have h := takeWhile_app (fun c => cs.contains c) p y ys hp hy
  simp only [matchAtoms, h.1, h.2, hl, if_true]

/-- the letters of a path are `A`/`D` -/
theorem pathChars_AD (p : Path) : ∀ c ∈ pathChars p, ['A', 'D'].contains c = true := by
  intro c hc
  simp only [pathChars, List.mem_map] at hc
  obtain ⟨d, _, rfl⟩ := hc
  cases d <;> decide

theorem pathChars_length (p : Path) : (pathChars p).length = p.length := by simp [pathChars]

/-- a path pattern `^ pre [AD]+ R $` on `pre ++ letters ++ R` -/
theorem matchAtoms_path (p : Path) (hp : 1 ≤ p.length) :
    matchAtoms [.many ['A', 'D'] 1, .lit ['R']] (pathChars p ++ ['R']) = some [pathChars p, ['R']] := by
  rw [matchAtoms_many _ _ _ _ _ _ (pathChars_AD p) (by decide) (by simpa [pathChars_length] using hp)]
  rfl

theorem isPrefixOf_append (l t : List Char) : l.isPrefixOf (l ++ t) = true := by
  induction l with
  | nil => simp [List.isPrefixOf]
  | cons a l ih => simp [List.isPrefixOf, ih]

theorem matchAtoms_lit (l : List Char) (as : List Atom) (t : List Char) :
    matchAtoms (.lit l :: as) (l ++ t) = (matchAtoms as t).map (l :: ·) := by
  simp only [matchAtoms, isPrefixOf_append, if_true, List.drop_left]

theorem findall_path (pre : List Char) (p : Path) (hp : 1 ≤ p.length) :
    findall ⟨[.lit pre, .many ['A', 'D'] 1, .lit ['R']], some (1, 1)⟩ (pre ++ (pathChars p ++ ['R']))
      = some (pathChars p) := by
  simp only [findall, matchAtoms_lit, matchAtoms_path p hp]
  simp

/-- the table entry number `i` -/
def H (i : Nat) : Handler := handlers.getD i ⟨"", "", none, none⟩

/-! ### where the table sends names, by their first letters (the earlier entries fail on a literal) -/

set_option maxRecDepth 8000 in
theorem dispatch_CA (t : List Char) : dispatch handlers ('C' :: 'A' :: t) =
    match findall ⟨[.lit ['C', 'A'], .many ['A', 'D'] 1, .lit ['R']], some (1, 1)⟩ ('C' :: 'A' :: t) with
    | some g => .ok (some (H 15, g))
    | none => dispatch (handlers.drop 16) ('C' :: 'A' :: t) := rfl

set_option maxRecDepth 8000 in
theorem dispatch_CD (t : List Char) : dispatch handlers ('C' :: 'D' :: t) =
    match findall ⟨[.lit ['C', 'D'], .many ['A', 'D'] 1, .lit ['R']], some (1, 1)⟩ ('C' :: 'D' :: t) with
    | some g => .ok (some (H 16, g))
    | none => dispatch (handlers.drop 17) ('C' :: 'D' :: t) := rfl

theorem H15 : (H 15).func = "expand_caxr" ∧ (H 15).shape = some 0 := ⟨rfl, rfl⟩
theorem H16 : (H 16).func = "expand_cdxr" ∧ (H 16).shape = some 0 := ⟨rfl, rfl⟩

theorem dispatch_cadr_A (p : Path) (hp : 1 ≤ p.length) :
    dispatch handlers (cadrName (.A :: p)) = .ok (some (H 15, pathChars p)) := by
  have := findall_path ['C', 'A'] p hp
  simp only [cadrName, pathChars, List.map_cons, Dir.char, List.cons_append] at this ⊢
  rw [dispatch_CA]
  simp only [List.cons_append, List.nil_append] at this
  rw [this]

theorem dispatch_cadr_D (p : Path) (hp : 1 ≤ p.length) :
    dispatch handlers (cadrName (.D :: p)) = .ok (some (H 16, pathChars p)) := by
  have := findall_path ['C', 'D'] p hp
  simp only [cadrName, pathChars, List.map_cons, Dir.char, List.cons_append] at this ⊢
  rw [dispatch_CD]
  simp only [List.cons_append, List.nil_append] at this
  rw [this]


/-! ### SET_C[AD]+R / MAP_C[AD]+R with at least two letters -/

set_option maxRecDepth 8000 in
theorem dispatch_SET_AA (t : List Char) : dispatch handlers ('S' :: 'E' :: 'T' :: '_' :: 'C' :: 'A' :: 'A' :: t) =
    match findall ⟨[.lit ['S', 'E', 'T', '_', 'C', 'A'], .many ['A', 'D'] 1, .lit ['R']], some (1, 1)⟩ ('S' :: 'E' :: 'T' :: '_' :: 'C' :: 'A' :: 'A' :: t) with
    | some g => .ok (some (H 21, g))
    | none => dispatch (handlers.drop 22) ('S' :: 'E' :: 'T' :: '_' :: 'C' :: 'A' :: 'A' :: t) := rfl

set_option maxRecDepth 8000 in
theorem dispatch_SET_AD (t : List Char) : dispatch handlers ('S' :: 'E' :: 'T' :: '_' :: 'C' :: 'A' :: 'D' :: t) =
    match findall ⟨[.lit ['S', 'E', 'T', '_', 'C', 'A'], .many ['A', 'D'] 1, .lit ['R']], some (1, 1)⟩ ('S' :: 'E' :: 'T' :: '_' :: 'C' :: 'A' :: 'D' :: t) with
    | some g => .ok (some (H 21, g))
    | none => dispatch (handlers.drop 22) ('S' :: 'E' :: 'T' :: '_' :: 'C' :: 'A' :: 'D' :: t) := rfl

theorem dispatch_set_A (p : Path) (hp : 1 ≤ p.length) :
    dispatch handlers (setName (.A :: p)) = .ok (some (H 21, pathChars p)) := by
  have := findall_path ['S', 'E', 'T', '_', 'C', 'A'] p hp
  cases p with
  | nil => simp at hp
  | cons e q =>
    cases e
    · simp only [setName, pathChars, List.map_cons, Dir.char, List.cons_append, List.nil_append] at this ⊢
      rw [dispatch_SET_AA, this]
    · simp only [setName, pathChars, List.map_cons, Dir.char, List.cons_append, List.nil_append] at this ⊢
      rw [dispatch_SET_AD, this]

set_option maxRecDepth 8000 in
theorem dispatch_SET_DA (t : List Char) : dispatch handlers ('S' :: 'E' :: 'T' :: '_' :: 'C' :: 'D' :: 'A' :: t) =
    match findall ⟨[.lit ['S', 'E', 'T', '_', 'C', 'D'], .many ['A', 'D'] 1, .lit ['R']], some (1, 1)⟩ ('S' :: 'E' :: 'T' :: '_' :: 'C' :: 'D' :: 'A' :: t) with
    | some g => .ok (some (H 22, g))
    | none => dispatch (handlers.drop 23) ('S' :: 'E' :: 'T' :: '_' :: 'C' :: 'D' :: 'A' :: t) := rfl

set_option maxRecDepth 8000 in
theorem dispatch_SET_DD (t : List Char) : dispatch handlers ('S' :: 'E' :: 'T' :: '_' :: 'C' :: 'D' :: 'D' :: t) =
    match findall ⟨[.lit ['S', 'E', 'T', '_', 'C', 'D'], .many ['A', 'D'] 1, .lit ['R']], some (1, 1)⟩ ('S' :: 'E' :: 'T' :: '_' :: 'C' :: 'D' :: 'D' :: t) with
    | some g => .ok (some (H 22, g))
    | none => dispatch (handlers.drop 23) ('S' :: 'E' :: 'T' :: '_' :: 'C' :: 'D' :: 'D' :: t) := rfl

theorem dispatch_set_D (p : Path) (hp : 1 ≤ p.length) :
    dispatch handlers (setName (.D :: p)) = .ok (some (H 22, pathChars p)) := by
  have := findall_path ['S', 'E', 'T', '_', 'C', 'D'] p hp
  cases p with
  | nil => simp at hp
  | cons e q =>
    cases e
    · simp only [setName, pathChars, List.map_cons, Dir.char, List.cons_append, List.nil_append] at this ⊢
      rw [dispatch_SET_DA, this]
    · simp only [setName, pathChars, List.map_cons, Dir.char, List.cons_append, List.nil_append] at this ⊢
      rw [dispatch_SET_DD, this]

set_option maxRecDepth 8000 in
theorem dispatch_MAP_AA (t : List Char) : dispatch handlers ('M' :: 'A' :: 'P' :: '_' :: 'C' :: 'A' :: 'A' :: t) =
    match findall ⟨[.lit ['M', 'A', 'P', '_', 'C', 'A'], .many ['A', 'D'] 1, .lit ['R']], some (1, 1)⟩ ('M' :: 'A' :: 'P' :: '_' :: 'C' :: 'A' :: 'A' :: t) with
    | some g => .ok (some (H 25, g))
    | none => dispatch (handlers.drop 26) ('M' :: 'A' :: 'P' :: '_' :: 'C' :: 'A' :: 'A' :: t) := rfl

set_option maxRecDepth 8000 in
theorem dispatch_MAP_AD (t : List Char) : dispatch handlers ('M' :: 'A' :: 'P' :: '_' :: 'C' :: 'A' :: 'D' :: t) =
    match findall ⟨[.lit ['M', 'A', 'P', '_', 'C', 'A'], .many ['A', 'D'] 1, .lit ['R']], some (1, 1)⟩ ('M' :: 'A' :: 'P' :: '_' :: 'C' :: 'A' :: 'D' :: t) with
    | some g => .ok (some (H 25, g))
    | none => dispatch (handlers.drop 26) ('M' :: 'A' :: 'P' :: '_' :: 'C' :: 'A' :: 'D' :: t) := rfl

theorem dispatch_map_A (p : Path) (hp : 1 ≤ p.length) :
    dispatch handlers (mapName (.A :: p)) = .ok (some (H 25, pathChars p)) := by
  have := findall_path ['M', 'A', 'P', '_', 'C', 'A'] p hp
  cases p with
  | nil => simp at hp
  | cons e q =>
    cases e
    · simp only [mapName, pathChars, List.map_cons, Dir.char, List.cons_append, List.nil_append] at this ⊢
      rw [dispatch_MAP_AA, this]
    · simp only [mapName, pathChars, List.map_cons, Dir.char, List.cons_append, List.nil_append] at this ⊢
      rw [dispatch_MAP_AD, this]

set_option maxRecDepth 8000 in
theorem dispatch_MAP_DA (t : List Char) : dispatch handlers ('M' :: 'A' :: 'P' :: '_' :: 'C' :: 'D' :: 'A' :: t) =
    match findall ⟨[.lit ['M', 'A', 'P', '_', 'C', 'D'], .many ['A', 'D'] 1, .lit ['R']], some (1, 1)⟩ ('M' :: 'A' :: 'P' :: '_' :: 'C' :: 'D' :: 'A' :: t) with
    | some g => .ok (some (H 26, g))
    | none => dispatch (handlers.drop 27) ('M' :: 'A' :: 'P' :: '_' :: 'C' :: 'D' :: 'A' :: t) := rfl

set_option maxRecDepth 8000 in
theorem dispatch_MAP_DD (t : List Char) : dispatch handlers ('M' :: 'A' :: 'P' :: '_' :: 'C' :: 'D' :: 'D' :: t) =
    match findall ⟨[.lit ['M', 'A', 'P', '_', 'C', 'D'], .many ['A', 'D'] 1, .lit ['R']], some (1, 1)⟩ ('M' :: 'A' :: 'P' :: '_' :: 'C' :: 'D' :: 'D' :: t) with
    | some g => .ok (some (H 26, g))
    | none => dispatch (handlers.drop 27) ('M' :: 'A' :: 'P' :: '_' :: 'C' :: 'D' :: 'D' :: t) := rfl

theorem dispatch_map_D (p : Path) (hp : 1 ≤ p.length) :
    dispatch handlers (mapName (.D :: p)) = .ok (some (H 26, pathChars p)) := by
  have := findall_path ['M', 'A', 'P', '_', 'C', 'D'] p hp
  cases p with
  | nil => simp at hp
  | cons e q =>
    cases e
    · simp only [mapName, pathChars, List.map_cons, Dir.char, List.cons_append, List.nil_append] at this ⊢
      rw [dispatch_MAP_DA, this]
    · simp only [mapName, pathChars, List.map_cons, Dir.char, List.cons_append, List.nil_append] at this ⊢
      rw [dispatch_MAP_DD, this]

theorem H21 : (H 21).func = "expand_set_caxr" ∧ (H 21).shape = some 0 := ⟨rfl, rfl⟩
theorem H22 : (H 22).func = "expand_set_cdxr" ∧ (H 22).shape = some 0 := ⟨rfl, rfl⟩
theorem H25 : (H 25).func = "expand_map_caxr" ∧ (H 25).shape = some 0 := ⟨rfl, rfl⟩
theorem H26 : (H 26).func = "expand_map_cdxr" ∧ (H 26).shape = some 0 := ⟨rfl, rfl⟩

set_option maxRecDepth 8000 in
theorem dispatch_SET_CAR : dispatch handlers (setName [.A]) = .ok (some (H 19, setName [.A])) := rfl
set_option maxRecDepth 8000 in
theorem dispatch_SET_CDR : dispatch handlers (setName [.D]) = .ok (some (H 20, setName [.D])) := rfl
set_option maxRecDepth 8000 in
theorem dispatch_MAP_CAR : dispatch handlers (mapName [.A]) = .ok (some (H 23, mapName [.A])) := rfl
set_option maxRecDepth 8000 in
theorem dispatch_MAP_CDR : dispatch handlers (mapName [.D]) = .ok (some (H 24, mapName [.D])) := rfl
theorem H19 : (H 19).func = "expand_set_car" ∧ (H 19).shape = some 0 := ⟨rfl, rfl⟩
theorem H20 : (H 20).func = "expand_set_cdr" ∧ (H 20).shape = some 0 := ⟨rfl, rfl⟩
theorem H23 : (H 23).func = "expand_map_car" ∧ (H 23).shape = some 0 := ⟨rfl, rfl⟩
theorem H24 : (H 24).func = "expand_map_cdr" ∧ (H 24).shape = some 0 := ⟨rfl, rfl⟩

/-! ### D I+ P, D U+ P -/

theorem matchAtoms_rep (c : Char) (hc : c = 'I' ∨ c = 'U') (n : Nat) (hn : 1 ≤ n) :
    matchAtoms [.many [c] 1, .lit ['P']] (List.replicate n c ++ ['P']) = some [List.replicate n c, ['P']] := by
  have hp : ∀ x ∈ List.replicate n c, [c].contains x = true := by
    intro x hx
    have := List.eq_of_mem_replicate hx
    subst this
    rcases hc with rfl | rfl <;> decide
  have hy : [c].contains 'P' = false := by rcases hc with rfl | rfl <;> decide
  rw [matchAtoms_many _ _ _ _ _ _ hp hy (by simpa using hn)]
  rfl

set_option maxRecDepth 8000 in
theorem dispatch_DI (t : List Char) : dispatch handlers ('D' :: 'I' :: t) =
    match findall ⟨[.lit ['D'], .lit ['I'], .many ['I'] 1, .lit ['P']], some (1, 2)⟩ ('D' :: 'I' :: t) with
    | some g => .ok (some (H 11, g))
    | none => dispatch (handlers.drop 12) ('D' :: 'I' :: t) := rfl

set_option maxRecDepth 8000 in
theorem dispatch_DU (t : List Char) : dispatch handlers ('D' :: 'U' :: t) =
    match findall ⟨[.lit ['D'], .lit ['U'], .many ['U'] 1, .lit ['P']], some (1, 2)⟩ ('D' :: 'U' :: t) with
    | some g => .ok (some (H 12, g))
    | none => dispatch (handlers.drop 13) ('D' :: 'U' :: t) := rfl

theorem H11 : (H 11).func = "expand_dixp" ∧ (H 11).shape = some 0 := ⟨rfl, rfl⟩
theorem H12 : (H 12).func = "expand_duxp" ∧ (H 12).shape = some 0 := ⟨rfl, rfl⟩

theorem findall_rep (c : Char) (hcP : c = 'I' ∨ c = 'U') (n : Nat) (hn : 1 ≤ n) :
    findall ⟨[.lit ['D'], .lit [c], .many [c] 1, .lit ['P']], some (1, 2)⟩ ('D' :: c :: (List.replicate n c ++ ['P']))
      = some (List.replicate (n + 1) c) := by
  have h1 : ('D' :: c :: (List.replicate n c ++ ['P'])) = ['D'] ++ ([c] ++ (List.replicate n c ++ ['P'])) := rfl
  rw [h1]
  simp only [findall, matchAtoms_lit, matchAtoms_rep c hcP n hn]
  simp [List.replicate_succ]

theorem dispatch_dip (n : Nat) (hn : 2 ≤ n) : dispatch handlers (dipName n) = .ok (some (H 11, List.replicate n 'I')) := by
  obtain ⟨k, rfl⟩ : ∃ k, n = k + 1 := ⟨n - 1, by omega⟩
  have := findall_rep 'I' (.inl rfl) k (by omega)
  simp only [dipName, List.replicate_succ, List.cons_append] at this ⊢
  rw [dispatch_DI, this]

theorem dispatch_dup (n : Nat) (hn : 2 ≤ n) : dispatch handlers (dupName n) = .ok (some (H 12, List.replicate n 'U')) := by
  obtain ⟨k, rfl⟩ : ∃ k, n = k + 1 := ⟨n - 1, by omega⟩
  have := findall_rep 'U' (.inr rfl) k (by omega)
  simp only [dupName, List.replicate_succ, List.cons_append] at this ⊢
  rw [dispatch_DU, this]


/-! ### P…R / UNP…R -/

theorem body_chars (t : PairTree) (c : Char) (hc : c = 'A' ∨ c = 'I') :
    ∀ x ∈ t.body c, ['P', 'A', 'I'].contains x = true := by
  induction t generalizing c with
  | leaf => intro x hx; simp only [PairTree.body, List.mem_singleton] at hx; subst hx; rcases hc with rfl | rfl <;> decide
  | node l r ihl ihr =>
    intro x hx
    simp only [PairTree.body, List.mem_cons, List.mem_append] at hx
    rcases hx with rfl | hx | hx
    · decide
    · exact ihl 'A' (.inl rfl) x hx
    · exact ihr 'I' (.inr rfl) x hx

theorem body_length (t : PairTree) (c : Char) : (t.body c).length + 1 = 2 * t.leaves := by
  induction t generalizing c with
  | leaf => rfl
  | node l r ihl ihr =>
    have := ihl 'A'; have := ihr 'I'
    simp only [PairTree.body, PairTree.leaves, List.length_cons, List.length_append]; omega

theorem leaves_pos (t : PairTree) : 1 ≤ t.leaves := by
  induction t with
  | leaf => simp [PairTree.leaves]
  | node l r ihl ihr => simp only [PairTree.leaves]; omega

/-- the letters between the first `P` and the final `R` -/
def mid (l r : PairTree) : List Char := l.body 'A' ++ r.body 'I'

theorem pairName_node (l r : PairTree) : pairName (.node l r) = 'P' :: (mid l r ++ ['R']) := by
  simp [pairName, PairTree.body, mid]

theorem mid_chars (l r : PairTree) : ∀ x ∈ mid l r, ['P', 'A', 'I'].contains x = true := by
  intro x hx
  simp only [mid, List.mem_append] at hx
  rcases hx with hx | hx
  · exact body_chars l 'A' (.inl rfl) x hx
  · exact body_chars r 'I' (.inr rfl) x hx

theorem mid_length (l r : PairTree) : (mid l r).length + 2 = 2 * (PairTree.node l r).leaves := by
  have := body_length l 'A'; have := body_length r 'I'
  simp only [mid, PairTree.leaves, List.length_append]; omega

theorem matchAtoms_mid (l r : PairTree) (h3 : 3 ≤ (PairTree.node l r).leaves) :
    matchAtoms [.many ['P', 'A', 'I'] 3, .lit ['R']] (mid l r ++ ['R']) = some [mid l r, ['R']] := by
  have := mid_length l r
  rw [matchAtoms_many _ _ _ _ _ _ (mid_chars l r) (by decide) (by omega)]
  rfl

set_option maxRecDepth 8000 in
theorem dispatch_P (t : List Char) : dispatch handlers ('P' :: t) =
    match findall ⟨[.lit ['P'], .many ['P', 'A', 'I'] 3, .lit ['R']], none⟩ ('P' :: t) with
    | some g => .ok (some (H 13, g))
    | none => dispatch (handlers.drop 14) ('P' :: t) := rfl

set_option maxRecDepth 8000 in
theorem dispatch_UN (t : List Char) : dispatch handlers ('U' :: 'N' :: t) =
    match findall ⟨[.lit ['U', 'N'], .lit ['P'], .many ['P', 'A', 'I'] 3, .lit ['R']], some (1, 3)⟩ ('U' :: 'N' :: t) with
    | some g => .ok (some (H 14, g))
    | none => dispatch (handlers.drop 15) ('U' :: 'N' :: t) := rfl

theorem H13 : (H 13).func = "expand_pxr" ∧ (H 13).shape = some 0 := ⟨rfl, rfl⟩
theorem H14 : (H 14).func = "expand_unpxr" ∧ (H 14).shape = some 0 := ⟨rfl, rfl⟩

theorem dispatch_pair (l r : PairTree) (h3 : 3 ≤ (PairTree.node l r).leaves) :
    dispatch handlers (pairName (.node l r)) = .ok (some (H 13, pairName (.node l r))) := by
  rw [pairName_node, dispatch_P]
  have h1 : ('P' :: (mid l r ++ ['R'])) = ['P'] ++ (mid l r ++ ['R']) := rfl
  have : findall ⟨[.lit ['P'], .many ['P', 'A', 'I'] 3, .lit ['R']], none⟩ ('P' :: (mid l r ++ ['R']))
      = some ('P' :: (mid l r ++ ['R'])) := by
    rw [h1]
    simp only [findall, matchAtoms_lit, matchAtoms_mid l r h3]
    simp
  rw [this]

theorem dispatch_unpair (l r : PairTree) (h3 : 3 ≤ (PairTree.node l r).leaves) :
    dispatch handlers (unpairName (.node l r)) = .ok (some (H 14, pairName (.node l r))) := by
  rw [unpairName, pairName_node, dispatch_UN]
  have h1 : ('U' :: 'N' :: 'P' :: (mid l r ++ ['R'])) = ['U', 'N'] ++ (['P'] ++ (mid l r ++ ['R'])) := rfl
  have : findall ⟨[.lit ['U', 'N'], .lit ['P'], .many ['P', 'A', 'I'] 3, .lit ['R']], some (1, 3)⟩
      ('U' :: 'N' :: 'P' :: (mid l r ++ ['R'])) = some ('P' :: (mid l r ++ ['R'])) := by
    rw [h1]
    simp only [findall, matchAtoms_lit, matchAtoms_mid l r h3]
    simp
  rw [this]

end C19.Dispatch
