import PytezosModel.Proofs.C20Basic
/-! C20: value-level facts — ticket-freeness of duplicable / pushable / comparable values, maps -/
namespace Impl.Tickets

theorem mem_LS_le (k : TKey) {v : Val} {xs : List Val} (h : v ∈ xs) : ticketSum k v ≤ LS k xs := by
  induction xs with
  | nil => cases h
  | cons x xs ih =>
    rcases List.mem_cons.mp h with rfl | h'
    · simp only [LS_cons]; omega
    · have := ih h'; simp only [LS_cons]; omega

/-! ### a type all of whose nodes avoid a prim list containing "ticket" has ticket-free (consistent) inhabitants -/

mutual
  theorem all_free (bad : List String) (hb : bad.contains "ticket" = true) :
      ∀ v : Val, v.consistent = true → v.typeOf.all bad = true → ∀ k, ticketSum k v = 0
    | .atom _, _, _, _ => by simp [ticketSum]
    | .ticket cls _ ct _, hc, ha, _ => by
      simp only [Val.consistent, Bool.or_eq_true, beq_iff_eq] at hc
      simp only [Val.typeOf] at ha
      have hb' : "ticket" ∈ bad := by simpa using hb
      rcases hc with rfl | rfl <;> simp [Ty.all, hb'] at ha
    | .pair l r, hc, ha, k => by
      simp only [Val.consistent, Bool.and_eq_true] at hc
      simp only [Val.typeOf, Ty.all, Bool.and_eq_true] at ha
      simp [ticketSum, all_free bad hb l hc.1 ha.2.1 k, all_free bad hb r hc.2 ha.2.2 k]
    | .none _, _, _, _ => by simp [ticketSum]
    | .some v, hc, ha, k => by
      simp only [Val.consistent] at hc
      simp only [Val.typeOf, Ty.all, Bool.and_eq_true] at ha
      simp [ticketSum, all_free bad hb v hc ha.2 k]
    | .list t xs, hc, ha, k => by
      simp only [Val.consistent] at hc
      simp only [Val.typeOf, Ty.all, Bool.and_eq_true] at ha
      simp [ticketSum, all_free_list bad hb t xs hc ha.2 k]
    | .map big kt vt keys vals _, hc, ha, k => by
      simp only [Val.consistent, Bool.and_eq_true] at hc
      have hv : vt.all bad = true := by
        cases big <;> simp [Val.typeOf, Ty.all] at ha <;> exact ha.2.2
      simp [ticketSum, all_free_list bad hb vt vals hc.2 hv k]
    | .left v _, hc, ha, k => by
      simp only [Val.consistent] at hc
      simp only [Val.typeOf, Ty.all, Bool.and_eq_true] at ha
      simp [ticketSum, all_free bad hb v hc ha.2.1 k]
    | .right _ v, hc, ha, k => by
      simp only [Val.consistent] at hc
      simp only [Val.typeOf, Ty.all, Bool.and_eq_true] at ha
      simp [ticketSum, all_free bad hb v hc ha.2.2 k]
    | .set _ _, _, _, _ => by simp [ticketSum]
    | .lam _ _ _, _, _, _ => by simp [ticketSum]
  theorem all_free_list (bad : List String) (hb : bad.contains "ticket" = true) :
      ∀ (t : Ty) (xs : List Val), Val.consistentList t xs = true → t.all bad = true → ∀ k, ticketSumList k xs = 0
    | _, [], _, _, _ => rfl
    | t, x :: xs, hc, ha, k => by
      simp only [Val.consistentList, Bool.and_eq_true, beq_iff_eq] at hc
      have hx : x.typeOf.all bad = true := by rw [hc.1.1]; exact ha
      simp [ticketSumList, all_free bad hb x hc.1.2 hx k, all_free_list bad hb t xs hc.2 ha k]
end

/-! ### comparable contents -/

theorem cmp_toVal_sum (k : TKey) : ∀ c : Cmp, ticketSum k c.toVal = 0
  | .atom _ => by simp [Cmp.toVal, ticketSum]
  | .pair l r => by simp [Cmp.toVal, ticketSum, cmp_toVal_sum k l, cmp_toVal_sum k r]

theorem cmp_toVal_consistent : ∀ c : Cmp, c.toVal.consistent = true
  | .atom _ => by simp [Cmp.toVal, Val.consistent]
  | .pair l r => by simp [Cmp.toVal, Val.consistent, cmp_toVal_consistent l, cmp_toVal_consistent r]

theorem cmp_toVal_noZero : ∀ c : Cmp, noZero c.toVal = true
  | .atom _ => by simp [Cmp.toVal, noZero]
  | .pair l r => by simp [Cmp.toVal, noZero, cmp_toVal_noZero l, cmp_toVal_noZero r]

theorem toCmp_ty : ∀ (v : Val) (c : Cmp), v.toCmp = some c → v.typeOf = c.ty
  | .atom a, c, h => by simp [Val.toCmp] at h; subst h; rfl
  | .pair l r, c, h => by
    simp only [Val.toCmp] at h
    cases hl : l.toCmp with
    | none => simp [hl] at h
    | some a =>
      cases hr : r.toCmp with
      | none => simp [hl, hr] at h
      | some b =>
        simp [hl, hr] at h; subst h
        simp [Val.typeOf, Cmp.ty, toCmp_ty l a hl, toCmp_ty r b hr]
  | .ticket .., _, h => by simp [Val.toCmp] at h
  | .none _, _, h => by simp [Val.toCmp] at h
  | .some _, _, h => by simp [Val.toCmp] at h
  | .list .., _, h => by simp [Val.toCmp] at h
  | .map .., _, h => by simp [Val.toCmp] at h
  | .left .., _, h => by simp [Val.toCmp] at h
  | .right .., _, h => by simp [Val.toCmp] at h
  | .set .., _, h => by simp [Val.toCmp] at h
  | .lam .., _, h => by simp [Val.toCmp] at h

/-! ### maps -/

theorem lookup_mem {key : Atom} : ∀ {keys : List Atom} {vals : List Val} {v : Val}, lookup key keys vals = some v → v ∈ vals
  | k :: ks, x :: xs, v, h => by
    simp only [lookup] at h
    split at h
    · simp at h; subst h; exact List.mem_cons_self
    · exact List.mem_cons_of_mem _ (lookup_mem h)
  | [], _, _, h => by simp [lookup] at h
  | _ :: _, [], _, h => by simp [lookup] at h

theorem nodupB_iff : ∀ ks : List Atom, nodupB ks = true ↔ ks.Nodup
  | [] => by simp [nodupB]
  | k :: ks => by simp [nodupB, nodupB_iff ks, List.nodup_cons]

theorem lookup_none_not_mem {key : Atom} : ∀ {keys : List Atom} {vals : List Val}, keys.length = vals.length →
    lookup key keys vals = none → key ∉ keys
  | [], _, _, _ => by simp
  | k :: ks, [], hl, _ => by simp at hl
  | k :: ks, x :: xs, hl, h => by
    simp only [lookup] at h
    split at h
    · cases h
    · rename_i hne
      have := lookup_none_not_mem (key := key) (keys := ks) (vals := xs) (by simpa using hl) h
      have hne' : ¬ k = key := by simpa using hne
      simp only [List.mem_cons, not_or]
      exact ⟨fun e => hne' e.symm, this⟩

theorem replaceVal_absent (key : Atom) (x : Val) : ∀ (ks : List Atom) (vs : List Val), key ∉ ks → ks.length = vs.length →
    replaceVal key x ks vs = vs
  | [], [], _, _ => rfl
  | [], _ :: _, _, hl => by simp at hl
  | _ :: _, [], _, hl => by simp at hl
  | a :: as, b :: bs, hc, hl => by
    simp only [List.mem_cons, not_or] at hc
    have hne : (a != key) = true := by simp only [bne_iff_ne]; exact fun e => hc.1 e.symm
    simp only [replaceVal, hne, if_true, replaceVal_absent key x as bs hc.2 (by simpa using hl)]

/-- replacing the value under an existing key of a duplicate-free key list moves exactly one value out and one in -/
theorem replaceVal_spec (k' : TKey) (key : Atom) (x : Val) : ∀ (keys : List Atom) (vals : List Val) (p : Val),
    keys.length = vals.length → keys.Nodup → lookup key keys vals = some p →
    LS k' (replaceVal key x keys vals) + ticketSum k' p = LS k' vals + ticketSum k' x
      ∧ (replaceVal key x keys vals).length = vals.length
      ∧ (∀ v ∈ replaceVal key x keys vals, v = x ∨ v ∈ vals)
  | [], _, _, _, _, h => by simp [lookup] at h
  | _ :: _, [], _, hl, _, _ => by simp at hl
  | k :: ks, v :: vs, p, hl, hn, h => by
    rw [List.nodup_cons] at hn
    simp only [lookup] at h
    by_cases hk : k = key
    · subst hk
      simp only [beq_self_eq_true, if_true, Option.some.injEq] at h
      subst h
      have e := replaceVal_absent k x ks vs hn.1 (by simpa using hl)
      have hb : (k != k) = false := by simp
      simp only [replaceVal, hb, Bool.false_eq_true, if_false, e, LS_cons, List.length_cons]
      refine ⟨by omega, trivial, ?_⟩
      intro w hw
      rcases List.mem_cons.mp hw with rfl | hw
      · exact Or.inl rfl
      · exact Or.inr (List.mem_cons_of_mem _ hw)
    · have hne : (k == key) = false := by simp [hk]
      have hne' : (k != key) = true := by simp [hk]
      simp only [hne, Bool.false_eq_true, if_false] at h
      obtain ⟨h1, h2, h3⟩ := replaceVal_spec k' key x ks vs p (by simpa using hl) hn.2 h
      simp only [replaceVal, hne', if_true, LS_cons, List.length_cons, h2]
      refine ⟨by omega, trivial, ?_⟩
      intro w hw
      rcases List.mem_cons.mp hw with rfl | hw
      · exact Or.inr List.mem_cons_self
      · rcases h3 w hw with h | h
        · exact Or.inl h
        · exact Or.inr (List.mem_cons_of_mem _ h)

theorem removeKey_spec (k' : TKey) (key : Atom) : ∀ (keys : List Atom) (vals : List Val),
    keys.length = vals.length → keys.Nodup →
    (removeKey key keys vals).1.length = (removeKey key keys vals).2.length
      ∧ (removeKey key keys vals).1.Nodup
      ∧ (∀ a ∈ (removeKey key keys vals).1, a ∈ keys)
      ∧ (∀ v ∈ (removeKey key keys vals).2, v ∈ vals)
      ∧ (∀ p, lookup key keys vals = some p → LS k' (removeKey key keys vals).2 + ticketSum k' p ≤ LS k' vals)
      ∧ LS k' (removeKey key keys vals).2 ≤ LS k' vals
  | [], _, _, _ => by simp [removeKey, lookup, LS, ticketSumList]
  | _ :: _, [], hl, _ => by simp at hl
  | k :: ks, v :: vs, hl, hn => by
    rw [List.nodup_cons] at hn
    obtain ⟨i1, i2, i3, i4, i5, i6⟩ := removeKey_spec k' key ks vs (by simpa using hl) hn.2
    by_cases hk : k = key
    · subst hk
      have hne : (k != k) = false := by simp
      simp only [removeKey, hne, Bool.false_eq_true, if_false, lookup, beq_self_eq_true, if_true, Option.some.injEq, LS_cons]
      refine ⟨i1, i2, ?_, ?_, ?_, by omega⟩
      · intro a ha; exact List.mem_cons_of_mem _ (i3 a ha)
      · intro w hw; exact List.mem_cons_of_mem _ (i4 w hw)
      · intro p hp; subst hp; omega
    · have hne : (k != key) = true := by simp [hk]
      have hne' : (k == key) = false := by simp [hk]
      simp only [removeKey, hne, if_true, lookup, hne', Bool.false_eq_true, if_false, LS_cons, List.length_cons]
      refine ⟨by omega, ?_, ?_, ?_, ?_, by omega⟩
      · rw [List.nodup_cons]; exact ⟨fun hm => hn.1 (i3 k hm), i2⟩
      · intro a ha
        rcases List.mem_cons.mp ha with rfl | h
        · exact List.mem_cons_self
        · exact List.mem_cons_of_mem _ (i3 a h)
      · intro w hw
        rcases List.mem_cons.mp hw with rfl | hw
        · exact List.mem_cons_self
        · exact List.mem_cons_of_mem _ (i4 w hw)
      · intro p hp; have := i5 p hp; omega

theorem insertSorted_spec (k' : TKey) (key : Atom) (x : Val) : ∀ (keys : List Atom) (vals : List Val),
    keys.length = vals.length → keys.Nodup → key ∉ keys →
    (insertSorted key x keys vals).1.length = (insertSorted key x keys vals).2.length
      ∧ (insertSorted key x keys vals).1.Nodup
      ∧ (∀ v ∈ (insertSorted key x keys vals).2, v = x ∨ v ∈ vals)
      ∧ LS k' (insertSorted key x keys vals).2 = LS k' vals + ticketSum k' x
      ∧ (∀ a ∈ (insertSorted key x keys vals).1, a = key ∨ a ∈ keys)
  | [], [], _, _, _ => by simp [insertSorted, LS, ticketSumList]
  | [], _ :: _, hl, _, _ => by simp at hl
  | _ :: _, [], hl, _, _ => by simp at hl
  | k :: ks, v :: vs, hl, hn, hc => by
    rw [List.nodup_cons] at hn
    simp only [List.mem_cons, not_or] at hc
    by_cases hlt : key.lt k = true
    · simp only [insertSorted, hlt, if_true, List.length_cons, LS_cons]
      refine ⟨by simpa using hl, ?_, ?_, by omega, ?_⟩
      · rw [List.nodup_cons, List.nodup_cons]
        exact ⟨by simp only [List.mem_cons, not_or]; exact ⟨hc.1, hc.2⟩, hn.1, hn.2⟩
      · intro w hw
        rcases List.mem_cons.mp hw with rfl | hw
        · exact Or.inl rfl
        · exact Or.inr hw
      · intro a ha
        rcases List.mem_cons.mp ha with rfl | ha
        · exact Or.inl rfl
        · exact Or.inr ha
    · obtain ⟨i1, i2, i4, i5, i6⟩ := insertSorted_spec k' key x ks vs (by simpa using hl) hn.2 hc.2
      simp only [insertSorted, hlt, Bool.false_eq_true, if_false, List.length_cons, LS_cons, i5]
      refine ⟨by omega, ?_, ?_, by omega, ?_⟩
      · rw [List.nodup_cons]
        refine ⟨fun hm => ?_, i2⟩
        rcases i6 k hm with h | h
        · exact hc.1 h.symm
        · exact hn.1 h
      · intro w hw
        rcases List.mem_cons.mp hw with rfl | hw
        · exact Or.inr List.mem_cons_self
        · rcases i4 w hw with h | h
          · exact Or.inl h
          · exact Or.inr (List.mem_cons_of_mem _ h)
      · intro a ha
        rcases List.mem_cons.mp ha with rfl | ha
        · exact Or.inr List.mem_cons_self
        · rcases i6 a ha with h | h
          · exact Or.inl h
          · exact Or.inr (List.mem_cons_of_mem _ h)

end Impl.Tickets
