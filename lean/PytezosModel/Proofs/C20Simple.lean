import PytezosModel.Proofs.C20Good
/-! C20: every "pop k, push the results" instruction is a `Good` step -/
namespace Impl.Tickets

/-- the facts about the code under test that the invariants rest on -/
structure CfgOk (c : Cfg) : Prop where
  dup_ticket : c.nonDup.contains "ticket" = true
  push_ticket : c.nonPush.contains "ticket" = true
  split_zero : c.splitRejectsZero = true
  dup_big : c.dupChecksBig = true

syntax "vals_tac" : tactic
macro_rules
  | `(tactic| vals_tac) => `(tactic| (
      intro _ hc
      simp only [LC_cons, LN_cons, LS_cons, LS_nil, Val.consistent, noZero, ticketSum, mintedSum, Bool.and_eq_true] at hc ⊢
      refine ⟨?_, ?_, ?_⟩ <;> (try intro) <;> (try simp_all [LC_nil, LN_nil]) <;> (try omega)))

theorem good_pair {c : Cfg} {s s' : State} (h : simple c s .pair = some (.ok s')) : Good s s' := by
  simp only [simple, Option.some.injEq] at h
  cases hp : s.pop2 with
  | error e => simp [hp, bind, Except.bind] at h
  | ok x =>
    obtain ⟨l, r, s1⟩ := x
    simp only [hp, bind, Except.bind, pure, Except.pure, Except.ok.injEq] at h
    subst h
    refine Good.popPush [l, r] [.pair l r] [] true (pop2_spec hp) (push_perm _ _) rfl (by simp [push_typed]) rfl ?_
    vals_tac

theorem good_unpair {c : Cfg} {s s' : State} (h : simple c s .unpair = some (.ok s')) : Good s s' := by
  simp only [simple, Option.some.injEq] at h
  cases hp : s.pop1 with
  | error e => simp [hp, bind, Except.bind] at h
  | ok x =>
    obtain ⟨p, s1⟩ := x
    simp only [hp, bind, Except.bind] at h
    cases p <;> simp only [pure, Except.pure, Except.ok.injEq, reduceCtorEq] at h
    rename_i l r
    subst h
    refine Good.popPush [.pair l r] [l, r] [] true (pop1_spec hp) (push2_perm _ _ _) rfl (by simp [push_typed]) rfl ?_
    vals_tac

theorem good_car {c : Cfg} {s s' : State} (h : simple c s .car = some (.ok s')) : Good s s' := by
  simp only [simple, Option.some.injEq] at h
  cases hp : s.pop1 with
  | error e => simp [hp, bind, Except.bind] at h
  | ok x =>
    obtain ⟨p, s1⟩ := x
    simp only [hp, bind, Except.bind] at h
    cases p <;> simp only [pure, Except.pure, Except.ok.injEq, reduceCtorEq] at h
    rename_i l r
    subst h
    refine Good.popPush [.pair l r] [l] [] true (pop1_spec hp) (push_perm _ _) rfl (by simp [push_typed]) rfl ?_
    vals_tac

theorem good_cdr {c : Cfg} {s s' : State} (h : simple c s .cdr = some (.ok s')) : Good s s' := by
  simp only [simple, Option.some.injEq] at h
  cases hp : s.pop1 with
  | error e => simp [hp, bind, Except.bind] at h
  | ok x =>
    obtain ⟨p, s1⟩ := x
    simp only [hp, bind, Except.bind] at h
    cases p <;> simp only [pure, Except.pure, Except.ok.injEq, reduceCtorEq] at h
    rename_i l r
    subst h
    refine Good.popPush [.pair l r] [r] [] true (pop1_spec hp) (push_perm _ _) rfl (by simp [push_typed]) rfl ?_
    vals_tac

theorem good_some {c : Cfg} {s s' : State} (h : simple c s .some = some (.ok s')) : Good s s' := by
  simp only [simple, Option.some.injEq] at h
  cases hp : s.pop1 with
  | error e => simp [hp, bind, Except.bind] at h
  | ok x =>
    obtain ⟨v, s1⟩ := x
    simp only [hp, bind, Except.bind, pure, Except.pure, Except.ok.injEq] at h
    subst h
    refine Good.popPush [v] [.some v] [] true (pop1_spec hp) (push_perm _ _) rfl (by simp [push_typed]) rfl ?_
    vals_tac

theorem good_left {c : Cfg} {s s' : State} (t : Ty) (h : simple c s (.left t) = some (.ok s')) : Good s s' := by
  simp only [simple, Option.some.injEq] at h
  cases hp : s.pop1 with
  | error e => simp [hp, bind, Except.bind] at h
  | ok x =>
    obtain ⟨v, s1⟩ := x
    simp only [hp, bind, Except.bind, pure, Except.pure, Except.ok.injEq] at h
    subst h
    refine Good.popPush [v] [.left v t] [] true (pop1_spec hp) (push_perm _ _) rfl (by simp [push_typed]) rfl ?_
    vals_tac

theorem good_right {c : Cfg} {s s' : State} (t : Ty) (h : simple c s (.right t) = some (.ok s')) : Good s s' := by
  simp only [simple, Option.some.injEq] at h
  cases hp : s.pop1 with
  | error e => simp [hp, bind, Except.bind] at h
  | ok x =>
    obtain ⟨v, s1⟩ := x
    simp only [hp, bind, Except.bind, pure, Except.pure, Except.ok.injEq] at h
    subst h
    refine Good.popPush [v] [.right t v] [] true (pop1_spec hp) (push_perm _ _) rfl (by simp [push_typed]) rfl ?_
    vals_tac

theorem good_swap {c : Cfg} {s s' : State} (h : simple c s .swap = some (.ok s')) : Good s s' := by
  simp only [simple, Option.some.injEq] at h
  cases hp : s.pop2 with
  | error e => simp [hp, bind, Except.bind] at h
  | ok x =>
    obtain ⟨a, b, s1⟩ := x
    simp only [hp, bind, Except.bind, pure, Except.pure, Except.ok.injEq] at h
    subst h
    refine Good.popPush [a, b] [b, a] [] true (pop2_spec hp) (push2_perm _ _ _) rfl (by simp [push_typed]) rfl ?_
    vals_tac

theorem good_drop {c : Cfg} {s s' : State} (h : simple c s .drop = some (.ok s')) : Good s s' := by
  simp only [simple, Option.some.injEq] at h
  cases hp : s.pop1 with
  | error e => simp [hp, bind, Except.bind] at h
  | ok x =>
    obtain ⟨a, s1⟩ := x
    simp only [hp, bind, Except.bind, pure, Except.pure, Except.ok.injEq] at h
    subst h
    refine Good.popPush [a] [] [] true (pop1_spec hp) (List.Perm.refl _) rfl (by simp) rfl ?_
    vals_tac

theorem good_pushOnly {s : State} (v : Val) (hcv : v.consistent = true) (hs : ∀ k, ticketSum k v = 0) (hz : noZero v = true) :
    Good s (s.push v) := by
  refine Good.frame [] [v] s.items [] true (List.Perm.refl _) (push_perm _ _) rfl (by simp [push_typed]) rfl ?_
  intro _ _
  refine ⟨LC_cons.mpr ⟨hcv, LC_nil⟩, fun k => by simp [LS_cons, LS_nil, hs k], fun _ => LN_cons.mpr ⟨hz, LN_nil⟩⟩

theorem good_none {c : Cfg} {s s' : State} (t : Ty) (h : simple c s (.none t) = some (.ok s')) : Good s s' := by
  simp only [simple, Option.some.injEq, pure, Except.pure, Except.ok.injEq] at h
  subst h
  exact good_pushOnly _ (by simp [Val.consistent]) (by simp [ticketSum]) (by simp [noZero])

theorem good_nil {c : Cfg} {s s' : State} (t : Ty) (h : simple c s (.nil t) = some (.ok s')) : Good s s' := by
  simp only [simple, Option.some.injEq, pure, Except.pure, Except.ok.injEq] at h
  subst h
  exact good_pushOnly _ (by simp [Val.consistent, Val.consistentList]) (by simp [ticketSum, ticketSumList]) (by simp [noZero, noZeroList])

theorem good_emptyMap {c : Cfg} {s s' : State} (k v : Ty) (h : simple c s (.emptyMap k v) = some (.ok s')) : Good s s' := by
  simp only [simple, Option.some.injEq] at h
  split at h
  · simp only [pure, Except.pure, Except.ok.injEq] at h
    subst h
    exact good_pushOnly _ (by simp [Val.consistent, Val.consistentList, nodupB]) (by simp [ticketSum, ticketSumList]) (by simp [noZero, noZeroList])
  · cases h

theorem good_emptyBigMap {c : Cfg} {s s' : State} (k v : Ty) (h : simple c s (.emptyBigMap k v) = some (.ok s')) : Good s s' := by
  simp only [simple, Option.some.injEq] at h
  split at h
  · simp only [pure, Except.pure, Except.ok.injEq] at h
    subst h
    exact good_pushOnly _ (by simp [Val.consistent, Val.consistentList, nodupB]) (by simp [ticketSum, ticketSumList]) (by simp [noZero, noZeroList])
  · cases h

theorem good_emptySet {c : Cfg} {s s' : State} (t : Ty) (h : simple c s (.emptySet t) = some (.ok s')) : Good s s' := by
  simp only [simple, Option.some.injEq] at h
  split at h
  · simp only [pure, Except.pure, Except.ok.injEq] at h
    subst h
    exact good_pushOnly _ (by simp [Val.consistent, nodupB]) (by simp [ticketSum]) (by simp [noZero])
  · cases h

theorem good_lambda {c : Cfg} {s s' : State} (a b : Ty) (body : List Instr)
    (h : simple c s (.lambda a b body) = some (.ok s')) : Good s s' := by
  simp only [simple, Option.some.injEq, pure, Except.pure, Except.ok.injEq] at h
  subst h
  exact good_pushOnly _ (by simp [Val.consistent]) (by simp [ticketSum]) (by simp [noZero])

/-- APPLY: the captured value ends up inside code; whatever tickets it held are gone for good -/
theorem good_apply {c : Cfg} {s s' : State} (h : simple c s .apply = some (.ok s')) : Good s s' := by
  simp only [simple, Option.some.injEq] at h
  cases hp : s.pop2 with
  | error e => simp [hp, bind, Except.bind] at h
  | ok x =>
    obtain ⟨l, lam, s1⟩ := x
    simp only [hp, bind, Except.bind] at h
    split at h
    · rename_i lt rt b body
      split at h
      · cases h
      · simp only [pure, Except.pure, Except.ok.injEq] at h
        subst h
        refine Good.popPush [l, .lam (.pair lt rt) b body] [.lam rt b _] [] true (pop2_spec hp) (push_perm _ _) rfl
          (by simp [push_typed]) rfl ?_
        intro _ _
        exact ⟨LC_cons.mpr ⟨rfl, LC_nil⟩, fun k => by simp [LS_cons, LS_nil, ticketSum], fun _ => LN_cons.mpr ⟨rfl, LN_nil⟩⟩
    · cases h

mutual
  theorem pushable_noZero (bad : List String) (hb : bad.contains "ticket" = true) :
      ∀ v : Val, v.consistent = true → v.typeOf.all bad = true → noZero v = true
    | .atom _, _, _ => by simp [noZero]
    | .ticket cls _ ct _, hc, ha => by
      simp only [Val.consistent, Bool.or_eq_true, beq_iff_eq] at hc
      simp only [Val.typeOf] at ha
      have hb' : "ticket" ∈ bad := by simpa using hb
      rcases hc with rfl | rfl <;> simp [Ty.all, hb'] at ha
    | .pair l r, hc, ha => by
      simp only [Val.consistent, Bool.and_eq_true] at hc
      simp only [Val.typeOf, Ty.all, Bool.and_eq_true] at ha
      simp [noZero, pushable_noZero bad hb l hc.1 ha.2.1, pushable_noZero bad hb r hc.2 ha.2.2]
    | .none _, _, _ => by simp [noZero]
    | .some v, hc, ha => by
      simp only [Val.consistent] at hc
      simp only [Val.typeOf, Ty.all, Bool.and_eq_true] at ha
      simp [noZero, pushable_noZero bad hb v hc ha.2]
    | .list t xs, hc, ha => by
      simp only [Val.consistent] at hc
      simp only [Val.typeOf, Ty.all, Bool.and_eq_true] at ha
      simp [noZero, pushable_noZeroList bad hb t xs hc ha.2]
    | .map big kt vt keys vals _, hc, ha => by
      simp only [Val.consistent, Bool.and_eq_true] at hc
      have hv : vt.all bad = true := by
        cases big <;> simp [Val.typeOf, Ty.all] at ha <;> exact ha.2.2
      simp [noZero, pushable_noZeroList bad hb vt vals hc.2 hv]
    | .left v _, hc, ha => by
      simp only [Val.consistent] at hc
      simp only [Val.typeOf, Ty.all, Bool.and_eq_true] at ha
      simp [noZero, pushable_noZero bad hb v hc ha.2.1]
    | .right _ v, hc, ha => by
      simp only [Val.consistent] at hc
      simp only [Val.typeOf, Ty.all, Bool.and_eq_true] at ha
      simp [noZero, pushable_noZero bad hb v hc ha.2.2]
    | .set _ _, _, _ => by simp [noZero]
    | .lam _ _ _, _, _ => by simp [noZero]
  theorem pushable_noZeroList (bad : List String) (hb : bad.contains "ticket" = true) :
      ∀ (t : Ty) (xs : List Val), Val.consistentList t xs = true → t.all bad = true → noZeroList xs = true
    | _, [], _, _ => rfl
    | t, x :: xs, hc, ha => by
      simp only [Val.consistentList, Bool.and_eq_true, beq_iff_eq] at hc
      have hx : x.typeOf.all bad = true := by rw [hc.1.1]; exact ha
      simp [noZeroList, pushable_noZero bad hb x hc.1.2 hx, pushable_noZeroList bad hb t xs hc.2 ha]
end

theorem good_push {c : Cfg} (ok : CfgOk c) {s s' : State} (t : Ty) (v : Val)
    (h : simple c s (.push t v) = some (.ok s')) : Good s s' := by
  simp only [simple, Option.some.injEq] at h
  split at h
  · cases h
  · rename_i hp
    split at h
    · rename_i hv
      simp only [pure, Except.pure, Except.ok.injEq] at h
      subst h
      simp only [Bool.and_eq_true, beq_iff_eq] at hv
      have hp' : v.typeOf.all c.nonPush = true := by
        rw [hv.1.1]; simpa using hp
      exact good_pushOnly v hv.1.2 (all_free _ ok.push_ticket v hv.1.2 hp') (pushable_noZero _ ok.push_ticket v hv.1.2 hp')
    · cases h

theorem good_cons {c : Cfg} {s s' : State} (h : simple c s .cons = some (.ok s')) : Good s s' := by
  simp only [simple, Option.some.injEq] at h
  cases hp : s.pop2 with
  | error e => simp [hp, bind, Except.bind] at h
  | ok x =>
    obtain ⟨x, l, s1⟩ := x
    simp only [hp, bind, Except.bind] at h
    cases l <;> simp only [reduceCtorEq] at h
    rename_i t xs
    split at h
    · cases h
    · rename_i ht
      simp only [pure, Except.pure, Except.ok.injEq] at h
      subst h
      have ht' : x.typeOf = t := by
        have := ht; simp only [bne_iff_ne, ne_eq, Decidable.not_not] at this; exact this.symm
      refine Good.popPush [x, .list t xs] [.list t (x :: xs)] [] true (pop2_spec hp) (push_perm _ _) rfl (by simp [push_typed]) rfl ?_
      intro _ hc
      simp only [LC_cons, LN_cons, LS_cons, LS_nil, Val.consistent, Val.consistentList, noZero, noZeroList, ticketSum,
        ticketSumList, mintedSum, Bool.and_eq_true, beq_iff_eq] at hc ⊢
      refine ⟨⟨⟨⟨ht', hc.1⟩, hc.2.1⟩, LC_nil⟩, fun k => by omega, fun hz => ⟨⟨hz.1, hz.2.1⟩, LN_nil⟩⟩

end Impl.Tickets
