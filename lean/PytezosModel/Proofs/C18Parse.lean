import PytezosModel.Proofs.C18Lit
/-! C18 helper lemmas: the recursive-descent parser reads the token stream of a well-formed expression back
(`parse (toks e) = e`), by mutual structural induction on the expression, for every amount of fuel above
`2 · #tokens + c`. -/
namespace Impl.Text

/-- what may follow an expression: not the start of another argument, not an annotation -/
def Follow (rest : List Tok) : Prop := ∀ t ts, rest = t :: ts → t.startsArg = false ∧ t.isAnnot = false

theorem Follow.nil : Follow [] := by intro t ts h; cases h
theorem Follow.rcurly (r : List Tok) : Follow (.rcurly :: r) := by
  intro t ts h; cases h; exact ⟨rfl, rfl⟩
theorem Follow.rparen (r : List Tok) : Follow (.rparen :: r) := by
  intro t ts h; cases h; exact ⟨rfl, rfl⟩
theorem Follow.semi (r : List Tok) : Follow (.semi :: r) := by
  intro t ts h; cases h; exact ⟨rfl, rfl⟩

section
variable (tags : List String) (cfg : FmtCfg)

theorem annotText_annotToks (annots : List String) : (annotToks annots).map Tok.annotText = annots := by
  induction annots with
  | nil => rfl
  | cons a as ih =>
    simp only [annotToks, List.map_cons, List.map_map] at ih ⊢
    simp [Tok.annotText, ih]

theorem takeWhile_annotToks (annots : List String) (rest : List Tok)
    (h : ∀ t ts, rest = t :: ts → t.isAnnot = false) :
    (annotToks annots ++ rest).takeWhile Tok.isAnnot = annotToks annots ∧
    (annotToks annots ++ rest).dropWhile Tok.isAnnot = rest := by
  induction annots with
  | nil =>
    cases rest with
    | nil => simp [annotToks]
    | cons t ts => simp [annotToks, List.takeWhile_cons, List.dropWhile_cons, h t ts rfl]
  | cons a as ih =>
    simp only [annotToks, List.map_cons, List.cons_append] at ih ⊢
    simp [List.takeWhile_cons, List.dropWhile_cons, Tok.isAnnot, ih]

/-- first token of an expression in argument or item position -/
theorem toksNode_head (w : Bool) (e : Mich) :
    ∃ t ts, toksNode cfg false w e = t :: ts ∧ t.startsArg = true ∧ t.isAnnot = false := by
  cases e with
  | int v => exact ⟨.int (intRepr v), [], by simp [toksNode], rfl, rfl⟩
  | str s => exact ⟨.str (jsonDumps s.toList), [], by simp [toksNode], rfl, rfl⟩
  | bytes b => exact ⟨.byte ('0' :: 'x' :: hexOf b), [], by simp [toksNode], rfl, rfl⟩
  | seq xs =>
    cases xs with
    | nil => exact ⟨.lcurly, [.rcurly], by simp [toksNode], rfl, rfl⟩
    | cons x xs => exact ⟨.lcurly, toksItems cfg (x :: xs) ++ [.rcurly], by simp [toksNode], rfl, rfl⟩
  | prim p args annots =>
    simp only [toksNode]
    split
    · exact ⟨.lparen, _, rfl, rfl, rfl⟩
    · exact ⟨.prim p.toList, _, rfl, rfl, rfl⟩

theorem toksNode_length_pos (w : Bool) (e : Mich) : 0 < (toksNode cfg false w e).length := by
  obtain ⟨t, ts, h, _⟩ := toksNode_head cfg w e
  simp [h]

/-- after the annotations and arguments of an expression comes something that is not an annotation -/
theorem args_rest_not_annot (args : List Mich) (rest : List Tok) (hrest : Follow rest) :
    ∀ t ts, toksArgs cfg args ++ rest = t :: ts → t.isAnnot = false := by
  intro t ts h
  cases args with
  | nil => simp [toksArgs] at h; exact (hrest t ts h).2
  | cons a as =>
    obtain ⟨t', ts', h', _, hn⟩ := toksNode_head cfg false a
    simp [toksArgs, h'] at h
    rw [← h.1]; exact hn

/-- `expr : PRIM annots args` once the arguments are known to be read back -/
theorem parseExpr_ok (n : Nat) (p : String) (args : List Mich) (annots : List String) (rest : List Tok)
    (hp : tags.contains p = true) (hrest : Follow rest)
    (hargs : parseArgs tags n (toksArgs cfg args ++ rest) = some (args, rest)) :
    parseExpr tags (n + 1) p.toList (annotToks annots ++ (toksArgs cfg args ++ rest)) =
      some (.prim p args annots, rest) := by
  have h := takeWhile_annotToks annots (toksArgs cfg args ++ rest) (args_rest_not_annot cfg args rest hrest)
  have hp' : p ∈ tags := by simpa using hp
  simp only [parseExpr, h.1, h.2, hargs, annotText_annotToks]
  simp [hp']

theorem flat_itemsRes (x : Mich) (xs : List Mich) :
    (if xs = [] then IRes.one x else IRes.many (x :: xs)).flat = x :: xs := by
  split
  · rename_i h; simp [IRes.flat, h]
  · simp [IRes.flat]

variable (sp : LexSpec) (hfr : cfg.framed = none)
include hfr

mutual
  /-- argument position -/
  theorem parseArg_toks (e : Mich) (hwf : wfNode sp tags e = true) (n : Nat) (rest : List Tok)
      (hn : 2 * (toksNode cfg false false e).length + 1 ≤ n) :
      parseArg tags n (toksNode cfg false false e ++ rest) = some (e, rest) :=
    match e, hwf, hn with
    | .int v, _, hn => by
      obtain ⟨m, rfl⟩ : ∃ m, n = m + 1 := ⟨n - 1, by omega⟩
      simp [toksNode, parseArg, litInt_intRepr]
    | .str s, _, hn => by
      obtain ⟨m, rfl⟩ : ∃ m, n = m + 1 := ⟨n - 1, by omega⟩
      simp [toksNode, parseArg, litStr_jsonDumps]
    | .bytes b, hwf, hn => by
      obtain ⟨m, rfl⟩ : ∃ m, n = m + 1 := ⟨n - 1, by omega⟩
      simp only [wfNode] at hwf
      simp [toksNode, parseArg, litBytes_hexOf b hwf]
    | .seq [], _, hn => by
      simp only [toksNode, List.length_cons, List.length_nil] at hn
      obtain ⟨m, rfl⟩ : ∃ m, n = m + 3 := ⟨n - 3, by omega⟩
      simp [toksNode, parseArg, parseInstr, parseItem, IRes.flat]
    | .seq (x :: xs), hwf, hn => by
      simp only [wfNode, wfList, Bool.and_eq_true] at hwf
      simp only [toksNode, Bool.false_and, Bool.false_eq_true, if_false, List.length_append, List.length_cons,
        List.length_nil] at hn
      obtain ⟨m, rfl⟩ : ∃ m, n = m + 1 := ⟨n - 1, by omega⟩
      have h := parseItems_toks x xs hwf.1 hwf.2 m (.rcurly :: rest) (Follow.rcurly rest) (by simp) (by omega)
      simp only [toksNode, Bool.false_and, Bool.false_eq_true, if_false, List.append_assoc, List.cons_append,
        List.nil_append, parseArg, h]
      simp [flat_itemsRes]
    | .prim p args annots, hwf, hn => by
      simp only [wfNode, Bool.and_eq_true] at hwf
      obtain ⟨⟨⟨hp, _⟩, _⟩, hargs⟩ := hwf
      by_cases hc : (!args.isEmpty || !annots.isEmpty) = true
      · -- parenthesised
        simp only [toksNode, isFramed, hfr, Bool.not_false, Bool.and_true, hc, if_true, List.length_append,
          List.length_cons, List.length_nil] at hn ⊢
        obtain ⟨m, rfl⟩ : ∃ m, n = m + 2 := ⟨n - 2, by omega⟩
        have h := parseArgs_toks args hargs m (.rparen :: rest) (Follow.rparen rest) (by omega)
        have h2 := parseExpr_ok tags cfg m p args annots (.rparen :: rest) hp (Follow.rparen rest) h
        simp only [List.append_assoc, List.cons_append, List.nil_append, parseArg] at h2 ⊢
        rw [h2]; rfl
      · -- bare name: neither arguments nor annotations
        have ha : args = [] := by
          cases args with
          | nil => rfl
          | cons _ _ => simp at hc
        have hb : annots = [] := by
          cases annots with
          | nil => rfl
          | cons _ _ => simp at hc
        subst ha hb
        have ht : toksNode cfg false false (.prim p [] []) = [.prim p.toList] := by
          simp [toksNode, isFramed, hfr, annotToks, toksArgs]
        rw [ht] at hn ⊢
        obtain ⟨m, rfl⟩ : ∃ m, n = m + 1 := ⟨n - 1, by omega⟩
        simp [parseArg]
  termination_by sizeOf e
  /-- item (instruction) position: never parenthesised -/
  theorem parseItem_toks (e : Mich) (hwf : wfNode sp tags e = true) (n : Nat) (rest : List Tok)
      (hrest : Follow rest) (hn : 2 * (toksNode cfg false true e).length + 2 ≤ n) :
      parseItem tags n (toksNode cfg false true e ++ rest) = some (.one e, rest) :=
    match e, hwf, hn with
    | .int v, _, hn => by
      obtain ⟨m, rfl⟩ : ∃ m, n = m + 1 := ⟨n - 1, by omega⟩
      simp [toksNode, parseItem, litInt_intRepr]
    | .str s, _, hn => by
      obtain ⟨m, rfl⟩ : ∃ m, n = m + 1 := ⟨n - 1, by omega⟩
      simp [toksNode, parseItem, litStr_jsonDumps]
    | .bytes b, hwf, hn => by
      obtain ⟨m, rfl⟩ : ∃ m, n = m + 1 := ⟨n - 1, by omega⟩
      simp only [wfNode] at hwf
      simp [toksNode, parseItem, litBytes_hexOf b hwf]
    | .seq [], _, hn => by
      simp only [toksNode, List.length_cons, List.length_nil] at hn
      obtain ⟨m, rfl⟩ : ∃ m, n = m + 3 := ⟨n - 3, by omega⟩
      simp [toksNode, parseItem, parseInstr, IRes.flat]
    | .seq (x :: xs), hwf, hn => by
      simp only [wfNode, wfList, Bool.and_eq_true] at hwf
      simp only [toksNode, Bool.false_and, Bool.false_eq_true, if_false, List.length_append, List.length_cons,
        List.length_nil] at hn
      obtain ⟨m, rfl⟩ : ∃ m, n = m + 1 := ⟨n - 1, by omega⟩
      have h := parseItems_toks x xs hwf.1 hwf.2 m (.rcurly :: rest) (Follow.rcurly rest) (by simp) (by omega)
      simp only [toksNode, Bool.false_and, Bool.false_eq_true, if_false, List.append_assoc, List.cons_append,
        List.nil_append, parseItem, h]
      simp [flat_itemsRes]
    | .prim p args annots, hwf, hn => by
      simp only [wfNode, Bool.and_eq_true] at hwf
      obtain ⟨⟨⟨hp, _⟩, _⟩, hargs⟩ := hwf
      simp only [toksNode, Bool.not_true, Bool.and_false, Bool.false_eq_true, if_false, List.length_append,
        List.length_cons, List.length_nil] at hn ⊢
      obtain ⟨m, rfl⟩ : ∃ m, n = m + 2 := ⟨n - 2, by omega⟩
      have h := parseArgs_toks args hargs m rest hrest (by omega)
      have h2 := parseExpr_ok tags cfg m p args annots rest hp hrest h
      simp only [List.append_assoc, List.cons_append, List.nil_append, parseItem] at h2 ⊢
      rw [h2]; rfl
  termination_by sizeOf e
  /-- argument lists -/
  theorem parseArgs_toks (args : List Mich) (hwf : wfList sp tags args = true) (n : Nat) (rest : List Tok)
      (hrest : Follow rest) (hn : 2 * (toksArgs cfg args).length + 2 ≤ n) :
      parseArgs tags n (toksArgs cfg args ++ rest) = some (args, rest) :=
    match args, hwf, hn with
    | [], _, hn => by
      obtain ⟨m, rfl⟩ : ∃ m, n = m + 1 := ⟨n - 1, by omega⟩
      cases rest with
      | nil => simp [toksArgs, parseArgs]
      | cons t ts => simp [toksArgs, parseArgs, (hrest t ts rfl).1]
    | a :: as, hwf, hn => by
      simp only [wfList, Bool.and_eq_true] at hwf
      simp only [toksArgs, List.length_append] at hn
      obtain ⟨m, rfl⟩ : ∃ m, n = m + 1 := ⟨n - 1, by omega⟩
      have hpos := toksNode_length_pos cfg false a
      obtain ⟨t, ts, ht, hs, _⟩ := toksNode_head cfg false a
      have h1 := parseArg_toks a hwf.1 m (toksArgs cfg as ++ rest) (by omega)
      have h2 := parseArgs_toks as hwf.2 m rest hrest (by omega)
      simp only [toksArgs, List.append_assoc]
      rw [ht] at h1 ⊢
      simp only [List.cons_append, parseArgs, hs, if_true] at h1 ⊢
      rw [h1]
      simp [h2]
  termination_by sizeOf args
  /-- non-empty sequences of items separated by `;` -/
  theorem parseItems_toks (x : Mich) (xs : List Mich) (hx : wfNode sp tags x = true)
      (hxs : wfList sp tags xs = true) (n : Nat) (rest : List Tok) (hrest : Follow rest)
      (hsemi : ∀ ts, rest ≠ .semi :: ts) (hn : 2 * (toksItems cfg (x :: xs)).length + 3 ≤ n) :
      parseInstr tags n (toksItems cfg (x :: xs) ++ rest) =
        some (if xs = [] then .one x else .many (x :: xs), rest) :=
    match xs, hxs, hn with
    | [], _, hn => by
      simp only [toksItems] at hn ⊢
      obtain ⟨m, rfl⟩ : ∃ m, n = m + 1 := ⟨n - 1, by omega⟩
      have h := parseItem_toks x hx m rest hrest (by omega)
      simp only [parseInstr, h]
      cases rest with
      | nil => rfl
      | cons t ts =>
        cases t <;> first | rfl | exact absurd rfl (hsemi ts)
    | y :: ys, hxs, hn => by
      simp only [wfList, Bool.and_eq_true] at hxs
      simp only [toksItems, List.length_append, List.length_cons, List.length_nil] at hn
      obtain ⟨m, rfl⟩ : ∃ m, n = m + 1 := ⟨n - 1, by omega⟩
      have h := parseItem_toks x hx m (.semi :: (toksItems cfg (y :: ys) ++ rest)) (Follow.semi _) (by omega)
      have h2 := parseItems_toks y ys hxs.1 hxs.2 m rest hrest hsemi (by omega)
      simp only [toksItems, List.append_assoc, List.cons_append, List.nil_append, parseInstr, h]
      simp only [Option.bind_eq_bind, Option.bind_some]
      rw [h2]
      have hf := flat_itemsRes y ys
      simp only [IRes.flat] at hf
      simp [IRes.flat, hf]
  termination_by 1 + sizeOf x + sizeOf xs
end


/-- the value `parse` extracts from the start symbol -/
def IRes.toMich? : IRes → Option Mich
  | .one m => some m
  | .many ms => some (.seq ms)
  | .none => Option.none

/-- the whole token stream of a root expression -/
theorem parseInstr_root (e : Mich) (hwf : wfNode sp tags e = true) (hroot : rootOK cfg e = true) (n : Nat)
    (hn : 2 * (toksNode cfg true false e).length + 4 ≤ n) :
    ∃ r, parseInstr tags n (toksNode cfg true false e) = some (r, []) ∧ r.toMich? = some e := by
  -- everything except a script root is printed as in item position
  have single : toksNode cfg true false e = toksNode cfg false true e →
      ∃ r, parseInstr tags n (toksNode cfg true false e) = some (r, []) ∧ r.toMich? = some e := by
    intro heq
    rw [heq] at hn ⊢
    obtain ⟨m, rfl⟩ : ∃ m, n = m + 1 := ⟨n - 1, by omega⟩
    have h := parseItem_toks tags cfg sp hfr e hwf m [] Follow.nil (by omega)
    rw [List.append_nil] at h
    exact ⟨.one e, by simp [parseInstr, h], rfl⟩
  match e, hwf, hroot, hn, single with
  | .int v, _, _, _, single => exact single (by simp [toksNode])
  | .str s, _, _, _, single => exact single (by simp [toksNode])
  | .bytes b, _, _, _, single => exact single (by simp [toksNode])
  | .prim p args annots, _, _, _, single => exact single (by simp [toksNode])
  | .seq [], _, _, _, single => exact single (by simp [toksNode])
  | .seq (x :: xs), hwf, hroot, hn, single =>
    by_cases hs : isScript cfg (x :: xs) = true
    · simp only [wfNode, wfList, Bool.and_eq_true] at hwf
      simp only [toksNode, Bool.true_and, hs, if_true] at hn ⊢
      have h := parseItems_toks tags cfg sp hfr x xs hwf.1 hwf.2 n [] Follow.nil (by intro ts h; cases h) (by omega)
      rw [List.append_nil] at h
      refine ⟨_, h, ?_⟩
      cases xs with
      | nil =>
        simp only [rootOK, Bool.not_eq_true'] at hroot
        simp only [isScript, List.all_cons, List.all_nil, Bool.and_true] at hs
        rw [hroot] at hs; cases hs
      | cons y ys => simp [IRes.toMich?]
    · exact single (by simp [toksNode, hs])

end
end Impl.Text
