import PytezosModel.Proofs.InterpColl
import PytezosModel.Proofs.InterpPack
import PytezosModel.Proofs.InterpUnpackDecode
import PytezosModel.Proofs.MichelineRT
/-! UNPACK, the primitive table: what `prim_int` (read from the source by property C05's translator) says about the nine data constructors.
-/
namespace Interp
open Core Impl.Lower

/-! ### the primitive table read from the source -/
theorem tags_small : ∀ row ∈ tagTable, row.2 < 256 := by decide +kernel

theorem known_small : ∀ t, t < 256 → known t = decide (t ≤ 158) := by decide +kernel

theorem primOfTag_big (t : Nat) (h : 256 ≤ t) : primOfTag t = none := by
  unfold primOfTag
  cases Generated.C05.primIntExcluded with
  | none => rfl
  | some excl =>
    simp only
    split
    · rfl
    · have : tagTable.reverse.find? (fun r => r.2 == t) = none := by
        rw [List.find?_eq_none]
        intro row hrow
        have := tags_small row (List.mem_reverse.mp hrow)
        simp only [beq_iff_eq]; omega
      rw [this]; rfl

/-- the primitives `unforge_micheline` knows are the tags `0x00`–`0x9e` -/
theorem known_eq : known = Spec.knownPrim := by
  funext t
  by_cases h : t < 256
  · exact known_small t h
  · have h' : 256 ≤ t := by omega
    simp only [known, primOfTag_big t h', Spec.knownPrim]
    have : ¬ t ≤ 158 := by omega
    simp [this]

theorem strict_eq : strict = true := by decide

theorem primOfTag_iff (name : String) (n : Nat) (hrows : ∀ row ∈ tagTable, row.1 = name → row.2 = n)
    (hn : primOfTag n = some name) (t : Nat) : primOfTag t = some name ↔ t = n := by
  constructor
  · intro h
    unfold primOfTag at h
    cases he : Generated.C05.primIntExcluded with
    | none => simp [he] at h
    | some excl =>
      simp only [he] at h
      split at h
      · simp at h
      · simp only [Option.map_eq_some_iff] at h
        obtain ⟨row, hf, hname⟩ := h
        have hm := List.mem_reverse.mp (List.mem_of_find?_eq_some hf)
        have ht := List.find?_some hf
        simp only [beq_iff_eq] at ht
        rw [← ht]; exact hrows row hm hname
  · rintro rfl; exact hn

theorem ofTag_Unit (t : Nat) : primOfTag t = some "Unit" ↔ t = 11 := primOfTag_iff "Unit" 11 (by decide +kernel) (by decide +kernel) t
theorem ofTag_True (t : Nat) : primOfTag t = some "True" ↔ t = 10 := primOfTag_iff "True" 10 (by decide +kernel) (by decide +kernel) t
theorem ofTag_False (t : Nat) : primOfTag t = some "False" ↔ t = 3 := primOfTag_iff "False" 3 (by decide +kernel) (by decide +kernel) t
theorem ofTag_Pair (t : Nat) : primOfTag t = some "Pair" ↔ t = 7 := primOfTag_iff "Pair" 7 (by decide +kernel) (by decide +kernel) t
theorem ofTag_Some (t : Nat) : primOfTag t = some "Some" ↔ t = 9 := primOfTag_iff "Some" 9 (by decide +kernel) (by decide +kernel) t
theorem ofTag_None (t : Nat) : primOfTag t = some "None" ↔ t = 6 := primOfTag_iff "None" 6 (by decide +kernel) (by decide +kernel) t
theorem ofTag_Left (t : Nat) : primOfTag t = some "Left" ↔ t = 5 := primOfTag_iff "Left" 5 (by decide +kernel) (by decide +kernel) t
theorem ofTag_Right (t : Nat) : primOfTag t = some "Right" ↔ t = 8 := primOfTag_iff "Right" 8 (by decide +kernel) (by decide +kernel) t
theorem ofTag_Elt (t : Nat) : primOfTag t = some "Elt" ↔ t = 4 := primOfTag_iff "Elt" 4 (by decide +kernel) (by decide +kernel) t

end Interp
